package c22

import (
	"context"
	"sort"
	"sync"
	"time"

	isaacdatabase "github.com/spikeekips/mitum/isaac/database"

	"mitumverif/internal/h"
)

// Forced overlapping calls (steps Begin c / End c of spec/PoolOps.tla with NCallers > 0).
//
// OperationHashes opens its iterator (a snapshot of the ordered index), calls the
// caller-supplied filter once per scanned record and, after the scan, takes the removal
// list out of the pool. The filter the harness supplies parks the calling goroutine in one
// callback: from the controller's point of view the call has then taken its snapshot
// (Begin) and has not yet removed anything; End releases it and waits for the return.
// The controller performs one step at a time, every other caller is parked, so the order
// of the logged events CallB / Set / CallE is the real-time order of the calls.
//
// A call whose snapshot is empty (or whose park position is never reached) returns
// without parking: its CallE is logged right after its CallB and the schedule's End is a
// no-op. A goroutine that neither parks nor returns within hangTimeout ends the
// behaviour with a "Hang" event (machinery, no verdict).

const hangTimeout = 60 * time.Second

type inflight struct {
	parked  chan struct{}
	release chan struct{}
	done    chan event
}

type forcer struct {
	w     *world
	db    *isaacdatabase.TempPool
	calls map[int]*inflight // parked callers
}

func (fc *forcer) lowest() int {
	ks := make([]int, 0, len(fc.calls))
	for k := range fc.calls {
		ks = append(ks, k)
	}
	sort.Ints(ks)
	return ks[0]
}

// begin starts caller s.C's call and waits until it is parked (or has returned).
func (fc *forcer) begin(evs []event, s stepT, park string) ([]event, bool) {
	index := fc.w.index(fc.db)
	// park position: the first callback, or the callback of the last record of the
	// snapshot when the scan is certain to get there (it stops early at `limit` entries)
	var last *mop
	if park == "last" && len(index) > 0 && uint64(len(index)) <= s.L {
		last = &index[len(index)-1]
	} else {
		park = "first"
	}
	fl := &inflight{parked: make(chan struct{}), release: make(chan struct{}), done: make(chan event, 1)}
	did := false
	at := func(n int, m mop) {
		if did {
			return
		}
		if (last == nil && n == 1) || (last != nil && m == *last) {
			did = true
			close(fl.parked)
			<-fl.release
		}
	}
	evs = append(evs, event{"a": "CallB", "c": s.C, "l": s.L, "rej": mops(s.Rej), "index": index, "park": park})
	go func() { fl.done <- fc.w.call(fc.db, s.L, s.Rej, at) }()
	select {
	case <-fl.parked:
		fc.calls[s.C] = fl
		return evs, false
	case ev := <-fl.done:
		ev["a"], ev["c"], ev["unparked"] = "CallE", s.C, true
		evs = append(evs, ev)
		return evs, ev["panic"].(bool) || ev["err"].(bool)
	case <-time.After(hangTimeout):
		fc.calls[s.C] = fl
		return append(evs, event{"a": "Hang", "c": s.C, "at": "begin"}), true
	}
}

// end releases caller c and waits for its call to return.
func (fc *forcer) end(evs []event, c int) ([]event, bool) {
	fl, ok := fc.calls[c]
	if !ok {
		return evs, false // returned at its Begin already
	}
	delete(fc.calls, c)
	close(fl.release)
	select {
	case ev := <-fl.done:
		ev["a"], ev["c"] = "CallE", c
		evs = append(evs, ev)
		return evs, ev["panic"].(bool) || ev["err"].(bool)
	case <-time.After(hangTimeout):
		return append(evs, event{"a": "Hang", "c": c, "at": "end"}), true
	}
}

// abandon lets every caller that is still parked go on (the behaviour ended early) so that
// no goroutine uses the pool after it is closed.
func (fc *forcer) abandon() {
	for c, fl := range fc.calls {
		delete(fc.calls, c)
		select {
		case <-fl.release:
		default:
			close(fl.release)
		}
		select {
		case <-fl.done:
		case <-time.After(5 * time.Second):
		}
	}
}

// runFree runs the steps of a behaviour without forcing anything: one goroutine per caller
// performs that caller's calls in order, one goroutine the stores in order (the stores that
// precede the first call are made before the goroutines start). Events are
// appended under one mutex: XxxB before the call is made, XxxE after it returned, so the
// order of the log is consistent with real time (what is logged before began before).
func (w *world) runFree(db *isaacdatabase.TempPool, b *behT) []event {
	var mu sync.Mutex
	evs := []event{}
	log := func(ev event) {
		mu.Lock()
		evs = append(evs, ev)
		mu.Unlock()
	}
	var sets []stepT
	calls := map[int][]stepT{}
	for _, s := range b.Steps {
		switch s.A {
		case "Set":
			if len(calls) == 0 {
				// stores the walk makes before its first call are made before the race starts
				o := w.op(s.Op)
				var ret bool
				var err error
				pn := h.Catch(func() { ret, err = db.SetOperation(context.Background(), o) })
				ev := event{"a": "Set", "op": parseOp(s.Op), "ret": ret, "panic": pn != "", "err": err != nil}
				if pn != "" || err != nil {
					ev["msg"] = firstLine(pn, err)
					return append(evs, ev)
				}
				evs = append(evs, ev)
				waitTick()
				continue
			}
			sets = append(sets, s)
		case "Begin":
			calls[s.C] = append(calls[s.C], s)
		}
	}
	start := make(chan struct{})
	var wg sync.WaitGroup
	failed := false
	wg.Add(1)
	go func() {
		defer wg.Done()
		<-start
		ctx := context.Background()
		for _, s := range sets {
			o := w.op(s.Op)
			var ret bool
			var err error
			log(event{"a": "SetB", "op": parseOp(s.Op)})
			pn := h.Catch(func() { ret, err = db.SetOperation(ctx, o) })
			ev := event{"a": "SetE", "op": parseOp(s.Op), "ret": ret, "panic": pn != "", "err": err != nil}
			if pn != "" || err != nil {
				ev["msg"] = firstLine(pn, err)
			}
			log(ev)
			if pn != "" || err != nil {
				return
			}
			waitTick()
		}
	}()
	for c := range calls {
		wg.Add(1)
		go func(c int, steps []stepT) {
			defer wg.Done()
			<-start
			for _, s := range steps {
				mu.Lock()
				stop := failed
				mu.Unlock()
				if stop {
					return
				}
				log(event{"a": "CallB", "c": c, "l": s.L, "rej": mops(s.Rej), "park": "free"})
				ev := w.call(db, s.L, s.Rej, nil)
				ev["a"], ev["c"] = "CallE", c
				log(ev)
				if ev["panic"].(bool) || ev["err"].(bool) {
					mu.Lock()
					failed = true
					mu.Unlock()
					return
				}
			}
		}(c, calls[c])
	}
	close(start)
	wg.Wait()
	return evs
}
