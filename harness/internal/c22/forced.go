package c22

import (
	"context"
	"sort"
	"sync"
	"sync/atomic"
	"time"

	"github.com/spikeekips/mitum/base"
	isaacdatabase "github.com/spikeekips/mitum/isaac/database"
	"github.com/spikeekips/mitum/util/encoder"

	"mitumverif/internal/h"
)

// Forced overlapping calls (steps Begin c / End c of spec/PoolOps.tla with NCallers > 0).
//
// OperationHashes opens its iterator (a snapshot of the ordered index), calls the
// caller-supplied filter once per scanned record and, after the scan, takes the removal
// list out of the pool. The filter the harness supplies parks the calling goroutine in one
// callback: from the controller's point of view the call has then taken its snapshot
// (Begin) and has not yet removed anything; End releases it and waits for the return.
// The controller performs one step at a time, every other caller is parked, so the order
// of the logged events CallB / Set / CallE is the real-time order of the calls.
//
// A call whose snapshot is empty (or whose park position is never reached) returns
// without parking: its CallE is logged right after its CallB and the schedule's End is a
// no-op. A goroutine that neither parks nor returns within hangTimeout ends the
// behaviour with a "Hang" event (machinery, no verdict).

const hangTimeout = 60 * time.Second

type inflight struct {
	parked  chan struct{}
	release chan struct{}
	done    chan event
}

type forcer struct {
	w     *world
	db    *isaacdatabase.TempPool
	pe    *parkEnc
	calls map[int]*inflight // parked callers
}

// parkEnc is the encoder handed to the pool. SetOperation checks whether the operation's
// record exists, marshals the operation with this encoder and writes its records: a store
// of an operation that has a gate is parked in Marshal, i.e. between check and write.
type parkEnc struct {
	encoder.Encoder
	mu    sync.Mutex
	gates map[string]*setGate // operation hash -> gate
}

type setGate struct {
	arrived chan struct{}
	tickets []chan struct{} // one per parked store, in the order of arrival
}

func (p *parkEnc) Marshal(v interface{}) ([]byte, error) {
	if op, ok := v.(base.Operation); ok {
		p.mu.Lock()
		g := p.gates[op.Hash().String()]
		var ch chan struct{}
		if g != nil {
			ch = make(chan struct{})
			g.tickets = append(g.tickets, ch)
		}
		p.mu.Unlock()
		if g != nil {
			g.arrived <- struct{}{}
			<-ch
		}
	}
	return p.Encoder.Marshal(v)
}

// serialised: the pool did not let a second store of the same operation past its check
// while the first was parked before its write (it checks and writes under a lock): later
// Set2 steps wait only briefly for the second store.
var serialised atomic.Bool

// set2 makes two overlapping SetOperation calls of one operation: both are started, the
// controller waits until both are parked between check and write (or until it is clear
// that the pool lets only one in), lets one write and return, then the other.
func (fc *forcer) set2(evs []event, s stepT) ([]event, bool) {
	o := fc.w.op(s.Op)
	g := &setGate{arrived: make(chan struct{}, 2)}
	fc.pe.mu.Lock()
	fc.pe.gates[o.Hash().String()] = g
	fc.pe.mu.Unlock()
	done := make(chan event, 2)
	for k := 1; k <= 2; k++ {
		evs = append(evs, event{"a": "SetB", "k": k, "op": parseOp(s.Op)})
		go func(k int) {
			var ret bool
			var err error
			pn := h.Catch(func() { ret, err = fc.db.SetOperation(context.Background(), o) })
			ev := event{"a": "SetE", "k": k, "op": parseOp(s.Op), "ret": ret, "panic": pn != "", "err": err != nil}
			if pn != "" || err != nil {
				ev["msg"] = firstLine(pn, err)
			}
			done <- ev
		}(k)
	}
	stop := false
	arrived, returned := 0, 0
	collect := func(ev event) {
		returned++
		evs = append(evs, ev)
		if ev["panic"].(bool) || ev["err"].(bool) {
			stop = true
		}
	}
	grace := 2 * time.Second
	if serialised.Load() {
		grace = 2 * time.Millisecond
	}
	for arrived+returned < 2 {
		var timer <-chan time.Time
		if arrived > 0 {
			timer = time.After(grace) // one store is parked: does the pool let the other one in?
		} else {
			timer = time.After(hangTimeout)
		}
		select {
		case <-g.arrived:
			arrived++
		case ev := <-done:
			collect(ev)
		case <-timer:
			if arrived == 0 {
				return append(evs, event{"a": "Hang", "at": "set2"}), true
			}
			serialised.Store(true)
			goto release
		}
	}
	if arrived == 2 {
		serialised.Store(false)
	}
release:
	// release the parked stores one at a time, in the order the schedule names (W = 1: the
	// store that arrived last writes first)
	{
		closed := map[int]bool{}
		for returned < 2 {
			fc.pe.mu.Lock()
			pick := -1
			for i := range g.tickets {
				if !closed[i] && (pick < 0 || s.W == 1) {
					pick = i
				}
			}
			var ch chan struct{}
			if pick >= 0 {
				ch = g.tickets[pick]
				closed[pick] = true
			}
			fc.pe.mu.Unlock()
			if ch != nil {
				close(ch)
			}
			select {
			case ev := <-done:
				collect(ev)
			case <-g.arrived: // the store that was kept out arrives now: released in the next round
			case <-time.After(hangTimeout):
				return append(evs, event{"a": "Hang", "at": "set2-release"}), true
			}
		}
	}
	fc.pe.mu.Lock()
	delete(fc.pe.gates, o.Hash().String())
	fc.pe.mu.Unlock()
	return evs, stop
}

func (fc *forcer) lowest() int {
	ks := make([]int, 0, len(fc.calls))
	for k := range fc.calls {
		ks = append(ks, k)
	}
	sort.Ints(ks)
	return ks[0]
}

// begin starts caller s.C's call and waits until it is parked (or has returned).
func (fc *forcer) begin(evs []event, s stepT, park string) ([]event, bool) {
	index := fc.w.index(fc.db)
	// park position: the first callback, or the callback of the last record of the
	// snapshot when the scan is certain to get there (it stops early at `limit` entries)
	var last *mop
	if park == "last" && len(index) > 0 && uint64(len(index)) <= s.L {
		last = &index[len(index)-1]
	} else {
		park = "first"
	}
	fl := &inflight{parked: make(chan struct{}), release: make(chan struct{}), done: make(chan event, 1)}
	did := false
	at := func(n int, m mop) {
		if did {
			return
		}
		if (last == nil && n == 1) || (last != nil && m == *last) {
			did = true
			close(fl.parked)
			<-fl.release
		}
	}
	evs = append(evs, event{"a": "CallB", "c": s.C, "l": s.L, "rej": mops(s.Rej), "index": index, "park": park})
	go func() { fl.done <- fc.w.call(fc.db, s.L, s.Rej, at) }()
	select {
	case <-fl.parked:
		fc.calls[s.C] = fl
		return evs, false
	case ev := <-fl.done:
		ev["a"], ev["c"], ev["unparked"] = "CallE", s.C, true
		evs = append(evs, ev)
		return evs, ev["panic"].(bool) || ev["err"].(bool)
	case <-time.After(hangTimeout):
		fc.calls[s.C] = fl
		return append(evs, event{"a": "Hang", "c": s.C, "at": "begin"}), true
	}
}

// end releases caller c and waits for its call to return.
func (fc *forcer) end(evs []event, c int) ([]event, bool) {
	fl, ok := fc.calls[c]
	if !ok {
		return evs, false // returned at its Begin already
	}
	delete(fc.calls, c)
	close(fl.release)
	select {
	case ev := <-fl.done:
		ev["a"], ev["c"] = "CallE", c
		evs = append(evs, ev)
		return evs, ev["panic"].(bool) || ev["err"].(bool)
	case <-time.After(hangTimeout):
		return append(evs, event{"a": "Hang", "c": c, "at": "end"}), true
	}
}

// abandon lets every caller that is still parked go on (the behaviour ended early) so that
// no goroutine uses the pool after it is closed.
func (fc *forcer) abandon() {
	for c, fl := range fc.calls {
		delete(fc.calls, c)
		select {
		case <-fl.release:
		default:
			close(fl.release)
		}
		select {
		case <-fl.done:
		case <-time.After(5 * time.Second):
		}
	}
}

// runFree runs the steps of a behaviour without forcing anything: one goroutine per caller
// performs that caller's calls in order, one goroutine the stores in order (the stores that
// precede the first call are made before the goroutines start). Events are
// appended under one mutex: XxxB before the call is made, XxxE after it returned, so the
// order of the log is consistent with real time (what is logged before began before).
func (w *world) runFree(db *isaacdatabase.TempPool, b *behT) []event {
	var mu sync.Mutex
	evs := []event{}
	log := func(ev event) {
		mu.Lock()
		evs = append(evs, ev)
		mu.Unlock()
	}
	// one store of setter k, logged as SetB k .. SetE k; false: it panicked or failed
	store := func(s stepT, k int) bool {
		o := w.op(s.Op)
		var ret bool
		var err error
		log(event{"a": "SetB", "k": k, "op": parseOp(s.Op)})
		pn := h.Catch(func() { ret, err = db.SetOperation(context.Background(), o) })
		ev := event{"a": "SetE", "k": k, "op": parseOp(s.Op), "ret": ret, "panic": pn != "", "err": err != nil}
		if pn != "" || err != nil {
			ev["msg"] = firstLine(pn, err)
		}
		log(ev)
		return pn == "" && err == nil
	}
	// a Set2 step: two stores of the operation at once (unforced)
	stores := func(s stepT) bool {
		if s.A != "Set2" {
			return store(s, 1)
		}
		ok2 := make(chan bool, 1)
		go func() { ok2 <- store(s, 2) }()
		ok1 := store(s, 1)
		return <-ok2 && ok1
	}
	var sets []stepT
	calls := map[int][]stepT{}
	for _, s := range b.Steps {
		switch s.A {
		case "Set", "Set2":
			if len(calls) == 0 {
				// stores the walk makes before its first call are made before the race starts
				if !stores(s) {
					return evs
				}
				waitTick()
				continue
			}
			sets = append(sets, s)
		case "Begin":
			calls[s.C] = append(calls[s.C], s)
		}
	}
	start := make(chan struct{})
	var wg sync.WaitGroup
	failed := false
	wg.Add(1)
	go func() {
		defer wg.Done()
		<-start
		for _, s := range sets {
			if !stores(s) {
				return
			}
			waitTick()
		}
	}()
	for c := range calls {
		wg.Add(1)
		go func(c int, steps []stepT) {
			defer wg.Done()
			<-start
			for _, s := range steps {
				mu.Lock()
				stop := failed
				mu.Unlock()
				if stop {
					return
				}
				log(event{"a": "CallB", "c": c, "l": s.L, "rej": mops(s.Rej), "park": "free"})
				ev := w.call(db, s.L, s.Rej, nil)
				ev["a"], ev["c"] = "CallE", c
				log(ev)
				if ev["panic"].(bool) || ev["err"].(bool) {
					mu.Lock()
					failed = true
					mu.Unlock()
					return
				}
			}
		}(c, calls[c])
	}
	close(start)
	wg.Wait()
	return evs
}
