package main

import (
	_ "mitumverif/internal/c36"
	"mitumverif/internal/h"
)

func main() { h.Main() }
