// vh: conformance harness binding the TLA+ specifications in /verif/spec to the
// real spikeekips/mitum code (built from /repo's working tree, -tags "verif test").
package main

import (
	"fmt"
	"os"

	"mitumverif/internal/h"
)

func main() {
	if len(os.Args) < 2 {
		fmt.Fprintln(os.Stderr, "usage: vh <PROP> <mode> [--flag value ...]; props:", h.Names())
		os.Exit(2)
	}
	c, ok := h.Lookup(os.Args[1])
	if !ok {
		fmt.Fprintln(os.Stderr, "unknown property", os.Args[1], "have", h.Names())
		os.Exit(2)
	}
	if err := c(os.Args[2:]); err != nil {
		fmt.Fprintf(os.Stderr, "vh %s: %+v\n", os.Args[1], err)
		os.Exit(2)
	}
}
