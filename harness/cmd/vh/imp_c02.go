package main

import _ "mitumverif/internal/c02"
