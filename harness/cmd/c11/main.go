package main

import (
	_ "mitumverif/internal/c11"
	"mitumverif/internal/h"
)

func main() { h.Main() }
