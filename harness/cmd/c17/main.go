package main

import (
	_ "mitumverif/internal/c17"
	"mitumverif/internal/h"
)

func main() { h.Main() }
