package main

import (
	_ "mitumverif/internal/c25"
	"mitumverif/internal/h"
)

func main() { h.Main() }
