package main

import (
	_ "mitumverif/internal/c22"
	"mitumverif/internal/h"
)

func main() { h.Main() }
