package main

import (
	_ "mitumverif/internal/c04"
	"mitumverif/internal/h"
)

func main() { h.Main() }
