package main

import (
	"mitumverif/internal/h"
	_ "mitumverif/internal/handover"
)

func main() { h.Main() }
