package main

import (
	_ "mitumverif/internal/c33"
	"mitumverif/internal/h"
)

func main() { h.Main() }
