package main

import (
	_ "mitumverif/internal/c14"
	"mitumverif/internal/h"
)

func main() { h.Main() }
