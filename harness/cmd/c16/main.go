package main

import (
	_ "mitumverif/internal/c16"
	"mitumverif/internal/h"
)

func main() { h.Main() }
