package main

import (
	_ "mitumverif/internal/c26"
	"mitumverif/internal/h"
)

func main() { h.Main() }
