package main

import (
	"mitumverif/internal/h"
	_ "mitumverif/internal/syncer"
)

func main() { h.Main() }
