package main

import (
	_ "mitumverif/internal/c38"
	"mitumverif/internal/h"
)

func main() { h.Main() }
