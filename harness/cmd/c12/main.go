package main

import (
	_ "mitumverif/internal/c12"
	"mitumverif/internal/h"
)

func main() { h.Main() }
