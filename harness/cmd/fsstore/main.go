package main

import (
	_ "mitumverif/internal/fsstore"
	"mitumverif/internal/h"
)

func main() { h.Main() }
