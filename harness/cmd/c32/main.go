package main

import (
	_ "mitumverif/internal/c32"
	"mitumverif/internal/h"
)

func main() { h.Main() }
