package main

import (
	_ "mitumverif/internal/c20"
	"mitumverif/internal/h"
)

func main() { h.Main() }
