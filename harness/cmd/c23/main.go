package main

import (
	_ "mitumverif/internal/c23"
	"mitumverif/internal/h"
)

func main() { h.Main() }
