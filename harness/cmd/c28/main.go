package main

import (
	_ "mitumverif/internal/c28"
	"mitumverif/internal/h"
)

func main() { h.Main() }
