package main

import (
	_ "mitumverif/internal/c19"
	"mitumverif/internal/h"
)

func main() { h.Main() }
