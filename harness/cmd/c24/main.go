package main

import (
	_ "mitumverif/internal/c24"
	"mitumverif/internal/h"
)

func main() { h.Main() }
