package main

import (
	_ "mitumverif/internal/c09"
	"mitumverif/internal/h"
)

func main() { h.Main() }
