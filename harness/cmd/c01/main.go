package main

import (
	_ "mitumverif/internal/c01"
	"mitumverif/internal/h"
)

func main() { h.Main() }
