package main

import (
	_ "mitumverif/internal/c15"
	"mitumverif/internal/h"
)

func main() { h.Main() }
