package main

import (
	"mitumverif/internal/h"
	_ "mitumverif/internal/srcpool"
)

func main() { h.Main() }
