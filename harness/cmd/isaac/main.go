package main

import (
	"mitumverif/internal/h"
	_ "mitumverif/internal/isaacnet"
)

func main() { h.Main() }
