package main

import (
	_ "mitumverif/internal/c29"
	"mitumverif/internal/h"
)

func main() { h.Main() }
