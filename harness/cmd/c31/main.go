package main

import (
	_ "mitumverif/internal/c31"
	"mitumverif/internal/h"
)

func main() { h.Main() }
