package main

import (
	"mitumverif/internal/h"
	_ "mitumverif/internal/connpool"
)

func main() { h.Main() }
