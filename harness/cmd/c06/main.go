package main

import (
	_ "mitumverif/internal/c06"
	"mitumverif/internal/h"
)

func main() { h.Main() }
