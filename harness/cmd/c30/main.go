package main

import (
	_ "mitumverif/internal/c30"
	"mitumverif/internal/h"
)

func main() { h.Main() }
