package main

import (
	_ "mitumverif/internal/c03"
	"mitumverif/internal/h"
)

func main() { h.Main() }
