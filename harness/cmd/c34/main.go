package main

import (
	_ "mitumverif/internal/c34"
	"mitumverif/internal/h"
)

func main() { h.Main() }
