package main

import (
	_ "mitumverif/internal/c37"
	"mitumverif/internal/h"
)

func main() { h.Main() }
