package main

import (
	"mitumverif/internal/h"
	_ "mitumverif/internal/stuck"
)

func main() { h.Main() }
