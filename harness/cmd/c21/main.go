package main

import (
	_ "mitumverif/internal/c21"
	"mitumverif/internal/h"
)

func main() { h.Main() }
