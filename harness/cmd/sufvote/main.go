package main

import (
	"mitumverif/internal/h"
	_ "mitumverif/internal/sufvote"
)

func main() { h.Main() }
