package main

import (
	_ "mitumverif/internal/c08"
	"mitumverif/internal/h"
)

func main() { h.Main() }
