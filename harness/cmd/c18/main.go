package main

import (
	_ "mitumverif/internal/c18"
	"mitumverif/internal/h"
)

func main() { h.Main() }
