package main

import (
	"mitumverif/internal/h"
	_ "mitumverif/internal/watcher"
)

func main() { h.Main() }
