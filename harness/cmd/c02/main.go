package main

import (
	_ "mitumverif/internal/c02"
	"mitumverif/internal/h"
)

func main() { h.Main() }
