package main

import (
	_ "mitumverif/internal/c07"
	"mitumverif/internal/h"
)

func main() { h.Main() }
