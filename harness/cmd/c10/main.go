package main

import (
	_ "mitumverif/internal/c10"
	"mitumverif/internal/h"
)

func main() { h.Main() }
