package main

import (
	_ "mitumverif/internal/c13"
	"mitumverif/internal/h"
)

func main() { h.Main() }
