package main

import (
	_ "mitumverif/internal/c35"
	"mitumverif/internal/h"
)

func main() { h.Main() }
