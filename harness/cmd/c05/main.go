package main

import (
	_ "mitumverif/internal/c05"
	"mitumverif/internal/h"
)

func main() { h.Main() }
