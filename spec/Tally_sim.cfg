SPECIFICATION Spec
CONSTANTS
  MaxQ = 60
  NFacts = 5
  Extra = 4
  T10Set = {510, 550, 600, 667, 670, 750, 900, 1000}
CHECK_DEADLOCK FALSE
