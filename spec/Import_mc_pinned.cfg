SPECIFICATION Spec
CONSTANTS
  Counts = {1, 2, 3, 4, 5, 6}
  Limits = {1, 2, 3, 4, 5, 6, 7}
  Froms = {0}
  FaultKinds = {}
  Variants = {"pinned"}
  Interleave = TRUE
  Emit = FALSE
INVARIANTS SuccessMeansStored
CHECK_DEADLOCK FALSE
