SPECIFICATION Spec
CONSTANTS
  AskSet <- AskQuick
  MaxAsk = 2
  MaxToggle = 1
  MaxHold = 0
  MaxY = 0
  ExitOut = {"ok", "error", "ignore"}
  EnterKinds = {"ok", "error", "redirect"}
  Redirects = {"SYNCING"}
  InitAllowed = {TRUE, FALSE}
  Sched = FALSE
  Record = FALSE
VIEW view
INVARIANTS TypeOK StoppedEdges StaleRequestNoEffect ToSyncing ReportMatches NotAllowedAtCheck
CHECK_DEADLOCK FALSE
