SPECIFICATION TraceSpec
CONSTANTS
  Addr = {"a1", "a2", "a3", "a4"}
  Node = {"n1", "n2"}
  Procs = {0, 1, 2, 3, 4}
  ReadStrict = FALSE
CONSTRAINT HighWater
INVARIANTS Partition
POSTCONDITION AcceptedC
CHECK_DEADLOCK FALSE
