SPECIFICATION Spec
CONSTANTS
  Node0 = {"n0", "n1", "n2"}
  Local0 = "n0"
  T100 = 670
  EmitStep = TRUE
  Heights = {1}
  Rounds = {0, 1}
  Stages = {1, 3}
  Facts = {"A"}
  ExSets = {{}, {"n2"}}
  AllowSC = FALSE
  MaxId = 3
  MaxVotes = 4
  MaxChan = 2
  MaxSet = 0
  StoreSC = "sf-"
  CleanSC = "sf-"
  CountRule = "impl"
  EagerCount = TRUE
  Holds = TRUE
  MaxTick = 1
  TickGuard = "coarse"
VIEW view

PROPERTIES EmitNew
CHECK_DEADLOCK FALSE
