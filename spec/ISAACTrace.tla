----------------------------- MODULE ISAACTrace -----------------------------
(***************************************************************************)
(* Binding B for ISAAC.tla: executions recorded from an in-process network *)
(* of REAL isaacstates.States instances (harness/internal/isaacnet) are    *)
(* validated against the composed consensus specification.                 *)
(*                                                                         *)
(* The validation is a PROJECTION: ISAAC's variables msgs / props / box /  *)
(* last / chain / proc / mode / vps are driven by the logged events (one   *)
(* event = one step the real code made visible, ordered by one global      *)
(* sequence number taken inside the callback); on every state of the trace *)
(* ISAAC's invariants are checked (NoHonestEquivocation,                   *)
(* VoteproofAgreement, ChainAgreement, SavedOnlyAgreed, ChainLinked,       *)
(* OneProposalPerPoint, LastMonotone as action property) and every event   *)
(* is checked against the guard of the ISAAC action it stands for.  A      *)
(* guard that does not hold is printed as <<"MISMATCH", class, line, 0>>   *)
(* (check/props/isaac.py turns it into a verdict) and validation goes on   *)
(* with the state the event describes.                                     *)
(*                                                                         *)
(* Events (check/props/isaac.py maps hashes to ISAAC's values: proposal    *)
(* <<h, r, v>> (a tuple inside facts, because TLC cannot compare a record  *)
(* with a tuple; the record [h, r, v] in props), block <<h, r, v, prev>>,  *)
(* INIT fact <<prev, prop>>, ACCEPT fact <<prop, blk>>; an unknown /       *)
(* not-processed block is <<-1, 0, k, <<-1>>>>):                           *)
(*   Prop      ProposalMaker made a proposal             MakeProposal      *)
(*   Bcast     first broadcast of a ballot               SendINIT / the    *)
(*             ACCEPT broadcast of React / SendByz                         *)
(*   Vote      Ballotbox.Vote returned true              Receive           *)
(*   BoxVP     Ballotbox.newVoteproof (hook)             Count / Learn     *)
(*             (the ballot box part: voteproof emitted)                    *)
(*   Voteproof States handled the voteproof              React (last)      *)
(*   Processed block writer Manifest()                   React (proc)      *)
(*   Saved     block writer Save()                       React (chain)     *)
(*   Synced    syncer imported a block                   SyncBlock         *)
(*   Switched / SyncerNew  state switch                  mode              *)
(*                                                                         *)
(* Where the real code does in several visible steps what ISAAC.tla does   *)
(* in one action, or does something ISAAC.tla has no action for, the       *)
(* variant is written here and named after what the code does; the list    *)
(* is in check/isaac.md.                                                   *)
(***************************************************************************)
EXTENDS ISAAC, Json

Trace == ndJsonDeserialize("trace.ndjson")

VARIABLES
  l,       \* index of the next event
  seen,    \* seen[i]: voteproofs emitted by the ballot box of i (BoxVP events)
  done,    \* done[i]: every [h, r, prop, blk] processed at i (proc[i] is only the current one)
  fprops,  \* proposals made by a node that is not Proposer(h, r) (fallback of the proposal selector)
  pby      \* [by, h, r, prev, v]: who made which proposal
tvars == <<vars, l, seen, done, fprops, pby>>

Ev == Trace[l]
Has(f) == f \in DOMAIN Ev

Expect(class, ok) == IF ok THEN TRUE ELSE PrintT(<<"MISMATCH", class, l, 0>>)

Consume == l <= Len(Trace) /\ l' = l + 1

(* the sample of the real LastVoteproofsHandler cap taken with the event *)
SetLast(i) == IF Has("last") /\ i \in Honest
              THEN last' = [last EXCEPT ![i] = [h |-> Ev.last.h, r |-> Ev.last.r, s |-> Ev.last.s, maj |-> Ev.last.maj]]
              ELSE UNCHANGED last

Ballot == [n |-> Ev.from, h |-> Ev.h, r |-> Ev.r, s |-> Ev.s, f |-> Ev.f]
Sender == [n |-> Ev.n, h |-> Ev.h, r |-> Ev.r, s |-> Ev.s, f |-> Ev.f]
VP == [h |-> Ev.h, r |-> Ev.r, s |-> Ev.s, res |-> Ev.res, f |-> Ev.f]
IsBlk(b) == b[1] # -1        \* a block some honest node computed
PRec(p) == p                 \* proposals are tuples <<h, r, v>> in ISAAC.tla

(* ---- expels and suffrage confirm (scenario x; ISAACExpel.tla is the model) ----                          *)
(* A suffrage-confirm ballot / voteproof has the stage "SC" here (its own vote record in the ballot box), a  *)
(* fact that names expels is <<.., .., <<expelled members>>>>, events carry the expels of the voteproof (ex)  *)
(* and the size of the suffrage of the height (nsuf: later heights run with the reduced suffrage).            *)
SC == "SC"
NSuf == IF Has("nsuf") THEN Ev.nsuf ELSE N
ExOf == IF Has("ex") THEN {Ev.ex[k] : k \in 1..Len(Ev.ex)} ELSE {}
MajAtN(V, need) == {f \in FactsOf(V) : CountOf(V, f) >= need}
DrawAtN(V, q, need) == /\ V # {} /\ MajAtN(V, need) = {}
                       /\ \A f \in FactsOf(V) : CountOf(V, f) + (q - Cardinality(V)) < need
                       /\ q - Cardinality(V) < need
(* Ballotbox.countFromVoted as the code does it: countWithExpels (t over the full suffrage, 100 % over n-k when *)
(* k > n - Req67(n)) for an expel voteproof, the plain tally otherwise                                          *)
BoxTallyOK(V, vp) ==
  LET n == NSuf  X == ExOf  k == Cardinality(X)
      W == {m \in V : m.n \notin X}
      sw == k > n - Req(n, 670)
      q == IF k > 0 /\ sw THEN n - k ELSE n
      need == IF k > 0 /\ sw THEN n - k ELSE Req(n, T10)
  IN IF vp.res = "MAJORITY" THEN vp.f \in MajAtN(W, need) ELSE vp.res = "DRAW" /\ DrawAtN(W, q, need)

(* guards of a ballot of an honest node becoming visible (SendINIT / the ACCEPT branch of React) *)
SendGuards(i, m) ==
  IF m.s = SC
  THEN \* prepareSuffrageConfirmBallot: only after an INIT expel voteproof with exactly this fact
       Expect("SC-after-expel-vp", \E vp \in seen[i] : vp.s = INIT /\ vp.res = "MAJORITY" /\ vp.h = m.h /\ vp.r = m.r
                                                         /\ vp.f = m.f /\ Len(vp.f) = 3)
  ELSE IF m.s = INIT
  THEN /\ Expect("INIT-prev", m.h - 1 <= Len(chain[i]) /\ m.h >= 1 /\ m.f[1] = BlockAt(i, m.h - 1))
       /\ Expect("INIT-prop", PRec(m.f[2]) \in (props \cup fprops) /\ m.f[2][1] = m.h /\ m.f[2][2] = m.r)
  ELSE /\ Expect("ACCEPT-processed",
                 IF Has("np") THEN ~IsBlk(m.f[2])                \* wrongACCEPTBallot: not-processed fact
                 ELSE [h |-> m.h, r |-> m.r, prop |-> m.f[1], blk |-> m.f[2]] \in done[i])

TReset ==
  /\ Consume /\ Ev.a = "Reset"
  /\ msgs' = {} /\ props' = {} /\ vps' = {} /\ fprops' = {} /\ pby' = {}
  /\ box' = [i \in Node |-> {}] /\ last' = [i \in Node |-> Zero]
  /\ chain' = [i \in Node |-> <<>>] /\ proc' = [i \in Node |-> <<>>]
  /\ mode' = [i \in Node |-> "consensus"]
  /\ seen' = [i \in Node |-> {}] /\ done' = [i \in Node |-> {}]
  /\ blast' = [i \in Node |-> Zero] /\ vpq' = [i \in Node |-> <<>>]

(* ProposalMaker.makeProposal *)
TProp ==
  /\ Consume /\ Ev.a = "Prop"
  /\ LET p == <<Ev.h, Ev.r, Ev.v>> IN
     /\ IF Ev.by = Proposer(Ev.h, Ev.r)
        THEN props' = props \cup {p} /\ UNCHANGED fprops
        ELSE fprops' = fprops \cup {p} /\ UNCHANGED props         \* MakeFallbackProposal
     /\ pby' = pby \cup {[by |-> Ev.by, h |-> Ev.h, r |-> Ev.r, prev |-> Ev.prev, v |-> Ev.v]}
  /\ UNCHANGED <<msgs, box, last, chain, proc, mode, vps, seen, done>>
  /\ UNCHANGED <<blast, vpq>>

(* broadcast function of the DefaultBallotBroadcaster: first appearance of the ballot on the wire *)
TBcast ==
  /\ Consume /\ Ev.a = "Bcast"
  /\ LET m == Sender IN
     /\ IF Ev.n \in Honest /\ m \notin msgs THEN SendGuards(Ev.n, m) ELSE TRUE
     /\ msgs' = msgs \cup {m}
  /\ UNCHANGED <<props, box, last, chain, proc, mode, vps, seen, done, fprops, pby>>
  /\ UNCHANGED <<blast, vpq>>

(* Ballotbox.Vote returned true.  VoteOwnBeforeBroadcast: the handlers vote their own ballot *)
(* (VoteFunc) possibly before the broadcast timer fires; the ballot becomes visible here.      *)
TVote ==
  /\ Consume /\ Ev.a = "Vote"
  /\ LET m == Ballot  i == Ev.n IN
     /\ Expect("Vote-unsent", m \in msgs \/ m.n = i)
     /\ IF m \notin msgs /\ m.n = i /\ i \in Honest THEN SendGuards(i, m) ELSE TRUE
     /\ msgs' = msgs \cup {m}
     /\ Expect("Vote-twice", ~\E x \in box[i] : x.n = m.n /\ x.h = m.h /\ x.r = m.r /\ x.s = m.s)
     /\ box' = [box EXCEPT ![i] = @ \cup {m}]
  /\ UNCHANGED <<props, last, chain, proc, mode, vps, seen, done, fprops, pby>>
  /\ UNCHANGED <<blast, vpq>>

(* Ballotbox.newVoteproof: counted from the accepted ballots (Count, C04) or taken from a ballot (Learn) *)
TBoxVP ==
  /\ Consume /\ Ev.a = "BoxVP"
  /\ LET vp == VP  i == Ev.n  V == Votes(Ev.n, Ev.h, Ev.r, Ev.s) IN
     /\ IF Ev.src = "count"
        THEN /\ Expect("Count-tally", BoxTallyOK(V, vp))
             /\ vps' = vps \cup {vp}
        ELSE /\ Expect("Learn-known", vp \in vps)
             /\ vps' = vps \cup {vp}
     /\ seen' = [seen EXCEPT ![i] = @ \cup {vp}]
     \* the box emits only voteproofs that are new for ITS last point, which they then become (Emit / Receive);
     \* soft class: other callers of SetLastPoint (block saved, syncer) are not logged
     /\ Expect("Box-new", Has("xp") \/ NewVPAt(blast[i], vp))
     /\ blast' = [blast EXCEPT ![i] = IF NewVPAt(@, vp) THEN PointOf(vp) ELSE @]
  /\ SetLast(Ev.n)
  /\ UNCHANGED <<msgs, props, box, chain, proc, mode, done, fprops, pby>>
  /\ UNCHANGED vpq

(* StatesArgs.WhenNewVoteproof: the current handler took the voteproof *)
TVoteproof ==
  /\ Consume /\ Ev.a = "Voteproof"
  /\ Expect("Handled-seen", VP \in seen[Ev.n])
  \* Handle: the handler takes a voteproof only when it is new for its own last voteproofs. The position is the
  \* sample taken with the previous event of this node; Saved / Processed are logged from inside the handler,
  \* after it moved its last voteproofs, so "already at this voteproof's point" is the other legal case
  /\ Expect("Handle-new", Ev.n \notin Honest \/ Has("xp") \/ NewVPAt(last[Ev.n], VP) \/ PointOf(VP) = last[Ev.n])
  /\ SetLast(Ev.n)
  /\ UNCHANGED <<msgs, props, box, chain, proc, mode, vps, seen, done, fprops, pby>>
  /\ UNCHANGED <<blast, vpq>>

(* the ballot stuck resolver made a stuck voteproof (Ballotbox.StuckVoteproof with the expels SuffrageVoting    *)
(* found): it reaches the handler without passing the box's voteproof channel                                   *)
TStuckVP ==
  /\ Consume /\ Ev.a = "StuckVP"
  /\ Expect("Stuck-draw", Ev.res = "DRAW" /\ Has("ex") /\ Len(Ev.ex) >= 1)
  /\ vps' = vps \cup {VP}
  /\ seen' = [seen EXCEPT ![Ev.n] = @ \cup {VP}]
  /\ SetLast(Ev.n)
  /\ UNCHANGED <<msgs, props, box, chain, proc, mode, done, fprops, pby, blast, vpq>>

(* DefaultProposalProcessor.Process reached BlockWriter.Manifest: INIT majority branch of React, *)
(* first half (the ACCEPT broadcast is a separate visible step: TBcast / TVote)                  *)
TProcessed ==
  /\ Consume /\ Ev.a = "Processed"
  /\ LET i == Ev.n  d == [h |-> Ev.h, r |-> Ev.r, prop |-> Ev.prop, blk |-> Ev.blk] IN
     /\ Expect("Processed-prev", Ev.h - 1 <= Len(chain[i]) /\ Ev.prev = BlockAt(i, Ev.h - 1))
     /\ Expect("Blk-function", Has("div") \/ Ev.blk = Blk(PRec(Ev.prop), Ev.prev))   \* div: injected fault
     \* checkSuffrageVoting: a majority whose fact names expels is processed only after its suffrage confirm
     /\ Expect("Processed-agreed", \E vp \in seen[i] : /\ vp.res = "MAJORITY" /\ vp.h = Ev.h /\ vp.r = Ev.r
                                                        /\ vp.s \in {INIT, SC} /\ Len(vp.f) >= 2
                                                        /\ vp.f[1] = Ev.prev /\ vp.f[2] = Ev.prop
                                                        /\ (Len(vp.f) = 3) = (vp.s = SC))
     /\ proc' = [proc EXCEPT ![i] = d]
     /\ done' = [done EXCEPT ![i] = @ \cup {d}]
  /\ SetLast(Ev.n)
  /\ UNCHANGED <<msgs, props, box, chain, mode, vps, seen, fprops, pby>>
  /\ UNCHANGED <<blast, vpq>>

(* BlockWriter.Save: ACCEPT majority branch of React (C11) *)
TSaved ==
  /\ Consume /\ Ev.a = "Saved"
  /\ LET i == Ev.n IN
     /\ Expect("Save-height", Ev.h = Len(chain[i]) + 1)
     /\ Expect("Save-agreed", \E vp \in seen[i] : vp.s = ACCEPT /\ vp.res = "MAJORITY" /\ vp.h = Ev.h /\ vp.f[2] = Ev.blk)
     /\ Expect("Save-processed", \E d \in done[i] : d.h = Ev.h /\ d.blk = Ev.blk)
     /\ chain' = [chain EXCEPT ![i] = Append(@, Ev.blk)]
     /\ proc' = [proc EXCEPT ![i] = <<>>]
  /\ SetLast(Ev.n)
  /\ UNCHANGED <<msgs, props, box, mode, vps, seen, done, fprops, pby>>
  /\ UNCHANGED <<blast, vpq>>

(* syncer imported a block: SyncBlock *)
TSynced ==
  /\ Consume /\ Ev.a = "Synced"
  /\ LET i == Ev.n IN
     /\ Expect("Sync-height", Ev.h = Len(chain[i]) + 1)
     /\ Expect("Sync-linked", Ev.blk[4] = HeadOf(i))
     /\ Expect("Sync-agreed", \E vp \in vps : vp.s = ACCEPT /\ vp.res = "MAJORITY" /\ vp.h = Ev.h /\ vp.f[2] = Ev.blk)
     /\ chain' = [chain EXCEPT ![i] = Append(@, Ev.blk)]
     /\ proc' = [proc EXCEPT ![i] = <<>>]
  /\ SetLast(Ev.n)
  /\ UNCHANGED <<msgs, props, box, mode, vps, seen, done, fprops, pby>>
  /\ UNCHANGED <<blast, vpq>>

(* state switches; Obs: any other event that only carries a sample of the last voteproofs *)
TSwitched ==
  /\ Consume /\ Ev.a \in {"Switched", "SyncerNew", "Obs"}
  /\ mode' = IF Ev.a = "SyncerNew" \/ (Ev.a = "Switched" /\ Ev.state = "SYNCING")
             THEN [mode EXCEPT ![Ev.n] = "syncing"]
             ELSE IF Ev.a = "Switched" /\ Ev.state \in {"JOINING", "CONSENSUS", "BOOTING"}
             THEN [mode EXCEPT ![Ev.n] = "consensus"]
             ELSE mode
  /\ SetLast(Ev.n)
  /\ UNCHANGED <<msgs, props, box, chain, proc, vps, seen, done, fprops, pby>>
  /\ UNCHANGED <<blast, vpq>>

TraceInit == /\ Init /\ l = 1 /\ fprops = {} /\ pby = {}
             /\ seen = [i \in Node |-> {}] /\ done = [i \in Node |-> {}]
TraceNext == TStuckVP \/ TReset \/ TProp \/ TBcast \/ TVote \/ TBoxVP \/ TVoteproof \/ TProcessed \/ TSaved \/ TSynced \/ TSwitched
TraceSpec == TraceInit /\ [][TraceNext]_tvars

-----------------------------------------------------------------------------
(* C38 as the code has it: one proposal per (maker, point, previous block) *)
OneProposalPerMaker ==
  \A p, q \in pby : (p.by \in Honest /\ p.by = q.by /\ p.h = q.h /\ p.r = q.r /\ p.prev = q.prev) => p.v = q.v

ASSUME TLCSet(1, 0)
HighWater == TLCSet(1, IF l > TLCGet(1) THEN l ELSE TLCGet(1))
Accepted == \/ TLCGet(1) = Len(Trace) + 1
            \/ PrintT(<<"HW", TLCGet(1), Len(Trace)>>) /\ FALSE
=============================================================================
