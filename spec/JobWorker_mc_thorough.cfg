SPECIFICATION Spec
CONSTANTS
  NJobs = 4
  SemSize = 2
  Kind = "base"
  MayFail = {1, 2, 3}
  EndOrder = "cancel-release"
  AcquireAnswer = "cause"
  ParentMay = TRUE
INVARIANTS TypeOK WaitNilAfterAll WaitNilNoFailure SlotFreeOnlyAfterCancel NoAcceptAfterFailure NoAcceptAfterDone RunReturnsFirstError
PROPERTIES AcceptedEnds DriverReturns
CHECK_DEADLOCK FALSE
