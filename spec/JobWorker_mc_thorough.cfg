SPECIFICATION Spec
CONSTANTS
  NJobs = 4
  SemSize = 2
  Kind = "base"
  MayFail = {1, 2, 3}
  ParentMay = TRUE
INVARIANTS TypeOK WaitNilAfterAll NoAcceptAfterDone
PROPERTIES AcceptedEnds DriverReturns
CHECK_DEADLOCK FALSE
