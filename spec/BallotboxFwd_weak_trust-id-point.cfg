SPECIFICATION Spec
CONSTANTS
  T10 = 670
  Gate = "trust-id-point"
  SufBounds = {0, 99}
  Contents2 = {"maj", "draw", "foreign", "few", "mixed", "highth", "fdraw", "twice", "lowth"}
  Ids2 = {"i1", "i2"}
INVARIANT ForwardedValid
CHECK_DEADLOCK FALSE
