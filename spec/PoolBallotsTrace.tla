-------------------------- MODULE PoolBallotsTrace --------------------------
(* Binding B for C24: call/return histories recorded from a real TempPool     *)
(* (sequential replays of PoolBallots.tla input sequences, goroutines calling *)
(* concurrently, forced two-writer schedules) are checked for linearizability *)
(* against the atomic actions of PoolBallots.tla: a `call` event makes the    *)
(* call pending, the silent step Lin(g) applies its atomic action somewhere   *)
(* between call and return and fixes the reply, the `ret` event is enabled    *)
(* only if the logged reply is that reply. A history is explained iff its     *)
(* last event can be consumed (high-water mark = first unexplained line).     *)
(* Clean-up passes are linearized with ANY set of deep entries removed, and   *)
(* ProposalByPoint with any reply the statement allows (ByPointAllowed).      *)
EXTENDS PoolBallots

CONSTANT Procs
Trace == ndJsonDeserialize("trace.ndjson")
VARIABLES l, pend
tvars == <<bstore, pstore, ptidx, everf, hist, step, l, pend>>
Ev == Trace[l]

Idle == [st |-> "idle"]
Consume == l <= Len(Trace) /\ l' = l + 1
Quiet == UNCHANGED <<hist, step>>

TReset == /\ Consume /\ Ev.a = "Reset" /\ Quiet
          /\ bstore' = [k \in BKey |-> 0] /\ pstore' = [f \in PFact |-> 0]
          /\ ptidx' = [t \in Triple |-> 0] /\ everf' = [t \in Triple |-> {}]
          /\ pend' = [g \in Procs |-> Idle]

TCall == /\ Consume /\ Ev.a = "call" /\ Quiet
         /\ pend[Ev.g].st = "idle"
         /\ pend' = [pend EXCEPT ![Ev.g] = [st |-> "called", ev |-> Ev]]
         /\ UNCHANGED pvars

Done(g, res) == pend' = [pend EXCEPT ![g] = [st |-> "done", res |-> res]]

Lin(g) ==
  /\ pend[g].st = "called" /\ Quiet /\ UNCHANGED l
  /\ LET e == pend[g].ev IN
     \/ e.op = "SetBallot" /\ SetBallotA(e.k, e.v) /\ Done(g, SetBallotRet(e.k))
     \/ e.op = "Ballot" /\ UNCHANGED pvars /\ Done(g, BallotRet(e.k))
     \/ e.op = "SetProposal" /\ SetProposalA(e.f, e.s) /\ Done(g, SetProposalRet(e.f))
     \/ e.op = "Proposal" /\ UNCHANGED pvars /\ Done(g, ProposalRet(e.f))
     \/ e.op = "ByPoint" /\ UNCHANGED pvars /\ \E r \in ByPointAllowed(e.t) : Done(g, r)
     \/ e.op = "CleanBallots" /\ (\E R \in SUBSET DeepB : CleanB(R)) /\ Done(g, 0)
     \/ e.op = "CleanProposals" /\ (\E R \in SUBSET DeepP : CleanP(R)) /\ Done(g, 0)

TRet == /\ Consume /\ Ev.a = "ret" /\ Quiet
        /\ pend[Ev.g].st = "done"
        /\ pend[Ev.g].res = Ev.r
        /\ pend' = [pend EXCEPT ![Ev.g] = Idle]
        /\ UNCHANGED pvars

TraceInit == Init /\ l = 1 /\ pend = [g \in Procs |-> Idle]
TraceNext == TReset \/ TCall \/ TRet \/ \E g \in Procs : Lin(g)
TraceSpec == TraceInit /\ [][TraceNext]_tvars

ASSUME TLCSet(1, 0)
HighWater == TLCSet(1, IF l > TLCGet(1) THEN l ELSE TLCGet(1))
Accepted == \/ TLCGet(1) = Len(Trace) + 1
            \/ /\ PrintT(<<"HW", TLCGet(1), Len(Trace)>>)
               /\ PrintT("Postcondition Accepted violated: the trace was not consumed")
               /\ FALSE
=============================================================================
