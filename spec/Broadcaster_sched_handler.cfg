SPECIFICATION Spec
CONSTANTS
  Deliv = {"d1"}
  Handler = {"h1"}
  SP = {"s"}
  Fact = {"A", "B"}
  MaxAgain = 1
  SendKept = TRUE
  Record = TRUE
INVARIANTS Emit
CHECK_DEADLOCK FALSE
