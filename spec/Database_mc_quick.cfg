SPECIFICATION Spec
CONSTANTS
  Keys = {"a"}
  MaxLen = 3
  MaxWrites = 3
  MaxSteps = 1000
  MaxPool = 0
  KeepPath = TRUE
  EmitStep = TRUE
  WithReopen = FALSE
  WithCenter = TRUE
  Repaired = TRUE
VIEW view
INVARIANTS TypeOK ReadsConsistent ImplAgreesSuffrageProof ImplAgreesProofByBlockHeight
PROPERTIES ReadersMonotone
CHECK_DEADLOCK FALSE
