SPECIFICATION Spec
CONSTANTS
  MaxPoint = 3
  MaxRuns = 2
  MaxTicks = 1
  CtxChecks = TRUE
  CanClean = FALSE
INVARIANTS TypeOK NoRunBelowCancelled
CHECK_DEADLOCK FALSE
