-------------------------- MODULE BlockCommitTrace --------------------------
(* Binding B for C21: the storage writes of a fault-free commit, logged by   *)
(* the verif write hook of storage/leveldb (one event per Put / Batch with   *)
(* its kind, number of keys, key classes), are validated against the write  *)
(* protocol of BlockCommit.tla: the sequential part in exactly the order of  *)
(* Prog with the batch sizes the arithmetic gives, the batches of X's        *)
(* permanent merge in any order, each of the size of a not yet seen batch    *)
(* and holding the block map key iff it is batch BMBatch, then the removals. *)
(* So the protocol TLC explores crash points of is the one the code has.     *)
EXTENDS BlockCommit

Trace == ndJsonDeserialize("trace.ndjson")
VARIABLE l
tvars == <<seqdone, perm, removed, phase, step, l>>
Ev == Trace[l]
Consume == l <= Len(Trace) /\ l' = l + 1

Matches(name, e) ==
  CASE name \in {"x-flush", "y-flush"} -> e.kind = "tbatch" /\ e.n = BWLimit /\ e.hasbm = 0
    [] name = "x-final" -> e.kind = "tbatch" /\ e.n = Rem(NKeysX) /\ e.hasbm = 0
    [] name = "y-final" -> e.kind = "tbatch" /\ e.n = Rem(NKeysY) /\ e.hasbm = 0
    [] name \in {"x-bm", "y-bm"} -> e.kind = "bm" /\ e.n = 1
    [] name = "x-proof" -> e.kind = "proof" /\ e.n = 1
    [] name = "x-proofh" -> e.kind = "proofh" /\ e.n = 1
    [] name \in {"x-marker", "y-marker"} -> e.kind = "marker" /\ e.n = 1
    [] name = "perm-prev" -> e.kind = "pbatch" /\ e.n = NKeysP /\ e.hasbm = 1
    [] OTHER -> FALSE

TReset == /\ Consume /\ Ev.a = "Reset"
          /\ seqdone' = 0 /\ perm' = {} /\ removed' = 0 /\ UNCHANGED <<phase, step>>

(* one logged write = one step of BlockCommit's protocol *)
TSeq == /\ Consume /\ Ev.a = "w" /\ Ev.landed = 1
        /\ seqdone < NSeq /\ Matches(Prog[seqdone + 1], Ev)
        /\ SeqWrite

TPerm == /\ Consume /\ Ev.a = "w" /\ Ev.landed = 1 /\ Ev.kind = "pbatch"
         /\ \E i \in Batches :
               /\ BatchSize(i) = Ev.n
               /\ (Ev.hasbm = 1) <=> (i = BMBatch)
               /\ PermBatch(i)

TRemove == /\ Consume /\ Ev.a = "w" /\ Ev.landed = 1 /\ Ev.kind = "remove"
           /\ Ev.n = IF removed = 0 THEN NKeysP ELSE PermKeysX
           /\ RemoveTemp

TraceInit == Init /\ l = 1
TraceNext == TReset \/ TSeq \/ TPerm \/ TRemove
TraceSpec == TraceInit /\ [][TraceNext]_tvars

(* the whole protocol was seen when the trace ends *)
Complete == l = Len(Trace) + 1 => seqdone = NSeq /\ perm = Batches /\ removed = 2

ASSUME TLCSet(1, 0)
HighWater == TLCSet(1, IF l > TLCGet(1) THEN l ELSE TLCGet(1))
Accepted == \/ TLCGet(1) = Len(Trace) + 1
            \/ PrintT(<<"HW", TLCGet(1), Len(Trace)>>) /\ FALSE
=============================================================================
