SPECIFICATION Spec
CONSTANTS
  Ids = {"a", "b"}
  MaxInst = 4
  MaxTicks = 2
  MaxStops = 2
  MaxClock = 2
  MaxRm = 2
  Interval = 1
  RegOrder = "locked"
  RemoveBy = "instance"
  Results = {"keep", "stop"}
  KeepHist = "off"
VIEW view
INVARIANTS TypeOK RemoveOnlySelf NotEarly NoStartIfStoppedBeforeCheck RegisteredAlive
CHECK_DEADLOCK FALSE
