SPECIFICATION Spec
CONSTANTS
  Props <- PropsA
  Avps <- AvpsA
  MaxOps = 5
INVARIANTS TypeOK AgreedOnly OncePerHeight
CHECK_DEADLOCK FALSE
