SPECIFICATION Spec
CONSTANTS
  Alphabet = {0, 1, 255}
  Stores <- StoresLarge
  InitKeyLen = 3
  MaxInitKeys = 0
  UKLen = 2
  BoundLen = 2
  Limits = {1, 2, 3, 333}
  Stops = {0, 1, 2}
  Mode = "walk"
  L = 333
  Sizes = {"3", "L-1", "L", "L+1", "2L+1"}
  HistStores <- HistStoresQuick
  HistKinds = {}
  HistFillFirst = TRUE
  MaxSteps = 40
CHECK_DEADLOCK FALSE
