SPECIFICATION Spec
CONSTANTS
  Alphabet = {0, 1, 255}
  Stores <- StoresLarge
  InitKeyLen = 3
  MaxInitKeys = 0
  UKLen = 2
  BoundLen = 2
  Limits = {1, 2, 3, 333}
  Stops = {0, 1, 2}
  Walk = TRUE
  MaxSteps = 40
CHECK_DEADLOCK FALSE
