---------------------------- MODULE ProposalMaker ----------------------------
(* C38 - the local node proposes at most one proposal per position.            *)
(*                                                                             *)
(* isaac/proposal_maker.go over the proposal pool (isaac/database/pool.go):    *)
(* Make / PreferEmpty(point, previousBlock) = look the position up in the pool *)
(* (ProposalByPoint), otherwise take operations (Make), build, sign and store  *)
(* (SetProposal). Locked = TRUE: the whole call is one critical section        *)
(* (ProposalMaker.l) - the current tree. Locked = FALSE: lookup and store are  *)
(* separate steps - what the lock is there for (candidate generator).          *)
(* A position is "old" (below the last block - 1: refused), "far" (above last  *)
(* + 1, or last + 1 with another previous block: always an empty proposal) or  *)
(* "near" (Make fills it with operations).                                     *)
(*                                                                             *)
(* Property (from the statement): every return for a position is the same      *)
(* signed proposal (OnePerPosition, over the log of returns); the proposal of  *)
(* a far position is empty. That the operations of a returned proposal have    *)
(* distinct hashes and distinct facts is a predicate of the returned object,   *)
(* evaluated on the real proposals by the trace spec.                          *)
(* Binding B: ProposalMakerTrace.tla validates call/return logs of a real      *)
(* ProposalMaker over a real TempPool whose operations keep changing.          *)
EXTENDS Integers, Sequences, FiniteSets, TLC

CONSTANTS Pos,        \* positions
          Kind,       \* Pos -> "old" | "near" | "far"
          Caller, MaxCalls, Locked

None == [id |-> 0, empty |-> FALSE]
VARIABLES made,    \* Pos -> proposal (None before): what ProposalByPoint answers
          pc,      \* Caller -> "idle" | "looked"
          arg,     \* Caller -> [op, pos]
          rets,    \* log of returns: sequence of [pos, pr, empty]
          fresh, ncalls
vars == <<made, pc, arg, rets, fresh, ncalls>>

Init == /\ made = [p \in Pos |-> None] /\ pc = [c \in Caller |-> "idle"]
        /\ arg = [c \in Caller |-> [op |-> "", pos |-> ""]] /\ rets = <<>> /\ fresh = 1 /\ ncalls = 0

Ret(p, pr, e) == rets' = Append(rets, [pos |-> p, pr |-> pr, empty |-> e])

(* the whole call in one step (Locked) *)
Call(c, op, p) ==
  /\ Locked /\ pc[c] = "idle" /\ ncalls < MaxCalls /\ ncalls' = ncalls + 1
  /\ Kind[p] # "old"
  /\ IF made[p] # None
     THEN /\ Ret(p, made[p].id, made[p].empty) /\ UNCHANGED <<made, fresh>>
     ELSE LET e == op = "PreferEmpty" \/ Kind[p] = "far" IN
          /\ made' = [made EXCEPT ![p] = [id |-> fresh, empty |-> e]]
          /\ fresh' = fresh + 1
          /\ Ret(p, fresh, e)
  /\ UNCHANGED <<pc, arg>>

(* without the lock: lookup, then build and store *)
Look(c, op, p) ==
  /\ ~Locked /\ pc[c] = "idle" /\ ncalls < MaxCalls /\ ncalls' = ncalls + 1
  /\ Kind[p] # "old"
  /\ IF made[p] # None
     THEN /\ Ret(p, made[p].id, made[p].empty) /\ UNCHANGED <<pc, arg>>
     ELSE /\ pc' = [pc EXCEPT ![c] = "looked"] /\ arg' = [arg EXCEPT ![c] = [op |-> op, pos |-> p]] /\ UNCHANGED rets
  /\ UNCHANGED <<made, fresh>>
Store(c) ==
  /\ pc[c] = "looked"
  /\ LET p == arg[c].pos
         e == arg[c].op = "PreferEmpty" \/ Kind[p] = "far" IN
     /\ made' = [made EXCEPT ![p] = [id |-> fresh, empty |-> e]]    \* the point key is overwritten
     /\ fresh' = fresh + 1
     /\ Ret(p, fresh, e)
  /\ pc' = [pc EXCEPT ![c] = "idle"]
  /\ UNCHANGED <<arg, ncalls>>

Next == \/ \E c \in Caller, op \in {"Make", "PreferEmpty"}, p \in Pos : Call(c, op, p) \/ Look(c, op, p)
        \/ \E c \in Caller : Store(c)
Spec == Init /\ [][Next]_vars

OnePerPosition == \A i, j \in 1..Len(rets) : rets[i].pos = rets[j].pos => rets[i].pr = rets[j].pr
FarIsEmpty == \A i \in 1..Len(rets) : Kind[rets[i].pos] = "far" => rets[i].empty

KindA == [p \in {"o", "n1", "n2", "f"} |-> CASE p = "o" -> "old" [] p = "f" -> "far" [] OTHER -> "near"]
=============================================================================
