------------------------------- MODULE Timers -------------------------------
(* C34 - util.SimpleTimers (/repo/util/timers.go), implementation level.         *)
(*                                                                                *)
(* One action per critical section of the code:                                   *)
(*   New          NewTimer: timers.Set under the shard lock; an instance already  *)
(*                registered under the id is overwritten and NOT cancelled. The    *)
(*                code writes the first deadline (now + interval) inside Set's     *)
(*                callback, i.e. atomically with the timer becoming visible to     *)
(*                the loop (RegOrder "locked"). The two other orders NewTimer      *)
(*                could have - deadline written before the timer is stored,        *)
(*                or the timer stored with the zero deadline NewSimpleTimer        *)
(*                gives it and the deadline written afterwards - are the steps     *)
(*                NewPrepare/NewPublish and NewVisible/NewDeadline: TLC shows      *)
(*                that the first keeps NotEarly and the second does not (a         *)
(*                tick between the two steps collects the fresh timer).            *)
(*   StopTimers / StopOthers    removeTimer(id) per id: whenRemoved (= cancel the *)
(*                instance's context) and delete, under the shard lock            *)
(*   Tick         iterate(): Traverse collects the registered, expired instances  *)
(*                (prepare() pushes their expiry one hour ahead) and starts one   *)
(*                job per collected instance                                      *)
(*   RunCheck     SimpleTimer.run(): the context check (gate timer.run.enter)     *)
(*   CbStart      the callback is entered (gate timer.run.checked passed)         *)
(*   CbEnd        the callback returns keep / stop / error / no next interval;    *)
(*                run() re-arms the expiry (now + next interval)                  *)
(*   AfterRun     the job calls removeTimer when run() said "do not keep"         *)
(*                (gates timers.job.remove, timers.job.done)                      *)
(*   Advance      time passes                                                     *)
(* The jobs of one instance are serialised by the instance's lock while they are  *)
(* inside run() (pc), the removal after run() is outside that lock (rm counts the *)
(* jobs that still have to call removeTimer), so an instance whose callback said  *)
(* "stop" can be collected again before its job has removed it.                   *)
(*                                                                                *)
(* RemoveBy selects what AfterRun removes: "id" = whatever is registered under    *)
(* the instance's id (the pinned tree: removeTimer(tr.id)), "instance" = the      *)
(* registry entry only if it still is this instance (the repaired tree).          *)
(*                                                                                *)
(* The properties are the three sentences of the statement, kept as history       *)
(* variables badStart / badRemove / badEarly so that the trace specification      *)
(* (TimersTrace.tla, binding B) judges recorded executions of the real code with  *)
(* the same definitions. Binding G: behaviours of this module are schedules that  *)
(* the harness forces on the real SimpleTimers through the verif gates.           *)
EXTENDS Integers, FiniteSets, Sequences, TLC, Json

CONSTANTS Ids,        \* timer ids (strings)
          MaxInst,    \* instances (NewSimpleTimer objects) that may be created
          MaxTicks, MaxStops, MaxClock, MaxRm,   \* bounds of the exploration
          Interval,   \* interval of every timer, in clock units
          RemoveBy,   \* "id" | "instance"
          RegOrder,   \* the steps of NewTimer: "locked" | "deadline-first" | "visible-first" (see New)
          Results,    \* subset of {"keep","stop","err","nonext"}: what a callback may answer
          KeepHist    \* "off": no output; "last": step = the last action (simulation, trace);
                      \* "all": step = the whole behaviour (schedule enumeration, no VIEW)

None == 0
NoId == "-"
Inf  == 1000000000
Inst == 1..MaxInst

VARIABLES
  reg,        \* Id -> Inst \cup {None}   the timers map
  owner,      \* Inst -> Id \cup {NoId}   id the instance was created with
  ivl,        \* Inst -> interval of the instance
  pc,         \* Inst -> "idle" | "snap" (collected, job not yet past the context check)
              \*         | "checked" (context check passed) | "cb" (inside the callback)
  rm,         \* Inst -> number of jobs of the instance that are about to call removeTimer
  cancelled,  \* instances whose context is cancelled (whenRemoved ran)
  stopped,    \* instances removed by a completed StopTimers/StopOthers/StopAllTimers call
  exp,        \* Inst -> expiry time (Inf while a job holds it)
  base,       \* Inst -> time of registration / of the previous callback start
  now,        \* clock
  bnd,        \* [ticks, stops] exploration counters, regq = NewTimer calls between their two steps
  badStart,   \* sentence 1: instances whose callback started after they were stopped
  sbc,        \*             ... instances that passed the context check although stopped before it
  badRemove,  \* sentence 2: <<remover, victim>> with victim # remover
  badEarly,   \* sentence 3: instances whose callback started before their interval had elapsed
  hist, step  \* output only
vars  == <<reg, owner, ivl, pc, rm, cancelled, stopped, exp, base, now, bnd,
           badStart, sbc, badRemove, badEarly, hist, step>>
view  == <<reg, owner, ivl, pc, rm, cancelled, stopped, exp, base, now, bnd,
           badStart, sbc, badRemove, badEarly>>

Out(rec) == /\ hist' = IF KeepHist = "all" THEN Append(hist, rec) ELSE hist
            /\ step' = CASE KeepHist = "all"  -> ToJson(Append(hist, rec))
                        [] KeepHist = "last" -> ToJson(<<rec>>)
                        [] OTHER             -> ""

Init == /\ reg = [i \in Ids |-> None] /\ owner = [x \in Inst |-> NoId]
        /\ ivl = [x \in Inst |-> 0]
        /\ pc = [x \in Inst |-> "idle"] /\ rm = [x \in Inst |-> 0]
        /\ cancelled = {} /\ stopped = {}
        /\ exp = [x \in Inst |-> Inf] /\ base = [x \in Inst |-> 0]
        /\ now = 0 /\ bnd = [ticks |-> 0, stops |-> 0, regq |-> {}]
        /\ badStart = {} /\ sbc = {} /\ badRemove = {} /\ badEarly = {}
        /\ hist = <<>> /\ step = ""

Registered == {i \in Ids : reg[i] # None}
Fresh == IF \E x \in Inst : owner[x] = NoId THEN CHOOSE x \in Inst : owner[x] = NoId /\ \A y \in Inst : y < x => owner[y] # NoId
         ELSE None

(* removeTimer for every instance of V: whenRemoved cancels, the entry is deleted *)
RemoveEffect(V) == /\ reg' = [i \in Ids |-> IF reg[i] \in V THEN None ELSE reg[i]]
                   /\ cancelled' = cancelled \cup V

(* ---- API ---- *)
ZeroTime == -1                                     \* time.Time{}: the deadline of a fresh SimpleTimer
NewWith(id, x, t, iv, deadline) ==
  /\ x \in Inst /\ owner[x] = NoId
  /\ reg' = [reg EXCEPT ![id] = x]                 \* overwrites; the old instance keeps its context
  /\ owner' = [owner EXCEPT ![x] = id]
  /\ ivl' = [ivl EXCEPT ![x] = iv]
  /\ exp' = [exp EXCEPT ![x] = deadline]
  /\ base' = [base EXCEPT ![x] = t]
  /\ UNCHANGED <<pc, rm, cancelled, stopped, badStart, sbc, badRemove, badEarly>>
New(id, x, t, iv) == NewWith(id, x, t, iv, t + iv)          \* "locked": visible and armed in one step
(* "visible-first": stored with the zero deadline, the deadline is written afterwards *)
NewVisible(id, x, t, iv) == NewWith(id, x, t, iv, ZeroTime)
NewDeadline(x, t) ==
  /\ exp' = [exp EXCEPT ![x] = t + ivl[x]]
  /\ UNCHANGED <<reg, owner, ivl, pc, rm, cancelled, stopped, base, badStart, sbc, badRemove, badEarly>>
(* "deadline-first": the deadline is written, then the timer is stored *)
NewPrepare(id, x, t, iv) ==
  /\ x \in Inst /\ owner[x] = NoId
  /\ owner' = [owner EXCEPT ![x] = id] /\ ivl' = [ivl EXCEPT ![x] = iv]
  /\ exp' = [exp EXCEPT ![x] = t + iv] /\ base' = [base EXCEPT ![x] = t]
  /\ UNCHANGED <<reg, pc, rm, cancelled, stopped, badStart, sbc, badRemove, badEarly>>
NewPublish(x) ==
  /\ reg' = [reg EXCEPT ![owner[x]] = x]
  /\ UNCHANGED <<owner, ivl, pc, rm, cancelled, stopped, exp, base, badStart, sbc, badRemove, badEarly>>

StopSet(S) == {reg[i] : i \in S \cap Registered}
StopEffect(S) == /\ RemoveEffect(StopSet(S))
                 /\ stopped' = stopped \cup StopSet(S)
                 /\ UNCHANGED <<owner, ivl, pc, rm, exp, base, badStart, sbc, badRemove, badEarly>>

(* ---- the timer loop ---- *)
Expired(x, t) == t >= exp[x]
Snapshot(t) == {reg[i] : i \in {j \in Registered : Expired(reg[j], t) /\ pc[reg[j]] = "idle"}}
Collect(S) == /\ pc' = [x \in Inst |-> IF x \in S THEN "snap" ELSE pc[x]]
              /\ exp' = [x \in Inst |-> IF x \in S THEN Inf ELSE exp[x]]      \* prepare(): + 1 hour
              /\ UNCHANGED <<reg, owner, ivl, rm, cancelled, stopped, base, badStart, sbc, badRemove, badEarly>>

(* run(): the context check; pass = what the check answered *)
RunCheckR(x, pass) ==
  /\ pc[x] = "snap"
  /\ IF pass THEN /\ pc' = [pc EXCEPT ![x] = "checked"] /\ UNCHANGED rm
                  /\ sbc' = IF x \in stopped THEN sbc \cup {x} ELSE sbc
             ELSE /\ pc' = [pc EXCEPT ![x] = "idle"] /\ rm' = [rm EXCEPT ![x] = @ + 1]   \* run() = (false, ctx.Err())
                  /\ UNCHANGED sbc
  /\ UNCHANGED <<reg, owner, ivl, cancelled, stopped, exp, base, badStart, badRemove, badEarly>>
RunCheck(x) == RunCheckR(x, x \notin cancelled)

(* the statement's three sentences as predicates of one step (shared with TimersTrace.tla) *)
StartsStopped(x)    == x \in stopped                 \* 1: callback start of a stopped timer
RemovesOther(x, v)  == v \notin {None, x}            \* 2: x's removal takes another instance away
StartsEarly(x, t)   == t < base[x] + ivl[x]          \* 3: callback start before the interval elapsed

CbStart(x, t) ==
  /\ pc[x] = "checked"
  /\ pc' = [pc EXCEPT ![x] = "cb"]
  /\ badStart' = IF StartsStopped(x) THEN badStart \cup {x} ELSE badStart
  /\ badEarly' = IF StartsEarly(x, t) THEN badEarly \cup {x} ELSE badEarly
  /\ base' = [base EXCEPT ![x] = t]
  /\ UNCHANGED <<reg, owner, ivl, rm, cancelled, stopped, exp, sbc, badRemove>>

CbEnd(x, r, t) ==
  /\ pc[x] = "cb"
  /\ pc' = [pc EXCEPT ![x] = "idle"]
  /\ exp' = [exp EXCEPT ![x] = IF r = "nonext" THEN Inf ELSE t + ivl[x]]   \* deferred: now + next; with no
                                                     \* next interval prepare() never collects it again
  /\ rm' = IF r = "keep" THEN rm ELSE [rm EXCEPT ![x] = @ + 1]
  /\ UNCHANGED <<reg, owner, ivl, cancelled, stopped, base, badStart, sbc, badRemove, badEarly>>

(* the job's removeTimer; v = the instance that leaves the registry (None: nothing) *)
AfterRunV(x, v) ==
  /\ rm[x] > 0
  /\ rm' = [rm EXCEPT ![x] = @ - 1]
  /\ IF v = None THEN UNCHANGED <<reg, cancelled>> ELSE RemoveEffect({v})
  /\ badRemove' = IF RemovesOther(x, v) THEN badRemove \cup {<<x, v>>} ELSE badRemove
  /\ UNCHANGED <<owner, ivl, pc, stopped, exp, base, badStart, sbc, badEarly>>
Victim(x) == IF RemoveBy = "id" THEN reg[owner[x]]
             ELSE IF reg[owner[x]] = x THEN x ELSE None
AfterRun(x) == AfterRunV(x, Victim(x))

(* ---- bounded exploration ---- *)
NoTime == UNCHANGED now
Next ==
  \/ \E id \in Ids : /\ Fresh # None /\ RegOrder = "locked" /\ New(id, Fresh, now, Interval) /\ NoTime /\ UNCHANGED bnd
                     /\ Out([a |-> "New", id |-> id, x |-> Fresh])
  \/ \E id \in Ids : /\ Fresh # None /\ RegOrder = "visible-first" /\ NewVisible(id, Fresh, now, Interval) /\ NoTime
                     /\ bnd' = [bnd EXCEPT !.regq = @ \cup {Fresh}] /\ Out([a |-> "NewVisible", id |-> id, x |-> Fresh])
  \/ \E id \in Ids : /\ Fresh # None /\ RegOrder = "deadline-first" /\ NewPrepare(id, Fresh, now, Interval) /\ NoTime
                     /\ bnd' = [bnd EXCEPT !.regq = @ \cup {Fresh}] /\ Out([a |-> "NewPrepare", id |-> id, x |-> Fresh])
  \/ \E x \in bnd.regq : /\ IF RegOrder = "visible-first" THEN NewDeadline(x, now) ELSE NewPublish(x)
                         /\ NoTime /\ bnd' = [bnd EXCEPT !.regq = @ \ {x}]
                         /\ Out([a |-> IF RegOrder = "visible-first" THEN "NewDeadline" ELSE "NewPublish", x |-> x])
  \/ \E S \in (SUBSET Ids) \ {{}} :
        /\ bnd.stops < MaxStops /\ StopEffect(S) /\ NoTime /\ bnd' = [bnd EXCEPT !.stops = @ + 1]
        /\ Out([a |-> "StopTimers", ids |-> S, removed |-> StopSet(S)])
  \/ \E E \in SUBSET Ids :
        /\ bnd.stops < MaxStops /\ StopEffect(Ids \ E) /\ NoTime /\ bnd' = [bnd EXCEPT !.stops = @ + 1]
        /\ Out([a |-> "StopOthers", ex |-> E, removed |-> StopSet(Ids \ E)])
  \/ /\ bnd.ticks < MaxTicks /\ Snapshot(now) # {} /\ Collect(Snapshot(now)) /\ NoTime
     /\ bnd' = [bnd EXCEPT !.ticks = @ + 1]
     /\ Out([a |-> "Tick", snap |-> Snapshot(now)])
  \/ \E x \in Inst :
        \/ RunCheck(x) /\ NoTime /\ UNCHANGED bnd /\ Out([a |-> "RunCheck", x |-> x, pass |-> x \notin cancelled])
        \/ CbStart(x, now) /\ NoTime /\ UNCHANGED bnd /\ Out([a |-> "CbStart", x |-> x])
        \/ \E r \in Results : /\ CbEnd(x, r, now) /\ rm'[x] <= MaxRm /\ NoTime /\ UNCHANGED bnd
                              /\ Out([a |-> "CbEnd", x |-> x, r |-> r])
        \/ AfterRun(x) /\ NoTime /\ UNCHANGED bnd /\ Out([a |-> "AfterRun", x |-> x, victim |-> Victim(x)])
  \/ /\ now < MaxClock /\ now' = now + 1
     /\ UNCHANGED <<reg, owner, ivl, pc, rm, cancelled, stopped, exp, base, bnd, badStart, sbc, badRemove, badEarly>>
     /\ Out([a |-> "Advance"])
Spec == Init /\ [][Next]_vars

(* ---- properties ---- *)
TypeOK == /\ reg \in [Ids -> Inst \cup {None}] /\ owner \in [Inst -> Ids \cup {NoId}]
          /\ pc \in [Inst -> {"idle", "snap", "checked", "cb"}] /\ rm \in [Inst -> 0..(MaxRm + MaxTicks)]
          /\ cancelled \subseteq Inst /\ stopped \subseteq Inst
          /\ \A i \in Ids : reg[i] # None => owner[reg[i]] = i

(* sentence 1, as written: a stopped timer's callback is not started again *)
StoppedStaysStopped == badStart = {}
(* sentence 1, weaker: no callback start when the stop had completed before the context check *)
NoStartIfStoppedBeforeCheck == sbc = {} /\ stopped \subseteq cancelled
(* sentence 2: removing a timer never removes a different timer registered later under the id *)
RemoveOnlySelf == badRemove = {}
(* sentence 3: a callback never runs before its interval has elapsed *)
NotEarly == badEarly = {}
(* a registered instance is never silently lost: it is in the registry until removed *)
RegisteredAlive == \A i \in Ids : reg[i] # None => reg[i] \notin cancelled
=============================================================================
