--------------------------- MODULE HandoverTrace ---------------------------
(* HANDOVER, binding B: runs recorded from real HandoverXBroker /             *)
(* HandoverYBroker objects (harness/internal/handover/record.go: the harness' *)
(* own seeded scheduler decides which call a node or the network makes next,  *)
(* on 11 voteproofs with draws and an unbounded number of faults) are         *)
(* validated against Handover.tla. One "Act" event per call: the call with    *)
(* what the real code returned, and the observable state of the real objects  *)
(* after it. The model is deterministic per call, so an event is explained iff *)
(* Next has a step whose `step` record carries the event's fields; the        *)
(* observed state is then compared field by field (a difference is printed    *)
(* with its field name, validation goes on). The invariants of Handover.tla   *)
(* are checked on the states the recorded run walks through.                  *)
EXTENDS Handover, Json

Trace == ndJsonDeserialize("trace.ndjson")
VARIABLE l
tvars == <<vars, l>>
Ev == Trace[l]

Expect(class, got, want) == IF got = want THEN TRUE
                            ELSE PrintT(<<"MISMATCH", class, l, got, want>>)

SeqSet(s) == {s[i] : i \in 1..Len(s)}
NetView(n) == {[from |-> m.from, t |-> m.t, k |-> m.k, ok |-> m.ok, er |-> m.er] : m \in n}

ActMatches(act, st) ==
  /\ st.a = act.a
  /\ \A f \in DOMAIN act \ {"a", "m"} : f \in DOMAIN st /\ st[f] = act[f]
  /\ "m" \in DOMAIN act => ("m" \in DOMAIN st /\ NetView({st.m}) = {act.m})

Consume == l <= Len(Trace) /\ l' = l + 1

TReset ==
  /\ Consume /\ Ev.a = "Reset"
  /\ xb' = FALSE
  /\ xc' = FALSE
  /\ xf' = FALSE
  /\ xlv' = 0
  /\ xcc' = 0
  /\ xlcc' = 0
  /\ xs' = 0
  /\ xre' = 0
  /\ xlr' = [t |-> "none", k |-> 0]
  /\ xpc' = 0
  /\ xfail' = 0
  /\ xcs' = 0
  /\ xhpc' = "idle"
  /\ xhk' = 0
  /\ xtry' = 0
  /\ xnext' = 1
  /\ xOut' = FALSE
  /\ xVoted' = {}
  /\ xFinAt' = 0
  /\ xFresh' = TRUE
  /\ xWF' = 0
  /\ xWC' = 0
  /\ xret' = Ret(FALSE, "nil")
  /\ xbusy' = FALSE
  /\ xnb' = 0
  /\ yrta' = FALSE
  /\ yds' = FALSE
  /\ yid' = FALSE
  /\ yf' = FALSE
  /\ yc' = FALSE
  /\ yfail' = 0
  /\ yask' = MaxAsk
  /\ ycs' = 0
  /\ ypend' = {}
  /\ ylast' = 0
  /\ yIn' = 0
  /\ ySync' = FALSE
  /\ yWF' = 0
  /\ yWC' = 0
  /\ net' = {}
  /\ faults' = 0
  /\ step' = [a |-> "Init"]

ObsExpect(o) ==
  /\ Expect("xb", o.xb, xb')
  /\ Expect("xc", o.xc, xc')
  /\ Expect("xf", o.xf, xf')
  /\ Expect("xlv", o.xlv, xlv')
  /\ Expect("xcc", o.xcc, xcc')
  /\ Expect("xlcc", o.xlcc, xlcc')
  /\ Expect("xs", o.xs, xs')
  /\ Expect("xre", o.xre, xre')
  /\ Expect("xpc", o.xpc, xpc')
  /\ Expect("xfail", o.xfail, xfail')
  /\ Expect("xOut", o.xOut, xOut')
  /\ Expect("xWF", o.xWF, xWF')
  /\ Expect("xWC", o.xWC, xWC')
  /\ Expect("xret", o.xret, xret')
  /\ Expect("yrta", o.yrta, yrta')
  /\ Expect("yds", o.yds, yds')
  /\ Expect("yid", o.yid, yid')
  /\ Expect("yf", o.yf, yf')
  /\ Expect("yc", o.yc, yc')
  /\ Expect("yfail", o.yfail, yfail')
  /\ Expect("yIn", o.yIn, yIn')
  /\ Expect("ySync", o.ySync, ySync')
  /\ Expect("yWF", o.yWF, yWF')
  /\ Expect("yWC", o.yWC, yWC')
  /\ Expect("xVoted", SeqSet(o.xVoted), xVoted')
  /\ Expect("ypend", SeqSet(o.ypend), ypend')
  /\ Expect("net", SeqSet(o.net), NetView(net'))

TAct ==
  /\ Consume /\ Ev.a = "Act"
  /\ Next
  /\ ActMatches(Ev.act, step')
  /\ ObsExpect(Ev.obs)

TraceInit == Init /\ l = 1
TraceNext == TReset \/ TAct
TraceSpec == TraceInit /\ [][TraceNext]_tvars

ASSUME TLCSet(1, 0)
HighWater == TLCSet(1, IF l > TLCGet(1) THEN l ELSE TLCGet(1))
Accepted == \/ TLCGet(1) = Len(Trace) + 1
            \/ PrintT(<<"HW", TLCGet(1), Len(Trace)>>) /\ FALSE
=============================================================================
