SPECIFICATION Spec
CONSTANTS
  K = 3
  Gap = 2
  ForkAt = 2
  CandHs = {1, 3, 4, 6}
  MaxSteps = 10
  Sim = TRUE
VIEW view
INVARIANTS TypeOK HeldIsKnown UpdatedIsLast
CHECK_DEADLOCK FALSE
