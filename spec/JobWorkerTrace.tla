--------------------------- MODULE JobWorkerTrace ---------------------------
(* Binding B for C33: executions of the real job workers (util/worker.go) are   *)
(* validated with the actions of JobWorker.tla. Log (ndjson), traces separated   *)
(* by Reset {"i": number, "n": events of the trace, "kind", "size", "limit"}:     *)
(*   kind "base" / "errcb" (a worker driven call by call)                         *)
(*     NewJobCall j, NewJobRet j ok, Start j cc, End j e cc, Errf e, Done,        *)
(*     WaitCall, WaitRet e, CancelCall c / CancelRet (parent context or Close)    *)
(*   kind "run" / "runerrcb" (RunJobWorker / RunErrCallbackJobWorker) and         *)
(*   kind "batch" (BatchWork): Pref last e, Start j cc last, End j e cc, Errf e,  *)
(*     RunCall, RunRet e, CancelCall / CancelRet                                   *)
(* cc = the job's context was cancelled (read while the event is logged);         *)
(* errors: 0 nil, j = job j's own error, 100 parent cause, 101 context.Canceled,  *)
(* 102 ErrJobWorkerDone, 150 the error of pref, 199 anything else.                *)
(* Not logged, hence internal steps the search places: the tail of a failing job  *)
(* (cancel call, then release of its slot - the order the statement needs - as    *)
(* one step: CancelCauseK; a succeeding job frees its slot with its End event),   *)
(* the moment a NewJob call is accepted (LinAccept),                              *)
(* the moment a CancelCall takes effect (LinCancel), the moment Wait /            *)
(* RunJobWorker / BatchWork computes its answer (LinWait, LinRun).                *)
(* A trace is explained iff some path consumes all its events; GiveUp lets the   *)
(* search go on with the next trace (the file ends with an Eof event); unexplained *)
(* traces are printed (NOTOK) with the line of their first unexplained event (HWT). *)
EXTENDS JobWorker, Json

Trace == ndJsonDeserialize("trace.ndjson")
VARIABLES l, h0, bad,
          kind,      \* kind of the current trace
          nj,        \* Job -> 0 no call pending, 1 NewJob called, 2 accepted (not yet returned)
          pc,        \* cancel call pending: 0 or the cause it carries
          size, limit, bfirst, blast,   \* run / batch: indices (1-based) of the current batch
          preferr,   \* error the batch preparation returned (0 none)
          ans        \* Wait / RunJobWorker / BatchWork: -2 not called, -1 called, else the answer it has computed
tvars == <<jst, jerr, tail, cause, done, slots, errf, dpc, dj, ret, lateAccept, failAccept, l, h0, bad, kind, nj, pc, size, limit, bfirst, blast, preferr, ans>>
Ev == Trace[l]
Consume == l <= Len(Trace) /\ l' = l + 1
B(x) == IF x THEN 1 ELSE 0
Direct == kind \in {"base", "errcb"}
ErrCb == kind \in {"errcb", "runerrcb"}
Min(a, b) == IF a < b THEN a ELSE b

Note(reg, i) == TLCSet(reg, TLCGet(reg) \cup {i})
FreshWorker == /\ jst' = [j \in Job |-> 0] /\ jerr' = [j \in Job |-> 0] /\ tail' = [j \in Job |-> <<>>] /\ cause' = 0
               /\ done' = FALSE /\ slots' = 0 /\ errf' = <<>>
Fresh == FreshWorker /\ nj' = [j \in Job |-> 0] /\ pc' = 0 /\ preferr' = 0 /\ ans' = -2
DU == UNCHANGED <<dpc, dj, ret, lateAccept, failAccept>>      \* the model's driver is not used here
TU == UNCHANGED <<h0, bad, kind, size, limit>> /\ DU
BU == UNCHANGED <<bfirst, blast, preferr>>
AU == UNCHANGED ans

TReset == /\ Consume /\ Ev.a \in {"Reset", "Eof"}
          /\ IF h0 # 0 /\ ~bad THEN Note(3, Trace[h0].i) ELSE TRUE
          /\ IF Ev.a = "Reset" THEN Note(2, Ev.i) ELSE TRUE
          /\ Fresh /\ h0' = l /\ bad' = FALSE /\ DU
          /\ IF Ev.a = "Reset"
             THEN /\ kind' = Ev.kind /\ size' = Ev.size /\ limit' = Ev.limit
                  /\ bfirst' = 1 /\ blast' = (IF Ev.kind = "batch" THEN 0 ELSE Ev.size)
             ELSE UNCHANGED <<kind, size, limit, bfirst, blast>>

GiveUp == /\ h0 # 0 /\ ~bad /\ l <= Len(Trace) /\ Ev.a \notin {"Reset", "Eof"}
          /\ l' = h0 + Trace[h0].n + 1 /\ bad' = TRUE
          /\ Fresh /\ DU /\ UNCHANGED <<h0, kind, size, limit, bfirst, blast>>

(* ---- a worker driven call by call ---- *)
TNewJobCall == /\ Consume /\ Ev.a = "NewJobCall" /\ Direct
               /\ nj' = [nj EXCEPT ![Ev.j] = 1]
               /\ UNCHANGED <<jst, jerr, tail, cause, done, slots, errf, pc>> /\ TU /\ BU /\ AU
LinAccept(j) == /\ Direct /\ nj[j] = 1 /\ Accept(j)
                /\ slots < limit          \* a slot of THIS worker is free (SemSize is only the model's bound; limit = the worker's size)
                /\ nj' = [nj EXCEPT ![j] = 2]
                /\ UNCHANGED <<l, pc>> /\ TU /\ BU /\ AU
(* accepted: only if the worker was open at some point of the call; refused: only if it is closed now *)
TNewJobRet == /\ Consume /\ Ev.a = "NewJobRet"
              /\ IF Ev.ok THEN nj[Ev.j] = 2 ELSE nj[Ev.j] = 1 /\ Closed
              /\ nj' = [nj EXCEPT ![Ev.j] = 0]
              /\ UNCHANGED <<jst, jerr, tail, cause, done, slots, errf, pc>> /\ TU /\ BU /\ AU
TDone == /\ Consume /\ Ev.a = "Done" /\ DoneCall /\ UNCHANGED <<nj, pc>> /\ TU /\ BU /\ AU
(* Wait / LazyWait: the answer is computed at some point between the call and the return  *)
(* (LinWait), then the deferred Cancel() runs                                             *)
TWaitCall == /\ Consume /\ Ev.a = "WaitCall" /\ ans' = -1
             /\ UNCHANGED <<jst, jerr, tail, cause, done, slots, errf, nj, pc>> /\ TU /\ BU
LinWait(e) == /\ Direct /\ ans = -1
              /\ WaitMay(e)
              /\ e = 0 => Pend = {} /\ \A j \in Job : jst[j] \in {0, 4}
              /\ ans' = e /\ Cancel(CANCELED)
              /\ UNCHANGED <<l, nj, pc>> /\ TU /\ BU
TWaitRet == /\ Consume /\ Ev.a = "WaitRet" /\ ans = Ev.e /\ ans' = -2
            /\ UNCHANGED <<jst, jerr, tail, cause, done, slots, errf, nj, pc>> /\ TU /\ BU

(* ---- jobs ---- *)
InBatch(j) == j >= bfirst /\ j <= blast
TStart == /\ Consume /\ Ev.a = "Start"
          /\ Ev.cc = B(cause # 0)
          /\ IF Direct THEN Start(Ev.j)
             ELSE /\ jst[Ev.j] = 0 /\ InBatch(Ev.j)                      \* each index once, inside its batch
                  /\ slots < limit                                      \* it holds a slot of the worker (size = limit; BatchWork: min(limit, size))
                  /\ kind = "batch" => Ev.last + 1 = blast               \* "last" = the batch's last index
                  /\ jst' = [jst EXCEPT ![Ev.j] = 2] /\ slots' = slots + 1
                  /\ UNCHANGED <<jerr, tail, cause, done, errf>>
          /\ UNCHANGED <<nj, pc>> /\ TU /\ BU /\ AU
TEnd == /\ Consume /\ Ev.a = "End"
        /\ Ev.cc = B(cause # 0)
        /\ EndS(Ev.j, Ev.e, IF ErrCb THEN <<"errf", "release">> ELSE <<"cancel", "release">>)   \* the kind is the trace's
        /\ UNCHANGED <<nj, pc>> /\ TU /\ BU /\ AU
LinCancelCause(j) == /\ ~ErrCb /\ CancelCauseK(j) /\ UNCHANGED <<l, nj, pc>> /\ TU /\ BU /\ AU
TErrf == /\ Consume /\ Ev.a = "Errf" /\ ErrCb
         /\ \E j \in Pend : jerr[j] = Ev.e /\ ErrfK(j)
         /\ UNCHANGED <<nj, pc>> /\ TU /\ BU /\ AU

(* ---- cancellation from outside: parent context (cause 100 / 101) or Close() ---- *)
TCancelCall == /\ Consume /\ Ev.a = "CancelCall" /\ pc = 0 /\ pc' = Ev.c
               /\ UNCHANGED <<jst, jerr, tail, cause, done, slots, errf, nj>> /\ TU /\ BU /\ AU
LinCancel == /\ pc > 0 /\ Cancel(pc) /\ pc' = -1 /\ UNCHANGED <<l, nj>> /\ TU /\ BU /\ AU
TCancelRet == /\ Consume /\ Ev.a = "CancelRet" /\ pc = -1 /\ pc' = 0
              /\ UNCHANGED <<jst, jerr, tail, cause, done, slots, errf, nj>> /\ TU /\ BU /\ AU

(* ---- RunJobWorker / BatchWork ---- *)
(* pref of the next batch: every job of the previous batches has ended without error *)
TPref == /\ Consume /\ Ev.a = "Pref" /\ kind = "batch"
         /\ \A j \in Job : j <= blast => jst[j] = 4 /\ jerr[j] = 0
         /\ Pend = {} /\ preferr = 0 /\ blast < size
         /\ Ev.last + 1 = Min(blast + limit, size)
         /\ bfirst' = blast + 1 /\ blast' = Ev.last + 1 /\ preferr' = Ev.e
         /\ UNCHANGED <<jst, jerr, tail, cause, done, slots, errf, nj, pc>> /\ TU /\ AU
(* what RunJobWorker / BatchWork answers, computed between its call and its return *)
TRunCall == /\ Consume /\ Ev.a = "RunCall" /\ ans' = -1
            /\ UNCHANGED <<jst, jerr, tail, cause, done, slots, errf, nj, pc>> /\ TU /\ BU
RunMay(e) == IF e = 0
             THEN /\ \A j \in Job : j <= size => jst[j] = 4              \* every index visited and ended
                  /\ Pend = {} /\ preferr = 0 /\ blast = size /\ cause = 0
                  /\ ErrCb \/ \A j \in Job : jerr[j] = 0
             ELSE \/ cause # 0 /\ e = cause                               \* the first error / the parent's cause
                  \/ preferr # 0 /\ e = preferr
LinRun == /\ ~Direct /\ ans = -1 /\ l <= Len(Trace)
          /\ \E e \in {0, cause, preferr} : RunMay(e) /\ ans' = e
          /\ UNCHANGED <<jst, jerr, tail, cause, done, slots, errf, l, nj, pc>> /\ TU /\ BU
TRunRet == /\ Consume /\ Ev.a = "RunRet" /\ ans = Ev.e /\ ans' = -2
           /\ UNCHANGED <<jst, jerr, tail, cause, done, slots, errf, nj, pc>> /\ TU /\ BU

TraceInit == /\ Init /\ l = 1 /\ h0 = 0 /\ bad = FALSE /\ kind = "base" /\ nj = [j \in Job |-> 0] /\ pc = 0
             /\ size = 0 /\ limit = 0 /\ bfirst = 1 /\ blast = 0 /\ preferr = 0 /\ ans = -2
TraceNext == \/ TReset \/ GiveUp \/ TNewJobCall \/ TNewJobRet \/ TDone \/ TWaitCall \/ TWaitRet \/ TStart \/ TEnd \/ TErrf
             \/ TCancelCall \/ LinCancel \/ TCancelRet \/ TPref \/ TRunCall \/ LinRun \/ TRunRet
             \/ \E j \in Job : LinAccept(j) \/ LinCancelCause(j)
             \/ \E e \in {0, cause} : LinWait(e)
TraceSpec == TraceInit /\ [][TraceNext]_tvars

ASSUME TLCSet(1, 0) /\ TLCSet(2, {}) /\ TLCSet(3, {})
(* register 100 + i: the furthest line reached inside trace i (its first unexplained event, if it is not explained) *)
ASSUME \A k \in 1..Len(Trace) : Trace[k].a = "Reset" => TLCSet(100 + Trace[k].i, 0)
HighWater == \/ bad \/ l > Len(Trace)
             \/ /\ TLCSet(1, IF l > TLCGet(1) THEN l ELSE TLCGet(1))
                /\ \/ h0 = 0
                   \/ LET r == 100 + Trace[h0].i IN TLCSet(r, IF l > TLCGet(r) THEN l ELSE TLCGet(r))
Accepted == /\ PrintT(<<"NOTOK", TLCGet(2) \ TLCGet(3)>>)
            /\ \A i \in TLCGet(2) \ TLCGet(3) : PrintT(<<"HWT", i, TLCGet(100 + i)>>)
            /\ PrintT(<<"HW", TLCGet(1), Len(Trace)>>)
=============================================================================
