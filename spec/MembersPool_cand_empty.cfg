SPECIFICATION Spec
CONSTANTS
  Addr = {"a1"}
  Node = {"n1", "n2"}
  Procs = {1, 2}
  Discipline = "repo"
  Forced = FALSE
  CallOps = {"Join", "Empty"}
  MinMutators = 1
INVARIANTS TypeOK AtRestConsistent
CHECK_DEADLOCK FALSE
