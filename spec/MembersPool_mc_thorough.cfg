SPECIFICATION Spec
CONSTANTS
  Addr = {"a1", "a2"}
  Node = {"n1", "n2"}
  Procs = {1, 2, 3}
  Discipline = "repo"
  Forced = FALSE
  CallOps = {"Join", "Leave", "Exists", "Get", "MembersLen", "Others", "Len"}
  MinMutators = 1
INVARIANTS TypeOK NoDup AgreeWhenUnlocked AtRestConsistent AtRestExplained
CHECK_DEADLOCK FALSE
