SPECIFICATION LSpec
CONSTANTS
  Props <- PropsA
  Avps <- AvpsA
  MaxOps = 0
  Calls <- CallsQuick
  MaxCalls = 4
  CheckUnderLock = TRUE
  GateSave = TRUE
  Modes = {"free", "forced"}
INVARIANTS LTypeOK LockOK RunningHeld AgreedOnly OncePerHeight EmitSched
CHECK_DEADLOCK FALSE
