SPECIFICATION TraceSpec
CONSTANTS
  AskSet <- AskAll
  MaxAsk = 100000
  MaxToggle = 100000
  MaxHold = 100000
  MaxY = 100000
  ExitOut = {"ok", "error", "ignore", "finish"}
  EnterKinds = {"ok", "error", "ignore", "redirect"}
  Redirects = {"STOPPED", "BOOTING", "JOINING", "CONSENSUS", "SYNCING", "HANDOVER", "BROKEN"}
  InitAllowed = {TRUE}
  Sched = FALSE
  Record = FALSE
CONSTRAINT HighWater
INVARIANTS TypeOK
POSTCONDITION Accepted
CHECK_DEADLOCK FALSE
