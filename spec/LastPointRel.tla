---------------------------- MODULE LastPointRel ----------------------------
(* C06, binding B: the statement of LastPoint.tla evaluated by TLC on relations  *)
(* RECORDED FROM THE REAL CODE (harness c06 "table" / "relation"):                *)
(*   c06_tab.ndjson  one row per (last, cand): real LastPoint.Before, IsNewBallot, *)
(*                   IsNewVoteproofbyPoint, IsNewVoteproof(real voteproof),        *)
(*                   LastVoteproofsHandler.IsNew                                   *)
(*   c06_box.ndjson  one row per (last, cand, entry): a fresh real Ballotbox with  *)
(*                   LastPoint() = last was offered cand through SetLastPoint /    *)
(*                   SetLastPointFromVoteproof: ok, LastPoint() afterwards         *)
(*   c06_hdl.ndjson  one node per state (ivp, avp) of a real LastVoteproofsHandler *)
(*                   with the real Last().Cap() and one edge per voteproof handed  *)
(*                   to Set (return value, node reached)                           *)
(* Four specifications over the same variables:                                   *)
(*   SpecTab   every table row: lower heights rejected (statement, sentence 2);    *)
(*             differences to the transcription are printed as DIVERGE (evidence)  *)
(*   SpecBox   every row of the box relation: StepOK on accepted updates           *)
(*   SpecWalk  all paths of accepted SetLastPoint updates up to MaxSteps from      *)
(*             every start position: StepOK on every edge met; NoRecur (a position *)
(*             comes back later in a history) is expected to FAIL - evidence only  *)
(*   SpecHdl   the handler graph explored from the empty handler: StepOK on every  *)
(*             change of the cap position along every reachable edge               *)
(* Nothing stops at the first finding: every failing row/edge is printed as        *)
(* <<"MISMATCH", class, index, edge>> and classified by check/props/c06.py.        *)
EXTENDS Integers, Sequences, FiniteSets, TLC, Json

CONSTANTS MaxH, MaxR, MaxSteps

LP == INSTANCE LastPoint WITH Rules <- {"B"}, Walk <- FALSE, rule <- "B", last <- 0, cand <- 0, step <- ""

Tab == ndJsonDeserialize("c06_tab.ndjson")
Box == ndJsonDeserialize("c06_box.ndjson")
Hdl == ndJsonDeserialize("c06_hdl.ndjson")

VARIABLES cur,     \* SpecTab/SpecBox: row index; SpecHdl: node id; SpecWalk: a position
          start,   \* SpecWalk: the position the path started from
          steps    \* SpecWalk: accepted updates so far
vars == <<cur, start, steps>>

Expect(class, idx, e, ok) == ok \/ PrintT(<<"MISMATCH", class, idx, e>>)
Diverge(class, idx, ok)   == ok \/ PrintT(<<"DIVERGE", class, idx>>)

---------------------------------------------------------------------------------
InitTab == cur \in 1..Len(Tab) /\ start = 0 /\ steps = 0
TabRowOK(k) ==
  LET row == Tab[k]
      lower == ~LP!IsZero(row.last) /\ row.cand.h < row.last.h
      sc == row.cand.c = 1  IN
  /\ Expect("lower-height-accepted(IsNewBallot)", k, 0, lower => ~row.nb /\ ~row.before)
  /\ Expect("lower-height-accepted(IsNewVoteproofbyPoint)", k, 0, lower => ~row.nv)
  /\ Expect("lower-height-accepted(IsNewVoteproof)", k, 0, (lower /\ row.nvvp # "none") => row.nvvp = "false")
  /\ Expect("lower-height-accepted(LastVoteproofsHandler.IsNew)", k, 0, (lower /\ row.hnew # "none") => row.hnew = "false")
  /\ Diverge("Before", k, row.before = LP!Before(row.last, row.cand, sc))
  /\ Diverge("IsNewBallot", k, row.nb = LP!IsNewBallot(row.last, row.cand, sc))
  /\ Diverge("IsNewVoteproofbyPoint", k, row.nv = LP!IsNewVoteproofByPoint(row.last, row.cand, row.cand.m = 1, sc))
  /\ Diverge("IsNewVoteproof", k, row.nvvp = "none" \/ (row.nvvp = "true") = LP!IsNewVoteproofByPoint(row.last, row.cand, row.cand.m = 1, sc))
  /\ Diverge("LastVoteproofsHandler.IsNew", k, row.hnew = "none" \/ (row.hnew = "true") = LP!IsNewVoteproofByPoint(row.last, row.cand, row.cand.m = 1, sc))
TabChecked == TabRowOK(cur)

---------------------------------------------------------------------------------
InitBox == cur \in 1..Len(Box) /\ start = 0 /\ steps = 0
BoxRowOK(k) ==
  LET row == Box[k] IN
  /\ (row.ok \/ row.after # row.last) =>      \* an accepted update, or the position moved anyway
        /\ Expect("box:height-decrease", k, 0, LP!HeightOK(row.last, row.after))
        /\ Expect("box:back-step-not-sc", k, 0, LP!BackOK(row.last, row.after))
        /\ Expect("box:retake", k, 0, LP!RetakeOK(row.last, row.after))
  /\ Diverge("state-after-call", k, row.after = (IF row.ok THEN row.cand ELSE row.last))
  /\ Diverge("SetLastPoint", k, row.ok = LP!Before(row.last, row.cand, row.cand.c = 1))
BoxChecked == BoxRowOK(cur)

Same == UNCHANGED vars

---------------------------------------------------------------------------------
(* paths over the real relation of Ballotbox.SetLastPoint *)
Lasts == {Box[k].last : k \in 1..Len(Box)}
SuccOf == [p \in Lasts |-> {Box[k].after : k \in {j \in 1..Len(Box) :
                               Box[j].last = p /\ Box[j].ok /\ Box[j].entry = "SetLastPoint"}}]
InitWalk == start \in Lasts /\ cur = start /\ steps = 0
NextWalk == /\ steps < MaxSteps
            /\ cur \in Lasts
            /\ \E n \in SuccOf[cur] : cur' = n
            /\ steps' = steps + 1
            /\ start' = start
WalkChecked == cur \in Lasts => \A n \in SuccOf[cur] :
                  Expect("box:path-step", steps, 0, LP!StepOK(cur, n))
NoRecur == ~(steps > 0 /\ cur = start)          \* evidence only (DESIGN 4 C06)

---------------------------------------------------------------------------------
(* the real LastVoteproofsHandler: position = Last().Cap() *)
Empty == CHOOSE k \in 1..Len(Hdl) : LP!IsZero(Hdl[k].ivp) /\ LP!IsZero(Hdl[k].avp)
InitHdl == cur = Empty /\ start = 0 /\ steps = 0
NextHdl == /\ \E e \in 1..Len(Hdl[cur].out) : cur' = Hdl[cur].out[e].to
           /\ UNCHANGED <<start, steps>>
EdgeOK(k, e) ==
  LET a == Hdl[k].cap
      b == Hdl[Hdl[k].out[e].to].cap  IN
  \/ a = b                                     \* the position did not move
  \/ /\ Expect("handler:height-decrease", k, e, LP!HeightOK(a, b))
     /\ Expect("handler:back-step-not-sc", k, e, LP!BackOK(a, b))
     /\ Expect("handler:retake", k, e, LP!RetakeOK(a, b))
HdlChecked == /\ Hdl[cur].id = cur
              /\ \A e \in 1..Len(Hdl[cur].out) : EdgeOK(cur, e)

SpecTab  == InitTab  /\ [][Same]_vars
SpecBox  == InitBox  /\ [][Same]_vars
SpecWalk == InitWalk /\ [][NextWalk]_vars
SpecHdl  == InitHdl  /\ [][NextHdl]_vars
=============================================================================
