----------------------------- MODULE FixedTree -----------------------------
(* C12 - the Merkle fixed tree of util/fixedtree (tree.go, writer.go,       *)
(* proof.go, node.go).                                                      *)
(*                                                                          *)
(* A tree of `size` nodes is an array in level order (children of i are     *)
(* 2i+1, 2i+2); node i has key i (the harness maps it to a random distinct  *)
(* string) and hash H(key, left hash, right hash). H is the ideal hash: the *)
(* triple itself, collision-free by construction. ValidTree is the          *)
(* statement's definition. Extract is the proof layout of                   *)
(* ExtractProofMaterial (children pair of the node, of its parent, ... of   *)
(* the root, then the root); ProveImpl transcribes Proof.Prove /            *)
(* filterNodes ("one of the next pair must hash the current pair").         *)
(*                                                                          *)
(* The statement demands that every single change of a key or hash in the   *)
(* tree or in a proof is detected. On the transcription this holds except   *)
(* for the KEY of a proof entry that is not on the path (only its hash      *)
(* enters a parent): UndetectedAreNonPathKeys says exactly that, and the    *)
(* check reproduces it on the real code.                                    *)
(*                                                                          *)
(* Binding A: every distinct state (size, tree mutation | target, proof     *)
(* mutation) is a case; `step` carries what the statement expects           *)
(* (valid / proves / detected / root changed), the proof layout computed    *)
(* with exact integer index arithmetic and, when Compute, the verdict of    *)
(* the transcription. Replayed with the real fixedtree.Writer / Tree /      *)
(* Proof and SHA-256.                                                       *)
EXTENDS Integers, Sequences, FiniteSets, TLC, Json

CONSTANTS MaxSize,   \* trees of 1..MaxSize nodes
          Compute,   \* TRUE: build hashes and evaluate the transcription (small trees)
          Walk       \* TRUE: -simulate; every parameter is drawn with RandomElement

VARIABLES size,   \* 0 = nothing built yet
          mutT,   \* <<>> | <<index, "key" | "hash" | "rekey">>   ("rekey": key changed, tree rebuilt by the Writer)
          x,      \* index of the node whose proof was extracted, -1 = none
          mutP,   \* <<>> | <<position in the proof (0-based), "key" | "hash">>
          step
vars == <<size, mutT, x, mutP, step>>

---------------------------------------------------------------------------
(* exact index arithmetic *)

RECURSIVE Height(_)
Height(i) == IF i = 0 THEN 0 ELSE 1 + Height((i - 1) \div 2)     \* floor(log2(i+1))
Parent(i) == (i - 1) \div 2                                      \* i > 0
Left(i)  == 2 * i + 1
Right(i) == 2 * i + 2
RECURSIVE PathUp(_)
PathUp(i) == IF i = 0 THEN <<0>> ELSE <<i>> \o PathUp(Parent(i))  \* i, parent(i), ..., 0

---------------------------------------------------------------------------
(* ideal hash, tree *)

NoHash == <<>>                       \* no child / empty node: contributes no bytes
H(k, l, r) == <<k, l, r>>
Fresh == -1                          \* a key no node has
Bogus == <<-2, <<>>, <<>>>>          \* a hash no node has (the hash of a leaf with a key no node has)

RECURSIVE HashAt(_, _, _)
\* hash of node i of the tree with keys `key` (a function on 0..s-1)
HashAt(key, s, i) == H(key[i], IF Left(i) < s THEN HashAt(key, s, Left(i)) ELSE NoHash,
                               IF Right(i) < s THEN HashAt(key, s, Right(i)) ELSE NoHash)

Keys0(s) == [i \in 0..(s - 1) |-> i]
BuildTree(key, s) == [i \in 0..(s - 1) |-> [key |-> key[i], hash |-> HashAt(key, s, i)]]

\* the statement: every node's hash matches its key and children
ValidTree(t, s) == \A i \in 0..(s - 1) :
   t[i].hash = H(t[i].key, IF Left(i) < s THEN t[Left(i)].hash ELSE NoHash,
                           IF Right(i) < s THEN t[Right(i)].hash ELSE NoHash)

MutTree(t, m) == IF m = <<>> \/ m[2] = "rekey" THEN t
                 ELSE IF m[2] = "key" THEN [t EXCEPT ![m[1]].key = Fresh]
                 ELSE [t EXCEPT ![m[1]].hash = Bogus]

---------------------------------------------------------------------------
(* proof layout (ExtractProofMaterial). An entry is [e |-> TRUE] (empty     *)
(* node) or [e |-> FALSE, idx |-> tree index]; 1-based sequence.            *)

EmptyE == [e |-> TRUE]
Pair(s, l) == << IF Left(l) < s THEN [e |-> FALSE, idx |-> Left(l)] ELSE EmptyE,
                 IF Right(l) < s THEN [e |-> FALSE, idx |-> Right(l)] ELSE EmptyE >>
RECURSIVE Pairs(_, _)
Pairs(s, path) == IF path = <<>> THEN <<>> ELSE Pair(s, Head(path)) \o Pairs(s, Tail(path))
Layout(s, xx) == Pairs(s, PathUp(xx)) \o <<[e |-> FALSE, idx |-> 0]>>

\* positions (0-based) of the path nodes (the target and its ancestors) in the layout
OnPath(s, xx, j) == LET L == Layout(s, xx)
                        P == PathUp(xx)
                    IN ~L[j + 1].e /\ \E k \in 1..Len(P) : P[k] = L[j + 1].idx

\* the proof with hashes: entries [e, key, hash]
Extract(t, s, xx) == LET L == Layout(s, xx)
                     IN [j \in 1..Len(L) |-> IF L[j].e THEN EmptyE ELSE [e |-> FALSE, key |-> t[L[j].idx].key, hash |-> t[L[j].idx].hash]]

MutProof(p, m) == IF m = <<>> THEN p
                  ELSE IF m[2] = "key" THEN [p EXCEPT ![m[1] + 1].key = Fresh]
                  ELSE [p EXCEPT ![m[1] + 1].hash = Bogus]

---------------------------------------------------------------------------
(* Proof.Prove / filterNodes, transcribed (0-based positions i of the code = i+1 here) *)

HashOf(en) == IF en.e THEN NoHash ELSE en.hash

Find(p, k) == LET S == {j \in 1..Len(p) : ~p[j].e /\ p[j].key = k}
              IN IF S = {} THEN 0 ELSE CHOOSE j \in S : \A jj \in S : j <= jj

Filter(p, k) ==
  LET j == Find(p, k)          \* 1-based; i = j - 1
      i == j - 1
  IN IF j = 0 THEN <<>>
     ELSE IF i % 2 = 0
          THEN (IF i > 1 THEN <<p[j - 2], p[j - 1]>> ELSE <<EmptyE, EmptyE>>) \o SubSeq(p, j, Len(p))
     ELSE IF i + 1 = Len(p)
          THEN (IF i > 1 THEN <<p[j - 2], p[j - 1]>> ELSE <<EmptyE, EmptyE>>) \o <<p[j]>>
     ELSE (IF i > 1 THEN <<p[j - 3], p[j - 2]>> ELSE <<EmptyE, EmptyE>>) \o SubSeq(p, j - 1, Len(p))

ProveImpl(p, k) ==
  LET nodes == Filter(p, k)
      n == Len(nodes)
  IN /\ n >= 1
     /\ \A it \in 0..(((n - 1) \div 2) - 1) :
          LET bi == 2 * it
              parents == IF bi + 4 < n THEN {nodes[bi + 3], nodes[bi + 4]} ELSE {nodes[bi + 3]}
          IN \E pa \in parents : ~pa.e /\ pa.hash = H(pa.key, HashOf(nodes[bi + 1]), HashOf(nodes[bi + 2]))

---------------------------------------------------------------------------
(* what the statement expects of a state *)

ExpectValid  == mutT = <<>> \/ mutT[2] = "rekey"            \* a tree validates only if every hash matches
ExpectProves == x >= 0 /\ mutP = <<>>                       \* the extracted proof verifies
ExpectDetect == mutP # <<>>                                 \* any changed key or hash in a proof is detected
ExpectRootChanged == mutT # <<>> /\ mutT[2] = "rekey"       \* the root changes whenever a key changes

B(b) == IF b THEN 1 ELSE 0

NonEmptyPos(s, xx) == LET L == Layout(s, xx) IN {j \in 0..(Len(L) - 1) : ~L[j + 1].e}

\* the built trees and their proofs depend on the constants only: TLC evaluates them once
TreeOf  == IF Compute THEN [s \in 1..MaxSize |-> BuildTree(Keys0(s), s)] ELSE <<>>
ProofOf == IF Compute THEN [s \in 1..MaxSize |-> [xx \in 0..(s - 1) |-> Extract(TreeOf[s], s, xx)]] ELSE <<>>
Tree0 == TreeOf[size]
ImplProves == ProveImpl(MutProof(ProofOf[size][x], mutP), x)

Out == IF size = 0 THEN ""
       ELSE ToJson([size |-> size, mutT |-> mutT, x |-> x, mutP |-> mutP,
                    valid |-> B(ExpectValid), rootchanged |-> B(ExpectRootChanged),
                    proves |-> B(ExpectProves), detect |-> B(ExpectDetect),
                    height |-> IF x >= 0 THEN Height(x) ELSE -1,
                    layout |-> IF x >= 0 THEN LET L == Layout(size, x) IN [j \in 1..Len(L) |-> IF L[j].e THEN -1 ELSE L[j].idx] ELSE <<>>,
                    onpath |-> IF mutP # <<>> THEN B(OnPath(size, x, mutP[1])) ELSE -1,
                    impl |-> IF Compute /\ x >= 0 THEN B(ImplProves) ELSE -1])

---------------------------------------------------------------------------
R(S) == RandomElement(S)
Fields == {"key", "hash"}

Init == size = 0 /\ mutT = <<>> /\ x = -1 /\ mutP = <<>> /\ step = ""

\* fixedtree.NewWriter(size); Add(i, node i) for every i; Tree()
\* (exhaustive runs explore a tree of states - each state has one predecessor - so that `step` is
\* computed once per state: Build only first, proofs and tree mutations only from the built tree)
Build(s) == /\ Walk \/ size = 0
            /\ size' = s /\ mutT' = <<>> /\ x' = -1 /\ mutP' = <<>>

\* Tree.Set(i, node with another key | another hash); Tree.IsValid
MutateTree(i, f) == /\ size > 0 /\ mutT = <<>> /\ (Walk \/ x = -1)
                    /\ mutT' = <<i, f>> /\ x' = -1 /\ mutP' = <<>> /\ UNCHANGED size

\* Tree.Proof(key of xx); Proof.IsValid; Proof.Prove(key)
ExtractProof(xx) == /\ size > 0 /\ mutT = <<>> /\ xx < size /\ (Walk \/ x = -1)
                    /\ x' = xx /\ mutP' = <<>> /\ UNCHANGED <<size, mutT>>

\* NewProof(entries with entry j changed); IsValid; Prove(key)
MutateProof(j, f) == /\ x >= 0 /\ mutP = <<>> /\ j \in NonEmptyPos(size, x)
                     /\ mutP' = <<j, f>> /\ UNCHANGED <<size, mutT, x>>

Step == \/ \E s \in 1..MaxSize : Build(s)
        \/ \E i \in 0..(size - 1), f \in Fields \cup {"rekey"} : MutateTree(i, f)
        \/ \E xx \in 0..(size - 1) : ExtractProof(xx)
        \/ \E j \in 0..(2 * Height(size) + 4), f \in Fields : MutateProof(j, f)

\* a walk: build, then proofs and their mutations, now and then a tree mutation (which ends the tree)
WalkStep == IF size = 0 \/ mutT # <<>> THEN Build(R(1..MaxSize))
            ELSE IF x >= 0 /\ mutP = <<>> /\ R(1..4) > 1 THEN MutateProof(R(NonEmptyPos(size, x)), R(Fields))
            ELSE IF R(1..8) = 1 THEN MutateTree(R(0..(size - 1)), R(Fields \cup {"rekey"}))
            ELSE ExtractProof(R(0..(size - 1)))

Next == (IF Walk THEN WalkStep ELSE Step) /\ step' = Out'
Spec == Init /\ [][Next]_vars

---------------------------------------------------------------------------
TypeOK == /\ size \in 0..MaxSize
          /\ x \in -1..(MaxSize - 1)
          /\ mutT = <<>> \/ (mutT[1] \in 0..(size - 1) /\ mutT[2] \in Fields \cup {"rekey"})
          /\ mutP = <<>> \/ (mutP[1] \in NonEmptyPos(size, x) /\ mutP[2] \in Fields)

Active == Compute /\ size > 0

(* a built tree validates; a tree with one changed key or hash does not *)
BuiltTreeValid   == Active => ValidTree(Tree0, size)
TreeMutationSeen == (Active /\ mutT # <<>> /\ mutT[2] # "rekey") => ~ValidTree(MutTree(Tree0, mutT), size)

(* the root changes whenever any node's key changes *)
RootCommitsToKeys == (Active /\ mutT # <<>> /\ mutT[2] = "rekey") =>
     /\ HashAt([Keys0(size) EXCEPT ![mutT[1]] = Fresh], size, 0) # HashAt(Keys0(size), size, 0)
     /\ ValidTree(BuildTree([Keys0(size) EXCEPT ![mutT[1]] = Fresh], size), size)

(* for every key of a valid tree the extracted proof verifies *)
ProofVerifies == (Active /\ x >= 0 /\ mutP = <<>>) => ImplProves

(* layout facts of ExtractProofMaterial *)
LayoutOK == (size > 0 /\ x >= 0) => LET L == Layout(size, x)
                                    IN /\ Len(L) = 2 * (Height(x) + 1) + 1
                                       /\ \E j \in 1..Len(L) : ~L[j].e /\ L[j].idx = x

(* THE STATEMENT for proofs: every changed key or hash is detected. Not true of the transcription
   (candidate, reproduced on the real code): *)
ProofMutationDetected == (Active /\ mutP # <<>>) => ~ImplProves

(* what is true of the transcription: the undetected changes are exactly the keys of non-path entries *)
UndetectedAreNonPathKeys == (Active /\ mutP # <<>>) =>
     (ImplProves <=> (mutP[2] = "key" /\ ~OnPath(size, x, mutP[1])))
=============================================================================
