SPECIFICATION Spec
CONSTANTS
  Node = {"n1", "n2", "n3", "n4"}
  Byz = {"n4"}
  T10 = 670
  MaxHeight = 2
  MaxRound = 1
INVARIANTS TypeOK NoHonestEquivocation VoteproofAgreement ChainAgreement SavedOnlyAgreed ChainLinked OneProposalPerPoint
CHECK_DEADLOCK FALSE
PROPERTIES LastMonotone BoxLastMonotone
