------------------------------ MODULE LastPoint ------------------------------
(* C06 - consensus progress is monotonic.                                        *)
(* Models isaac/lastpoint.go (LastPoint.Before, IsNewBallot,                      *)
(* IsNewVoteproofbyPoint) and the two places that keep "the position ballots and  *)
(* voteproofs are judged against":                                                *)
(*   rule "B"  isaac/states/ballotbox.go  Ballotbox.SetLastPoint (accepts iff      *)
(*             last.Before(point, isSuffrageConfirm))                              *)
(*   rule "V"  isaac/last_voteproofs.go   acceptance test of LastVoteproofsHandler *)
(*             (IsNewVoteproof against the cap voteproof; the handler's own state  *)
(*             - two voteproofs and a cache - is LastVoteproofs.tla)               *)
(* Two levels: Before/IsNewVoteproofByPoint are an implementation-level            *)
(* transcription; HeightMonotone / BackOnlyForSC / NoRetake / LowerRejected are    *)
(* written from the property statement. TLC checks the transcription against the   *)
(* statement on the whole bounded domain. Binding A: every state (last, cand) is   *)
(* dumped and replayed into the real functions (harness c06 "table"); -simulate    *)
(* walks are replayed into one long-lived real Ballotbox (c06 "replay"). The       *)
(* verdict comes from LastPointRel.tla, which evaluates the same statement         *)
(* operators on the relation recorded from the real code (binding B).              *)
(*                                                                                *)
(* A position is [h, r, s, m, c]: height, round, stage (1 = INIT, 3 = ACCEPT as in *)
(* base/stage.go), majority 0/1, suffrage-confirm 0/1. Zero = no position yet.     *)
EXTENDS Integers, FiniteSets, Sequences, TLC, Json

CONSTANTS MaxH, MaxR,
          Rules,       \* subset of {"B", "V"}
          Walk         \* TRUE: behaviours are update sequences from Zero (simulation);
                       \* FALSE: every (last, cand) pair is an initial state and is offered once

INIT   == 1
ACCEPT == 3
Zero == [h |-> -1, r |-> 0, s |-> 0, m |-> 0, c |-> 0]
IsZero(l) == l.s = 0

(* valid positions: suffrage confirm only at INIT (NewLastPoint), genesis height   *)
(* only at round 0 (Point.IsValid)                                                 *)
Pos == {p \in [h : 0..MaxH, r : 0..MaxR, s : {INIT, ACCEPT}, m : {0, 1}, c : {0, 1}] :
           /\ (p.c = 1 => p.s = INIT)
           /\ (p.h = 0 => p.r = 0)}

VARIABLES rule,   \* which update rule this behaviour uses
          last,   \* the current position
          cand,   \* the position offered next
          step    \* output only
vars == <<rule, last, cand, step>>

---------------------------------------------------------------------------------
(* implementation level: transcription of isaac/lastpoint.go                      *)
Sign(x) == IF x > 0 THEN 1 ELSE IF x < 0 THEN -1 ELSE 0
PointCmp(a, b) == IF a.h # b.h THEN Sign(a.h - b.h) ELSE Sign(a.r - b.r)      \* base.Point.Compare
StageCmp(a, b) == Sign(a - b)                                                 \* base.Stage.Compare
SPCmp(a, b) == IF PointCmp(a, b) # 0 THEN PointCmp(a, b) ELSE StageCmp(a.s, b.s)
SamePoint(a, b) == a.h = b.h /\ a.r = b.r

BeforeSamePoint(l, p, sc) ==
  IF sc THEN l.c = 0                       \* suffrage confirm passes under same height and round
  ELSE IF l.m = 0 THEN FALSE               \* last is not majority: next round, higher stage avoided
  ELSE IF p.s = l.s THEN FALSE
  ELSE TRUE

BeforeNotSamePoint(l, p, sc) ==
  IF l.m = 1 /\ StageCmp(p.s, l.s) < 0 THEN FALSE    \* lower stage ignored when last is majority
  ELSE IF SPCmp(p, l) > 0 THEN TRUE
  ELSE IF sc /\ l.m = 0 THEN TRUE                    \* suffrage confirm of same height passes
  ELSE FALSE

Before(l, p, sc) ==
  IF IsZero(l) THEN TRUE
  ELSE IF p.h # l.h THEN p.h > l.h
  ELSE IF SamePoint(p, l) /\ StageCmp(p.s, l.s) >= 0 THEN BeforeSamePoint(l, p, sc)
  ELSE BeforeNotSamePoint(l, p, sc)

IsNewBallot(l, p, sc) == Before(l, p, sc)

IsNewVoteproofByPoint(l, p, maj, sc) ==
  \/ Before(l, p, sc)
  \/ l.m = 0 /\ maj /\ SamePoint(p, l) /\ StageCmp(p.s, l.s) >= 0

Accepts(ru, l, p) == IF ru = "B" THEN Before(l, p, p.c = 1)
                                 ELSE IsNewVoteproofByPoint(l, p, p.m = 1, p.c = 1)

---------------------------------------------------------------------------------
(* the statement, on one accepted update  l -> n  (operators shared with           *)
(* LastPointRel.tla and LastVoteproofs.tla)                                        *)
Earlier(a, b) == a.r < b.r \/ (a.r = b.r /\ a.s < b.s)          \* within one height
SameStagePointAndFlag(a, b) == a.h = b.h /\ a.r = b.r /\ a.s = b.s /\ a.c = b.c

HeightOK(l, n) == IsZero(l) \/ n.h >= l.h
BackOK(l, n)   == (~IsZero(l) /\ n.h = l.h /\ Earlier(n, l)) => (n.c = 1 /\ l.m = 0)
RetakeOK(l, n) == (~IsZero(l) /\ SameStagePointAndFlag(l, n)) => (n.m = 1 /\ l.m = 0)
StepOK(l, n)   == HeightOK(l, n) /\ BackOK(l, n) /\ RetakeOK(l, n)

---------------------------------------------------------------------------------
Out == ToJson([rule |-> rule, last |-> last, cand |-> cand,
               before |-> Before(last, cand, cand.c = 1),
               nb |-> IsNewBallot(last, cand, cand.c = 1),
               nv |-> IsNewVoteproofByPoint(last, cand, cand.m = 1, cand.c = 1),
               acc |-> Accepts(rule, last, cand)])

(* every position is reachable from Zero in one accepted update, under both rules, *)
(* so starting the exhaustive run from every pair loses and adds nothing            *)
ASSUME \A ru \in {"B", "V"}, p \in Pos : Accepts(ru, Zero, p)

Init == /\ rule \in Rules
        /\ last \in (IF Walk THEN {Zero} ELSE Pos \cup {Zero})
        /\ cand \in Pos
        /\ step = Out

(* one call of SetLastPoint / one voteproof offered: taken iff the rule accepts *)
Offer == /\ last' = IF Accepts(rule, last, cand) THEN cand ELSE last
         /\ cand' \in (IF Walk THEN Pos ELSE {cand})
         /\ rule' = rule
         /\ step' = Out'

Next == Offer
Spec == Init /\ [][Next]_vars

View == <<rule, last, cand>>

TypeOK == rule \in Rules /\ last \in Pos \cup {Zero} /\ cand \in Pos

(* statement, sentence 1: never to a lower height; earlier round/stage only to take *)
(* a suffrage-confirm result while the current position is not a majority           *)
HeightMonotone == [][Accepts(rule, last, cand) => HeightOK(last, last')]_vars
BackOnlyForSC  == [][Accepts(rule, last, cand) => BackOK(last, last')]_vars
(* sentence 3 (step-wise reading): the current position is never taken again, except *)
(* that a majority may replace a non-majority at the same stage point                *)
NoRetake       == [][Accepts(rule, last, cand) => RetakeOK(last, last')]_vars
(* sentence 2: ballots and voteproofs for lower heights are always rejected          *)
LowerRejected  == \A p \in Pos : p.h < last.h =>
                      /\ ~IsNewBallot(last, p, p.c = 1)
                      /\ ~IsNewVoteproofByPoint(last, p, p.m = 1, p.c = 1)
(* not vacuous: a backward step and a majority-replaces-non-majority step exist      *)
(* (checked as "violations" of these two in the development run, see check/props)    *)
NeverBack    == [][~(Accepts(rule, last, cand) /\ ~IsZero(last) /\ cand.h = last.h /\ Earlier(cand, last))]_vars
NeverReplace == [][~(Accepts(rule, last, cand) /\ ~IsZero(last) /\ SameStagePointAndFlag(last, cand))]_vars
=============================================================================
