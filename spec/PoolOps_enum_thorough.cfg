SPECIFICATION Spec
CONSTANTS
  Fact = {"A", "B"}
  Signer = {1, 2}
  MaxAdd = 4
  MaxReSet = 0
  MaxCalls = 2
  Limits = {1, 2, 5}
  MaxRej = 1
  Impl = "fixed"
  Sym = TRUE
  NCallers = 0
  Removal = "skip"
  MaxTwice = 0
  SetRace = "unlocked"
  Pick = 0
  Emit = "terminal"
INVARIANTS TypeOK Gone R0ok R1ok R2ok R3ok R4ok R6ok
CHECK_DEADLOCK FALSE
