SPECIFICATION Spec
CONSTANTS
  Node = {"n1", "n2", "n3"}
  Byz = {"n3"}
  Down = {}
  Active = {"n1"}
  Suspects = {}
  PreSigned = FALSE
  Fallback = FALSE
  T10 = 670
  MaxRound = 0
  MaxExpel = 1
INVARIANTS EmittedExpelsSigned
CONSTRAINT QueueBound
CHECK_DEADLOCK FALSE
