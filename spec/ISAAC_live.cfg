SPECIFICATION FairSpec
CONSTANTS
  Node = {"n1", "n2"}
  Byz = {}
  T10 = 670
  MaxHeight = 1
  MaxRound = 0
INVARIANTS TypeOK ChainAgreement
PROPERTIES Progress
CHECK_DEADLOCK FALSE
