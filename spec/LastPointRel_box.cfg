SPECIFICATION SpecBox
CONSTANTS
  MaxH = 9
  MaxR = 9
  MaxSteps = 6
INVARIANT BoxChecked
CHECK_DEADLOCK FALSE
