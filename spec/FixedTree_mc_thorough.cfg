SPECIFICATION Spec
CONSTANTS
  MaxSize = 15
  Compute = TRUE
  Walk = FALSE
INVARIANTS TypeOK BuiltTreeValid TreeMutationSeen RootCommitsToKeys ProofVerifies LayoutOK UndetectedAreNonPathKeys
CHECK_DEADLOCK FALSE
