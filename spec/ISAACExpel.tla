----------------------------- MODULE ISAACExpel -----------------------------
(***************************************************************************)
(* ISAAC.tla grown by EXPELS and SUFFRAGE CONFIRM: the composed consensus  *)
(* specification of spikeekips/mitum for one height in which members can   *)
(* be voted out while the height is being decided.  Copy-and-extend of     *)
(* ISAAC.tla (version 2): the same actions (MakeProposal, SendINIT,        *)
(* Receive, Count, Handle) with                                            *)
(*   SignExpel     a member signs the expel operation of another member it *)
(*                 does not hear from (ballot stuck resolver:              *)
(*                 VoteSuffrageVotingFunc -> SuffrageVoting.Vote; the      *)
(*                 operation is gossiped and the signatures are merged)    *)
(*   SendINIT      attaches the expel operations SuffrageVoting.Find gives *)
(*                 (findExpelCombinations: every operation signed by       *)
(*                 FindTh(k) members that are not expelled themselves);    *)
(*                 the fact names the expelled members (expel facts)       *)
(*   Count         Ballotbox.countFromVoted: first countWithExpels - for   *)
(*                 every expel set X some accepted ballot carries, the     *)
(*                 votes of the members outside X are tallied with the     *)
(*                 threshold t over the FULL suffrage (or 100 % over N-k   *)
(*                 when k > N - Req67(N)) and an EXPEL voteproof is        *)
(*                 emitted - then the plain tally                          *)
(*   Handle        INIT expel voteproof whose majority is an ordinary INIT *)
(*                 fact -> suffrage-confirm INIT ballot carrying that      *)
(*                 voteproof (prepareSuffrageConfirmBallot); suffrage-     *)
(*                 confirm majority -> process the proposal, ACCEPT ballot *)
(*                 naming the same expels; ACCEPT (expel) majority -> save *)
(*   Receive       the voteproof a ballot carries is taken only if the     *)
(*                 receiving box's validation accepts it (ValidVP =        *)
(*                 Agreement!Accepted: every expel signed by SignTh(k)     *)
(*                 members, voters outside the expelled set, recount at    *)
(*                 100 % over the N-k remaining members, the majority fact *)
(*                 names exactly the voteproof's expels)                   *)
(* Positions carry the suffrage-confirm flag; Before / IsNewVoteproof are  *)
(* the transcription of isaac/lastpoint.go (LastPoint.tla, C06).           *)
(*                                                                         *)
(* Properties that must hold: NoHonestEquivocation, LastMonotone and       *)
(* BoxLastMonotone (a position moves back inside a height only to a        *)
(* suffrage-confirm result while it is not a majority), SavedOnlyAgreed,   *)
(* AgreementWithinF / ChainAgreementWithinF (agreement as long as no       *)
(* voteproof expels more than F members).                                  *)
(* Candidate properties that are EXPECTED TO FAIL on this model, because   *)
(* the code has the recorded defects (known_findings: C03, C04):           *)
(*   AgreementAnyExpel, ChainAgreementAnyExpel                             *)
(*       C03 expel-voteproof;k>f : a minority can expel the rest           *)
(*   EmittedRecountAccepted                                                *)
(*       C04 expel-vp;tally(t,n)!=tally(100,n-k)                           *)
(*   EmittedExpelsMatchFact                                                *)
(*       C04 expel-vp;majority-fact-expels!=voteproof-expels               *)
(*   EmittedExpelsSigned   (the box does not count the signatures of the   *)
(*       expels a ballot carries; only a Byzantine member attaches an      *)
(*       under-signed expel)                                               *)
(* Abstractions: one height (the next block with the reduced suffrage is   *)
(* not modelled), no syncing, no stuck voteproofs (the stuck resolver only *)
(* signs expels), the pool of expel signatures is global (gossip delay =   *)
(* a node may attach fewer expels than it could), any conclusive expel set *)
(* may be emitted (the code takes the largest first), the hold of an INIT  *)
(* draw while expels are pending (countAfter) is not timed.                *)
(* Bound to the code by ISAACExpelTrace.tla (scenario family x of          *)
(* harness/internal/isaacnet).                                             *)
(***************************************************************************)
EXTENDS Integers, FiniteSets, Sequences, TLC

CONSTANTS Node,        \* suffrage of the height
          Byz,         \* Byzantine members
          Down,        \* honest members that are cut off: they neither send nor receive
          Active,      \* honest members whose ballot box and handler are modelled (the others only send INIT round 0)
          Suspects,    \* members an honest member may (wrongly: timeouts) sign the expel of, besides the Down ones
          PreSigned,   \* TRUE: every expel operation of a Down / suspected member already carries the signatures of
                       \* all other live members (the adversarial extreme, Agreement.tla family "all"); no SignExpel steps
          Fallback,    \* TRUE: fallback proposals are possible (the proposer does not answer in time)
          T10,         \* threshold * 10
          MaxRound,
          MaxExpel     \* bound on the number of members one ballot expels

Honest == Node \ Byz
Live == Honest \ Down
N == Cardinality(Node)
Req(n, tt) == (n * tt + 999) \div 1000
Th == Req(N, T10)
Th67 == Req(N, 670)                         \* base.DefaultThreshold, used by SuffrageVoting and countWithExpels
F == (N * 1000 - N * T10) \div 1000

H == 1                                       \* the height being decided
Genesis == <<0>>
NotProcessed == <<-1>>
Round == 0..MaxRound
NodeSeq == CHOOSE s \in [1..N -> Node] : \A a, b \in 1..N : a # b => s[a] # s[b]
Idx(n) == CHOOSE k \in 1..N : NodeSeq[k] = n
Proposer(r) == NodeSeq[((H + r) % N) + 1]
FallbackV(n) == 10 + Idx(n)
Blk(prop, prev) == <<prop[1], prop[2], prop[3], prev>>

INIT == "INIT"
ACCEPT == "ACCEPT"

(* thresholds of the expel machinery *)
FindTh(k) == IF k > N - Th67 THEN N - k ELSE Th67        \* SuffrageVoting.findExpelCombinations
SignTh(k) == IF k > N - Th THEN N - k ELSE Th            \* NewSuffrageWithExpels (validation)
BoxSwitch(k) == k > N - Th67                             \* countWithExpels: 100 % over N-k instead of t over N

GenesisVP == [h |-> 0, r |-> 0, s |-> ACCEPT, sc |-> FALSE, res |-> "MAJORITY", f |-> <<<<0, 0, 0>>, Genesis, {}>>,
              ex |-> {}, votes |-> {}]

VARIABLES
  sig,      \* sig[e]: members that signed the expel operation of e (merged SuffrageExpelOperation)
  msgs,     \* ballots [n, h, r, s, sc, f, ex, vp]: sc = suffrage-confirm ballot; f = <<prev, prop, X>> (INIT, sc)
            \* or <<prop, blk, X>> (ACCEPT), X = the expel facts the fact names; ex = the expels the ballot carries
  props, box, blast, vpq, last, chain, proc,
  vps,      \* every voteproof a box emitted from its own count [h, r, s, sc, res, f, ex, votes]
  rej       \* voteproofs some box refused to take from a ballot (validation failed)
vars == <<sig, msgs, props, box, blast, vpq, last, chain, proc, vps, rej>>

HeadOf(i) == IF Len(chain[i]) = 0 THEN Genesis ELSE chain[i][Len(chain[i])]
Zero == [h |-> 0, r |-> 0, s |-> ACCEPT, maj |-> TRUE, c |-> FALSE]

-----------------------------------------------------------------------------
(* isaac/lastpoint.go (transcription, as LastPoint.tla) *)
StageOrd(s) == IF s = INIT THEN 0 ELSE 1
PointCmp(h, r, p) == IF h # p.h THEN (IF h > p.h THEN 1 ELSE -1) ELSE IF r > p.r THEN 1 ELSE IF r < p.r THEN -1 ELSE 0
SPCmp(h, r, s, p) == IF PointCmp(h, r, p) # 0 THEN PointCmp(h, r, p)
                     ELSE IF StageOrd(s) > StageOrd(p.s) THEN 1 ELSE IF StageOrd(s) < StageOrd(p.s) THEN -1 ELSE 0
BeforeSame(p, s, sc) == IF sc THEN ~p.c ELSE IF ~p.maj THEN FALSE ELSE IF s = p.s THEN FALSE ELSE TRUE
BeforeNotSame(p, h, r, s, sc) == IF p.maj /\ StageOrd(s) < StageOrd(p.s) THEN FALSE
                                 ELSE IF SPCmp(h, r, s, p) > 0 THEN TRUE
                                 ELSE IF sc /\ ~p.maj THEN TRUE ELSE FALSE
Before(p, h, r, s, sc) ==
  IF h # p.h THEN h > p.h
  ELSE IF h = p.h /\ r = p.r /\ StageOrd(s) >= StageOrd(p.s) THEN BeforeSame(p, s, sc)
  ELSE BeforeNotSame(p, h, r, s, sc)
NewBallotAt(p, m) == Before(p, m.h, m.r, m.s, m.sc)
NewVPAt(p, vp) == \/ Before(p, vp.h, vp.r, vp.s, vp.sc)
                  \/ ~p.maj /\ vp.res = "MAJORITY" /\ vp.h = p.h /\ vp.r = p.r /\ StageOrd(vp.s) >= StageOrd(p.s)
                  \/ vp.sc /\ ~p.maj                      \* isNewVoteproofWithSuffrageConfirmFunc
PointOf(vp) == [h |-> vp.h, r |-> vp.r, s |-> vp.s, maj |-> vp.res = "MAJORITY", c |-> vp.sc]

Init == /\ sig = [e \in Node |-> IF PreSigned /\ e \in Down \cup Suspects THEN Live \ {e} ELSE {}]
        /\ msgs = {} /\ props = {}
        /\ box = [i \in Node |-> {}]
        /\ blast = [i \in Node |-> Zero]
        /\ vpq = [i \in Node |-> <<>>]
        /\ last = [i \in Node |-> Zero]
        /\ chain = [i \in Node |-> <<>>]
        /\ proc = [i \in Node |-> <<>>]
        /\ vps = {} /\ rej = {}

-----------------------------------------------------------------------------
UNCH_net == UNCHANGED <<box, blast, vpq, last, chain, proc, vps, rej>>

MakeProposal(n, r, v) ==
  /\ Proposer(r) = n /\ n \notin Down
  /\ v \in {0, 1} /\ (n \in Honest => v = 0)
  /\ <<H, r, v>> \notin props
  /\ props' = props \cup {<<H, r, v>>}
  /\ UNCHANGED <<sig, msgs>> /\ UNCH_net
MakeFallbackProposal(n, r) ==
  /\ Fallback
  /\ n \in Live /\ Proposer(r) # n
  /\ <<H, r, FallbackV(n)>> \notin props
  /\ props' = props \cup {<<H, r, FallbackV(n)>>}
  /\ UNCHANGED <<sig, msgs>> /\ UNCH_net

(* the stuck resolver of i signs the expel of a member it does not hear from *)
SignExpel(i, e) ==
  /\ ~PreSigned
  /\ i \in Live /\ e # i /\ i \notin sig[e]
  /\ e \in Down \cup Suspects
  /\ sig' = [sig EXCEPT ![e] = @ \cup {i}]
  /\ UNCHANGED <<msgs, props>> /\ UNCH_net
ByzSignExpel(b, e) ==
  /\ b \in Byz /\ e # b /\ b \notin sig[e]
  /\ sig' = [sig EXCEPT ![e] = @ \cup {b}]
  /\ UNCHANGED <<msgs, props>> /\ UNCH_net

(* SuffrageVoting.Find: expel sets whose operations are signed by enough members outside the set *)
Findable(i) == {X \in SUBSET (Node \ {i}) :
                  /\ Cardinality(X) <= MaxExpel
                  /\ \A e \in X : Cardinality(sig[e] \ X) >= FindTh(Cardinality(X))}

Sent(n, r, s, sc) == {m \in msgs : m.n = n /\ m.r = r /\ m.s = s /\ m.sc = sc}
VPAt(p) == IF p = Zero THEN {GenesisVP}
           ELSE {vp \in vps : vp.h = p.h /\ vp.r = p.r /\ vp.s = p.s /\ (vp.res = "MAJORITY") = p.maj /\ vp.sc = p.c}

SendINIT(i, r, prop, X) ==
  /\ i \in Live
  /\ Sent(i, r, INIT, FALSE) = {}
  /\ Len(chain[i]) = 0
  /\ prop \in props /\ prop[2] = r
  /\ X \in Findable(i)
  /\ \/ r = 0 /\ last[i] = Zero
     \/ r > 0 /\ last[i].h = H /\ last[i].r = r - 1 /\ ~last[i].maj
  /\ i \notin Active => r = 0
  /\ \E vp \in VPAt(last[i]) :
       msgs' = msgs \cup {[n |-> i, h |-> H, r |-> r, s |-> INIT, sc |-> FALSE, f |-> <<Genesis, prop, X>>, ex |-> X, vp |-> vp]}
  /\ UNCHANGED <<sig, props>> /\ UNCH_net

(* a Byzantine member broadcasts any ballot; the expels it attaches need one signature only (its own) *)
SendByz(b, r, s, sc, f, X, vp) ==
  /\ b \in Byz
  /\ \A e \in X : sig[e] # {}
  /\ LET m == [n |-> b, h |-> H, r |-> r, s |-> s, sc |-> sc, f |-> f, ex |-> X, vp |-> vp] IN
     /\ m \notin msgs
     /\ msgs' = msgs \cup {m}
  /\ UNCHANGED <<sig, props>> /\ UNCH_net
ByzFacts(r, s) ==
  LET ps == {p \in props : p[2] = r}
      xs == {X \in SUBSET Node : Cardinality(X) <= MaxExpel}
  IN IF s = INIT THEN {<<Genesis, p, X>> : p \in ps, X \in xs}
     ELSE {<<p, Blk(p, Genesis), X>> : p \in ps, X \in xs}

-----------------------------------------------------------------------------
(* tallies *)
FactsOf(V) == {m.f : m \in V}
CountOf(V, f) == Cardinality({m \in V : m.f = f})
MajAt(V, need) == {f \in FactsOf(V) : CountOf(V, f) >= need}
DrawAt(V, q, need) == /\ V # {} /\ MajAt(V, need) = {}
                      /\ \A f \in FactsOf(V) : CountOf(V, f) + (q - Cardinality(V)) < need
                      /\ q - Cardinality(V) < need
VotesOf(V) == {<<m.n, m.f>> : m \in V}

(* what the validation of a receiving node says (Agreement!Accepted, votes = {<<node, fact>>}) *)
VCount(vp, f) == Cardinality({v \in vp.votes : v[2] = f})
VFacts(vp) == {v[2] : v \in vp.votes}
RecountOK(vp) ==
  LET k == Cardinality(vp.ex)
      q == N - k
      need == IF k > 0 THEN q ELSE Th
      nv == Cardinality(vp.votes)
  IN IF vp.res = "MAJORITY" THEN VCount(vp, vp.f) >= need
     ELSE /\ \A f \in VFacts(vp) : VCount(vp, f) < need /\ VCount(vp, f) + (q - nv) < need
          /\ q - nv < need
ExpelsSigned(vp) == \A e \in vp.ex : Cardinality(sig[e] \ {e}) >= SignTh(Cardinality(vp.ex))
ExpelsMatchFact(vp) == vp.res = "MAJORITY" => vp.f[3] = vp.ex
VotersOutside(vp) == \A v \in vp.votes : v[1] \notin vp.ex
ValidVP(vp) == /\ Cardinality(vp.ex) < N /\ VotersOutside(vp) /\ ExpelsSigned(vp) /\ ExpelsMatchFact(vp) /\ RecountOK(vp)

(* Ballotbox.Vote *)
Receive(i, m) ==
  /\ i \in Active /\ i \in Live /\ m \in msgs /\ m.n \notin Down
  /\ i \notin m.ex /\ i \notin m.vp.ex                       \* checkBallot: local is in the expels
  /\ NewBallotAt(blast[i], m)
  /\ ~\E x \in box[i] : x.n = m.n /\ x.r = m.r /\ x.s = m.s /\ x.sc = m.sc
  /\ box' = [box EXCEPT ![i] = @ \cup {m}]
  /\ IF NewVPAt(blast[i], m.vp) /\ m.vp # GenesisVP
     THEN IF ValidVP(m.vp)
          THEN /\ blast' = [blast EXCEPT ![i] = PointOf(m.vp)]
               /\ vpq' = [vpq EXCEPT ![i] = Append(@, m.vp)]
               /\ UNCHANGED rej
          ELSE /\ rej' = rej \cup {m.vp} /\ UNCHANGED <<blast, vpq>>
     ELSE UNCHANGED <<blast, vpq, rej>>
  /\ UNCHANGED <<sig, msgs, props, last, chain, proc, vps>>

Votes(i, r, s, sc) == {m \in box[i] : m.r = r /\ m.s = s /\ m.sc = sc}

Emit(i, vp) ==
  /\ NewVPAt(blast[i], vp)
  /\ vps' = vps \cup {vp}
  /\ blast' = [blast EXCEPT ![i] = PointOf(vp)]
  /\ vpq' = [vpq EXCEPT ![i] = Append(@, vp)]

(* countWithExpels: an expel set X some ballot of the record carries (not naming the local node) *)
ExpelSets(i, V) == {m.ex : m \in V} \ ({{}} \cup {X \in SUBSET Node : i \in X})
CountExpel(i, r, s, sc, X) ==
  LET V == Votes(i, r, s, sc)
      W == {m \in V : m.n \notin X}
      k == Cardinality(X)
      q == IF BoxSwitch(k) THEN N - k ELSE N
      need == IF BoxSwitch(k) THEN N - k ELSE Th
  IN /\ X \in ExpelSets(i, V)
     /\ Cardinality(W) >= need
     /\ \/ \E f \in MajAt(W, need) :
             Emit(i, [h |-> H, r |-> r, s |-> s, sc |-> sc, res |-> "MAJORITY", f |-> f, ex |-> X, votes |-> VotesOf(W)])
        \/ /\ DrawAt(W, q, need)
           /\ Emit(i, [h |-> H, r |-> r, s |-> s, sc |-> sc, res |-> "DRAW", f |-> <<>>, ex |-> X, votes |-> VotesOf(W)])
ExpelConclusive(i, r, s, sc, X) ==
  LET V == Votes(i, r, s, sc)
      W == {m \in V : m.n \notin X}
      k == Cardinality(X)
      q == IF BoxSwitch(k) THEN N - k ELSE N
      need == IF BoxSwitch(k) THEN N - k ELSE Th
  IN Cardinality(W) >= need /\ (MajAt(W, need) # {} \/ DrawAt(W, q, need))
CountPlain(i, r, s, sc) ==
  LET V == Votes(i, r, s, sc) IN
  /\ ~\E X \in ExpelSets(i, V) : ExpelConclusive(i, r, s, sc, X)
  /\ \/ \E f \in MajAt(V, Th) :
          Emit(i, [h |-> H, r |-> r, s |-> s, sc |-> sc, res |-> "MAJORITY", f |-> f, ex |-> {}, votes |-> VotesOf(V)])
     \/ /\ DrawAt(V, N, Th)
        /\ Emit(i, [h |-> H, r |-> r, s |-> s, sc |-> sc, res |-> "DRAW", f |-> <<>>, ex |-> {}, votes |-> VotesOf(V)])
Count(i, r, s, sc) ==
  /\ i \in Active /\ i \in Live
  /\ \/ \E X \in SUBSET Node : CountExpel(i, r, s, sc, X)
     \/ CountPlain(i, r, s, sc)
  /\ UNCHANGED <<sig, msgs, props, box, last, chain, proc, rej>>

-----------------------------------------------------------------------------
React(i, vp, ok) ==
  LET r == vp.r IN
  /\ last' = [last EXCEPT ![i] = PointOf(vp)]
  /\ IF vp.res # "MAJORITY" THEN UNCHANGED <<msgs, chain, proc>>          \* nextRound
     ELSE IF vp.s = INIT THEN
          IF Len(chain[i]) > 0 THEN UNCHANGED <<msgs, chain, proc>>
          ELSE IF vp.ex # {} /\ ~vp.sc
          THEN \* checkSuffrageVoting: suffrage-confirm ballot carrying the expel voteproof
               /\ msgs' = IF Sent(i, r, INIT, TRUE) = {}
                          THEN msgs \cup {[n |-> i, h |-> H, r |-> r, s |-> INIT, sc |-> TRUE, f |-> vp.f, ex |-> vp.ex, vp |-> vp]}
                          ELSE msgs
               /\ UNCHANGED <<chain, proc>>
          ELSE IF ok THEN
               LET blk == Blk(vp.f[2], vp.f[1]) IN
               /\ proc' = [proc EXCEPT ![i] = [r |-> r, prop |-> vp.f[2], blk |-> blk]]
               /\ msgs' = IF Sent(i, r, ACCEPT, FALSE) = {}
                          THEN msgs \cup {[n |-> i, h |-> H, r |-> r, s |-> ACCEPT, sc |-> FALSE,
                                           f |-> <<vp.f[2], blk, vp.ex>>, ex |-> vp.ex, vp |-> vp]}
                          ELSE msgs
               /\ UNCHANGED chain
          ELSE /\ msgs' = IF Sent(i, r, ACCEPT, FALSE) = {}
                          THEN msgs \cup {[n |-> i, h |-> H, r |-> r, s |-> ACCEPT, sc |-> FALSE,
                                           f |-> <<vp.f[2], NotProcessed, vp.ex>>, ex |-> vp.ex, vp |-> vp]}
                          ELSE msgs
               /\ UNCHANGED <<chain, proc>>
     ELSE IF /\ Len(chain[i]) = 0
             /\ proc[i] # <<>> /\ proc[i].prop = vp.f[1] /\ proc[i].blk = vp.f[2]
          THEN /\ chain' = [chain EXCEPT ![i] = Append(@, vp.f[2])]
               /\ proc' = [proc EXCEPT ![i] = <<>>]
               /\ UNCHANGED msgs
          ELSE UNCHANGED <<msgs, chain, proc>>                           \* would move to syncing (not modelled)

Handle(i, ok) ==
  /\ i \in Active /\ i \in Live /\ vpq[i] # <<>>
  /\ vpq' = [vpq EXCEPT ![i] = Tail(@)]
  /\ LET vp == vpq[i][1] IN
     IF NewVPAt(last[i], vp) THEN React(i, vp, ok)
     ELSE ok /\ UNCHANGED <<msgs, last, chain, proc>>
  /\ UNCHANGED <<sig, props, box, blast, vps, rej>>

Next ==
  \/ \E n \in Node, r \in Round, v \in {0, 1} : MakeProposal(n, r, v)
  \/ \E n \in Live, r \in Round : MakeFallbackProposal(n, r)
  \/ \E i \in Live, e \in Node : SignExpel(i, e)
  \/ \E b \in Byz, e \in Node : ByzSignExpel(b, e)
  \/ \E i \in Live, r \in Round, p \in props, X \in SUBSET Node : SendINIT(i, r, p, X)
  \/ \E b \in Byz, r \in Round, s \in {INIT, ACCEPT}, sc \in BOOLEAN, X \in SUBSET Node :
        /\ Cardinality(X) <= MaxExpel /\ (sc => s = INIT)
        /\ \E f \in ByzFacts(r, s), vp \in vps \cup {GenesisVP} : SendByz(b, r, s, sc, f, X, vp)
  \/ \E i \in Active : \E m \in msgs : Receive(i, m)
  \/ \E i \in Active, r \in Round, s \in {INIT, ACCEPT}, sc \in BOOLEAN : (sc => s = INIT) /\ Count(i, r, s, sc)
  \/ \E i \in Active, ok \in BOOLEAN : Handle(i, ok)
Spec == Init /\ [][Next]_vars

-----------------------------------------------------------------------------
TypeOK == /\ \A m \in msgs : m.n \in Node /\ m.r \in Round /\ m.s \in {INIT, ACCEPT} /\ m.ex \subseteq Node
          /\ \A i \in Node : Len(chain[i]) <= 1

NoHonestEquivocation ==
  \A a, b \in msgs : (a.n \in Honest /\ a.n = b.n /\ a.r = b.r /\ a.s = b.s /\ a.sc = b.sc) => a.f = b.f

Known == vps                              \* voteproofs nodes act on: emitted by a box from its own count
SameStage(a, b) == a.r = b.r /\ a.s = b.s /\ a.sc = b.sc /\ a.res = "MAJORITY" /\ b.res = "MAJORITY"
(* proposal and block agreed, whatever expels the facts name *)
Core(vp) == IF vp.s = INIT THEN <<vp.f[1], vp.f[2]>> ELSE <<vp.f[1], vp.f[2]>>
WithinF == \A vp \in Known : Cardinality(vp.ex) <= F

(* must hold: agreement as long as no voteproof expels more than F members *)
AgreementWithinF ==
  (Cardinality(Byz) <= F /\ WithinF) => \A a, b \in Known : SameStage(a, b) => Core(a) = Core(b)
ChainAgreementWithinF ==
  (Cardinality(Byz) <= F /\ WithinF) =>
     \A i, j \in Honest : (Len(chain[i]) = 1 /\ Len(chain[j]) = 1) => chain[i][1] = chain[j][1]
SavedOnlyAgreed ==
  \A i \in Honest : Len(chain[i]) = 1 =>
     \E vp \in Known : vp.s = ACCEPT /\ vp.res = "MAJORITY" /\ vp.f[2] = chain[i][1]

(* C06 with suffrage confirm: inside a height a position moves to an earlier round or stage only to take a *)
(* suffrage-confirm result while the current position is not a majority                                     *)
After(q, p) == \/ q.h > p.h \/ (q.h = p.h /\ q.r > p.r) \/ (q.h = p.h /\ q.r = p.r /\ StageOrd(q.s) > StageOrd(p.s))
Forward(p, q) == \/ q = p \/ After(q, p)
                 \/ q.h = p.h /\ q.r = p.r /\ q.s = p.s /\ ~p.maj /\ q.maj
                 \/ q.h = p.h /\ q.r = p.r /\ q.s = p.s /\ q.c /\ ~p.c            \* suffrage confirm of the same point
                 \/ q.h = p.h /\ q.c /\ ~p.maj                                    \* the step back C06 allows
LastMonotone == [][\A i \in Honest : Forward(last[i], last'[i]) /\ Len(chain'[i]) >= Len(chain[i])]_vars
BoxLastMonotone == [][\A i \in Honest : Forward(blast[i], blast'[i])]_vars

(* ---- candidate properties, expected to FAIL (known findings) ---- *)
(* C03 expel-voteproof;k>f *)
AgreementAnyExpel ==
  Cardinality(Byz) <= F => \A a, b \in Known : SameStage(a, b) => Core(a) = Core(b)
ChainAgreementAnyExpel ==
  Cardinality(Byz) <= F =>
     \A i, j \in Honest : (Len(chain[i]) = 1 /\ Len(chain[j]) = 1) => chain[i][1] = chain[j][1]
(* C04: what a box emits is what the others' validation accepts *)
EmittedRecountAccepted == \A vp \in vps : (VotersOutside(vp) /\ ExpelsMatchFact(vp)) => RecountOK(vp)
EmittedExpelsMatchFact == \A vp \in vps : ExpelsMatchFact(vp)
EmittedExpelsSigned == \A vp \in vps : ExpelsSigned(vp)

(* bound for exhaustive runs *)
QueueBound == \A i \in Node : Len(vpq[i]) <= 6
=============================================================================
