------------------------------ MODULE ConnPool ------------------------------
(* quicstream.ConnectionPool (network/quicstream/client.go) on util.LockedMap (util/lock.go).
   One action per critical section of the code:
     Dial      = LockedMap.Set(addr, f): f runs UNDER the map (shard) lock; it reuses `old` when old.Context().Err()==nil,
                 otherwise it runs the dial function inside the lock (DialBegin .. DialNewOk/DialNewFail)
     Close     = LockedMap.Remove(addr, close)          (one critical section)
     CloseAll  = Traverse (collect keys) ; then one Remove per key (several critical sections)
     Stream    = call on the wrapper handed out by Dial; a serious error calls onerror = Remove(ADDRESS of the handle, close)
     clean     = Traverse ; per key Remove only if the stored context is done (no Close)
     Break     = the outside kills a connection (its context becomes done)
     Stop      = cancels the ticker goroutine only
   The map lock is modelled as ONE lock (size-1 map; with a sharded map two addresses may or may not share it).
   Binding A (Concurrent=FALSE): every call sequence of length MaxCalls is written to `step` with the expected reply and the
   projected state after every call; harness/internal/connpool replays it on the real pool with a stub dial function.
   Concurrent=TRUE: NT caller threads, calls interleave at the critical sections; P1-P3 are checked on it.
   ByIdentity=TRUE is the proposed repair of onerror (remove only if the stored connection IS the one the handle wraps). *)
EXTENDS Integers, Sequences, FiniteSets, TLC, Json

CONSTANTS NA, MaxConn, MaxCalls, NT, Concurrent, ByIdentity, MaxHandles

Addr == 1..NA
Conn == 1..MaxConn
T    == 1..NT

VARIABLES stored,   \* Addr -> 0 | Conn           what the map holds
          nconn,    \* connections created so far (ids 1..nconn, in creation order)
          caddr,    \* Conn -> address it was dialled for (0 = not created)
          closed,   \* Conn -> the pool called Close() on it
          broken,   \* Conn -> its context was ended from outside
          handles,  \* sequence of [addr, conn]: wrappers returned by Dial
          lock,     \* 0 | thread holding the map lock inside Set (running the dial function)
          pc, targ, \* per thread: "idle" | "dialing", address being dialled
          caOn, caKeys, clOn, clKeys,   \* CloseAll / clean between Traverse and the last Remove
          stopped, ncalls, ndials,
          last,     \* record describing the call that just returned (judged by P2..P4)
          hist, step

vars == <<stored, nconn, caddr, closed, broken, handles, lock, pc, targ, caOn, caKeys, clOn, clKeys, stopped, ncalls, ndials, last, hist, step>>

Done(c)  == closed[c] \/ broken[c]
Live(a)  == stored[a] # 0 /\ ~Done(stored[a])
MinOf(S) == CHOOSE x \in S : \A y \in S : x <= y
Tau      == [a |-> "tau"]
Quiet    == lock = 0 /\ (Concurrent \/ (~caOn /\ ~clOn))
CanCall  == ncalls < MaxCalls

Entry(a, ad, x, ret) ==
  [a |-> a, addr |-> ad, x |-> x, ret |-> ret,
   live |-> [k \in Addr |-> IF stored'[k] # 0 /\ ~closed'[stored'[k]] /\ ~broken'[stored'[k]] THEN stored'[k] ELSE 0],
   closed |-> [c \in Conn |-> IF closed'[c] THEN 1 ELSE 0],
   nd |-> ndials']

Log(e) == /\ hist' = IF Concurrent THEN hist ELSE Append(hist, e)
          /\ step' = IF ~Concurrent /\ Len(hist') = MaxCalls THEN ToJson(hist') ELSE ""
NoLog  == UNCHANGED hist /\ step' = ""

Init == /\ stored = [a \in Addr |-> 0] /\ nconn = 0 /\ caddr = [c \in Conn |-> 0]
        /\ closed = [c \in Conn |-> FALSE] /\ broken = [c \in Conn |-> FALSE]
        /\ handles = <<>> /\ lock = 0 /\ pc = [t \in T |-> "idle"] /\ targ = [t \in T |-> 0]
        /\ caOn = FALSE /\ caKeys = {} /\ clOn = FALSE /\ clKeys = {}
        /\ stopped = FALSE /\ ncalls = 0 /\ ndials = 0 /\ last = Tau /\ hist = <<>> /\ step = ""

(* ---- Dial ---- *)
DialReuse(t, a) ==
  /\ CanCall /\ Quiet /\ pc[t] = "idle" /\ Live(a) /\ Len(handles) < MaxHandles
  /\ handles' = Append(handles, [addr |-> a, conn |-> stored[a]])
  /\ ncalls' = ncalls + 1
  /\ last' = [a |-> "Dial", addr |-> a, ret |-> stored[a], pre |-> stored[a], fresh |-> FALSE]
  /\ UNCHANGED <<stored, nconn, caddr, closed, broken, lock, pc, targ, caOn, caKeys, clOn, clKeys, stopped, ndials>>
  /\ Log(Entry("Dial", a, 1, stored[a]))

DialBegin(t, a) ==
  /\ CanCall /\ Quiet /\ pc[t] = "idle" /\ ~Live(a)
  /\ lock' = t /\ pc' = [pc EXCEPT ![t] = "dialing"] /\ targ' = [targ EXCEPT ![t] = a]
  /\ ncalls' = ncalls + 1 /\ ndials' = ndials + 1 /\ last' = Tau
  /\ UNCHANGED <<stored, nconn, caddr, closed, broken, handles, caOn, caKeys, clOn, clKeys, stopped>>
  /\ NoLog

DialNewOk(t) ==
  /\ pc[t] = "dialing" /\ lock = t /\ nconn < MaxConn /\ Len(handles) < MaxHandles
  /\ LET a == targ[t]  c == nconn + 1 IN
     /\ nconn' = c /\ caddr' = [caddr EXCEPT ![c] = a]
     /\ stored' = [stored EXCEPT ![a] = c]          \* the old entry (context done) is dropped WITHOUT Close
     /\ handles' = Append(handles, [addr |-> a, conn |-> c])
     /\ last' = [a |-> "Dial", addr |-> a, ret |-> c, pre |-> stored[a], fresh |-> TRUE]
     /\ lock' = 0 /\ pc' = [pc EXCEPT ![t] = "idle"]
     /\ UNCHANGED <<closed, broken, targ, caOn, caKeys, clOn, clKeys, stopped, ncalls, ndials>>
     /\ Log(Entry("Dial", a, 1, c))

DialNewFail(t) ==
  /\ pc[t] = "dialing" /\ lock = t
  /\ LET a == targ[t] IN
     /\ last' = [a |-> "Dial", addr |-> a, ret |-> 0, pre |-> stored[a], fresh |-> FALSE]
     /\ lock' = 0 /\ pc' = [pc EXCEPT ![t] = "idle"]
     /\ UNCHANGED <<stored, nconn, caddr, closed, broken, handles, targ, caOn, caKeys, clOn, clKeys, stopped, ncalls, ndials>>
     /\ Log(Entry("Dial", a, 0, 0))

(* ---- Close: Remove(addr, f); f = conn.Close() (harness connections never fail to close) ---- *)
Close(a) ==
  /\ CanCall /\ Quiet
  /\ LET c == stored[a] IN
     /\ closed' = IF c # 0 THEN [closed EXCEPT ![c] = TRUE] ELSE closed
     /\ stored' = [stored EXCEPT ![a] = 0]
     /\ ncalls' = ncalls + 1
     /\ last' = [a |-> "Close", addr |-> a, victims |-> IF c = 0 THEN {} ELSE {c}]
     /\ UNCHANGED <<nconn, caddr, broken, handles, lock, pc, targ, caOn, caKeys, clOn, clKeys, stopped, ndials>>
     /\ Log(Entry("Close", a, 0, IF c # 0 THEN 1 ELSE 0))

(* ---- CloseAll ---- *)
CloseAllBegin ==
  /\ CanCall /\ Quiet /\ ~caOn
  /\ LET ks == {a \in Addr : stored[a] # 0} IN
     /\ caKeys' = ks /\ caOn' = (ks # {})
     /\ ncalls' = ncalls + 1
     /\ last' = IF ks = {} THEN [a |-> "CloseAll", victims |-> {}] ELSE [a |-> "tau", victims |-> {}]
     /\ UNCHANGED <<stored, nconn, caddr, closed, broken, handles, lock, pc, targ, clOn, clKeys, stopped, ndials>>
     /\ IF ks = {} THEN Log(Entry("CloseAll", 0, 0, 0)) ELSE NoLog

CloseAllStep(a) ==
  /\ caOn /\ a \in caKeys /\ lock = 0 /\ (Concurrent \/ a = MinOf(caKeys))
  /\ LET c == stored[a]
         v == (IF "victims" \in DOMAIN last THEN last.victims ELSE {}) \cup (IF c = 0 THEN {} ELSE {c}) IN
     /\ closed' = IF c # 0 THEN [closed EXCEPT ![c] = TRUE] ELSE closed
     /\ stored' = [stored EXCEPT ![a] = 0]
     /\ caKeys' = caKeys \ {a} /\ caOn' = (caKeys' # {})
     /\ last' = IF caKeys' = {} THEN [a |-> "CloseAll", victims |-> v] ELSE [a |-> "tau", victims |-> v]
     /\ UNCHANGED <<nconn, caddr, broken, handles, lock, pc, targ, clOn, clKeys, stopped, ncalls, ndials>>
     /\ IF caKeys' = {} THEN Log(Entry("CloseAll", 0, 0, 0)) ELSE NoLog

(* ---- Stream on a handle; x: 0 nil, 1 harmless error, 2 serious error ---- *)
Stream(h, x) ==
  /\ CanCall /\ h \in 1..Len(handles) /\ (x = 2 => Quiet) /\ (~Concurrent => Quiet)
  /\ LET a == handles[h].addr
         c == stored[a]
         hit == x = 2 /\ c # 0 /\ (ByIdentity => c = handles[h].conn) IN
     /\ closed' = IF hit THEN [closed EXCEPT ![c] = TRUE] ELSE closed
     /\ stored' = IF hit THEN [stored EXCEPT ![a] = 0] ELSE stored
     /\ ncalls' = ncalls + 1
     /\ last' = [a |-> "Stream", conn |-> handles[h].conn, victims |-> IF hit THEN {c} ELSE {}]
     /\ UNCHANGED <<nconn, caddr, broken, handles, lock, pc, targ, caOn, caKeys, clOn, clKeys, stopped, ndials>>
     /\ Log(Entry("Stream", h, x, 0))

Break(c) ==
  /\ CanCall /\ c \in 1..nconn /\ ~Done(c) /\ (~Concurrent => Quiet)
  /\ broken' = [broken EXCEPT ![c] = TRUE]
  /\ ncalls' = ncalls + 1 /\ last' = Tau
  /\ UNCHANGED <<stored, nconn, caddr, closed, handles, lock, pc, targ, caOn, caKeys, clOn, clKeys, stopped, ndials>>
  /\ Log(Entry("Break", c, 0, 0))

(* ---- clean(): the 3 s ticker ---- *)
CleanBegin ==
  /\ CanCall /\ Quiet /\ ~clOn /\ ~stopped
  /\ LET ks == {a \in Addr : stored[a] # 0} IN
     /\ clKeys' = ks /\ clOn' = (ks # {})
     /\ ncalls' = ncalls + 1 /\ last' = Tau
     /\ UNCHANGED <<stored, nconn, caddr, closed, broken, handles, lock, pc, targ, caOn, caKeys, stopped, ndials>>
     /\ IF ks = {} THEN Log(Entry("Clean", 0, 0, 0)) ELSE NoLog

CleanStep(a) ==
  /\ clOn /\ a \in clKeys /\ lock = 0 /\ (Concurrent \/ a = MinOf(clKeys))
  /\ stored' = IF stored[a] # 0 /\ Done(stored[a]) THEN [stored EXCEPT ![a] = 0] ELSE stored
  /\ clKeys' = clKeys \ {a} /\ clOn' = (clKeys' # {}) /\ last' = Tau
  /\ UNCHANGED <<nconn, caddr, closed, broken, handles, lock, pc, targ, caOn, caKeys, stopped, ncalls, ndials>>
  /\ IF clKeys' = {} THEN Log(Entry("Clean", 0, 0, 0)) ELSE NoLog

Stop ==
  /\ CanCall /\ ~stopped /\ (~Concurrent => Quiet)
  /\ stopped' = TRUE /\ ncalls' = ncalls + 1 /\ last' = Tau
  /\ UNCHANGED <<stored, nconn, caddr, closed, broken, handles, lock, pc, targ, caOn, caKeys, clOn, clKeys, ndials>>
  /\ Log(Entry("Stop", 0, 0, 0))

Next == \/ \E t \in T, a \in Addr : DialReuse(t, a) \/ DialBegin(t, a)
        \/ \E t \in T : DialNewOk(t) \/ DialNewFail(t)
        \/ \E a \in Addr : Close(a) \/ CloseAllStep(a) \/ CleanStep(a)
        \/ CloseAllBegin \/ CleanBegin \/ Stop
        \/ \E h \in 1..MaxHandles, x \in 0..2 : Stream(h, x)
        \/ \E c \in Conn : Break(c)

Spec == Init /\ [][Next]_vars

(* ------------------------------ properties ------------------------------ *)
TypeOK == /\ \A a \in Addr : stored[a] \in 0..nconn
          /\ \A a \in Addr : stored[a] # 0 => caddr[stored[a]] = a
(* P1: one stored connection per address (stored is a function; no connection stored under two addresses);
       the dial function never runs twice at once for one address *)
P1 == /\ \A a, b \in Addr : (a # b /\ stored[a] # 0) => stored[a] # stored[b]
      /\ \A a \in Addr : Cardinality({t \in T : pc[t] = "dialing" /\ targ[t] = a}) <= 1
(* P2: what Dial returns *)
P2 == last.a = "Dial" =>
        IF last.ret # 0
        THEN /\ stored[last.addr] = last.ret
             /\ ~closed[last.ret]
             /\ (~last.fresh => last.pre = last.ret)
             /\ (~Concurrent => ~broken[last.ret])
        ELSE stored[last.addr] = last.pre
(* P3: Close/CloseAll closed what they removed; nothing live is unreferenced *)
P3 == /\ (last.a \in {"Close", "CloseAll"} => \A c \in last.victims : closed[c])
      /\ ((last.a = "CloseAll" /\ ~Concurrent) => \A a \in Addr : stored[a] = 0)
      /\ \A c \in 1..nconn : stored[caddr[c]] = c \/ Done(c)
(* P4: an error reported through a handle touches only the connection the handle wraps *)
P4 == last.a = "Stream" => last.victims \subseteq {last.conn}
=============================================================================
