SPECIFICATION Spec
CONSTANTS
  Ids = {"a"}
  MaxInst = 2
  MaxTicks = 2
  MaxStops = 1
  MaxClock = 0
  MaxRm = 1
  Interval = 0
  RegOrder = "locked"
  RemoveBy = "instance"
  Results = {"keep", "stop"}
  KeepHist = "all"
CHECK_DEADLOCK FALSE
