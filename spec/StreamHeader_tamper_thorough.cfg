SPECIFICATION Spec
CONSTANTS
  MaxC = 1
  MaxH = 2
  Sizes = {0, 3}
  Tamper = TRUE
  LenVals = {"zero", "dec", "inc", "i31", "i63", "max"}
VIEW view
INVARIANTS TypeOK ReadBackIdentically ResponseWhereBodyExpected NoAdversaryNoStop GrammarRoundTrip
CHECK_DEADLOCK FALSE
