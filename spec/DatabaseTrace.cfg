SPECIFICATION TraceSpec
CONSTANTS
  Readers = {1, 2, 3, 4}
  What = {"a", "b", "SUF", "POL", "LBM", "LSP", "KNO", "BM"}
CONSTRAINT HighWater
INVARIANTS SeenBounded
POSTCONDITION Accepted
CHECK_DEADLOCK FALSE
