SPECIFICATION TraceSpec
CONSTANTS
  MaxH = 5
  Rounds = {0, 1}
  Kinds = {"I-", "I+", "A-"}
  NVar = 2
  Proposers = {"p1", "p2"}
  Prevs = {"b1"}
  Depth = 3
  MaxSteps = 1000
  Procs = {1, 2, 3, 4}
CONSTRAINT HighWater
POSTCONDITION Accepted
CHECK_DEADLOCK FALSE
