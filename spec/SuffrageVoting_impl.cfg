SPECIFICATION Spec
CONSTANTS
  Member = {"n1", "n2", "n3", "n4"}
  Outsider = {"x"}
  Local = "n1"
  T10 = 670
  OpSet <- OpsQuick
  InState <- NoFacts
  Heights = {1, 2, 3}
  MaxCalls = 5
  MaxFinds = 2
  Sim = FALSE
  Level = "impl"
VIEW view
INVARIANTS TypeOK ImplVoteAgrees
CHECK_DEADLOCK FALSE
