SPECIFICATION Spec
CONSTANTS
  MaxHist = 3
  Repeat = TRUE
INVARIANTS CoverageSufficient RepoIndependent HistorySound InstanceMemoOnlyNetid
CHECK_DEADLOCK FALSE
