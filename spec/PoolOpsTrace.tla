--------------------------- MODULE PoolOpsTrace ---------------------------
(* Binding B for C22: the calls recorded from a real TempPool (harness c22,   *)
(* inputs = behaviours of PoolOps.tla) are judged against the statement-level *)
(* part of PoolOps.tla: `added`, `banned` and the relations R0..R6.           *)
(*                                                                            *)
(* One caller (events Set, Call): every event is deterministic for the        *)
(* statement level: SetOperation appends a new operation, a call adds what    *)
(* its filter really rejected to `banned`.                                    *)
(* Overlapping calls (events CallB c / CallE c, logged in real-time order;    *)
(* SetB k / SetE k when a store runs beside calls or beside another store of  *)
(* the same operation): `run[c]` keeps what     *)
(* PoolOps.Begin keeps for a call in flight - `banned` and Len(added) at its  *)
(* start, what the filters of overlapping calls reject - and CallE judges the *)
(* result as PoolOps.End does: R1, R2, R3 per call, R6 against the calls that *)
(* had RETURNED when this one STARTED, R4c. `banned` grows when a call        *)
(* returns (by what its filter really rejected).                              *)
(* No event blocks; every relation a logged result breaks is printed with its *)
(* class and validation goes on. The implementation-level variables of        *)
(* PoolOps (ibanned, run[c].s, ...) are not used.                             *)
EXTENDS PoolOps

Trace == ndJsonDeserialize("trace.ndjson")
VARIABLES l,
          pend     \* operations whose SetOperation has started and not yet returned (SetB..SetE)
tvars == <<added, banned, run, l, pend>>
Ev == Trace[l]

Expect(class, got, want) == IF got = want THEN TRUE
                            ELSE PrintT(<<"MISMATCH", class, l, got, want>>)
B2N(b) == IF b THEN 1 ELSE 0
Consume == l <= Len(Trace) /\ l' = l + 1
Unused == UNCHANGED <<ibanned, orphan, nreset, ncalls, ntwice, last, hist, step>>

TReset == /\ Consume /\ Ev.a = "Reset" /\ Unused
          /\ added' = <<>> /\ banned' = {} /\ pend' = {} /\ run' = [c \in Callers |-> Idle]

(* R5: storing a stored operation again returns false and changes nothing *)
TSet == /\ Consume /\ Ev.a = "Set" /\ Unused
        /\ Expect("R0-set-returns", B2N(Ev.panic \/ Ev.err), 0)
        /\ (~(Ev.panic \/ Ev.err)) => Expect("R5-set-idempotent", B2N(Ev.ret), B2N(Ev.op \notin Range(added)))
        /\ added' = IF Ev.op \in Range(added) THEN added ELSE Append(added, Ev.op)
        /\ UNCHANGED <<banned, run, pend>>
(* a store (of setter k) that runs beside calls and beside other stores of the SAME operation *)
(* (stores of different operations never overlap: the order of `added` is the order of the    *)
(* stores). `was`: a store of the operation had returned when this one started - then it must *)
(* return false; if no store of the operation has returned and none is in flight when this    *)
(* one returns it must return true; two stores of one operation that overlap may both return  *)
(* true as far as the alarm goes (the stronger reading is counted by the check).              *)
TSetB == /\ Consume /\ Ev.a = "SetB" /\ Unused
         /\ \A x \in pend : x.k # Ev.k
         /\ pend' = pend \cup {[k |-> Ev.k, op |-> Ev.op, was |-> Ev.op \in Range(added)]}
         /\ UNCHANGED <<added, banned, run>>
TSetE == /\ Consume /\ Ev.a = "SetE" /\ Unused
         /\ \E p \in pend :
              /\ p.k = Ev.k
              /\ pend' = pend \ {p}
              /\ Expect("R0-set-returns", B2N(Ev.panic \/ Ev.err), 0)
              /\ (~(Ev.panic \/ Ev.err)) =>
                    IF p.was THEN Expect("R5-set-idempotent", B2N(Ev.ret), 0)
                    ELSE IF p.op \notin Range(added) /\ \A x \in pend \ {p} : x.op # p.op
                         THEN Expect("R5-set-idempotent", B2N(Ev.ret), 1)
                    ELSE TRUE
              /\ added' = IF p.op \in Range(added) THEN added ELSE Append(added, p.op)
         /\ UNCHANGED <<banned, run>>

(* what every returned call is judged against, overlapping or not: bb = banned when   *)
(* the call started, r4 = the verdict of R4 (one caller) / R4c (overlapping calls)     *)
Judge(ret, L, Rej, bb, r4) ==
  /\ Expect("R0-returns", B2N(Ev.panic \/ Ev.err), 0)
  /\ (~(Ev.panic \/ Ev.err)) =>
       /\ Expect("R1-at-most-limit", B2N(R1(ret, L)), 1)
       /\ Expect("R2-operations-distinct", B2N(R2ops(ret)), 1)
       /\ Expect("R2-facts-distinct", B2N(R2facts(ret)), 1)
       /\ Expect("R3-stored", B2N(Range(ret) \subseteq (Range(added) \cup {x.op : x \in pend}) /\ Len(Ev.unstored) = 0 /\ ~Ev.metabad), 1)
       /\ Expect("R3-passes-filter", B2N(Range(ret) \cap Rej = {}), 1)
       /\ Expect("R4-most-recent", B2N(r4), 1)
       /\ Expect("R6-filtered-out-again", B2N(R6(ret, bb)), 1)

TCall ==
  /\ Consume /\ Ev.a = "Call" /\ Unused
  /\ Judge(Ev.ret, Ev.l, Range(Ev.rej), banned, R4(Ev.ret, Ev.l, added, banned, Range(Ev.rej)))
  /\ (~(Ev.panic \/ Ev.err)) =>
        Expect("R7-eligible-fact-missing", B2N(R7(Ev.ret, Ev.l, added, banned, Range(Ev.rej))), 1)
  /\ banned' = banned \cup Range(Ev.rejected)
  /\ UNCHANGED <<added, run, pend>>

TCallB ==
  /\ Consume /\ Ev.a = "CallB" /\ Unused
  /\ Ev.c \in Callers /\ ~run[Ev.c].on
  /\ run' = Opened(Ev.c, Ev.l, Range(Ev.rej), ScanInit)
  /\ UNCHANGED <<added, banned, pend>>

TCallE ==
  /\ Consume /\ Ev.a = "CallE" /\ Unused
  /\ Ev.c \in Callers /\ run[Ev.c].on
  /\ LET r == run[Ev.c]
     IN Judge(Ev.ret, r.l, r.rej, r.bb, R4c(Ev.ret, r.l, added, r.ab, r.bb \cup r.ov, r.rej))
  /\ banned' = banned \cup Range(Ev.rejected)
  /\ run' = [run EXCEPT ![Ev.c] = Idle]
  /\ UNCHANGED <<added, pend>>

TraceInit == Init /\ l = 1 /\ pend = {}
TraceNext == TReset \/ TSet \/ TSetB \/ TSetE \/ TCall \/ TCallB \/ TCallE
TraceSpec == TraceInit /\ [][TraceNext]_<<vars, l, pend>>

ASSUME TLCSet(1, 0)
HighWater == TLCSet(1, IF l > TLCGet(1) THEN l ELSE TLCGet(1))
Accepted == \/ TLCGet(1) = Len(Trace) + 1
            \/ /\ PrintT(<<"HW", TLCGet(1), Len(Trace)>>)
               /\ PrintT("Postcondition Accepted violated: the trace was not consumed")
               /\ FALSE
=============================================================================
