--------------------------- MODULE PoolOpsTrace ---------------------------
(* Binding B for C22: the calls recorded from a real TempPool (harness c22,   *)
(* inputs = behaviours of PoolOps.tla) are judged against the statement-level *)
(* part of PoolOps.tla: `added`, `banned` and the relations R0..R6. The pool  *)
(* is driven sequentially, so every event is deterministic for the statement  *)
(* level: SetOperation appends a new operation, a call adds what its filter   *)
(* really rejected to `banned`. No event blocks; every relation a logged      *)
(* result breaks is printed with its class and validation goes on.            *)
(* The implementation-level variables of PoolOps (ibanned, ...) are not used. *)
EXTENDS PoolOps

Trace == ndJsonDeserialize("trace.ndjson")
VARIABLE l
tvars == <<added, banned, l>>
Ev == Trace[l]

Expect(class, got, want) == IF got = want THEN TRUE
                            ELSE PrintT(<<"MISMATCH", class, l, got, want>>)
B2N(b) == IF b THEN 1 ELSE 0
Consume == l <= Len(Trace) /\ l' = l + 1
Unused == UNCHANGED <<ibanned, nreset, ncalls, last, hist, step>>

TReset == Consume /\ Ev.a = "Reset" /\ added' = <<>> /\ banned' = {} /\ Unused

(* R5: storing a stored operation again returns false and changes nothing *)
TSet == /\ Consume /\ Ev.a = "Set" /\ Unused
        /\ Expect("R0-set-returns", B2N(Ev.panic \/ Ev.err), 0)
        /\ (~(Ev.panic \/ Ev.err)) => Expect("R5-set-idempotent", B2N(Ev.ret), B2N(Ev.op \notin Range(added)))
        /\ added' = IF Ev.op \in Range(added) THEN added ELSE Append(added, Ev.op)
        /\ UNCHANGED banned

TCall ==
  /\ Consume /\ Ev.a = "Call" /\ Unused
  /\ LET ret == Ev.ret
         Rej == Range(Ev.rej)
         L   == Ev.l
     IN /\ Expect("R0-returns", B2N(Ev.panic \/ Ev.err), 0)
        /\ (~(Ev.panic \/ Ev.err)) =>
             /\ Expect("R1-at-most-limit", B2N(R1(ret, L)), 1)
             /\ Expect("R2-operations-distinct", B2N(R2ops(ret)), 1)
             /\ Expect("R2-facts-distinct", B2N(R2facts(ret)), 1)
             /\ Expect("R3-stored", B2N(Range(ret) \subseteq Range(added) /\ Len(Ev.unstored) = 0 /\ ~Ev.metabad), 1)
             /\ Expect("R3-passes-filter", B2N(Range(ret) \cap Rej = {}), 1)
             /\ Expect("R4-most-recent", B2N(R4(ret, L, added, banned, Rej)), 1)
             /\ Expect("R6-filtered-out-again", B2N(R6(ret, banned)), 1)
             /\ Expect("R7-eligible-fact-missing", B2N(R7(ret, L, added, banned, Rej)), 1)
  /\ banned' = banned \cup Range(Ev.rejected)
  /\ UNCHANGED added

TraceInit == Init /\ l = 1
TraceNext == TReset \/ TSet \/ TCall
TraceSpec == TraceInit /\ [][TraceNext]_<<vars, l>>

ASSUME TLCSet(1, 0)
HighWater == TLCSet(1, IF l > TLCGet(1) THEN l ELSE TLCGet(1))
Accepted == \/ TLCGet(1) = Len(Trace) + 1
            \/ /\ PrintT(<<"HW", TLCGet(1), Len(Trace)>>)
               /\ PrintT("Postcondition Accepted violated: the trace was not consumed")
               /\ FALSE
=============================================================================
