SPECIFICATION Spec
CONSTANTS
  Alphabet = {0, 1, 255}
  Stores <- StoresSmall
  InitKeyLen = 2
  MaxInitKeys = 2
  UKLen = 1
  BoundLen = 1
  Limits = {0, 1, 2}
  Stops = {0, 1}
  Mode = "cases"
  L = 333
  Sizes = {}
  HistStores <- HistStoresQuick
  HistKinds = {}
  HistFillFirst = TRUE
  MaxSteps = 1
INVARIANTS TypeOK ImplAgreesOpen Isolated
CHECK_DEADLOCK FALSE
