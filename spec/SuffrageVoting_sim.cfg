SPECIFICATION Spec
CONSTANTS
  Member = {"n1", "n2", "n3", "n4", "n5", "n6", "n7"}
  Outsider = {"x"}
  Local = "n1"
  T10 = 670
  OpSet <- OpsSim
  InState <- NoFacts
  Heights = {1, 2, 3, 4}
  MaxCalls = 10
  MaxFinds = 3
  Sim = TRUE
  Level = "abstract"
VIEW view
INVARIANTS TypeOK
CHECK_DEADLOCK FALSE
