SPECIFICATION Spec
CONSTANTS
  MaxSize = 2000
  Compute = FALSE
  Walk = TRUE
INVARIANTS TypeOK LayoutOK
CHECK_DEADLOCK FALSE
