SPECIFICATION Spec
CONSTANTS
  Fact = {"A", "B"}
  Signer = {1, 2}
  MaxAdd = 4
  MaxReSet = 0
  MaxCalls = 2
  Limits = {1, 2, 3, 5}
  MaxRej = 2
  Impl = "pinned"
  Sym = FALSE
  NCallers = 0
  Removal = "skip"
  MaxTwice = 0
  SetRace = "unlocked"
  Pick = 0
  Emit = "all"
VIEW View
INVARIANTS R4ok
CHECK_DEADLOCK FALSE
