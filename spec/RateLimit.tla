----------------------------- MODULE RateLimit -----------------------------
(* C36 - rate limiting of launch/ratelimit.go.                              *)
(*                                                                          *)
(* Part 1, choice of the rule. The rule sets (client-id map, ordered        *)
(* networks, node map, suffrage rule + membership, default map, built-in    *)
(* default) are variables replaced by the Set* actions; a request carries   *)
(* (addr, handler, client id) and the node known for its address (AddNode). *)
(* Choose is written from the statement: the precedence evaluated FOR EACH  *)
(* REQUEST on the current rule sets. Impl transcribes what the code does:   *)
(* one *RateLimiter cached per (addr, handler) in the address pool,         *)
(* RateLimiterRules.Rule with its early returns for a cached limiter of     *)
(* type clientid / net / node / suffrage that is younger than its rule set, *)
(* and RateLimiterRules.rule (the precedence) otherwise, followed by        *)
(* RateLimiter.Update. ImplMatchesChoose is the statement (a candidate: it  *)
(* fails on the transcription); DeviationOnlyViaCache states what is true   *)
(* of the transcription: every deviation goes through an early return.      *)
(*                                                                          *)
(* Binding A: `step` is the JSON of the whole history (exhaustive runs:     *)
(* every history of MaxSteps actions from every initial configuration;      *)
(* -simulate: walks). Each history is replayed on a real RateLimitHandler   *)
(* with real rule sets; after every request the RateLimiterResult (type,    *)
(* description, burst and period of the limiter) is compared with Choose; the *)
(* transcription's prediction names the class of a deviation.               *)
(*                                                                          *)
(* The consensus-nodes function (IsInConsensusNodesFunc) answers with TWO   *)
(* independent values: the hash of the suffrage STATE (stateHash) and the   *)
(* predicate exists(node) (members = suffrage nodes AND candidates). Three  *)
(* actions change them: SetMembers (a new suffrage state with other         *)
(* consensus nodes: both change), SetStateHash (a new suffrage state with   *)
(* the same consensus nodes: only the hash) and SetCandidates (candidates   *)
(* come and go: exists changes under the SAME state hash). The suffrage     *)
(* rule is for a node that IS a consensus node at the time of the request:  *)
(* SuffrageOnlyInConsensus. The constant SufCheck names the order in which  *)
(* a cached suffrage limiter is checked again ("exists-first" = the code;   *)
(* "hash-first" = a candidate that trusts an unchanged hash and must fail). *)
(*                                                                          *)
(* Part 2, enforcement. The token bucket is part of the cached limiter       *)
(* (tok, tat: scaled tokens and the time they were counted; a rule of burst *)
(* b refills b tokens in Per clock ticks). The transcription follows         *)
(* NewRateLimiter / RateLimiter.Update / Allow: a new full bucket when the   *)
(* limiter is made and when Update gets a rule whose limit/burst differ     *)
(* (constant Rebuild = "limit-burst"; the other values are candidates that  *)
(* must fail), otherwise the bucket goes on whatever happens to the rule    *)
(* sets, the suffrage state hash, the membership or the type of the picked  *)
(* rule. BoundOK is the statement's second sentence on the history: for     *)
(* every limiter instance (addr, handler) and every window of its requests  *)
(* during which the rule in force keeps its limit and burst,                 *)
(* allowed <= burst + rate x window. The constant Tight selects catalogues   *)
(* of small rules (bursts 1 and 2, the same rule in different rule sets,    *)
(* zero and no-limit rules) so that histories which mix requests with       *)
(* Set* / SetMembers / AddNode actions empty the bucket; Warm starts every   *)
(* history with Request(a1,h1), AddNode(a1). The real code is judged by      *)
(* RateLimitTrace.tla (WindowOK below) on the recorded replays of these      *)
(* histories and on recorded bursts, with the harness clock read before and  *)
(* after every call.                                                         *)
EXTENDS Integers, Sequences, FiniteSets, TLC, Json

CONSTANTS Addrs,      \* subset of {"a1","a2","a3"}: a1 in nets N1 and N2, a2 in N2 only, a3 in no net
          Handlers,   \* subset of {"h1","h2"}
          ClientIds,  \* client ids a request may carry (besides none = "")
          InitCfgs,   \* names of initial rule-set configurations (see Cfg)
          FullAlphabet, \* exhaustive runs: also replace the suffrage rule and the default map
          Walk,       \* TRUE: -simulate
          MaxSteps,
          Tight,      \* TRUE: catalogues of small rules (the bucket empties within a history)
          Warm,       \* TRUE: every history starts with Request(a1, h1, no client id), AddNode(a1)
          Per,        \* clock ticks in which a rule refills its whole burst
          Rebuild,    \* when RateLimiter.Update makes a new (full) bucket: "limit-burst" = the code;
                      \* candidates that break the bound: "type-checksum", "always"
          SufCheck    \* re-validation of a cached suffrage limiter: "exists-first" = the code (exists(node) on every
                      \* request, then the state hash); candidate "hash-first": an unchanged hash returns the limiter

Nil == [nil |-> TRUE, v |-> <<>>]       \* a rule set that is not set (nil interface)
Set(x) == [nil |-> FALSE, v |-> x]      \* a rule set
NodeOf == [a \in {"a1", "a2", "a3"} |-> IF a = "a1" THEN "n1" ELSE IF a = "a2" THEN "n2" ELSE "n3"]
InNet == [nn \in {"N1", "N2"} |-> IF nn = "N1" THEN {"a1"} ELSE {"a1", "a2"}]
H2 == {"h1", "h2"}

\* a rule map: handler -> burst of its rule, 0 = no rule, -1 = the rule that rejects everything (limit 0),
\* -2 = the no-limit rule. In the wide catalogues (A, B, C, ...) every rule has its own burst, so the burst names the
\* rule; in the tight ones (T, U, Z, N) the same rule stands in different rule sets (type and description name it).
AllH(b)   == [hh \in H2 |-> b]
OnlyH1(b) == [hh \in H2 |-> IF hh = "h1" THEN b ELSE 0]
NoRule    == [hh \in H2 |-> 0]
BuiltIn   == 33                          \* defaultRateLimiter: 33 / 3s

\* catalogues of rule sets (the harness builds the real ones from the JSON of these values)
CidSets  == [none |-> Nil,
             T |-> Set([c1 |-> AllH(2)]),
             A |-> Set([c1 |-> AllH(101)]),
             B |-> Set([c1 |-> AllH(101), c2 |-> AllH(102)]),
             C |-> Set([c2 |-> OnlyH1(103)])]
NetSets  == [none |-> Nil,
             T |-> Set(<<[net |-> "N1", m |-> AllH(1)]>>),
             A |-> Set(<<[net |-> "N1", m |-> AllH(201)]>>),
             B |-> Set(<<[net |-> "N2", m |-> AllH(202)], [net |-> "N1", m |-> AllH(203)]>>),
             C |-> Set(<<[net |-> "N1", m |-> AllH(204)], [net |-> "N2", m |-> AllH(205)]>>)]
NodeSets == [none |-> Nil,
             T |-> Set([n1 |-> AllH(2), n2 |-> AllH(1)]),
             A |-> Set([n1 |-> AllH(301)]),
             B |-> Set([n1 |-> OnlyH1(302), n2 |-> AllH(303)])]
SufSets  == [builtin |-> AllH(900), A |-> AllH(401), E |-> NoRule, T |-> AllH(2), U |-> AllH(1), Z |-> AllH(-1), N |-> AllH(-2)]
DefSets  == [builtin |-> AllH(BuiltIn), A |-> OnlyH1(501), B |-> AllH(502), T |-> AllH(2), U |-> AllH(1), Z |-> AllH(-1), N |-> AllH(-2)]
MemberSets == IF Tight /\ "a2" \notin Addrs THEN {{}, {"n1"}} ELSE {{}, {"n1"}, {"n1", "n2"}}

\* the rule sets the Set* actions choose from
CidKeys  == IF Tight THEN {"none", "T"} ELSE {"none", "A", "B", "C"}
NetKeys  == IF Tight THEN {"none", "T"} ELSE {"none", "A", "B", "C"}
NodeKeys == IF Tight THEN {"none", "T"} ELSE {"none", "A", "B"}
SufKeys  == IF Tight THEN {"T", "U"} \cup (IF FullAlphabet THEN {"Z", "N"} ELSE {}) ELSE {"builtin", "A", "E"}
DefKeys  == IF Tight THEN {"T", "U"} \cup (IF FullAlphabet THEN {"Z", "N"} ELSE {}) ELSE {"builtin", "A", "B"}

VARIABLES cid, cidAt,        \* client-id rule set and the time it was set
          nets, netsAt,
          nodes, nodesAt,
          suf, sufAt,        \* suffrage rule map (the rule set itself is never nil)
          members,           \* IsInConsensusNodesFunc, exists(node): the consensus nodes (suffrage nodes and candidates)
          stateHash,         \* IsInConsensusNodesFunc, the hash of the suffrage state; NOT a function of members
          def, defAt,        \* default rule map
          known,             \* addresses whose node is known (AddNode)
          cache,             \* [Addrs \X Handlers -> limiter | None]
          now,               \* logical clock (time.Now().UnixNano() is strictly later at every action)
          n, hist, step
vars == <<cid, cidAt, nets, netsAt, nodes, nodesAt, suf, sufAt, members, stateHash, def, defAt, known, cache, now, n, hist, step>>

None == [t |-> "none"]

---------------------------------------------------------------------------
(* look-ups in the rule sets *)

Has(f, k) == k \in DOMAIN f
CidRule(c, hd)  == IF cid.nil \/ c = "" \/ ~Has(cid.v, c) THEN 0 ELSE cid.v[c][hd]
NodeRule(a, hd) == IF nodes.nil \/ a \notin known \/ ~Has(nodes.v, NodeOf[a]) THEN 0 ELSE nodes.v[NodeOf[a]][hd]
SufRule(a, hd)  == IF a \notin known \/ NodeOf[a] \notin members THEN 0 ELSE suf[hd]

\* the statement: the first network (in the configured order) that contains the address and has a rule for the handler
NetMatch(a, hd) == IF nets.nil THEN 0
                   ELSE LET S == {i \in 1..Len(nets.v) : a \in InNet[nets.v[i].net] /\ nets.v[i].m[hd] # 0}
                        IN IF S = {} THEN 0 ELSE CHOOSE i \in S : \A j \in S : i <= j
\* the code: the first network that contains the address decides alone (NetRateLimiterRuleSet.rule)
NetMatchImpl(a, hd) == IF nets.nil THEN 0
                       ELSE LET S == {i \in 1..Len(nets.v) : a \in InNet[nets.v[i].net]}
                            IN IF S = {} THEN 0
                               ELSE LET i == CHOOSE ii \in S : \A j \in S : ii <= j
                                    IN IF nets.v[i].m[hd] # 0 THEN i ELSE 0

---------------------------------------------------------------------------
(* THE STATEMENT: for each request, client id, else first matching network, else node, else
   suffrage, else default map, else built-in default.  <<type, burst, description>> *)
Choose(a, hd, c) ==
  IF CidRule(c, hd) # 0 THEN <<"clientid", CidRule(c, hd), c>>
  ELSE IF NetMatch(a, hd) # 0 THEN <<"net", nets.v[NetMatch(a, hd)].m[hd], nets.v[NetMatch(a, hd)].net>>
  ELSE IF NodeRule(a, hd) # 0 THEN <<"node", NodeRule(a, hd), "">>
  ELSE IF SufRule(a, hd) # 0 THEN <<"suffrage", SufRule(a, hd), "">>
  ELSE IF def[hd] # 0 THEN <<"defaultmap", def[hd], "">>
  ELSE <<"default", BuiltIn, "">>

---------------------------------------------------------------------------
(* THE CODE *)

\* RateLimiterRules.rule: <<type, burst, desc, checksum, refreshed>>
Prec(a, hd, c, lt, lat) ==
  IF CidRule(c, hd) # 0 THEN <<"clientid", CidRule(c, hd), c, "", TRUE>>
  ELSE IF NetMatchImpl(a, hd) # 0 THEN <<"net", nets.v[NetMatchImpl(a, hd)].m[hd], nets.v[NetMatchImpl(a, hd)].net, "", TRUE>>
  ELSE IF NodeRule(a, hd) # 0 THEN <<"node", NodeRule(a, hd), "", "", TRUE>>
  ELSE IF SufRule(a, hd) # 0 THEN <<"suffrage", SufRule(a, hd), "", stateHash, TRUE>>
  ELSE IF lt = "defaultmap" /\ lat >= defAt THEN <<"defaultmap", BuiltIn, "", "", FALSE>>
  ELSE IF def[hd] # 0 THEN <<"defaultmap", def[hd], "", "", TRUE>>
  ELSE <<"default", BuiltIn, "", "", TRUE>>

(* the token bucket of a limiter, in units of 1/Per token: a rule of burst b > 0 holds at most b * Per units, gains b
   units per clock tick and a request costs Per units (golang.org/x/time/rate with limit = b / Per per tick). *)
Full(b) == IF b > 0 THEN b * Per ELSE 0
Min(x, y) == IF x <= y THEN x ELSE y

\* NewRateLimiter: a new limiter has a full bucket
New(t, b, d, cs) == [t |-> t, b |-> b, desc |-> d, cs |-> cs, at |-> now, tok |-> Full(b), tat |-> now]

\* RateLimiter.Update: the rate.Limiter is replaced by a new one (full bucket) ...
Rebuilds(l, t, b, cs) ==
  CASE Rebuild = "limit-burst"   -> l.b # b                                \* ... only if limit or burst differ (the code)
    [] Rebuild = "type-checksum" -> l.b # b \/ l.t # t \/ l.cs # cs         \* candidate: also when type or checksum differ
    [] Rebuild = "always"        -> TRUE                                   \* candidate: at every Update
Upd(l, t, b, d, cs) == [t |-> t, b |-> b, desc |-> d, cs |-> cs, at |-> now,
                        tok |-> IF Rebuilds(l, t, b, cs) THEN Full(b) ELSE l.tok,
                        tat |-> IF Rebuilds(l, t, b, cs) THEN now ELSE l.tat]

\* RateLimiter.Allow on the limiter l at the current time
Level(l)   == IF l.b > 0 THEN Min(Full(l.b), l.tok + l.b * (now - l.tat)) ELSE 0
Allowed(l) == IF l.b = -2 THEN TRUE ELSE IF l.b <= 0 THEN FALSE ELSE Level(l) >= Per
After(l)   == [l EXCEPT !.tok = IF Allowed(l) /\ l.b > 0 THEN Level(l) - Per ELSE Level(l), !.tat = now]

\* RateLimiterRules.Rule on the limiter l cached for (a, hd): <<limiter', path>>
Impl(a, hd, c, l) ==
  IF l = None
  THEN LET p == Prec(a, hd, c, "", 0) IN <<New(p[1], p[2], p[3], p[4]), "fresh">>
  ELSE IF c # "" /\ ~cid.nil /\ l.t = "clientid" /\ l.at >= cidAt THEN <<l, "cached-clientid">>
  ELSE IF ~nets.nil /\ l.t = "net" /\ l.at >= netsAt THEN <<l, "cached-net">>
  ELSE IF a \in known /\ ~nodes.nil /\ l.t = "node" /\ l.at >= nodesAt THEN <<l, "cached-node">>
  ELSE IF /\ a \in known /\ l.t = "suffrage" /\ l.at >= sufAt
          /\ \/ NodeOf[a] \in members /\ (stateHash = l.cs \/ suf[hd] # 0)
             \/ SufCheck = "hash-first" /\ stateHash = l.cs       \* candidate: same state, exists(node) not asked
       THEN IF stateHash = l.cs THEN <<l, "cached-suffrage">>
            ELSE <<Upd(l, "suffrage", suf[hd], "", stateHash), "suffrage-rehash">>
  ELSE LET p == Prec(a, hd, c, l.t, l.at)
       IN IF p[5] THEN <<Upd(l, p[1], p[2], p[3], p[4]), "re-evaluated">> ELSE <<l, "cached-defaultmap">>

---------------------------------------------------------------------------
Cfg == [plain |-> [cid |-> "none", nets |-> "none", nodes |-> "none", suf |-> "builtin", def |-> "builtin", mem |-> {}],
        cids  |-> [cid |-> "B",    nets |-> "none", nodes |-> "none", suf |-> "builtin", def |-> "builtin", mem |-> {}],
        cidc  |-> [cid |-> "C",    nets |-> "A",    nodes |-> "none", suf |-> "builtin", def |-> "A",       mem |-> {}],
        netn  |-> [cid |-> "A",    nets |-> "B",    nodes |-> "A",    suf |-> "A",       def |-> "builtin", mem |-> {"n1"}],
        nodes |-> [cid |-> "A",    nets |-> "none", nodes |-> "B",    suf |-> "A",       def |-> "B",       mem |-> {"n1", "n2"}],
        sufr  |-> [cid |-> "none", nets |-> "none", nodes |-> "none", suf |-> "A",       def |-> "A",       mem |-> {"n1"}],
        \* tight: suffrage rule 1 over default map 2; the same rule 1 in both; node rule 2 over suffrage rule 2 over default
        \* map 1; client-id rule 2 over net rule 1 over default map 2
        tsuf  |-> [cid |-> "none", nets |-> "none", nodes |-> "none", suf |-> "U",       def |-> "T",       mem |-> {"n1"}],
        tsame |-> [cid |-> "none", nets |-> "none", nodes |-> "none", suf |-> "U",       def |-> "U",       mem |-> {"n1"}],
        tnode |-> [cid |-> "none", nets |-> "none", nodes |-> "T",    suf |-> "T",       def |-> "U",       mem |-> {"n1"}],
        tcid  |-> [cid |-> "T",    nets |-> "T",    nodes |-> "none", suf |-> "U",       def |-> "T",       mem |-> {}]]

Init == \E k \in InitCfgs :
   /\ cid = CidSets[Cfg[k].cid] /\ nets = NetSets[Cfg[k].nets] /\ nodes = NodeSets[Cfg[k].nodes]
   /\ suf = SufSets[Cfg[k].suf] /\ def = DefSets[Cfg[k].def] /\ members = Cfg[k].mem
   /\ cidAt = 1 /\ netsAt = 1 /\ nodesAt = 1 /\ sufAt = 1 /\ defAt = 1 /\ stateHash = 1
   /\ known = {} /\ cache = [x \in Addrs \X Handlers |-> None] /\ now = 2 /\ n = 0
   /\ hist = <<[a |-> "Init", cid |-> cid, nets |-> nets, nodes |-> nodes, suf |-> suf, def |-> def, members |-> members, hash |-> 1]>>
   /\ step = ""

Rec(r) == /\ hist' = Append(hist, r)
          /\ step' = IF n + 1 = MaxSteps THEN ToJson(hist') ELSE ""      \* complete histories only (ToJson is slow)
          /\ n' = n + 1
          /\ now' = now + 1

RS == <<cid, cidAt, nets, netsAt, nodes, nodesAt, suf, sufAt, members, stateHash, def, defAt>>

\* RateLimitHandler.Func for one request
Request(a, hd, c) ==
  LET r == Impl(a, hd, c, cache[<<a, hd>>])
      w == Choose(a, hd, c)
  IN /\ cache' = [cache EXCEPT ![<<a, hd>>] = After(r[1])]      \* RateLimitHandler.allow: Rule, then Allow on its limiter
     /\ UNCHANGED <<RS, known>>
     /\ Rec([a |-> "Request", addr |-> a, h |-> hd, c |-> c, node |-> IF a \in known THEN NodeOf[a] ELSE "",
             want |-> w, impl |-> <<r[1].t, r[1].b, r[1].desc>>, path |-> r[2], at |-> now, ok |-> Allowed(r[1])])

\* RateLimitHandler.AddNode: only for an address that has made a request, only once
AddNode(a) == /\ known' = IF \E hd \in Handlers : cache[<<a, hd>>] # None THEN known \cup {a} ELSE known
              /\ UNCHANGED <<RS, cache>>
              /\ Rec([a |-> "AddNode", addr |-> a, node |-> NodeOf[a]])

SetCid(k)   == /\ cid' = CidSets[k] /\ cidAt' = now
               /\ UNCHANGED <<nets, netsAt, nodes, nodesAt, suf, sufAt, members, stateHash, def, defAt, known, cache>>
               /\ Rec([a |-> "SetClientID", set |-> cid'])
SetNets(k)  == /\ nets' = NetSets[k] /\ netsAt' = now
               /\ UNCHANGED <<cid, cidAt, nodes, nodesAt, suf, sufAt, members, stateHash, def, defAt, known, cache>>
               /\ Rec([a |-> "SetNet", set |-> nets'])
SetNodes(k) == /\ nodes' = NodeSets[k] /\ nodesAt' = now
               /\ UNCHANGED <<cid, cidAt, nets, netsAt, suf, sufAt, members, stateHash, def, defAt, known, cache>>
               /\ Rec([a |-> "SetNode", set |-> nodes'])
SetSuf(k)   == /\ suf' = SufSets[k] /\ sufAt' = now
               /\ UNCHANGED <<cid, cidAt, nets, netsAt, nodes, nodesAt, members, stateHash, def, defAt, known, cache>>
               /\ Rec([a |-> "SetSuffrage", set |-> suf'])
SetDef(k)   == /\ def' = DefSets[k] /\ defAt' = now
               /\ UNCHANGED <<cid, cidAt, nets, netsAt, nodes, nodesAt, suf, sufAt, members, stateHash, known, cache>>
               /\ Rec([a |-> "SetDefault", set |-> def'])
\* IsInConsensusNodesFunc answers differently. A new suffrage state with other consensus nodes: hash and exists change
SetMembers(m) == /\ m # members /\ members' = m /\ stateHash' = now
                 /\ UNCHANGED <<cid, cidAt, nets, netsAt, nodes, nodesAt, suf, sufAt, def, defAt, known, cache>>
                 /\ Rec([a |-> "SetMembers", members |-> m, hash |-> now])
\* a new suffrage state, the same consensus nodes: only the hash changes
SetStateHash == /\ stateHash' = now
                /\ UNCHANGED <<cid, cidAt, nets, netsAt, nodes, nodesAt, suf, sufAt, members, def, defAt, known, cache>>
                /\ Rec([a |-> "SetStateHash", members |-> members, hash |-> now])
\* candidates come and go (they are consensus nodes, they are not in the suffrage state): exists changes, the hash stays
SetCandidates(m) == /\ m # members /\ members' = m
                    /\ UNCHANGED <<cid, cidAt, nets, netsAt, nodes, nodesAt, suf, sufAt, stateHash, def, defAt, known, cache>>
                    /\ Rec([a |-> "SetCandidates", members |-> m, hash |-> stateHash])

R(S) == RandomElement(S)
Cids == ClientIds \cup {""}

RandomAction(k) ==
  CASE k \in 1..10 -> Request(R(Addrs), R(Handlers), R(Cids))
    [] k = 11 \/ k = 12 -> AddNode(R(Addrs))
    [] k = 13 -> SetCid(R(CidKeys))
    [] k = 14 -> SetNets(R(NetKeys))
    [] k = 15 -> SetNodes(R(NodeKeys))
    [] k = 16 -> SetSuf(R(SufKeys))
    [] k = 17 -> SetDef(R(DefKeys))
    [] k = 18 -> SetMembers(R(MemberSets \ {members}))
    [] k = 19 \/ k = 20 -> SetCandidates(R(MemberSets \ {members}))
    [] k = 21 -> SetStateHash

Next == /\ n < MaxSteps
        /\ IF Warm /\ n = 0 THEN Request("a1", "h1", "")
           ELSE IF Warm /\ n = 1 THEN AddNode("a1")
           ELSE IF Walk THEN RandomAction(R(1..21))
           ELSE \/ \E a \in Addrs, hd \in Handlers, c \in Cids : Request(a, hd, c)
                \/ \E a \in Addrs : AddNode(a)
                \/ \E k \in CidKeys : SetCid(k)
                \/ \E k \in NetKeys : SetNets(k)
                \/ \E k \in NodeKeys : SetNodes(k)
                \/ \E m \in MemberSets : SetMembers(m)
                \/ \E m \in MemberSets : SetCandidates(m)
                \/ SetStateHash
                \/ (FullAlphabet \/ Tight) /\ \E k \in SufKeys : SetSuf(k)
                \/ (FullAlphabet \/ Tight) /\ \E k \in DefKeys : SetDef(k)

Spec == Init /\ [][Next]_vars

---------------------------------------------------------------------------
Last == hist[Len(hist)]
IsReq == n > 0 /\ Last.a = "Request"

(* THE STATEMENT on the transcription - a candidate (fails) *)
ImplMatchesChoose == IsReq => Last.impl = Last.want

(* what is true of the transcription: it deviates only by handing out a cached limiter *)
DeviationOnlyViaCache == (IsReq /\ Last.impl # Last.want) =>
                            Last.path \in {"cached-clientid", "cached-net", "cached-node", "cached-suffrage", "suffrage-rehash"}

(* a limiter made or re-evaluated for this request is the statement's choice (the catalogues keep
   the two readings of "first matching network" together) *)
FreshIsChoose == (IsReq /\ Last.path \in {"fresh", "re-evaluated"}) => Last.impl = Last.want

(* the statement's precedence said once more, rule set by rule set *)
PrecedenceOK == IsReq =>
   LET w == Last.want IN
   /\ w[1] = "net" => CidRule(Last.c, Last.h) = 0
   /\ w[1] \in {"node", "suffrage", "defaultmap", "default"} => NetMatch(Last.addr, Last.h) = 0
   /\ w[1] \in {"suffrage", "defaultmap", "default"} => NodeRule(Last.addr, Last.h) = 0
   /\ w[1] \in {"defaultmap", "default"} => SufRule(Last.addr, Last.h) = 0
   /\ w[1] = "default" <=> (w[2] = BuiltIn /\ def[Last.h] = 0 /\ SufRule(Last.addr, Last.h) = 0 /\ NodeRule(Last.addr, Last.h) = 0
                              /\ NetMatch(Last.addr, Last.h) = 0 /\ CidRule(Last.c, Last.h) = 0)

(* the suffrage rule judges a request only while the node of the address IS a consensus node, whatever the state hash
   says (the statement's "suffrage rule" is the rule for suffrage nodes; true of the transcription, fails for the
   candidate SufCheck = "hash-first" on  ..., SetCandidates(without the node), Request) *)
SuffrageOnlyInConsensus == (IsReq /\ Last.impl[1] = "suffrage") => (Last.addr \in known /\ NodeOf[Last.addr] \in members)

---------------------------------------------------------------------------
(* Part 2: enforcement. THE STATEMENT's second sentence on the history of the model: take the requests of one limiter
   instance (addr, handler) from request i to the last one; if the rule in force (limit, burst) is the same for all of
   them, the allowed ones are at most burst + rate x (time from i to the last). Whatever else happens in between -
   rule sets replaced, suffrage state hash, membership, AddNode, the type of the picked rule, other instances - gives
   no new tokens. *)
ReqsOf(a, hd) == {i \in 1..Len(hist) : hist[i].a = "Request" /\ hist[i].addr = a /\ hist[i].h = hd}
BoundOK == IsReq =>
  LET S == ReqsOf(Last.addr, Last.h)
      b == Last.impl[2]
  IN b > 0 => \A i \in S : (\A m \in S : m >= i => hist[m].impl[2] = b) =>
                 Cardinality({m \in S : m >= i /\ hist[m].ok}) * Per <= b * Per + b * (Last.at - hist[i].at)
ZeroOK    == (IsReq /\ Last.impl[2] = -1) => ~Last.ok

(* Recorded executions of the real limiter. s is the sequence of the requests of ONE limiter instance in call order,
   each <<burst, per, tb, ta, ok, step>>: the rule of the limiter that judged the request as RateLimiterResult reports
   it (burst per `per` time units; burst -1 = the rule that rejects everything, -2 = no limit), the harness clock
   (same unit, tb rounded down, ta up) read before and after the call, ok = 1 if it was allowed, step = its place in
   the history. The limiter reads its own clock between tb and ta, so the time from tb_i to ta_j contains the
   limiter's window for the calls i..j and the bound below is implied by the statement without a clock hook.
   For every window i..j during which the rule keeps its burst and per:
      allowed <= burst + (burst / per) * (ta_j - tb_i),   in integers  (allowed - burst) * per <= burst * (ta_j - tb_i). *)
SameRule(s, i, j) == \A m \in i..j : s[m][1] = s[i][1] /\ s[m][2] = s[i][2]
RECURSIVE CountOK(_, _, _)
CountOK(s, i, j) == IF i > j THEN 0 ELSE (IF s[i][5] = 1 THEN 1 ELSE 0) + CountOK(s, i + 1, j)
WinOK(s, i, j) == (s[i][1] > 0 /\ SameRule(s, i, j)) => (CountOK(s, i, j) - s[i][1]) * s[i][2] <= s[i][1] * (s[j][4] - s[i][3])
WindowOK(s) == \A i \in 1..Len(s) : \A j \in i..Len(s) : WinOK(s, i, j)
ZeroRuleOK(s) == \A m \in 1..Len(s) : s[m][1] = -1 => s[m][5] = 0
=============================================================================
