SPECIFICATION Spec
CONSTANTS
  TypeNames = {"ta"}
  Vers <- VersDeep
  MaxOps = 4
  EmitAll = FALSE
INVARIANTS TypeOK TableIsHighest RepliesFromTable
CHECK_DEADLOCK FALSE
