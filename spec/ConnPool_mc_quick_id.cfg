SPECIFICATION Spec
CONSTANTS
  NA = 2
  MaxConn = 3
  MaxCalls = 4
  NT = 1
  Concurrent = FALSE
  ByIdentity = TRUE
  MaxHandles = 4
INVARIANTS TypeOK P1 P2 P3 
CHECK_DEADLOCK FALSE
