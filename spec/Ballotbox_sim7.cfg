SPECIFICATION Spec
CONSTANTS
  Node0 = {"n0", "n1", "n2", "n3", "n4", "n5", "n6"}
  Local0 = "n0"
  T100 = 670
  EmitStep = TRUE
  Heights = {1}
  Rounds = {0}
  Stages = {1, 3}
  Facts = {"A", "B"}
  ExSets = {{}, {"n6"}, {"n5", "n6"}}
  AllowSC = TRUE
  MaxId = 6
  MaxVotes = 18
  MaxChan = 3
  MaxSet = 1
  StoreSC = "sf-"
  CleanSC = "sf-"
  CountRule = "sound"
  EagerCount = FALSE
  Holds = FALSE
  MaxTick = 0
  TickGuard = "impl"
CHECK_DEADLOCK FALSE
