SPECIFICATION Spec
CONSTANTS
  Ids = {"a"}
  MaxInst = 2
  MaxTicks = 2
  MaxStops = 1
  MaxClock = 2
  MaxRm = 1
  Interval = 1
  RegOrder = "deadline-first"
  RemoveBy = "instance"
  Results = {"keep", "stop"}
  KeepHist = "off"
VIEW view
INVARIANTS TypeOK RemoveOnlySelf NotEarly NoStartIfStoppedBeforeCheck RegisteredAlive
CHECK_DEADLOCK FALSE
