SPECIFICATION Spec
CONSTANTS
  Addr = {"a1"}
  Node = {"n1", "n2"}
  Procs = {1, 2, 3}
  Discipline = "free"
  Forced = TRUE
  CallOps = {"Join", "Leave", "Get", "Others"}
  MinMutators = 2
INVARIANTS EmitSched
CHECK_DEADLOCK FALSE
