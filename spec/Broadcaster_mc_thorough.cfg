SPECIFICATION Spec
CONSTANTS
  Deliv = {"d1", "d2", "d3"}
  Handler = {"h1"}
  SP = {"i", "a", "s"}
  Fact = {"A", "B"}
  MaxAgain = 1
  SendKept = TRUE
  Record = FALSE
VIEW view
INVARIANTS TypeOK NoEquivocation SentWasSigned
PROPERTIES PoolStable
CHECK_DEADLOCK FALSE
