SPECIFICATION ShardSpec
CONSTANTS
  NK = 2
  MaxVal = 9
  NG = 3
  NSlots = 2
  MaxOps = 1
  Modes = {"blind"}
  Forced = TRUE
  OpSet = {"SetValue", "GetOrCreate", "Value"}
INVARIANTS EmitSched
CHECK_DEADLOCK FALSE
