SPECIFICATION Spec
CONSTANTS
  Node = {"n1", "n2"}
  MaxH = 4
  MaxOps = 3
  MaxRm = 1
  EarlyStop = FALSE
VIEW View
INVARIANTS TypeOK TraverseRefines LookupRefines RemoveRefines RemoveKeepsLater
CHECK_DEADLOCK FALSE
