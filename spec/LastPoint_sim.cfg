SPECIFICATION Spec
CONSTANTS
  MaxH = 4
  MaxR = 3
  Walk = TRUE
  Rules = {"B"}
CHECK_DEADLOCK FALSE
