SPECIFICATION Spec
CONSTANTS
  Keys = {"a"}
  MaxLen = 4
  MaxWrites = 4
  MaxSteps = 1000
  MaxPool = 0
  KeepPath = TRUE
  EmitStep = TRUE
  WithReopen = FALSE
  WithCenter = TRUE
  Repaired = TRUE
VIEW view
INVARIANTS TypeOK ReadsConsistent ImplAgreesSuffrageProof ImplAgreesProofByBlockHeight
PROPERTIES MergeAndReopenInvisible ReadersMonotone
CHECK_DEADLOCK FALSE
