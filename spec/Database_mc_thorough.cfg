SPECIFICATION Spec
CONSTANTS
  Keys = {"a"}
  MaxLen = 4
  MaxWrites = 4
  MaxSteps = 1000
  MaxPool = 0
  KeepPath = TRUE
  EmitStep = TRUE
  WithReopen = FALSE
  WithCenter = TRUE
  Repaired = TRUE
  Contents <- AllContents
  SizeClasses = {"s"}
  MaxBig = 0
  WriteLimit = 128
  MergeLimit = 333
  CacheChoices = {FALSE}
  ReadOptional = FALSE
  Purge = TRUE
VIEW view
INVARIANTS TypeOK ReadsConsistent ImplAgreesSuffrageProof ImplAgreesProofByBlockHeight ImplStateAgrees CacheFresh BatchesCarryEveryRecord
PROPERTIES MergeAndReopenInvisible ReadersMonotone MemoryInvisible
CHECK_DEADLOCK FALSE
