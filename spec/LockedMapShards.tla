-------------------------- MODULE LockedMapShards --------------------------
(* C32, implementation-level layer of the sharded maps of /repo/util/lock.go    *)
(* (ShardedMap, NewDeepShardedMap, NewLockedMap(size > 1)): the keys of the     *)
(* sequential map of LockedMap.tla live in INNER maps, one per shard SLOT, and  *)
(* a slot is allocated on its FIRST TOUCH by a creating operation (SetValue,    *)
(* Set, GetOrCreate, SetOrRemove -> newItem: build the inner map with the       *)
(* caller-supplied constructor `newMap`, store it into the slot); the other     *)
(* operations (loadItem) answer "not found" on an empty slot. The length is a   *)
(* separate counter, updated after the inner operation.                         *)
(*                                                                               *)
(* The sequential map (m, closed of LockedMap.tla) is carried along as the      *)
(* reference: it takes the call at the step where the inner map takes it        *)
(* (Apply, or Load on an empty slot), and the layer must give the answer the    *)
(* sequential map gives (Refines), hold exactly the sequential map's content    *)
(* in the inner maps reachable from the slots (ContentAgrees, OrphanEmpty) and  *)
(* report its size when no call is pending (LenAtRest).                          *)
(*                                                                               *)
(* How the first touch is ordered is the allocation discipline `mode`:          *)
(*   "locked"  the slot is checked, the inner map built and stored in one       *)
(*             critical section of the write lock of the slot array (/repo);    *)
(*             a goroutine inside the constructor HOLDS that lock: every other  *)
(*             call of the map waits                                             *)
(*   "dcl"     double-checked: the slot is read under the read lock, the inner  *)
(*             map is built outside any lock and stored under the write lock    *)
(*             only if the slot is still empty (otherwise the stored one is     *)
(*             used)                                                             *)
(*   "blind"   as "dcl" without the second check: the later store overwrites    *)
(*   "locked" and "dcl" satisfy the properties (LockedMapShards_mc_*.cfg);      *)
(*   "blind" does not (LockedMapShards_cand.cfg: two creating calls on keys of  *)
(*   one empty slot, the earlier inner map is orphaned with its key, the        *)
(*   counter has counted it) - the class of defect this layer is there for.     *)
(*                                                                               *)
(* Binding G without a hook in /repo: the constructor `newMap` is an argument   *)
(* of NewShardedMap / NewDeepShardedMap / NewLockedMap, so the harness parks a  *)
(* goroutine INSIDE it ("ctor") and decides when it returns. With Forced = TRUE *)
(* this spec is the controller: a command is given only when nothing else can   *)
(* move, commands are                                                            *)
(*    S<g>:<op>:<key>:<md>:<v>   goroutine g starts that call                    *)
(*    L<g>                       g, parked in the constructor, goes on           *)
(* and `hist` is the command list; EmitSched prints every maximal one together  *)
(* with the layout (slot of k1, k2, ..). The schedules are taken from the most  *)
(* permissive discipline (constructor outside the lock): harness/internal/c32   *)
(* (force.go) gives the commands to the real map - a command the real locks do  *)
(* not admit waits (S) or is void (L) - and records the history; the verdict is *)
(* the one of LockedMapTrace.tla (linearization, final Map(), final Len()).     *)
EXTENDS LockedMap

CONSTANTS NG,        \* goroutines 1..NG
          NSlots,    \* shard slots 1..NSlots
          MaxOps,    \* calls per goroutine (1..MaxOps, chosen at Init)
          Modes,     \* allocation disciplines explored: subset of {"locked", "dcl", "blind"}
          Forced,    \* TRUE: controller semantics + hist (schedule enumeration); FALSE: free interleaving
          OpSet      \* operations of the menu

G == 1..NG
Slots == 1..NSlots
MaxInner == NG * MaxOps          \* every creating call may build one inner map
Creating == {"SetValue", "Set", "GetOrCreate", "SetOrRemove"}

VARIABLES mode,      \* the allocation discipline of this behaviour
          layout,    \* KeySet -> Slots: the shard slot of every key (the hash)
          want,      \* G -> 1..MaxOps: number of calls of each goroutine (chosen at Init when Forced)
          slot,      \* Slots -> 0..MaxInner: the inner map stored in the slot (0: not allocated)
          inner,     \* 1..MaxInner -> content of that inner map
          nin,       \* inner maps built so far
          length,    \* the length counter
          wl,        \* goroutine that holds the write lock of the slot array (0: free)
          pc,        \* G -> "idle" | "new" | "ctor" | "store" | "load" | "apply" | "count"
          cur,       \* G -> the call in progress
          item,      \* G -> inner map the call works on
          mine,      \* G -> inner map the call has built ("dcl", "blind")
          delta,     \* G -> change of the number of keys the inner operation reported
          ncalls,    \* G -> calls started
          dev,       \* first answer that differs from the sequential map's ("" = none)
          hist       \* Forced: the commands given so far
svars == <<mode, layout, want, slot, inner, nin, length, wl, pc, cur, item, mine, delta, ncalls, dev, hist, m, closed>>

NoCall == [op |-> "-", k |-> Keys[1], md |-> "-", v |-> 0]

(* layouts up to renaming of the slots: k1 in slot 1, every later key in a used slot or the next new one *)
MaxOf(S) == CHOOSE x \in S : \A y \in S : y <= x
Canonical(f) == \A i \in 1..Len(Keys) :
                   f[Keys[i]] <= (IF i = 1 THEN 1 ELSE 1 + MaxOf({f[Keys[j]] : j \in 1..(i - 1)}))
Layouts == {f \in [KeySet -> Slots] : Canonical(f)}

ShardInit ==
  /\ Init
  /\ mode \in Modes
  /\ layout \in Layouts
  /\ want \in (IF Forced THEN [G -> 1..MaxOps] ELSE {[g \in G |-> MaxOps]})   \* free: any prefix is a state anyway
  /\ slot = [s \in Slots |-> 0]
  /\ inner = [i \in 1..MaxInner |-> EmptyMap]
  /\ nin = 0 /\ length = 0 /\ wl = 0
  /\ pc = [g \in G |-> "idle"]
  /\ cur = [g \in G |-> NoCall]
  /\ item = [g \in G |-> 0] /\ mine = [g \in G |-> 0] /\ delta = [g \in G |-> 0]
  /\ ncalls = [g \in G |-> 0]
  /\ dev = "" /\ hist = ""

SlotOf(g) == layout[cur[g].k]

(* a goroutine that waits for the lock of the slot array *)
Blocked(g) == pc[g] \in {"new", "load", "store"} /\ wl # 0
(* nothing moves without a command of the controller *)
Quiet == \A g \in G : pc[g] \in {"idle", "ctor"} \/ Blocked(g)

(* the menu: callbacks as in LockedMap.tla; every call stores its own value *)
ValOf(g) == MaxOps * (g - 1) + ncalls[g] + 1
Mds(op) == CASE op = "Set"         -> {"set", "inc", "ign"}
             [] op = "GetOrCreate" -> {"val", "ign"}
             [] op = "SetOrRemove" -> {"set", "rm"}
             [] op = "Remove"      -> {"ok"}
             [] OTHER              -> {"-"}
Menu(g) == UNION {[op : {o}, k : KeySet, md : Mds(o),
                   v : IF o \in Creating THEN {ValOf(g)} ELSE {0}] : o \in OpSet}

Cmd(s) == IF Forced THEN hist \o " " \o s ELSE hist

Start(g, c) ==
  /\ pc[g] = "idle" /\ ncalls[g] < want[g]
  /\ Forced => Quiet
  /\ cur' = [cur EXCEPT ![g] = c]
  /\ pc' = [pc EXCEPT ![g] = IF c.op \in Creating THEN "new" ELSE "load"]
  /\ ncalls' = [ncalls EXCEPT ![g] = @ + 1]
  /\ hist' = Cmd("S" \o ToString(g) \o ":" \o c.op \o ":" \o c.k \o ":" \o c.md \o ":" \o ToString(c.v))
  /\ UNCHANGED <<mode, layout, want, slot, inner, nin, length, wl, item, mine, delta, dev, m, closed>>

(* newItem: look at the slot *)
New(g) ==
  /\ pc[g] = "new" /\ wl = 0
  /\ IF slot[SlotOf(g)] # 0
       THEN /\ item' = [item EXCEPT ![g] = slot[SlotOf(g)]]
            /\ pc' = [pc EXCEPT ![g] = "apply"]
            /\ wl' = wl
       ELSE /\ pc' = [pc EXCEPT ![g] = "ctor"]           \* into the constructor ...
            /\ wl' = IF mode = "locked" THEN g ELSE 0      \* ... with or without the write lock
            /\ item' = item
  /\ UNCHANGED <<mode, layout, want, slot, inner, nin, length, cur, mine, delta, ncalls, dev, hist, m, closed>>

(* the constructor returns (command L<g>) *)
CtorRet(g) ==
  /\ pc[g] = "ctor"
  /\ Forced => Quiet
  /\ nin' = nin + 1
  /\ hist' = Cmd("L" \o ToString(g))
  /\ IF mode = "locked"
       THEN /\ slot' = [slot EXCEPT ![SlotOf(g)] = nin + 1]
            /\ item' = [item EXCEPT ![g] = nin + 1]
            /\ wl' = 0 /\ mine' = mine
            /\ pc' = [pc EXCEPT ![g] = "apply"]
       ELSE /\ mine' = [mine EXCEPT ![g] = nin + 1]
            /\ pc' = [pc EXCEPT ![g] = "store"]
            /\ UNCHANGED <<slot, item, wl>>
  /\ UNCHANGED <<mode, layout, want, inner, length, cur, delta, ncalls, dev, m, closed>>

(* "dcl" / "blind": store the built inner map under the write lock *)
Store(g) ==
  /\ pc[g] = "store" /\ wl = 0
  /\ IF mode = "dcl" /\ slot[SlotOf(g)] # 0
       THEN /\ item' = [item EXCEPT ![g] = slot[SlotOf(g)]] /\ slot' = slot
       ELSE /\ item' = [item EXCEPT ![g] = mine[g]]
            /\ slot' = [slot EXCEPT ![SlotOf(g)] = mine[g]]
  /\ pc' = [pc EXCEPT ![g] = "apply"]
  /\ UNCHANGED <<mode, layout, want, inner, nin, length, wl, cur, mine, delta, ncalls, dev, hist, m, closed>>

Differs(g, a) == IF dev = "" /\ a # Answer(cur[g])
                   THEN cur[g].op \o "(" \o cur[g].k \o ")=" \o ToString(a) \o " sequential map " \o ToString(Answer(cur[g]))
                   ELSE dev

(* loadItem: an empty slot answers like an empty map, at once *)
Load(g) ==
  /\ pc[g] = "load" /\ wl = 0
  /\ IF slot[SlotOf(g)] = 0
       THEN /\ dev' = Differs(g, AnswerIn(EmptyMap, cur[g]))
            /\ pc' = [pc EXCEPT ![g] = "idle"]
            /\ item' = item /\ cur' = [cur EXCEPT ![g] = NoCall]
            /\ Do(cur[g])
       ELSE /\ item' = [item EXCEPT ![g] = slot[SlotOf(g)]]
            /\ pc' = [pc EXCEPT ![g] = "apply"]
            /\ UNCHANGED <<dev, m, closed, cur>>
  /\ UNCHANGED <<mode, layout, want, slot, inner, nin, length, wl, mine, delta, ncalls, hist>>

(* the operation on the inner map (under the inner map's own lock) *)
Apply(g) ==
  /\ pc[g] = "apply"
  /\ LET old == inner[item[g]]
         new == AfterIn(old, cur[g])
         d == SizeIn(new) - SizeIn(old) IN
       /\ dev' = Differs(g, AnswerIn(old, cur[g]))
       /\ inner' = [inner EXCEPT ![item[g]] = new]
       /\ delta' = [delta EXCEPT ![g] = d]
       /\ pc' = [pc EXCEPT ![g] = IF d = 0 THEN "idle" ELSE "count"]
       /\ cur' = [cur EXCEPT ![g] = NoCall]                \* (the call is of no interest from here on)
  /\ item' = [item EXCEPT ![g] = 0] /\ mine' = [mine EXCEPT ![g] = 0]
  /\ Do(cur[g])
  /\ UNCHANGED <<mode, layout, want, slot, nin, length, wl, ncalls, hist>>

(* the counter follows *)
Count(g) ==
  /\ pc[g] = "count"
  /\ length' = length + delta[g]
  /\ delta' = [delta EXCEPT ![g] = 0]
  /\ pc' = [pc EXCEPT ![g] = "idle"]
  /\ UNCHANGED <<mode, layout, want, slot, inner, nin, wl, cur, item, mine, ncalls, dev, hist, m, closed>>

ShardNext == \E g \in G : \/ \E c \in Menu(g) : Start(g, c)
                          \/ New(g) \/ CtorRet(g) \/ Store(g) \/ Load(g) \/ Apply(g) \/ Count(g)
ShardSpec == ShardInit /\ [][ShardNext]_svars

(* ---- properties ---- *)
ShardTypeOK ==
  /\ slot \in [Slots -> 0..nin] /\ nin \in 0..MaxInner
  /\ inner \in [1..MaxInner -> [KeySet -> Val \cup {NoVal}]]
  /\ wl \in {0} \cup G /\ (wl # 0 => pc[wl] = "ctor" /\ mode = "locked")
  /\ \A g \in G : pc[g] \in {"idle", "new", "ctor", "store", "load", "apply", "count"}

(* the answers are the sequential map's *)
Refines == dev = ""
(* the content a reader finds through the slots is the sequential map's *)
Reach(k) == IF slot[layout[k]] = 0 THEN NoVal ELSE inner[slot[layout[k]]][k]
ContentAgrees == \A k \in KeySet : Reach(k) = m[k]
(* an inner map that is in no slot holds no key *)
OrphanEmpty == \A i \in 1..nin : (\A s \in Slots : slot[s] # i) => inner[i] = EmptyMap
(* sentence 2 of the statement: after the operations finished the length is the number of keys *)
AtRest == \A g \in G : pc[g] = "idle"
LenAtRest == AtRest => length = Size /\ length = Cardinality({k \in KeySet : Reach(k) # NoVal})
(* a slot, once allocated, keeps its inner map (no Close in this layer) *)
SlotStable == [][\A s \in Slots : slot[s] # 0 => slot'[s] = slot[s]]_svars

(* ---- the schedules to force: one line per maximal command list ---- *)
Maximal == AtRest /\ \A g \in G : ncalls[g] = want[g]
LayoutStr == LET f[i \in 0..Len(Keys)] == IF i = 0 THEN "" ELSE f[i - 1] \o ToString(layout[Keys[i]]) IN f[Len(Keys)]
EmitSched == Forced /\ Maximal => PrintT("SCHED " \o LayoutStr \o hist)

OpsCore == {"SetValue", "Set", "GetOrCreate", "SetOrRemove", "Value", "RemoveValue"}
OpsAll == OpsCore \cup {"Exists", "Get", "Remove"}
=============================================================================
