SPECIFICATION Spec
CONSTANTS
  MaxSize = 5
  Compute = TRUE
  Walk = FALSE
INVARIANTS ProofMutationDetected
CHECK_DEADLOCK FALSE
