INIT Init
NEXT Next
CONSTANTS
  MaxK = 4
  Gap = 3
  Sizes = {1}
  Positions = {0}
  Variants = {"pinned", "fixed", "ideal"}
  Emit = TRUE
  Mode = "build"
  Limits = {2, 3}
  RespKinds = {"consistent", "last-invalid", "missing", "error", "fork-one", "wrongheight", "swap", "fork", "older", "nongenesis-zero"}
CHECK_DEADLOCK FALSE
