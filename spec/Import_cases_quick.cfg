INIT Init
NEXT Next
CONSTANTS
  Counts = {1, 2, 3, 4, 5, 6, 7, 8, 9, 10, 11, 12, 13, 14, 15, 16, 17, 18, 19, 20, 21, 22, 23, 24, 25, 26, 27, 28, 29, 30, 31, 32, 33, 34, 35, 36, 37, 38, 39, 40}
  Limits = {1, 2, 3, 4, 5, 6, 7, 8, 9, 10, 11, 12, 13, 14, 15, 16, 17, 18, 19, 20, 21, 22, 23, 24, 25, 26, 27, 28, 29, 30, 31, 32, 33, 34, 35, 36, 37, 38, 39, 40, 41}
  Froms = {0}
  FaultKinds = {}
  Variants = {"pinned", "fixed"}
  Interleave = FALSE
  Emit = TRUE
CHECK_DEADLOCK FALSE
