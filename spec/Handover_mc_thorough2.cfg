\* exhaustive (thorough): two faults, endure counter 1, MinChal 2, a forwarded ballot; no operator cancellation
SPECIFICATION Spec
CONSTANTS
  Kinds <- KindsIAIA
  MinChal = 2
  ReadyEndArg = 0
  MaxFail = 1
  FinishRetry = 3
  CancelRetry = 2
  MaxAsk = 2
  MaxFaults = 2
  MaxBallots = 1
  LocalCancel = FALSE
  AllowDup = TRUE
  Bias = 0
VIEW view
CHECK_DEADLOCK FALSE
INVARIANTS
  TypeOK
  NoLaterVote
  YInOnlyAfterXFinish
  XOutWhenYIn
  FinishedIsOut
  CancelledNotBoth
  YCancelledOut
  OnceCallbacks
  YInImpliesFinished
  NothingBeforeAsk
  ResponseNeverErr
  FinishGuard
PROPERTIES
  NoLateProcessingX
  NoLateProcessingY
