--------------------------- MODULE StuckResolver ---------------------------
(* STUCK - the ballot stuck resolver, at implementation level.                                          *)
(*                                                                                                     *)
(* Models /repo/isaac/states/ballot_stuck_resolver.go (DefaultBallotStuckResolver: NewPoint, Cancel,     *)
(* Clean, the goroutine of one accepted point = "run": initial wait, then start(): a ticker loop that    *)
(* on every tick asks findMissingBallotsf(point, false), requests the missing ballots                    *)
(* (requestMissingBallotsf) and - once resolveAfter has elapsed - asks findMissingBallotsf(point, true)  *)
(* and votes the missing nodes out (voteSuffrageVotingf), handing the resulting stuck voteproof to       *)
(* Voteproof()).  The handlers call NewPoint(ballot point) whenever the node votes its own ballot        *)
(* (base_ballot_handler.go vote) and Cancel(voteproof point) on every new voteproof                      *)
(* (voteproof_handler.go, joining.go); States.startStatesSwitch reads Voteproof().                       *)
(* ISAAC.tla has no such component: check/isaac.md records that with one equivocating member (n=4) two   *)
(* nodes wait for ever for a third ACCEPT ballot; this is the component that gets them out - it asks the *)
(* silent node for its ballot and, if that does not help, makes the stuck voteproof (missing nodes voted *)
(* out) that moves everybody to the next round.                                                          *)
(*                                                                                                     *)
(* Stage points are the integers 1..MaxPoint in their order (0 = base.ZeroStagePoint); the results of    *)
(* the three callbacks are chosen by the environment.  CtxChecks = FALSE is the algorithm of the pinned  *)
(* tree: the run looks at its context only in the select of the loop (where Go may still pick the        *)
(* ticker when both are ready) and not between the callbacks of one tick; CtxChecks = TRUE looks before  *)
(* every callback and before the voteproof is handed out.                                                *)
(* Binding B: StuckResolverTrace.tla judges recorded executions of the real resolver with the            *)
(* operators of the section "contract".                                                                 *)
EXTENDS Integers, Sequences, FiniteSets, TLC

CONSTANTS MaxPoint,   \* stage points 1..MaxPoint
          MaxRuns,    \* bound: accepted NewPoint calls
          MaxTicks,   \* bound: ticks of one run
          CtxChecks,  \* see above
          CanClean    \* the environment may call Clean (nobody does in the repository)

Points == 1..MaxPoint
Zero == 0
None == 0

(* ------------------------------------------------------------------ contract *)
(* NewPoint(p) starts a run exactly if p is newer than the newest point given so far *)
NewPointStarts(p, newest) == p > newest
(* Cancel(p) concerns the current run exactly if p is not older than the newest point *)
CancelApplies(p, newest) == p >= newest
(* order of the callbacks of one run: what may come after what ("start" = nothing yet)               *)
(* find = findMissingBallotsf(.., false), request = requestMissingBallotsf,                           *)
(* findalone = findMissingBallotsf(.., true), vote = voteSuffrageVotingf, vp = voteproof handed out   *)
MayFollow(kind, lastkind, lastres) ==
  CASE kind = "find"      -> \/ lastkind = "start"
                             \/ (lastkind = "find" /\ lastres = "notok")
                             \/ (lastkind = "request" /\ lastres = "ok")
                             \/ (lastkind = "findalone" /\ lastres = "notok")
                             \/ (lastkind = "vote" /\ lastres = "nil")
    [] kind = "request"   -> lastkind = "find" /\ lastres = "nodes"
    [] kind = "findalone" -> lastkind = "request" /\ lastres = "ok"       \* it asks for the missing ballots first
    [] kind = "vote"      -> lastkind = "findalone" /\ lastres = "nodes"
    [] kind = "vp"        -> lastkind = "vote" /\ lastres = "vp"
    [] OTHER              -> FALSE
(* a run is over after these answers: nothing of it may follow *)
Ends(kind, res) == \/ res = "err"
                   \/ (kind \in {"find", "findalone"} /\ res = "none")
                   \/ kind = "vp"

VARIABLES
  newest,    \* c.point
  handle,    \* the run whose cancel function is in cancelf (None: empty)
  runs,      \* run id -> [point, pc, ctxc, after, lastk, lastr, ticks, nvp]
  nruns,
  vps,       \* stuck voteproofs handed out: sequence of <<run, point>>
  cancelmax, \* highest point of a Cancel that applied (since the last Clean)
  bad        \* contract clauses broken by a step

vars == <<newest, handle, runs, nruns, vps, cancelmax, bad>>

RunIds == 1..MaxRuns
Live(r) == r \in DOMAIN runs /\ runs[r].pc # "end"

Init == newest = Zero /\ handle = None /\ runs = <<>> /\ nruns = 0 /\ vps = <<>> /\ cancelmax = Zero /\ bad = {}

CancelRun(rs, r) == IF r # None /\ r \in DOMAIN rs THEN [rs EXCEPT ![r].ctxc = TRUE] ELSE rs

(* ------------------------------------------------------------------ the API (serialised by cancelf's lock) *)
NewPoint(p) ==
  /\ IF NewPointStarts(p, newest) /\ nruns < MaxRuns
       THEN /\ newest' = p /\ nruns' = nruns + 1 /\ handle' = nruns + 1
            /\ runs' = Append(CancelRun(runs, handle),
                              [point |-> p, pc |-> "wait", ctxc |-> FALSE, after |-> FALSE,
                               lastk |-> "start", lastr |-> "", ticks |-> 0, nvp |-> 0])
            /\ bad' = bad \cup (IF p <= cancelmax THEN {"run-at-or-below-cancelled-point"} ELSE {})
       ELSE UNCHANGED <<newest, nruns, handle, runs, bad>>
  /\ UNCHANGED <<vps, cancelmax>>
Cancel(p) ==
  /\ IF CancelApplies(p, newest)
       THEN runs' = CancelRun(runs, handle) /\ handle' = None /\ cancelmax' = IF p > cancelmax THEN p ELSE cancelmax
       ELSE UNCHANGED <<runs, handle, cancelmax>>
  /\ UNCHANGED <<newest, nruns, vps, bad>>
Clean ==
  /\ CanClean
  /\ newest' = Zero /\ runs' = CancelRun(runs, handle) /\ handle' = None /\ cancelmax' = Zero
  /\ UNCHANGED <<nruns, vps, bad>>

(* ------------------------------------------------------------------ one run *)
Set(r, f) == runs' = [runs EXCEPT ![r] = f]
Stops(r) == Set(r, [runs[r] EXCEPT !.pc = "end"])
(* does the run look at its context before this step? pinned: only in the select, and there the ticker may win *)
SeesCancel(r) == runs[r].ctxc /\ CtxChecks

(* initial wait: select { sctx.Done: return; wctx.Done: deadline -> start() } *)
WaitOver(r) ==
  /\ Live(r) /\ runs[r].pc = "wait"
  /\ \/ runs[r].ctxc /\ Stops(r)
     \/ Set(r, [runs[r] EXCEPT !.pc = "select"])      \* both may be ready: Go picks either
  /\ UNCHANGED <<newest, handle, nruns, vps, cancelmax, bad>>
ResolveAfter(r) ==
  /\ Live(r) /\ runs[r].pc = "select" /\ ~runs[r].after
  /\ Set(r, [runs[r] EXCEPT !.after = TRUE])
  /\ UNCHANGED <<newest, handle, nruns, vps, cancelmax, bad>>
CtxDone(r) ==
  /\ Live(r) /\ runs[r].pc = "select" /\ runs[r].ctxc /\ Stops(r)
  /\ UNCHANGED <<newest, handle, nruns, vps, cancelmax, bad>>
Tick(r) ==
  /\ Live(r) /\ runs[r].pc = "select" /\ runs[r].ticks < MaxTicks
  /\ IF SeesCancel(r) THEN Stops(r)
     ELSE Set(r, [runs[r] EXCEPT !.pc = "find", !.ticks = @ + 1])
  /\ UNCHANGED <<newest, handle, nruns, vps, cancelmax, bad>>

(* a callback: kind, the answer res, where the run goes next *)
Call(r, kind, res, nextpc) ==
  /\ Live(r) /\ runs[r].pc = kind
  /\ IF SeesCancel(r)
       THEN Stops(r) /\ UNCHANGED bad
       ELSE /\ Set(r, [runs[r] EXCEPT !.pc = IF Ends(kind, res) THEN "end" ELSE nextpc, !.lastk = kind, !.lastr = res])
            /\ bad' = bad \cup (IF runs[r].ctxc THEN {kind \o "-after-cancel"} ELSE {})
                          \cup (IF MayFollow(kind, runs[r].lastk, runs[r].lastr) THEN {} ELSE {"order-" \o kind})
  /\ UNCHANGED <<newest, handle, nruns, vps, cancelmax>>

Find(r) == \/ Call(r, "find", "err", "end") \/ Call(r, "find", "none", "end")
           \/ Call(r, "find", "notok", "select") \/ Call(r, "find", "nodes", "request")
Request(r) == \/ Call(r, "request", "err", "end")
              \/ Call(r, "request", "ok", IF runs[r].after THEN "findalone" ELSE "select")
FindAlone(r) == \/ Call(r, "findalone", "err", "end") \/ Call(r, "findalone", "none", "end")
                \/ Call(r, "findalone", "notok", "select") \/ Call(r, "findalone", "nodes", "vote")
Vote(r) == \/ Call(r, "vote", "err", "end") \/ Call(r, "vote", "nil", "select") \/ Call(r, "vote", "vp", "vp")
HandOut(r) ==
  /\ Live(r) /\ runs[r].pc = "vp"
  /\ IF SeesCancel(r)
       THEN Stops(r) /\ UNCHANGED <<vps, bad>>
       ELSE /\ Set(r, [runs[r] EXCEPT !.pc = "end", !.lastk = "vp", !.lastr = "", !.nvp = @ + 1])
            /\ vps' = Append(vps, <<r, runs[r].point>>)
            /\ bad' = bad \cup (IF runs[r].ctxc THEN {"vp-after-cancel"} ELSE {})
  /\ UNCHANGED <<newest, handle, nruns, cancelmax>>

Api == \/ \E p \in Points : NewPoint(p) \/ Cancel(p)
       \/ Clean
Run(r) == WaitOver(r) \/ ResolveAfter(r) \/ CtxDone(r) \/ Tick(r) \/ Find(r) \/ Request(r) \/ FindAlone(r) \/ Vote(r) \/ HandOut(r)
Next == Api \/ \E r \in RunIds : Run(r)
Spec == Init /\ [][Next]_vars

(* ------------------------------------------------------------------ properties *)
TypeOK ==
  /\ newest \in 0..MaxPoint /\ handle \in 0..MaxRuns /\ nruns \in 0..MaxRuns
  /\ \A r \in DOMAIN runs : runs[r].pc \in {"wait", "select", "find", "request", "findalone", "vote", "vp", "end"}
(* it never acts for a point older than the newest it was given; Cancel(point) stops every later action of the  *)
(* run for that (or an older) point: no callback and no voteproof of a cancelled run                           *)
NoActionAfterCancel == \A x \in bad : x \notin {"find-after-cancel", "request-after-cancel", "findalone-after-cancel",
                                                "vote-after-cancel", "vp-after-cancel"}
(* the order of the callbacks: it asks for the missing ballots before it resolves by voteproof ... *)
CallbackOrder == \A x \in bad : x \notin {"order-find", "order-request", "order-findalone", "order-vote"}
(* ... at most one resolution per run, and per point as long as nobody calls Clean *)
OneResolution ==
  /\ \A r \in DOMAIN runs : runs[r].nvp <= 1
  /\ CanClean \/ \A i, j \in 1..Len(vps) : vps[i][2] = vps[j][2] => i = j
(* at most one run is not cancelled, it is the run of the newest point and it is the one Cancel/NewPoint will stop *)
OneLiveRun ==
  \A r \in DOMAIN runs : (~runs[r].ctxc /\ runs[r].pc # "end") => (r = handle /\ runs[r].point = newest)
NewestOnlyGrows == [][newest' >= newest \/ newest' = Zero]_vars
(* strong reading of "Cancel(point) stops every later action for that and older points": also a LATER NewPoint(q) *)
(* with q <= point is refused.  The code keeps no record of the cancelled point: not guaranteed (reported only).  *)
NoRunBelowCancelled == "run-at-or-below-cancelled-point" \notin bad
=============================================================================
