SPECIFICATION Spec
CONSTANTS
  Node0 = {"n0", "n1", "n2"}
  Local0 = "n0"
  T100 = 670
  EmitStep = FALSE
  Heights = {1}
  Rounds = {0, 1}
  Stages = {1, 3}
  Facts = {"A"}
  ExSets = {{}, {"n2"}}
  AllowSC = FALSE
  MaxId = 3
  MaxVotes = 4
  MaxChan = 1
  MaxSet = 1
  StoreSC = "sf-"
  CleanSC = "sf-"
  CountRule = "impl"
  EagerCount = FALSE
  Holds = TRUE
  MaxTick = 2
  TickGuard = "impl"
VIEW view
INVARIANTS TypeOK ReadsIsolated KeyMatchesRecord ImplEmitsSound
PROPERTIES EmitSound EmitNew CleanReleases
CHECK_DEADLOCK FALSE
