SPECIFICATION Spec
CONSTANTS
  Addrs = {"a1", "a2"}
  Handlers = {"h1"}
  ClientIds = {"c1", "c2"}
  InitCfgs = {"plain", "cids", "cidc", "netn", "nodes", "sufr"}
  FullAlphabet = TRUE
  Walk = FALSE
  MaxSteps = 3
INVARIANTS DeviationOnlyViaCache FreshIsChoose PrecedenceOK
CHECK_DEADLOCK FALSE
