SPECIFICATION Spec
CONSTANTS
  Addrs = {"a1", "a2"}
  Handlers = {"h1"}
  ClientIds = {"c1", "c2"}
  InitCfgs = {"plain", "cids", "cidc", "netn", "nodes", "sufr"}
  FullAlphabet = TRUE
  Walk = FALSE
  MaxSteps = 3
  Tight = FALSE
  Warm = FALSE
  Per = 8
  Rebuild = "limit-burst"
  SufCheck = "exists-first"
INVARIANTS SuffrageOnlyInConsensus DeviationOnlyViaCache FreshIsChoose PrecedenceOK BoundOK ZeroOK
CHECK_DEADLOCK FALSE
