SPECIFICATION Spec
CONSTANTS
  Node = {"n1", "n2", "n3", "n4"}
  Byz = {}
  Down = {"n4"}
  Active = {"n1", "n2", "n3"}
  Suspects = {"n3"}
  PreSigned = FALSE
  Fallback = TRUE
  T10 = 670
  MaxRound = 1
  MaxExpel = 2
INVARIANTS TypeOK NoHonestEquivocation AgreementWithinF ChainAgreementWithinF SavedOnlyAgreed
PROPERTIES LastMonotone BoxLastMonotone
CONSTRAINT QueueBound
CHECK_DEADLOCK FALSE
