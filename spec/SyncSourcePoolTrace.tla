------------------------ MODULE SyncSourcePoolTrace ------------------------
(* Binding B for SRCPOOL: executions recorded from the REAL isaac.SyncSourcePool *)
(* (harness/internal/srcpool) are judged against SyncSourcePool.tla.             *)
(* One goroutine, one event per call, the reply in the event; after every call   *)
(* an "Obs" event with every read-only query. The abstract state is advanced by  *)
(* the contract (Do* operators) from the arguments; every reply is compared with *)
(* the contract's answer / admissible set; a difference is printed with its      *)
(* class (<<"MISMATCH", class, line, 0, 0>>; the driver reads the event of that line) and goes on. Which  *)
(* non-fixed source Pick / PickMultiple return is never judged beyond membership *)
(* in the admissible set; handles are bound to the source really returned.       *)
(*   {"a":"Reset","q":[[n,c],..]}            NewSyncSourcePool(q)                *)
(*   {"a":"UpdateFixed","q":[..],"r":0|1}    {"a":"AddNonFixed","S":[..],"r":..} *)
(*   {"a":"RemoveNonFixed","s":[n,c],"r":..} {"a":"RemoveNonFixedNode","n":"n1","r":..} *)
(*   {"a":"Pick","err":""|"empty"|"other","s":[n,c]}                             *)
(*   {"a":"PickMultiple","n":3,"err":""|"zero"|"empty"|"other","q":[..],"nh":3}  *)
(*   {"a":"Report","h":k,"e":"problem"|"harmless"|"nil"}   k-th handle handed out *)
(*   {"a":"Expire"}                           the driver slept longer than the TTL *)
(*   {"a":"Obs","len":..,"trav":[..],"act":[..],"ex":{n:0|1},"inf":{..},"innf":{..},"nci":{n:[..]}} *)
EXTENDS SyncSourcePool, Json

Trace == ndJsonDeserialize("trace.ndjson")
VARIABLES l, handles
tvars == <<fixed, nonfixed, problems, handed, bad, l, handles>>
Ev == Trace[l]

Expect(class, got, want) == IF got = want THEN TRUE
                            ELSE PrintT(<<"MISMATCH", class, l, 0, 0>>)
Classes(S, got) == \A c \in S : PrintT(<<"MISMATCH", c, l, 0, 0>>)
B2N(b) == IF b THEN 1 ELSE 0
ToSet(q) == {q[i] : i \in 1..Len(q)}
Consume == l <= Len(Trace) /\ l' = l + 1

TReset == /\ Consume /\ Ev.a = "Reset"
          /\ fixed' = Ev.q /\ nonfixed' = {} /\ problems' = {} /\ handed' = {} /\ bad' = {} /\ handles' = <<>>
TUpdateFixed == /\ Consume /\ Ev.a = "UpdateFixed" /\ DoUpdateFixed(Ev.q)
                /\ Expect("UpdateFixed-reply", Ev.r, B2N(UpdateFixedReply(Ev.q)))
                /\ UNCHANGED <<problems, handed, bad, handles>>
TAddNonFixed == /\ Consume /\ Ev.a = "AddNonFixed" /\ DoAddNonFixed(ToSet(Ev.S))
                /\ Expect("AddNonFixed-reply", Ev.r, B2N(AddNonFixedReply(ToSet(Ev.S))))
                /\ UNCHANGED <<fixed, problems, handed, bad, handles>>
TRemoveNonFixed == /\ Consume /\ Ev.a = "RemoveNonFixed" /\ DoRemoveNonFixed(Ev.s)
                   /\ Expect("RemoveNonFixed-reply", Ev.r, B2N(RemoveNonFixedReply(Ev.s)))
                   /\ UNCHANGED <<fixed, problems, handed, bad, handles>>
TRemoveNonFixedNode == /\ Consume /\ Ev.a = "RemoveNonFixedNode" /\ DoRemoveNonFixedNode(Ev.n)
                       /\ Expect("RemoveNonFixedNode-reply", Ev.r, B2N(RemoveNonFixedNodeReply(Ev.n)))
                       /\ UNCHANGED <<fixed, problems, handed, bad, handles>>
TPick == /\ Consume /\ Ev.a = "Pick"
         /\ Classes(PickBad(Ev.err, Ev.s), <<Ev.err, Ev.s>>)
         /\ handles' = IF Ev.err = "" THEN Append(handles, Ev.s) ELSE handles
         /\ handed' = IF Ev.err = "" THEN handed \cup {Ev.s} ELSE handed
         /\ UNCHANGED <<fixed, nonfixed, problems, bad>>
TPickMultiple == /\ Consume /\ Ev.a = "PickMultiple"
                 /\ Classes(PMBad(Ev.err, Ev.q, Ev.n), <<Ev.n, Ev.err, Ev.q>>)
                 /\ Expect("PickMultiple-reports-count", Ev.nh, Len(Ev.q))
                 /\ handles' = handles \o Ev.q
                 /\ handed' = handed \cup ToSet(Ev.q)
                 /\ UNCHANGED <<fixed, nonfixed, problems, bad>>
TReport == /\ Consume /\ Ev.a = "Report"
           /\ DoReport(handles[Ev.h], Ev.e)
           /\ UNCHANGED <<fixed, nonfixed, handed, bad, handles>>
TExpire == /\ Consume /\ Ev.a = "Expire" /\ problems' = {}
           /\ UNCHANGED <<fixed, nonfixed, handed, bad, handles>>

FixedOf(a) == SelectSeq(fixed, LAMBDA s : Addr(s) = a)
TObs ==
  /\ Consume /\ Ev.a = "Obs"
  /\ UNCHANGED <<fixed, nonfixed, problems, handed, bad, handles>>
  /\ Expect("Len", Ev.len, QLen)
  /\ Expect("Traverse-fixed-first-in-order", SubSeq(Ev.trav, 1, Min(Len(fixed), Len(Ev.trav))), fixed)
  /\ Expect("Traverse-nonfixed", ToSet(SubSeq(Ev.trav, Len(fixed) + 1, Len(Ev.trav))), nonfixed)
  /\ Expect("Traverse-count", Len(Ev.trav), QLen)
  /\ Expect("Actives-fixed-first-in-order", SubSeq(Ev.act, 1, Min(Len(FreeFixed), Len(Ev.act))), FreeFixed)
  /\ Expect("Actives-nonfixed", ToSet(SubSeq(Ev.act, Len(FreeFixed) + 1, Len(Ev.act))), FreeNon)
  /\ Expect("Actives-count", Len(Ev.act), NFree)
  /\ \A a \in DOMAIN Ev.ex :
        /\ Expect("NodeExists", Ev.ex[a], B2N(QNodeExists(a)))
        /\ Expect("IsInFixed", Ev.inf[a], B2N(QIsInFixed(a)))
        /\ IF QIsInFixed(a)
           THEN Expect("soft-IsInNonFixed-false-for-node-also-in-fixed", Ev.innf[a], B2N(QIsInNonFixedStrong(a)))
           ELSE Expect("IsInNonFixed", Ev.innf[a], B2N(QIsInNonFixedStrong(a)))
        /\ Expect("NodeConnInfo-fixed-first-in-order",
                  SubSeq(Ev.nci[a], 1, Min(Len(FixedOf(a)), Len(Ev.nci[a]))), FixedOf(a))
        /\ Expect("NodeConnInfo-nonfixed", ToSet(SubSeq(Ev.nci[a], Len(FixedOf(a)) + 1, Len(Ev.nci[a]))),
                  {s \in nonfixed : Addr(s) = a})
        /\ Expect("NodeConnInfo-count", Len(Ev.nci[a]), Len(FixedOf(a)) + Cardinality({s \in nonfixed : Addr(s) = a}))

TraceInit == Init /\ l = 1 /\ handles = <<>>
TraceNext == \/ TReset \/ TUpdateFixed \/ TAddNonFixed \/ TRemoveNonFixed \/ TRemoveNonFixedNode
             \/ TPick \/ TPickMultiple \/ TReport \/ TExpire \/ TObs
TraceSpec == TraceInit /\ [][TraceNext]_tvars

ASSUME TLCSet(1, 0)
HighWater == TLCSet(1, IF l > TLCGet(1) THEN l ELSE TLCGet(1))
Accepted == \/ TLCGet(1) = Len(Trace) + 1
            \/ PrintT(<<"HW", TLCGet(1), Len(Trace)>>) /\ FALSE
=============================================================================
