SPECIFICATION Spec
CONSTANTS
  MaxH = 5
  Rounds = {0, 1}
  Kinds = {"I-", "I+", "A-"}
  NVar = 2
  Proposers = {"p1", "p2"}
  Prevs = {"b1"}
  Depth = 3
  MaxSteps = 40
CHECK_DEADLOCK FALSE
