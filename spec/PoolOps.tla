------------------------------ MODULE PoolOps ------------------------------
(* C22 - the new-operation pool of isaac/database/pool.go (TempPool):        *)
(*   SetOperation, OperationHashes(height, limit, filter).                   *)
(*                                                                           *)
(* Statement level: `added` (every operation ever stored, in the order it    *)
(* was first stored) and `banned` (operations a filter rejected in some      *)
(* call). R1..R6 below say, relationally, which results a call may return    *)
(* (the statement does not fix WHICH `limit` operations are handed out).     *)
(* Implementation level: Scan transcribes the loop of OperationHashes over   *)
(* the ordered index (insertion order, minus the operations the pool took    *)
(* out of the index = `ibanned`): filter, de-duplication of facts through    *)
(* the fact -> position map, the removal list, stop at `limit`.              *)
(*   Impl = "pinned": the pinned tree - (a) positions in the map are not     *)
(*     shifted after an entry is taken out, (b) on a duplicate fact the      *)
(*     NEWER operation is put on the removal list, (c) the removal list has  *)
(*     `limit` slots and overflows (panic).                                  *)
(*   Impl = "fixed": positions shifted, OLDER operation removed, list grows. *)
(* TLC checks that every result of Scan satisfies R0..R6 (exhaustively for   *)
(* small constants). Counterexamples of the pinned transcription are         *)
(* candidates that are replayed on the real pool.                            *)
(*                                                                           *)
(* Binding: the input sequences (hist) of this module - every one of a       *)
(* small instance (…_enum cfg, -dump) and seeded -simulate walks of a larger *)
(* one - are run on a real TempPool by harness c22, which logs what the real *)
(* calls returned; PoolOpsTrace.tla validates that log against R0..R6.       *)
EXTENDS Integers, FiniteSets, Sequences, TLC, Json

CONSTANTS Fact,      \* model facts (strings)
          Signer,    \* an operation = a fact signed by a signer (ints)
          MaxAdd,    \* at most this many different operations are stored
          MaxReSet,  \* at most this many SetOperation calls of an already stored operation
          MaxCalls,  \* at most this many OperationHashes calls
          Limits,    \* limits used by the calls
          MaxRej,    \* a filter rejects at most this many (stored) operations
          Impl,      \* "pinned" | "fixed"
          Sym        \* TRUE: symmetry reduction - the first stored operation is a fixed one

Op == [f : Fact, s : Signer]
Id(o) == o.f \o "." \o ToString(o.s)

VARIABLES added,    \* Seq(Op): insertion order
          banned,   \* statement level: operations rejected by a filter in some call
          ibanned,  \* implementation level: operations taken out of the ordered index
          nreset, ncalls,
          last,     \* verdict of R0..R6 on the result of the last call
          hist,     \* the input sequence so far
          step      \* output only: ToJson(hist), what the harness replays
vars == <<added, banned, ibanned, nreset, ncalls, last, hist, step>>

Range(s) == {s[i] : i \in 1..Len(s)}
Pos(o) == CHOOSE i \in 1..Len(added) : added[i] = o       \* o \in Range(added)
RemoveAt(s, i) == SubSeq(s, 1, i - 1) \o SubSeq(s, i + 1, Len(s))

--------------------------------------------------------------------------------
(* The statement, for a call (L, Rej) that returned `ret` (a sequence of operations)  *)
(* in the state (a = added, b = banned). Rej = what the call's filter rejects.        *)
Eligible(a, b, Rej, f) == {o \in Range(a) : o.f = f /\ o \notin b /\ o \notin Rej}
Latest(a, S) == CHOOSE o \in S : \A p \in S : (CHOOSE i \in 1..Len(a) : a[i] = p) <= (CHOOSE i \in 1..Len(a) : a[i] = o)

R1(ret, L) == Len(ret) <= L                                        \* at most L entries
R2ops(ret) == \A i, j \in 1..Len(ret) : i # j => ret[i] # ret[j]    \* operations pairwise distinct
R2facts(ret) == \A i, j \in 1..Len(ret) : i # j => ret[i].f # ret[j].f   \* facts pairwise distinct
R3(ret, a, Rej) == \A i \in 1..Len(ret) : ret[i] \in Range(a) /\ ret[i] \notin Rej  \* stored, passes filter
R4(ret, L, a, b, Rej) ==                                            \* most recently added is chosen
  Len(ret) < L => \A i \in 1..Len(ret) :
                     LET E == Eligible(a, b, Rej, ret[i].f) IN E # {} => ret[i] = Latest(a, E)
R6(ret, b) == \A i \in 1..Len(ret) : ret[i] \notin b                \* filtered-out never again
(* stronger reading, evidence only: with room left, every fact that has an eligible     *)
(* operation is handed out                                                              *)
R7(ret, L, a, b, Rej) ==
  Len(ret) < L => \A f \in Fact : Eligible(a, b, Rej, f) # {} => \E i \in 1..Len(ret) : ret[i].f = f

--------------------------------------------------------------------------------
(* The code: one pass over the ordered index *)
Index == SelectSeq(added, LAMBDA o : o \notin ibanned)

ScanInit == [ops |-> <<>>, fidx |-> [f \in Fact |-> 0], rm |-> <<>>, rejected |-> {}, panic |-> FALSE]

ScanStep(s, o, L, Rej) ==
  LET full == Impl = "pinned" /\ Len(s.rm) >= L IN       \* removeops has L slots
  IF o \in Rej THEN
       IF full THEN [s EXCEPT !.panic = TRUE]
       ELSE [s EXCEPT !.rm = Append(@, o), !.rejected = @ \cup {o}]
  ELSE IF s.fidx[o.f] # 0 THEN                            \* fact already in ops
       LET prev == s.fidx[o.f] IN
       IF Impl = "pinned" THEN
            IF full THEN [s EXCEPT !.panic = TRUE]
            ELSE [s EXCEPT !.rm = Append(@, o),                               \* (b) newer one removed
                           !.ops = Append(RemoveAt(@, prev), o),
                           !.fidx = [@ EXCEPT ![o.f] = Len(s.ops)]]           \* (a) others stale
       ELSE [s EXCEPT !.rm = Append(@, s.ops[prev]),
                      !.ops = Append(RemoveAt(@, prev), o),
                      !.fidx = [f \in Fact |-> IF f = o.f THEN Len(s.ops)
                                               ELSE IF @[f] > prev THEN @[f] - 1 ELSE @[f]]]
  ELSE [s EXCEPT !.ops = Append(@, o), !.fidx = [@ EXCEPT ![o.f] = Len(s.ops) + 1]]

RECURSIVE ScanFrom(_, _, _, _, _)
ScanFrom(idx, i, s, L, Rej) ==
  IF i > Len(idx) \/ s.panic \/ Len(s.ops) = L THEN s      \* end / panic / opsindex == limit
  ELSE ScanFrom(idx, i + 1, ScanStep(s, idx[i], L, Rej), L, Rej)
Scan(L, Rej) == ScanFrom(Index, 1, ScanInit, L, Rej)

--------------------------------------------------------------------------------
NoVerdict == [r0 |-> TRUE, r1 |-> TRUE, r2o |-> TRUE, r2f |-> TRUE, r3 |-> TRUE, r4 |-> TRUE, r6 |-> TRUE, r7 |-> TRUE]

Init == /\ added = <<>> /\ banned = {} /\ ibanned = {}
        /\ nreset = 0 /\ ncalls = 0
        /\ last = NoVerdict
        /\ hist = <<>>
        /\ step = ToJson(<<>>)

(* SetOperation: stores a new operation at the end; a stored one: returns false, no change *)
Set(o) ==
  /\ IF o \in Range(added) THEN nreset < MaxReSet /\ nreset' = nreset + 1 /\ added' = added
     ELSE /\ Len(added) < MaxAdd
          /\ (added = <<>> /\ Sym) => o = CHOOSE x \in Op : TRUE
          /\ added' = Append(added, o) /\ nreset' = nreset
  /\ hist' = Append(hist, [a |-> "Set", op |-> Id(o), f |-> o.f, ret |-> o \notin Range(added)])
  /\ step' = ToJson(hist')
  /\ last' = NoVerdict
  /\ UNCHANGED <<banned, ibanned, ncalls>>

(* OperationHashes(limit L, filter rejecting Rej) as the code computes it *)
Call(L, Rej) ==
  /\ ncalls < MaxCalls
  /\ ncalls' = ncalls + 1
  /\ LET s == Scan(L, Rej) IN
       /\ last' = IF s.panic THEN [NoVerdict EXCEPT !.r0 = FALSE]
                  ELSE [r0 |-> TRUE, r1 |-> R1(s.ops, L), r2o |-> R2ops(s.ops), r2f |-> R2facts(s.ops),
                        r3 |-> R3(s.ops, added, Rej), r4 |-> R4(s.ops, L, added, banned, Rej),
                        r6 |-> R6(s.ops, banned), r7 |-> R7(s.ops, L, added, banned, Rej)]
       /\ banned' = IF s.panic THEN banned ELSE banned \cup s.rejected
       /\ ibanned' = IF s.panic THEN ibanned ELSE ibanned \cup Range(s.rm)
       /\ hist' = Append(hist, [a |-> "Call", l |-> L, rej |-> {Id(o) : o \in Rej},
                                model |-> IF s.panic THEN <<"panic">> ELSE [i \in 1..Len(s.ops) |-> Id(s.ops[i])]])
  /\ step' = ToJson(hist')
  /\ UNCHANGED <<added, nreset>>

Next == \/ \E o \in Op : Set(o)
        \/ \E L \in Limits : \E Rej \in SUBSET Range(added) : Cardinality(Rej) <= MaxRej /\ Call(L, Rej)
Spec == Init /\ [][Next]_vars

View == <<added, banned, ibanned, nreset, ncalls, last>>
--------------------------------------------------------------------------------
TypeOK == /\ Range(added) \subseteq Op /\ Len(added) <= MaxAdd
          /\ banned \subseteq Range(added) /\ ibanned \subseteq Range(added)
          /\ banned \subseteq ibanned            \* what a filter rejected left the index
R0ok == last.r0          \* the call returns
R1ok == last.r1
R2ok == last.r2o /\ last.r2f
R3ok == last.r3
R4ok == last.r4
R6ok == last.r6
R7ok == last.r7          \* stronger reading; not required of the code
=============================================================================
