------------------------------ MODULE PoolOps ------------------------------
(* C22 - the new-operation pool of isaac/database/pool.go (TempPool):        *)
(*   SetOperation, OperationHashes(height, limit, filter).                   *)
(*                                                                           *)
(* Statement level: `added` (every operation ever stored, in the order it    *)
(* was first stored) and `banned` (operations a filter rejected in some      *)
(* COMPLETED call). R1..R6 below say, relationally, which results a call may *)
(* return (the statement does not fix WHICH `limit` operations are handed    *)
(* out).                                                                     *)
(* Implementation level: Scan transcribes the loop of OperationHashes over   *)
(* the ordered index (insertion order, minus the operations the pool took    *)
(* out of the index = `ibanned`): filter, de-duplication of facts through    *)
(* the fact -> position map, the removal list, stop at `limit`.              *)
(*   Impl = "pinned": the pinned tree - (a) positions in the map are not     *)
(*     shifted after an entry is taken out, (b) on a duplicate fact the      *)
(*     NEWER operation is put on the removal list, (c) the removal list has  *)
(*     `limit` slots and overflows (panic).                                  *)
(*   Impl = "fixed": positions shifted, OLDER operation removed, list grows. *)
(* TLC checks that every result of Scan satisfies R0..R6 (exhaustively for   *)
(* small constants). Counterexamples of the pinned transcription are         *)
(* candidates that are replayed on the real pool.                            *)
(*                                                                           *)
(* Concurrency (NCallers > 0). The pool has no lock around OperationHashes:  *)
(* a call is (1) Begin = the iterator over the ordered index is opened - a   *)
(* leveldb iterator reads a snapshot taken at that moment, the whole scan    *)
(* (filter callbacks included) is a function of that snapshot -, (2) End =   *)
(* removeNewOperationOrdereds + setRemoveNewOperations take what the scan    *)
(* put on the removal list out of the index and the call returns. Calls of   *)
(* several callers (1..NCallers) and SetOperation interleave between the     *)
(* two steps. setRemoveNewOperations reads, per hash of the list, the        *)
(* operation's keys record and writes ONE batch; a hash whose record is      *)
(* gone (another call removed it in between) is                              *)
(*   Removal = "skip":  skipped, the others are removed (the code);          *)
(*   Removal = "abort": the reason to give up - nothing of the list is       *)
(*     removed (a candidate the forced schedules must tell from "skip").     *)
(* SetOperation is a check (is the operation's record there?) followed by a  *)
(* write of three records (body, ordered record under the time of the call,  *)
(* keys record = where the ordered record is). Two overlapping calls with    *)
(* the SAME new operation (Set2; the node receives an operation from two     *)
(* peers at once) are                                                        *)
(*   SetRace = "unlocked": both past the check before either writes (the     *)
(*     code: no lock) - two ordered records, the keys record names the one   *)
(*     written last, the other (`orphan`) can never be taken out again;      *)
(*   SetRace = "locked": check and write of one call, then the other (which  *)
(*     returns false) - what "adding is idempotent" asks for.                *)
(* The statement speaks about one caller; for overlapping calls R0..R6 are   *)
(* judged per call against facts that do not depend on a linearization       *)
(* order: the result of a call has no duplicates (R2), its entries are       *)
(* stored and pass ITS filter (R3), no entry was rejected by the filter of a *)
(* call that RETURNED before this call STARTED (R6, `bb`), and with room     *)
(* left an entry is not older than an operation of its fact that was stored  *)
(* before the call started and that no completed-before or overlapping call  *)
(* may have rejected (R4c).                                                  *)
(*                                                                           *)
(* Binding: the input sequences (hist) of this module - every one of a       *)
(* small instance (..._enum / ..._conc_enum cfg, -dump) and seeded -simulate *)
(* walks of larger ones - are run on a real TempPool by harness c22 (Begin / *)
(* End steps are forced through the caller-supplied filter: it parks the     *)
(* caller at its first callback, i.e. right after the snapshot), which logs  *)
(* what the real calls returned; PoolOpsTrace.tla validates that log         *)
(* against R0..R6.                                                           *)
EXTENDS Integers, FiniteSets, Sequences, TLC, Json, Randomization

CONSTANTS Fact,      \* model facts (strings)
          Signer,    \* an operation = a fact signed by a signer (ints)
          MaxAdd,    \* at most this many different operations are stored
          MaxReSet,  \* at most this many SetOperation calls of an already stored operation
          MaxCalls,  \* at most this many OperationHashes calls
          Limits,    \* limits used by the calls
          MaxRej,    \* a filter rejects at most this many (stored) operations
          Impl,      \* "pinned" | "fixed"
          Sym,       \* TRUE: symmetry reduction - the first stored operation is a fixed one,
                     \*       caller k+1 starts a call only while callers 1..k are in a call
          NCallers,  \* 0: calls are atomic (one caller); k > 0: callers 1..k, calls = Begin / End steps
          Removal,   \* "skip" | "abort": a hash of the removal list whose record is already gone
          MaxTwice,  \* at most this many Set2 steps (two overlapping SetOperation calls of one new operation)
          SetRace,   \* "unlocked" | "locked": what two overlapping stores of one operation leave behind
          Pick,      \* 0: every (limit, filter) is a successor | n > 0: n random draws per state and caller
                     \* (-simulate generates every successor of a state before it picks one)
          Emit       \* which states carry their input sequence in `step`: "all" | "terminal" (no step
                     \* enabled any more: the maximal sequences) | "none" (ToJson costs milliseconds)

Op == [f : Fact, s : Signer]
Id(o) == o.f \o "." \o ToString(o.s)
Callers == 1..NCallers

VARIABLES added,    \* Seq(Op): insertion order
          banned,   \* statement level: operations rejected by the filter of a call that has returned
          ibanned,  \* implementation level: operations taken out of the ordered index (keys record gone)
          orphan,   \* implementation level: operations with a second ordered record no keys record names
          nreset, ncalls, ntwice,
          run,      \* per caller: the call in flight (Begin done, End not yet)
          last,     \* verdict of R0..R6 on the result of the last call
          hist,     \* the input sequence so far
          step      \* output only: ToJson(hist), what the harness replays
vars == <<added, banned, ibanned, orphan, nreset, ncalls, ntwice, run, last, hist, step>>

Range(s) == {s[i] : i \in 1..Len(s)}
Pos(o) == CHOOSE i \in 1..Len(added) : added[i] = o       \* o \in Range(added)
PosIn(a, o) == CHOOSE i \in 1..Len(a) : a[i] = o          \* o \in Range(a)
RemoveAt(s, i) == SubSeq(s, 1, i - 1) \o SubSeq(s, i + 1, Len(s))

--------------------------------------------------------------------------------
(* The statement, for a call (L, Rej) that returned `ret` (a sequence of operations)  *)
(* in the state (a = added, b = banned). Rej = what the call's filter rejects.        *)
Eligible(a, b, Rej, f) == {o \in Range(a) : o.f = f /\ o \notin b /\ o \notin Rej}
Latest(a, S) == CHOOSE o \in S : \A p \in S : (CHOOSE i \in 1..Len(a) : a[i] = p) <= (CHOOSE i \in 1..Len(a) : a[i] = o)

R1(ret, L) == Len(ret) <= L                                        \* at most L entries
R2ops(ret) == \A i, j \in 1..Len(ret) : i # j => ret[i] # ret[j]    \* operations pairwise distinct
R2facts(ret) == \A i, j \in 1..Len(ret) : i # j => ret[i].f # ret[j].f   \* facts pairwise distinct
R3(ret, a, Rej) == \A i \in 1..Len(ret) : ret[i] \in Range(a) /\ ret[i] \notin Rej  \* stored, passes filter
R4(ret, L, a, b, Rej) ==                                            \* most recently added is chosen
  Len(ret) < L => \A i \in 1..Len(ret) :
                     LET E == Eligible(a, b, Rej, ret[i].f) IN E # {} => ret[i] = Latest(a, E)
R6(ret, b) == \A i \in 1..Len(ret) : ret[i] \notin b                \* filtered-out never again
(* stronger reading, evidence only: with room left, every fact that has an eligible     *)
(* operation is handed out                                                              *)
R7(ret, L, a, b, Rej) ==
  Len(ret) < L => \A f \in Fact : Eligible(a, b, Rej, f) # {} => \E i \in 1..Len(ret) : ret[i].f = f

(* R4 for a call that overlaps other calls / stores: a = added when the call returns,   *)
(* n = Len(added) when it started, b = rejected by calls that returned before it        *)
(* started or that overlapping calls may reject. The entry may itself be newer than     *)
(* everything stored before the start; it must not be OLDER than the most recent        *)
(* operation of its fact that was certainly there and certainly eligible. For a call    *)
(* that overlaps nothing this is R4 (given R3 and R6).                                  *)
R4c(ret, L, a, n, b, Rej) ==
  Len(ret) < L => \A i \in 1..Len(ret) :
                     LET E == Eligible(SubSeq(a, 1, n), b, Rej, ret[i].f)
                     IN (E # {} /\ ret[i] \in Range(a)) => PosIn(a, ret[i]) >= PosIn(a, Latest(a, E))

--------------------------------------------------------------------------------
(* The code: one pass over the ordered index *)
(* the ordered records in key order: per stored operation its orphan record (if any), *)
(* then the record its keys record names (unless taken out)                           *)
Index == LET two == [i \in 1..2 * Len(added) |-> [o |-> added[(i + 1) \div 2], main |-> i % 2 = 0]]
             sel == SelectSeq(two, LAMBDA r : IF r.main THEN r.o \notin ibanned ELSE r.o \in orphan)
         IN [i \in 1..Len(sel) |-> sel[i].o]

ScanInit == [ops |-> <<>>, fidx |-> [f \in Fact |-> 0], rm |-> <<>>, rejected |-> {}, panic |-> FALSE]

ScanStep(s, o, L, Rej) ==
  LET full == Impl = "pinned" /\ Len(s.rm) >= L IN       \* removeops has L slots
  IF o \in Rej THEN
       IF full THEN [s EXCEPT !.panic = TRUE]
       ELSE [s EXCEPT !.rm = Append(@, o), !.rejected = @ \cup {o}]
  ELSE IF s.fidx[o.f] # 0 THEN                            \* fact already in ops
       LET prev == s.fidx[o.f] IN
       IF Impl = "pinned" THEN
            IF full THEN [s EXCEPT !.panic = TRUE]
            ELSE [s EXCEPT !.rm = Append(@, o),                               \* (b) newer one removed
                           !.ops = Append(RemoveAt(@, prev), o),
                           !.fidx = [@ EXCEPT ![o.f] = Len(s.ops)]]           \* (a) others stale
       ELSE [s EXCEPT !.rm = Append(@, s.ops[prev]),
                      !.ops = Append(RemoveAt(@, prev), o),
                      !.fidx = [f \in Fact |-> IF f = o.f THEN Len(s.ops)
                                               ELSE IF @[f] > prev THEN @[f] - 1 ELSE @[f]]]
  ELSE [s EXCEPT !.ops = Append(@, o), !.fidx = [@ EXCEPT ![o.f] = Len(s.ops) + 1]]

RECURSIVE ScanFrom(_, _, _, _, _)
ScanFrom(idx, i, s, L, Rej) ==
  IF i > Len(idx) \/ s.panic \/ Len(s.ops) = L THEN s      \* end / panic / opsindex == limit
  ELSE ScanFrom(idx, i + 1, ScanStep(s, idx[i], L, Rej), L, Rej)
Scan(L, Rej) == ScanFrom(Index, 1, ScanInit, L, Rej)

(* setRemoveNewOperations(list): the index after the removal step of a call *)
Removed(ib, rm) ==
  IF Removal = "abort" /\ Range(rm) \cap ib # {} THEN ib   \* a record is gone: nothing is written
  ELSE ib \cup Range(rm)                                    \* gone records skipped, one batch

--------------------------------------------------------------------------------
NoVerdict == [r0 |-> TRUE, r1 |-> TRUE, r2o |-> TRUE, r2f |-> TRUE, r3 |-> TRUE, r4 |-> TRUE, r6 |-> TRUE, r7 |-> TRUE]

(* a caller: idle, or the call it is in: limit, filter, what the scan of the snapshot   *)
(* computed, and what the statement needs about the moment the call started: bb =       *)
(* `banned` then, ab = Len(added) then, ov = what the filters of overlapping calls reject *)
Idle == [on |-> FALSE, l |-> 0, rej |-> {}, s |-> ScanInit, bb |-> {}, ab |-> 0, ov |-> {}]
InFlight == {c \in Callers : run[c].on}
Opened(c, L, Rej, s) ==
  [d \in Callers |->
     IF d = c THEN [on |-> TRUE, l |-> L, rej |-> Rej, s |-> s, bb |-> banned, ab |-> Len(added),
                    ov |-> UNION {run[e].rej : e \in InFlight}]
     ELSE IF run[d].on THEN [run[d] EXCEPT !.ov = @ \cup Rej]
     ELSE run[d]]

(* no step is enabled in a state with these values *)
Terminal(a, nr, nc, rn) ==
  /\ \A c \in Callers : ~rn[c].on
  /\ Len(a) = MaxAdd /\ nr = MaxReSet
  /\ nc = MaxCalls
Out(h, a, nr, nc, rn) ==
  IF Emit = "all" \/ (Emit = "terminal" /\ Terminal(a, nr, nc, rn)) THEN ToJson(h) ELSE ""

Init == /\ added = <<>> /\ banned = {} /\ ibanned = {} /\ orphan = {}
        /\ nreset = 0 /\ ncalls = 0 /\ ntwice = 0
        /\ run = [c \in Callers |-> Idle]
        /\ last = NoVerdict
        /\ hist = <<>>
        /\ step = ""

(* SetOperation: stores a new operation at the end; a stored one: returns false, no change *)
Set(o) ==
  /\ IF o \in Range(added) THEN nreset < MaxReSet /\ nreset' = nreset + 1 /\ added' = added
     ELSE /\ Len(added) < MaxAdd
          /\ (added = <<>> /\ Sym) => o = CHOOSE x \in Op : TRUE
          /\ added' = Append(added, o) /\ nreset' = nreset
  /\ hist' = Append(hist, [a |-> "Set", op |-> Id(o), f |-> o.f, ret |-> o \notin Range(added)])
  /\ step' = Out(hist', added', nreset', ncalls, run)
  /\ last' = NoVerdict
  /\ UNCHANGED <<banned, ibanned, orphan, ncalls, ntwice, run>>

(* two overlapping SetOperation calls of one new operation: both check, then both write *)
Set2(o) ==
  /\ ntwice < MaxTwice /\ ntwice' = ntwice + 1
  /\ o \notin Range(added) /\ Len(added) < MaxAdd
  /\ (added = <<>> /\ Sym) => o = CHOOSE x \in Op : TRUE
  /\ added' = Append(added, o)
  /\ orphan' = IF SetRace = "unlocked" THEN orphan \cup {o} ELSE orphan
  /\ hist' = Append(hist, [a |-> "Set2", op |-> Id(o), f |-> o.f])
  /\ step' = Out(hist', added', nreset, ncalls, run)
  /\ last' = NoVerdict
  /\ UNCHANGED <<banned, ibanned, nreset, ncalls, run>>

(* OperationHashes(limit L, filter rejecting Rej) as the code computes it, one caller *)
Call(L, Rej) ==
  /\ NCallers = 0
  /\ ncalls < MaxCalls
  /\ ncalls' = ncalls + 1
  /\ LET s == Scan(L, Rej) IN
       /\ last' = IF s.panic THEN [NoVerdict EXCEPT !.r0 = FALSE]
                  ELSE [r0 |-> TRUE, r1 |-> R1(s.ops, L), r2o |-> R2ops(s.ops), r2f |-> R2facts(s.ops),
                        r3 |-> R3(s.ops, added, Rej), r4 |-> R4(s.ops, L, added, banned, Rej),
                        r6 |-> R6(s.ops, banned), r7 |-> R7(s.ops, L, added, banned, Rej)]
       /\ banned' = IF s.panic THEN banned ELSE banned \cup s.rejected
       /\ ibanned' = IF s.panic THEN ibanned ELSE ibanned \cup Range(s.rm)
       /\ hist' = Append(hist, [a |-> "Call", l |-> L, rej |-> {Id(o) : o \in Rej},
                                model |-> IF s.panic THEN <<"panic">> ELSE [i \in 1..Len(s.ops) |-> Id(s.ops[i])]])
  /\ step' = Out(hist', added, nreset, ncalls', run)
  /\ UNCHANGED <<added, orphan, nreset, ntwice, run>>

(* caller c starts OperationHashes(L, filter rejecting Rej): the iterator's snapshot.    *)
(* (No guard on what the model believes the index holds: a call that follows calls which *)
(* should have emptied the index is the one that sees what they left behind.)            *)
Begin(c, L, Rej) ==
  /\ ~run[c].on
  /\ ncalls < MaxCalls
  /\ Sym => \A d \in Callers : d < c => run[d].on
  /\ ncalls' = ncalls + 1
  /\ run' = Opened(c, L, Rej, Scan(L, Rej))
  /\ hist' = Append(hist, [a |-> "Begin", c |-> c, l |-> L, rej |-> {Id(o) : o \in Rej}])
  /\ step' = Out(hist', added, nreset, ncalls', run')
  /\ last' = NoVerdict
  /\ UNCHANGED <<added, banned, ibanned, orphan, nreset, ntwice>>

(* caller c's call takes its removal list out of the index and returns *)
End(c) ==
  /\ run[c].on
  /\ LET r == run[c]
         s == r.s
     IN /\ last' = IF s.panic THEN [NoVerdict EXCEPT !.r0 = FALSE]
                   ELSE [r0 |-> TRUE, r1 |-> R1(s.ops, r.l), r2o |-> R2ops(s.ops), r2f |-> R2facts(s.ops),
                         r3 |-> R3(s.ops, added, r.rej),
                         r4 |-> R4c(s.ops, r.l, added, r.ab, r.bb \cup r.ov, r.rej),
                         r6 |-> R6(s.ops, r.bb), r7 |-> TRUE]
        /\ banned' = IF s.panic THEN banned ELSE banned \cup s.rejected
        /\ ibanned' = IF s.panic THEN ibanned ELSE Removed(ibanned, s.rm)
        /\ hist' = Append(hist, [a |-> "End", c |-> c,
                                 model |-> IF s.panic THEN <<"panic">> ELSE [i \in 1..Len(s.ops) |-> Id(s.ops[i])]])
  /\ run' = [run EXCEPT ![c] = Idle]
  /\ step' = Out(hist', added, nreset, ncalls, run')
  /\ UNCHANGED <<added, orphan, nreset, ncalls, ntwice>>

(* the (limit, filter) pairs a call may use: filters reject up to MaxRej operations of S; `salt` *)
(* makes the draws of Pick > 0 depend on the state and the caller                                *)
Filters(S) == {Rej \in SUBSET S : Cardinality(Rej) <= MaxRej}
Min(a, b) == IF a < b THEN a ELSE b
Draw(S, salt) == <<RandomElement(Limits \X {salt})[1],
                   RandomSubset(RandomElement((0..Min(MaxRej, Cardinality(S))) \X {salt})[1], S)>>
Args(S, salt) == IF Pick > 0 THEN {Draw(S, <<salt, k>>) : k \in 1..Pick}
                 ELSE Limits \X Filters(S)

Next == \/ \E o \in Op : Set(o)
        \/ \E o \in Op : Set2(o)
        \/ \E lr \in Args(Range(added), <<hist, 0>>) : Call(lr[1], lr[2])
        \/ \E c \in Callers : \E lr \in Args(Range(Index), <<hist, c>>) : Begin(c, lr[1], lr[2])
        \/ \E c \in Callers : End(c)
Spec == Init /\ [][Next]_vars

View == <<added, banned, ibanned, orphan, nreset, ncalls, ntwice, run, last>>
--------------------------------------------------------------------------------
TypeOK == /\ Range(added) \subseteq Op /\ Len(added) <= MaxAdd
          /\ banned \subseteq Range(added) /\ ibanned \subseteq Range(added) /\ orphan \subseteq Range(added)
          /\ \A c \in Callers : run[c].on => run[c].bb \subseteq banned /\ run[c].ab <= Len(added)
Gone == banned \subseteq ibanned  \* what the filter of a returned call rejected left the index
R0ok == last.r0          \* the call returns
R1ok == last.r1
R2ok == last.r2o /\ last.r2f
R3ok == last.r3
R4ok == last.r4
R6ok == last.r6
R7ok == last.r7          \* stronger reading; not required of the code
=============================================================================
