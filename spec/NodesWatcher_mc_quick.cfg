SPECIFICATION Spec
CONSTANTS
  K = 1
  Gap = 2
  ForkAt = 1
  CandHs = {1}
  MaxSteps = 3
  Sim = FALSE
VIEW view
INVARIANTS TypeOK HeldIsKnown UpdatedIsLast
PROPERTIES Monotone
CHECK_DEADLOCK FALSE
