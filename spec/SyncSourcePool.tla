--------------------------- MODULE SyncSourcePool ---------------------------
(* isaac.SyncSourcePool (/repo/isaac/syncer.go): the pool of sync sources a     *)
(* syncer / the network client picks from. A source is a pair <<node address,   *)
(* conninfo>>; its id is the pair (two sources may share the node address).     *)
(*                                                                              *)
(* Contract level (what a user of the pool relies on):                          *)
(*   fixed     a sequence of distinct sources, order matters (UpdateFixed)      *)
(*   nonfixed  a set of sources (AddNonFixed / RemoveNonFixed / ..Node)         *)
(*   problems  ids with an active problem report (a report through the          *)
(*             func(error) closure handed out by Pick / PickMultiple; the entry *)
(*             expires after renewTimeout = 3 s: Expire)                        *)
(*   handed    ids for which a report closure was handed out                    *)
(*   bad       output only: the classes of contract clauses the reply of the    *)
(*             last call broke (PickBad / PMBad); {} on a correct pool          *)
(* Properties: NoBad (Pick: ErrEmptySyncSources exactly when no source is       *)
(* problem-free, else the first problem-free fixed source, else some            *)
(* problem-free non-fixed one; PickMultiple(n): error for n<1, min(n, number of *)
(* problem-free sources) many, all distinct, none with a problem, the           *)
(* problem-free fixed ones first in fixed order), Disjoint, DistinctFixed.      *)
(* Which non-fixed source is returned is left open (Go map iteration): the      *)
(* spec gives the set of admissible answers.                                    *)
(*                                                                              *)
(* Implementation level, next to it: PinnedPick(skip) transcribes               *)
(* SyncSourcePool.pick(skipid) (fixed: everything up to and including skipid is *)
(* passed over; non-fixed: ONLY skipid is passed over) and Loop transcribes the *)
(* loop of PickMultiple (last = the id picked before). Impl = "pinned" lets the *)
(* replies of Pick / PickMultiple come from the transcription: TLC then finds   *)
(* PickMultiple(3) over non-fixed {a,b} answering <<a,b,a>>                     *)
(* (SyncSourcePool_pinned.cfg, expected violation of NoBad). Impl = "repaired"  *)
(* is the transcription with a skip SET (every id already taken), for which     *)
(* NoBad holds (SyncSourcePool_mc_quick / _mc_thorough.cfg).                    *)
(*                                                                              *)
(* Binding B: spec/SyncSourcePoolTrace.tla judges recorded executions of the    *)
(* REAL pool (harness/internal/srcpool) with PickBad / PMBad and the state of   *)
(* this module.                                                                 *)
EXTENDS Integers, Sequences, FiniteSets, TLC

CONSTANTS Sources,    \* set of <<address, conninfo>>
          MaxFixed,   \* longest fixed list
          MaxAdd,     \* most sources in one AddNonFixed
          MaxN,       \* PickMultiple(0..MaxN)
          Impl        \* "pinned" | "repaired"

Src4 == {<<"n1", "a">>, <<"n1", "b">>, <<"n2", "a">>, <<"n2", "b">>}
Src5 == Src4 \cup {<<"n3", "a">>}
Src6 == Src5 \cup {<<"n3", "b">>}

VARIABLES fixed, nonfixed, problems, handed, bad
vars == <<fixed, nonfixed, problems, handed, bad>>

None == <<"", "">>
Addr(s) == s[1]
Nodes == {Addr(s) : s \in Sources}
SeqSet(q) == {q[i] : i \in 1..Len(q)}
Distinct(q) == \A i, j \in 1..Len(q) : i # j => q[i] # q[j]
Min(a, b) == IF a < b THEN a ELSE b
FixedSeqs == {q \in UNION {[1..k -> Sources] : k \in 0..MaxFixed} : Distinct(q)}

NotProblem(s) == s \notin problems
All == SeqSet(fixed) \cup nonfixed
FreeFixed == SelectSeq(fixed, NotProblem)
FreeNon == nonfixed \ problems
NFree == Len(FreeFixed) + Cardinality(FreeNon)

(* ------------------------------ the contract ------------------------------ *)
PickAdmissible == IF Len(FreeFixed) > 0 THEN {FreeFixed[1]} ELSE FreeNon

(* classes of clauses broken by the reply (err, s) of Pick *)
PickBad(err, s) ==
  IF NFree = 0 THEN (IF err = "empty" THEN {} ELSE {"Pick-no-error-though-no-free-source"})
  ELSE IF err # "" THEN {"Pick-error-though-free-source"}
  ELSE IF s \notin All THEN {"Pick-unknown-source"}
  ELSE IF s \in problems THEN {"Pick-problem-source"}
  ELSE IF s \notin PickAdmissible THEN {"Pick-not-first-free-fixed"}
  ELSE {}

PMWantErr(n) == IF n < 1 THEN "zero" ELSE IF NFree = 0 THEN "empty" ELSE ""

(* classes of clauses broken by the reply (err, q) of PickMultiple(n) *)
PMBad(err, q, n) ==
  IF err # PMWantErr(n) THEN {"PickMultiple-error"}
  ELSE IF err # "" THEN (IF Len(q) = 0 THEN {} ELSE {"PickMultiple-sources-with-error"})
  ELSE LET k == Min(n, Len(FreeFixed)) IN
       (IF Distinct(q) THEN {} ELSE {"PickMultiple-duplicate"})
  \cup (IF SeqSet(q) \subseteq All THEN {} ELSE {"PickMultiple-unknown-source"})
  \cup (IF SeqSet(q) \cap problems = {} THEN {} ELSE {"PickMultiple-problem-source"})
  \cup (IF Len(q) <= n THEN {} ELSE {"PickMultiple-more-than-n"})
  \cup (IF Cardinality(SeqSet(q)) >= Min(n, NFree) THEN {} ELSE {"PickMultiple-fewer-than-available"})
  \cup (IF Len(q) >= k /\ SubSeq(q, 1, k) = SubSeq(FreeFixed, 1, k) THEN {} ELSE {"PickMultiple-fixed-not-first-in-order"})

(* queries *)
QLen == Len(fixed) + Cardinality(nonfixed)
QNodeExists(a) == \E s \in All : Addr(s) = a
QIsInFixed(a) == \E s \in SeqSet(fixed) : Addr(s) = a
QIsInNonFixedStrong(a) == \E s \in nonfixed : Addr(s) = a
QIsInNonFixedCode(a) == ~QIsInFixed(a) /\ QIsInNonFixedStrong(a)   \* what the code answers

(* --------------------------- the implementation --------------------------- *)
IndexIn(q, s) == IF \E i \in 1..Len(q) : q[i] = s THEN CHOOSE i \in 1..Len(q) : q[i] = s ELSE 0

(* pick(skipid) of the pinned tree: the set of sources it may return; {} = ErrEmptySyncSources *)
PinnedPick(skip) ==
  LET start == IF skip = None THEN 1
               ELSE IF IndexIn(fixed, skip) > 0 THEN IndexIn(fixed, skip) + 1 ELSE Len(fixed) + 1
      fx == {i \in start..Len(fixed) : fixed[i] \notin problems}
  IN IF fx # {} THEN {fixed[CHOOSE i \in fx : \A j \in fx : i <= j]}
     ELSE {s \in nonfixed : s # skip /\ s \notin problems}

(* repaired: skip every id already taken *)
RepairedPick(done) ==
  LET fx == {i \in 1..Len(fixed) : fixed[i] \notin problems /\ fixed[i] \notin done}
  IN IF fx # {} THEN {fixed[CHOOSE i \in fx : \A j \in fx : i <= j]}
     ELSE (nonfixed \ problems) \ done

Cand(q) == IF Impl = "pinned" THEN PinnedPick(IF Len(q) = 0 THEN None ELSE q[Len(q)])
           ELSE RepairedPick(SeqSet(q))

RECURSIVE Loop(_, _)
Loop(q, n) == IF Len(q) = n THEN {q}
              ELSE LET c == Cand(q) IN
                   IF c = {} THEN {q} ELSE UNION {Loop(Append(q, s), n) : s \in c}

ImplPick == LET c == Cand(<<>>) IN
            IF c = {} THEN {[err |-> "empty", s |-> None]} ELSE {[err |-> "", s |-> x] : x \in c}
ImplPM(n) == IF n < 1 THEN {[err |-> "zero", q |-> <<>>]}
             ELSE IF Cand(<<>>) = {} THEN {[err |-> "empty", q |-> <<>>]}
             ELSE {[err |-> "", q |-> x] : x \in Loop(<<>>, n)}

(* --------------------------------- actions -------------------------------- *)
Init == fixed = <<>> /\ nonfixed = {} /\ problems = {} /\ handed = {} /\ bad = {}

(* the state changes of the calls (used by the trace spec too) *)
DoUpdateFixed(q) == fixed' = q /\ nonfixed' = nonfixed \ SeqSet(q)
UpdateFixedReply(q) == q # fixed
DoAddNonFixed(S) == nonfixed' = nonfixed \cup (S \ SeqSet(fixed))
AddNonFixedReply(S) == (S \ SeqSet(fixed)) \ nonfixed # {}
DoRemoveNonFixed(s) == nonfixed' = nonfixed \ {s}
RemoveNonFixedReply(s) == s \in nonfixed
DoRemoveNonFixedNode(a) == nonfixed' = {s \in nonfixed : Addr(s) # a}
RemoveNonFixedNodeReply(a) == \E s \in nonfixed : Addr(s) = a
(* a report: only a problem error through a handle of a source still in the pool marks it *)
DoReport(s, kind) == problems' = IF kind = "problem" /\ s \in All THEN problems \cup {s} ELSE problems

UpdateFixed(q) == DoUpdateFixed(q) /\ bad' = {} /\ UNCHANGED <<problems, handed>>
AddNonFixed(S) == DoAddNonFixed(S) /\ bad' = {} /\ UNCHANGED <<fixed, problems, handed>>
RemoveNonFixed(s) == DoRemoveNonFixed(s) /\ bad' = {} /\ UNCHANGED <<fixed, problems, handed>>
RemoveNonFixedNode(a) == DoRemoveNonFixedNode(a) /\ bad' = {} /\ UNCHANGED <<fixed, problems, handed>>
Pick == \E r \in ImplPick :
          /\ bad' = PickBad(r.err, r.s)
          /\ handed' = IF r.err = "" THEN handed \cup {r.s} ELSE handed
          /\ UNCHANGED <<fixed, nonfixed, problems>>
PickMultiple(n) == \E r \in ImplPM(n) :
          /\ bad' = PMBad(r.err, r.q, n)
          /\ handed' = handed \cup SeqSet(r.q)
          /\ UNCHANGED <<fixed, nonfixed, problems>>
Report(s, kind) == s \in handed /\ DoReport(s, kind) /\ bad' = {} /\ UNCHANGED <<fixed, nonfixed, handed>>
Expire(s) == s \in problems /\ problems' = problems \ {s} /\ bad' = {} /\ UNCHANGED <<fixed, nonfixed, handed>>

Next == \/ \E q \in FixedSeqs : UpdateFixed(q)
        \/ \E S \in SUBSET Sources : Cardinality(S) \in 1..MaxAdd /\ AddNonFixed(S)
        \/ \E s \in Sources : RemoveNonFixed(s)
        \/ \E a \in Nodes : RemoveNonFixedNode(a)
        \/ Pick
        \/ \E n \in 0..MaxN : PickMultiple(n)
        \/ \E s \in Sources, kind \in {"problem", "harmless", "nil"} : Report(s, kind)
        \/ \E s \in Sources : Expire(s)
Spec == Init /\ [][Next]_vars

(* ------------------------------- properties ------------------------------- *)
TypeOK == /\ Len(fixed) <= MaxFixed /\ SeqSet(fixed) \subseteq Sources /\ nonfixed \subseteq Sources /\ problems \subseteq Sources
          /\ handed \subseteq Sources
NoBad == bad = {}
Disjoint == SeqSet(fixed) \cap nonfixed = {}
DistinctFixed == Distinct(fixed)
LenIsSum == QLen = Cardinality(All)
(* a stale handle, a harmless error or nil change nothing; the only way into problems is a *)
(* problem report for a source of the pool                                                 *)
ReportFrame == [][\A s \in Sources : s \in problems' \ problems => s \in All /\ s \in handed]_vars
=============================================================================
