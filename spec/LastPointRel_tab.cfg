SPECIFICATION SpecTab
CONSTANTS
  MaxH = 9
  MaxR = 9
  MaxSteps = 6
INVARIANT TabChecked
CHECK_DEADLOCK FALSE
