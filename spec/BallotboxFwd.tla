---------------------------- MODULE BallotboxFwd ----------------------------
(* C04, the secondary path of the ballot box: voteproofs *embedded in ballots*. *)
(* (isaac/states/ballotbox.go: Ballotbox.vote, voterecords.vote,               *)
(* voterecords.voteproofFromBallot(s), Ballotbox.isValidVoteproof,             *)
(* countVoterecords; isaac/lastpoint.go)                                       *)
(*                                                                           *)
(* An embedded voteproof is DATA CHOSEN BY THE SENDER of the ballot: its ID is  *)
(* a free string (not a digest), its stage point, claimed result, threshold    *)
(* and sign facts are whatever the sender wrote. In particular an ID - and an   *)
(* (ID, stage point) pair - may repeat that of a voteproof the box has already  *)
(* emitted while the content differs. The statement of C04 allows the box to    *)
(* forward an embedded voteproof only if it is a sound voteproof of the         *)
(* suffrage (Valid): nothing the sender chose (ID, point, claimed result,      *)
(* claimed threshold) may stand in for that.                                   *)
(*                                                                           *)
(* Modelled: the two ways a ballot reaches the forwarding gate                 *)
(*   validated path  the suffrage of the ballot's height is known: the count   *)
(*                   of the record forwards ONE of the voteproofs embedded in   *)
(*                   the record's ballots (map order) that passes               *)
(*                   isNewVoteproofWithSuffrageConfirmFunc(last), the threshold *)
(*                   filter and the validation, then moves the last point;      *)
(*   deferred path   the node lags: the suffrage of the ballot's height is not  *)
(*                   known yet (sufUpTo); only the voteproof of this ballot is  *)
(*                   tried (IsNewVoteproof(last)), the last point stays.        *)
(* Gate = "sound" is the statement; the other gates are shortcuts that trust    *)
(* sender-chosen fields of the voteproof emitted last - TLC shows that each of  *)
(* them breaks ForwardedValid (BallotboxFwd_weak*.cfg), i.e. that the           *)
(* enumerated offers below reach them.                                          *)
(*                                                                           *)
(* Binding B: every behaviour "V is emitted, then a ballot embedding V' is      *)
(* handed in" is exported (step, at Emit) as a script for the recorder          *)
(* (harness/internal/c04); `crit` marks the offers where V' is NOT a voteproof  *)
(* of the suffrage but passes every filter except the validation of its         *)
(* content. BallotboxTrace.tla judges what the real box emitted.                *)
EXTENDS Integers, FiniteSets, Sequences, TLC, Json

CONSTANTS
  T10,         \* threshold of the box, tenths of a percent
  Gate,        \* "sound" | "trust-id-point" | "trust-id" | "trust-point-result"
  SufBounds,   \* the heights up to which the box may know the suffrage (99 = all)
  Contents2,   \* contents the adversary may give the second voteproof
  Ids2         \* IDs the adversary may give it ("i1" = the ID of the first voteproof)

INIT == 1
ACCEPT == 3

(* ------------------------------------------------- isaac/lastpoint.go (as Ballotbox.tla) *)
SPCmp(a, b) ==
  IF a.h # b.h THEN (IF a.h > b.h THEN 1 ELSE -1)
  ELSE IF a.r # b.r THEN (IF a.r > b.r THEN 1 ELSE -1)
  ELSE IF a.s # b.s THEN (IF a.s > b.s THEN 1 ELSE -1)
  ELSE 0
ZeroLP == [h |-> -1, r |-> 0, s |-> 0, maj |-> FALSE, sc |-> FALSE]
SPOf(x) == [h |-> x.h, r |-> x.r, s |-> x.s]
IsZeroLP(l) == l.h < 0 \/ l.s \notin {INIT, ACCEPT}
BeforeSame(l, p, sc) == IF sc THEN ~l.sc ELSE IF ~l.maj THEN FALSE ELSE p.s # l.s
BeforeNotSame(l, p, sc) ==
  IF l.maj /\ p.s < l.s THEN FALSE
  ELSE IF SPCmp(p, SPOf(l)) > 0 THEN TRUE
  ELSE sc /\ ~l.maj
Before(l, p, sc) ==
  IF IsZeroLP(l) THEN TRUE
  ELSE IF p.h # l.h THEN p.h > l.h
  ELSE IF p.r = l.r /\ p.s >= l.s THEN BeforeSame(l, p, sc)
  ELSE BeforeNotSame(l, p, sc)
IsNewVP(l, p, maj, sc) ==
  \/ Before(l, p, sc)
  \/ ~l.maj /\ maj /\ p.h = l.h /\ p.r = l.r /\ p.s >= l.s
IsNewVPForRecord(isc, l, p, maj, sc) == IsNewVP(l, p, maj, sc) \/ (isc /\ ~l.maj)

(* ------------------------------------------------------- embedded voteproofs *)
(* content kinds (the harness builds really signed voteproofs from them):       *)
(*  maj      every suffrage node signs fact A                  MAJORITY  valid  *)
(*  draw     the suffrage nodes sign A, B, C, ..                DRAW      valid  *)
(*  foreign  three keys outside the suffrage sign B, claims     MAJORITY         *)
(*  few      one suffrage node signs B, claims                  MAJORITY         *)
(*  mixed    one suffrage node and two outsiders sign B, claims MAJORITY         *)
(*  highth   two of three sign A, threshold written 100%, claims MAJORITY        *)
(*  fdraw    every suffrage node signs A, claims                DRAW             *)
(*  twice    one node signs A and B, another signs A, claims    MAJORITY         *)
(*  lowth    as maj with a threshold below the box's            MAJORITY  valid for its own threshold *)
AllContents == {"maj", "draw", "foreign", "few", "mixed", "highth", "fdraw", "twice", "lowth"}
Valid(c) == c \in {"maj", "draw", "lowth"}
ResOf(c) == IF c \in {"draw", "fdraw"} THEN "DRAW" ELSE "MAJORITY"
ThOf(c) == IF c = "lowth" THEN 510 ELSE IF c = "highth" THEN 1000 ELSE T10
IsMaj(e) == ResOf(e.c) = "MAJORITY"

VPoints == {[h |-> 1, r |-> 0, s |-> ACCEPT], [h |-> 1, r |-> 1, s |-> INIT], [h |-> 1, r |-> 0, s |-> INIT]}
EVP(id, p, c) == [id |-> id, h |-> p.h, r |-> p.r, s |-> p.s, c |-> c]
(* the ballots that carry them: (height, round, stage, suffrage-confirm) *)
BKinds == {[h |-> 2, r |-> 0, s |-> INIT, sc |-> FALSE], [h |-> 1, r |-> 1, s |-> INIT, sc |-> FALSE],
           [h |-> 1, r |-> 1, s |-> INIT, sc |-> TRUE], [h |-> 1, r |-> 1, s |-> ACCEPT, sc |-> FALSE],
           [h |-> 1, r |-> 0, s |-> ACCEPT, sc |-> FALSE]}
Last0s == {ZeroLP, [h |-> 1, r |-> 0, s |-> INIT, maj |-> TRUE, sc |-> FALSE]}

VARIABLES
  sufUpTo,   \* the box knows the suffrage of heights <= sufUpTo
  last,      \* last point
  lvp,       \* the voteproof emitted last (<<>>: none)
  vps,       \* ballot kind -> voteproofs embedded in the accepted ballots of that record (voterecords.vps)
  chan,      \* emitted voteproofs
  hist,      \* the calls so far
  crit,      \* the last offer was not a voteproof of the suffrage and passed every filter but the validation
  path,      \* path of the last offer
  step       \* output
vars == <<sufUpTo, last, lvp, vps, chan, hist, crit, path, step>>

Known(h) == h <= sufUpTo     \* is the suffrage of height h known

GateOK(e) ==
  CASE Gate = "sound" -> Valid(e.c)
    [] Gate = "trust-id-point" -> Valid(e.c) \/ (lvp # <<>> /\ lvp[1].id = e.id /\ SPOf(lvp[1]) = SPOf(e))
    [] Gate = "trust-id" -> Valid(e.c) \/ (lvp # <<>> /\ lvp[1].id = e.id)
    [] Gate = "trust-point-result" -> Valid(e.c) \/ (lvp # <<>> /\ SPOf(lvp[1]) = SPOf(e) /\ ResOf(lvp[1].c) = ResOf(e.c))
(* every filter but the validation of the content *)
Filters(e, new) == new /\ ThOf(e.c) >= T10 /\ Known(e.h - 1)
NewLast(e) == [h |-> e.h, r |-> e.r, s |-> e.s, maj |-> IsMaj(e), sc |-> FALSE]
Advance(l, nl) == IF Before(l, SPOf(nl), nl.sc) THEN nl ELSE l

Init ==
  /\ sufUpTo \in SufBounds
  /\ last = ZeroLP /\ lvp = <<>> /\ vps = [b \in BKinds |-> {}] /\ chan = <<>> /\ hist = <<>>
  /\ crit = FALSE /\ path = "" /\ step = ""

SetLast(p) ==
  /\ hist = <<>> /\ p # ZeroLP
  /\ last' = p
  /\ hist' = <<[op |-> "SetLast", h |-> p.h, r |-> p.r, s |-> p.s, maj |-> p.maj]>>
  /\ UNCHANGED <<sufUpTo, lvp, vps, chan, crit, path, step>>

Deliveries == Cardinality({i \in 1..Len(hist) : hist[i].op = "Vote"})
(* Ballotbox.Vote of a ballot of kind b (of a suffrage node that has not voted in that record) embedding e *)
Deliver(b, e) ==
  /\ step = ""
  /\ Deliveries < 2
  /\ Deliveries = 1 => chan # <<>>                 \* the second ballot comes after the box emitted V
  /\ Before(last, SPOf(b), b.sc)                   \* isNewBallot + voterecords.vote
  /\ b.s = ACCEPT => e.s = INIT                    \* an ACCEPT ballot carries an INIT voteproof (type)
  /\ LET known == Known(b.h - 1)
         all == vps[b] \cup {e}
         flt(x) == IF known THEN Filters(x, IsNewVPForRecord(b.sc, last, SPOf(x), IsMaj(x), FALSE))
                   ELSE Filters(x, IsNewVP(last, SPOf(x), IsMaj(x), FALSE))
         cands == IF known THEN {x \in all : flt(x) /\ GateOK(x)}
                  ELSE {x \in {e} : flt(x) /\ GateOK(x)}
     IN /\ vps' = [vps EXCEPT ![b] = all]
        /\ crit' = (~Valid(e.c) /\ flt(e))
        /\ path' = (IF ~known THEN "deferred" ELSE IF b.sc THEN "sc-record" ELSE "validated")
        /\ hist' = Append(hist, [op |-> "Vote", node |-> Deliveries, h |-> b.h, r |-> b.r, s |-> b.s, sc |-> b.sc,
                                 eid |-> e.id, eh |-> e.h, er |-> e.r, es |-> e.s, ec |-> e.c])
        /\ IF cands = {} THEN UNCHANGED <<last, lvp, chan>>
           ELSE \E x \in cands :
                  /\ chan' = Append(chan, x)
                  /\ lvp' = <<x>>
                  /\ last' = IF known THEN Advance(last, NewLast(x)) ELSE last
  /\ UNCHANGED <<sufUpTo, step>>

Emit ==
  /\ step = "" /\ Deliveries = 2
  /\ step' = ToJson([sufupto |-> sufUpTo, crit |-> crit, path |-> path, ops |-> hist])
  /\ UNCHANGED <<sufUpTo, last, lvp, vps, chan, hist, crit, path>>

First == {EVP("i1", p, c) : p \in VPoints, c \in {"maj", "draw"}}        \* the honest sender
Second == {EVP(id, p, c) : id \in Ids2, p \in VPoints, c \in Contents2}  \* the adversary
Next ==
  \/ \E p \in Last0s : SetLast(p)
  \/ \E b \in BKinds : \E e \in (IF Deliveries = 0 THEN First ELSE Second) : Deliver(b, e)
  \/ Emit
Spec == Init /\ [][Next]_vars

(* C04 for forwarded voteproofs: whatever the box emits is a voteproof of the suffrage *)
ForwardedValid == \A i \in 1..Len(chan) : Valid(chan[i].c)
(* reachability witnesses (their negations fail): an invalid offer that re-uses the emitted ID and point reaches the gate *)
NoCritCollision == ~(crit /\ Len(chan) > 0 /\ Deliveries = 2 /\ hist[Len(hist)].eid = chan[1].id
                     /\ hist[Len(hist)].eh = chan[1].h /\ hist[Len(hist)].er = chan[1].r /\ hist[Len(hist)].es = chan[1].s)
=============================================================================
