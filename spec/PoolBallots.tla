---------------------------- MODULE PoolBallots ----------------------------
(* C24 - ballot pool and proposal pool of isaac/database/pool.go (TempPool):  *)
(*   SetBallot / Ballot, SetProposal / Proposal / ProposalByPoint,            *)
(*   cleanBallots / cleanProposals (cleanByHeight).                           *)
(*                                                                            *)
(* Sequential (atomic) specification. From the statement:                     *)
(*  - per (stage point, suffrage-confirm flag) the first ballot stored is     *)
(*    kept and returned unchanged;                                            *)
(*  - per proposal fact the first proposal (sign fact) stored is kept;        *)
(*    lookup by (point, proposer, previous block) returns that same proposal; *)
(*  - clean-up removes only entries at least Depth below the newest height.   *)
(* A ballot is (key, variant): variants are different ballots for one key     *)
(* (other signer, other proposal). A proposal fact is (triple, k): different  *)
(* facts with one (point, proposer, previous) triple come only from a         *)
(* misbehaving proposer; a stored proposal is (fact, sign variant).           *)
(* Clean-up is written twice: CleanB(R)/CleanP(R) remove ANY set R of deep    *)
(* entries (what the statement allows; used by the trace specification) and   *)
(* CodeCleanB/CodeCleanP are the code's choice (all of them, and nothing      *)
(* while the newest height is below 3 - the literal in cleanByHeight).        *)
(* The by-point index is written as the code keeps it (one fact per triple,   *)
(* last writer); the statement is the invariant ByPointSame.                  *)
(*                                                                            *)
(* Binding: input sequences of this module (-simulate) are run on a real      *)
(* TempPool sequentially; concurrent histories and forced two-writer          *)
(* schedules (PoolBallotsRace.tla) are recorded from goroutines; all of them  *)
(* are validated by PoolBallotsTrace.tla (linearizability against the atomic  *)
(* actions below).                                                            *)
EXTENDS Integers, FiniteSets, Sequences, TLC, Json

CONSTANTS MaxH,        \* heights 0..MaxH
          Rounds,      \* set of rounds
          Kinds,       \* subset of {"I-", "I+", "A-"}: INIT, INIT with suffrage-confirm fact, ACCEPT
          NVar,        \* variants 1..NVar
          Proposers,   \* model proposer names
          Prevs,       \* model previous-block names
          Depth,       \* configured clean-up depth (cleanRemovedBallotDeep / ...ProposalDeep)
          MaxSteps

(* stage point + suffrage-confirm flag; the genesis height has round 0 only (a stage  *)
(* point of height 0 and another round is not a valid point: Ballot() refuses it)     *)
BKey   == {k \in [h : 0..MaxH, r : Rounds, kd : Kinds] : k.h = 0 => k.r = 0}
Triple == [h : 0..MaxH, r : Rounds, p : Proposers, b : Prevs]
PFact  == [t : Triple, k : 1..NVar]

VARIABLES bstore,  \* [BKey -> 0..NVar]: variant of the ballot kept for the key, 0 = none
          pstore,  \* [PFact -> 0..NVar]: sign variant of the proposal kept for the fact, 0 = none
          ptidx,   \* [Triple -> 0..NVar]: the fact (its k) the by-point index names, 0 = none
          everf,   \* [Triple -> SUBSET (1..NVar)]: facts ever stored for the triple
          hist, step
pvars == <<bstore, pstore, ptidx, everf>>
vars  == <<bstore, pstore, ptidx, everf, hist, step>>

Max(S) == CHOOSE x \in S : \A y \in S : y <= x
StoredB == {k \in BKey : bstore[k] # 0}
StoredP == {f \in PFact : pstore[f] # 0}
NewestB == IF StoredB = {} THEN -1 ELSE Max({k.h : k \in StoredB})
NewestP == IF StoredP = {} THEN -1 ELSE Max({f.t.h : f \in StoredP})
DeepB   == {k \in StoredB : k.h <= NewestB - Depth}      \* what clean-up may remove
DeepP   == {f \in StoredP : f.t.h <= NewestP - Depth}

(* atomic actions; each comes with the value the call returns *)
SetBallotRet(k)    == IF bstore[k] = 0 THEN 1 ELSE 0
SetBallotA(k, v)   == /\ bstore' = IF bstore[k] = 0 THEN [bstore EXCEPT ![k] = v] ELSE bstore
                      /\ UNCHANGED <<pstore, ptidx, everf>>
BallotRet(k)       == bstore[k]

SetProposalRet(f)  == IF pstore[f] = 0 THEN 1 ELSE 0
SetProposalA(f, s) == /\ IF pstore[f] = 0
                         THEN /\ pstore' = [pstore EXCEPT ![f] = s]
                              /\ ptidx' = [ptidx EXCEPT ![f.t] = f.k]        \* the code overwrites
                              /\ everf' = [everf EXCEPT ![f.t] = @ \cup {f.k}]
                         ELSE UNCHANGED <<pstore, ptidx, everf>>
                      /\ UNCHANGED bstore
ProposalRet(f)     == pstore[f]
(* the code: the index names a fact, the fact is looked up *)
ByPointCode(t)     == IF ptidx[t] = 0 THEN <<0, 0>>
                      ELSE LET f == [t |-> t, k |-> ptidx[t]] IN
                           IF pstore[f] = 0 THEN <<0, 0>> ELSE <<f.k, pstore[f]>>
(* the statement: with one fact for the triple, that same proposal; with several   *)
(* (misbehaving proposer) it does not say which, or whether one is found            *)
ByPointAllowed(t)  == IF Cardinality(everf[t]) <= 1
                      THEN {ByPointCode(t)}
                      ELSE {<<0, 0>>} \cup {<<f.k, pstore[f]>> : f \in {g \in StoredP : g.t = t}}

CleanB(R) == /\ R \subseteq DeepB
             /\ bstore' = [k \in BKey |-> IF k \in R THEN 0 ELSE bstore[k]]
             /\ UNCHANGED <<pstore, ptidx, everf>>
CleanP(R) == /\ R \subseteq DeepP
             /\ pstore' = [f \in PFact |-> IF f \in R THEN 0 ELSE pstore[f]]
             /\ ptidx' = [t \in Triple |-> IF ptidx[t] # 0 /\ [t |-> t, k |-> ptidx[t]] \in R THEN 0 ELSE ptidx[t]]
             /\ UNCHANGED <<bstore, everf>>
(* cleanByHeight: heights are read from the keys of the ballots / of the by-point index *)
CodeCleanB == CleanB(IF NewestB < 3 THEN {} ELSE DeepB)
IdxFacts   == {f \in PFact : ptidx[f.t] = f.k}
NewestIdx  == IF IdxFacts = {} THEN -1 ELSE Max({f.t.h : f \in IdxFacts})
CodeCleanP == CleanP(IF NewestIdx < 3 THEN {} ELSE {f \in IdxFacts \cap StoredP : f.t.h <= NewestIdx - Depth})

--------------------------------------------------------------------------------
Init == /\ bstore = [k \in BKey |-> 0]
        /\ pstore = [f \in PFact |-> 0]
        /\ ptidx = [t \in Triple |-> 0]
        /\ everf = [t \in Triple |-> {}]
        /\ hist = <<>>
        /\ step = ToJson(<<>>)

Log(e) == /\ Len(hist) < MaxSteps
          /\ hist' = Append(hist, e)
          /\ step' = ToJson(hist')

Next ==
  \/ \E k \in BKey, v \in 1..NVar : SetBallotA(k, v) /\ Log([op |-> "SetBallot", k |-> k, v |-> v, r |-> SetBallotRet(k)])
  \/ \E k \in BKey : UNCHANGED pvars /\ Log([op |-> "Ballot", k |-> k, r |-> BallotRet(k)])
  \/ \E f \in PFact, s \in 1..NVar : SetProposalA(f, s) /\ Log([op |-> "SetProposal", f |-> f, s |-> s, r |-> SetProposalRet(f)])
  \/ \E f \in PFact : UNCHANGED pvars /\ Log([op |-> "Proposal", f |-> f, r |-> ProposalRet(f)])
  \/ \E t \in Triple : UNCHANGED pvars /\ Log([op |-> "ByPoint", t |-> t, r |-> ByPointCode(t)])
  \/ CodeCleanB /\ Log([op |-> "CleanBallots"])
  \/ CodeCleanP /\ Log([op |-> "CleanProposals"])
Spec == Init /\ [][Next]_vars

View == <<bstore, pstore, ptidx, everf, Len(hist)>>
--------------------------------------------------------------------------------
TypeOK == /\ bstore \in [BKey -> 0..NVar] /\ pstore \in [PFact -> 0..NVar]
          /\ ptidx \in [Triple -> 0..NVar]

(* first writer wins: a kept ballot / proposal only ever changes by being cleaned up, *)
(* and only when it is at least Depth below the newest height                          *)
BallotKept == [][\A k \in BKey : bstore[k] # 0 =>
                    \/ bstore'[k] = bstore[k]
                    \/ bstore'[k] = 0 /\ k.h <= NewestB - Depth]_vars
ProposalKept == [][\A f \in PFact : pstore[f] # 0 =>
                    \/ pstore'[f] = pstore[f]
                    \/ pstore'[f] = 0 /\ f.t.h <= NewestP - Depth]_vars
(* lookup by (point, proposer, previous block) returns that same proposal *)
ByPointSame == \A t \in Triple : Cardinality(everf[t]) = 1 =>
                  LET f == [t |-> t, k |-> CHOOSE k \in everf[t] : TRUE] IN
                  ByPointCode(t) = IF pstore[f] = 0 THEN <<0, 0>> ELSE <<f.k, pstore[f]>>
(* what the code does is within what the statement allows *)
ByPointWithin == \A t \in Triple : ByPointCode(t) \in ByPointAllowed(t)
=============================================================================
