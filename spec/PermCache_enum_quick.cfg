SPECIFICATION Spec
CONSTANTS
  Readers = {"r1"}
  MaxMerges = 2
  Purge = TRUE
  TempCacheHas = TRUE
VIEW view
INVARIANTS TypeOK
CHECK_DEADLOCK FALSE
