SPECIFICATION Spec
CONSTANTS
  Readers = {"r1"}
  MaxMerges = 2
  Purge = TRUE
  TempCaches = {TRUE, FALSE}
  WithReopen = TRUE
VIEW view
INVARIANTS TypeOK SequentialFresh
CHECK_DEADLOCK FALSE
