SPECIFICATION Spec
CONSTANTS
  NJobs = 3
  SemSize = 2
  Kind = "errcb"
  MayFail = {1, 2, 3}
  EndOrder = "cancel-release"
  AcquireAnswer = "cause"
  ParentMay = TRUE
INVARIANTS ErrfOncePerFailure TypeOK WaitNilAfterAll NoAcceptAfterDone RunReturnsFirstError
PROPERTIES AcceptedEnds DriverReturns
CHECK_DEADLOCK FALSE
