SPECIFICATION Spec
CONSTANTS
  Node = {"n1", "n2"}
  Byz = {}
  Down = {}
  Active = {"n1", "n2"}
  Suspects = {"n1", "n2"}
  PreSigned = FALSE
  Fallback = TRUE
  T10 = 670
  MaxRound = 0
  MaxExpel = 1
INVARIANTS TypeOK NoHonestEquivocation AgreementWithinF ChainAgreementWithinF SavedOnlyAgreed
PROPERTIES LastMonotone BoxLastMonotone
CONSTRAINT QueueBound
CHECK_DEADLOCK FALSE
