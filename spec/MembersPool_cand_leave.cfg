SPECIFICATION Spec
CONSTANTS
  Addr = {"a1", "a2"}
  Node = {"n1", "n2"}
  Procs = {1, 2}
  Discipline = "leave-after"
  Forced = FALSE
  CallOps = {"Join", "Leave"}
  MinMutators = 2
INVARIANTS TypeOK AtRestConsistent
CHECK_DEADLOCK FALSE
