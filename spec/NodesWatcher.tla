----------------------------- MODULE NodesWatcher -----------------------------
(***************************************************************************)
(* WATCHER - isaac.LastConsensusNodesWatcher                               *)
(* (isaac/last_consensus_nodes_watcher.go) with isaac.SuffrageStateBuilder *)
(* (isaac/suffrage_builder.go) as its getFromRemote, as launch wires them  *)
(* (launch/p_suffrage.go PLastConsensusNodesWatcher).  It is where a node  *)
(* that is not (yet) in consensus learns the suffrage ISAAC.tla and        *)
(* Agreement.tla take as given: it holds the newest suffrage proof and     *)
(* candidates state of the local database and of the remote nodes.         *)
(*                                                                         *)
(* The main chain of suffrage proofs is P(0..K): P(x) has suffrage height  *)
(* x and block height Gap*x and proves from the state of P(x-1).  A remote *)
(* in mode "fork" serves G(x), x >= ForkAt, which does not prove from any  *)
(* P state; "err" fails.  Candidates states are identified by their block  *)
(* height.  -1 stands for "none".                                          *)
(*                                                                         *)
(* Contract (written from the statement, the code's l3 history and locks   *)
(* are not modelled):                                                      *)
(*  - what is held is the newest of everything adopted so far: proof by    *)
(*    block height, candidates by state height, last height - each only    *)
(*    moves forward (Monotone);                                            *)
(*  - Last()/Exists() adopt the local database first and answer the held   *)
(*    pair;                                                                *)
(*  - a check asks the remote with the state of the held proof; proofs of  *)
(*    the remote are adopted only if they prove from it link by link       *)
(*    (OnlyProved: the held proof is always on the main chain);            *)
(*  - whenUpdated is called once per completed check, with the proof held  *)
(*    before, and - iff the remote brought a newer proof or newer          *)
(*    candidates - the pair that Last() answers from then on (else nil).   *)
(*                                                                         *)
(* Binding A: every behaviour (quick: exhaustive small world, -simulate on *)
(* a larger one) is printed as a CASE line and replayed on the real        *)
(* watcher + real builder over real suffrage proofs                        *)
(* (harness/internal/watcher).                                             *)
(***************************************************************************)
EXTENDS Integers, Sequences, TLC

CONSTANTS K,          \* suffrage heights 0..K
          Gap,        \* block height of P(x) = Gap * x
          ForkAt,     \* the fork G starts at this suffrage height (> 0)
          CandHs,     \* block heights of candidates states
          MaxSteps,
          Sim

VARIABLES lp, lc, lh,        \* local database: suffrage height of its last proof, candidates, last block height
          rp, rc, rh, rmode, \* remote
          hp, hc, hh,        \* held by the watcher
          hist, n, done

vars == <<lp, lc, lh, rp, rc, rh, rmode, hp, hc, hh, hist, n, done>>

Max(a, b) == IF a >= b THEN a ELSE b
BH(x) == IF x < 0 THEN -1 ELSE Gap * x
MaxB == Gap * K + 1

Init == /\ lp = -1 /\ lc = -1 /\ lh = -1
        /\ rp = 0 /\ rc = -1 /\ rh = 0 /\ rmode = "main"
        /\ hp = -1 /\ hc = -1 /\ hh = -1
        /\ hist = <<>> /\ n = 0 /\ done = FALSE

Pick(S) == IF Sim THEN {RandomElement(IF n >= 0 THEN S ELSE {})} ELSE S

(* the local database grows: a node saves blocks *)
Local(p, c, h) ==
    /\ n < MaxSteps
    /\ p >= lp /\ p >= 0 /\ c >= lc /\ h >= lh /\ h >= BH(p) /\ h < BH(p + 1) /\ c <= h
    /\ <<p, c, h>> # <<lp, lc, lh>>
    /\ lp' = p /\ lc' = c /\ lh' = h
    /\ hist' = Append(hist, <<"local", p, c, h>>)
    /\ n' = n + 1
    /\ UNCHANGED <<rp, rc, rh, rmode, hp, hc, hh, done>>

Remote(p, c, h, m) ==
    /\ n < MaxSteps
    /\ p >= rp /\ c >= rc /\ h >= rh /\ h >= BH(p) /\ h < BH(p + 1) /\ c <= h
    /\ (m = "fork" => p >= ForkAt)
    /\ <<p, c, h, m>> # <<rp, rc, rh, rmode>>
    /\ rp' = p /\ rc' = c /\ rh' = h /\ rmode' = m
    /\ hist' = Append(hist, <<"remote", p, c, h, m>>)
    /\ n' = n + 1
    /\ UNCHANGED <<lp, lc, lh, hp, hc, hh, done>>

(* Last(): the local database is adopted, the held pair answered *)
AdoptP == Max(hp, lp)
AdoptC == Max(hc, lc)
AdoptH == Max(hh, lh)
CallLast ==
    /\ n < MaxSteps
    /\ hp' = AdoptP /\ hc' = AdoptC /\ hh' = AdoptH
    /\ hist' = Append(hist, <<"last", AdoptP, AdoptC>>)
    /\ n' = n + 1
    /\ UNCHANGED <<lp, lc, lh, rp, rc, rh, rmode, done>>

(* one check: adopt local, ask the remote with the held state, adopt what proves *)
Check ==
    /\ n < MaxSteps
    /\ LET p0 == AdoptP
           c0 == AdoptC
           h0 == AdoptH
           newer  == rp > p0
           \* the builder: error in mode err; in mode fork the new proofs do not prove from P(p0)
           \* (the genesis of the fork, G(ForkAt), is taken when nothing is held: nothing to prove against)
           fails  == rmode = "err" \/ (rmode = "fork" /\ newer /\ p0 >= 0)
           p1 == IF ~fails /\ newer /\ rmode = "main" THEN rp ELSE p0
           c1 == IF fails THEN c0 ELSE Max(c0, rc)
           h1 == IF fails THEN h0 ELSE Max(h0, rh)
           upd == ~fails /\ (p1 > p0 \/ c1 > c0)
       IN  /\ ~(rmode = "fork" /\ newer /\ p0 < 0)      \* a node with nothing at all trusts whoever it asks: out of scope
           /\ hp' = p1 /\ hc' = c1 /\ hh' = h1
           /\ hist' = Append(hist, <<"check", p0, ~fails, p0, IF upd THEN p1 ELSE -1, IF upd THEN c1 ELSE -1, p1, c1>>)
    /\ n' = n + 1
    /\ UNCHANGED <<lp, lc, lh, rp, rc, rh, rmode, done>>

Emit == /\ n = MaxSteps /\ ~done
        /\ PrintT("CASE " \o ToString(hist))
        /\ done' = TRUE
        /\ UNCHANGED <<lp, lc, lh, rp, rc, rh, rmode, hp, hc, hh, hist, n>>

Ps == 0..K
Cs == CandHs \cup {-1}
Hs == 0..MaxB

Next == \/ \E p \in Pick(Ps) : \E c \in Pick(Cs) : \E h \in Pick({BH(p), BH(p) + 1}) : Local(p, c, h)
        \/ \E p \in Pick(Ps) : \E c \in Pick(Cs) : \E h \in Pick({BH(p), BH(p) + 1}) :
               \E m \in Pick({"main", "main", "fork", "err"}) : Remote(p, c, h, m)
        \/ CallLast
        \/ Check
        \/ Emit

Spec == Init /\ [][Next]_vars

ASSUME PrintT("WORLD " \o ToString(<<K, Gap, ForkAt>>))

TypeOK == /\ hp \in -1..K /\ lp \in -1..K /\ rp \in 0..K
          /\ hc \in Cs /\ hh \in -1..MaxB
          /\ rmode \in {"main", "fork", "err"}
(* the watched value only moves forward *)
Monotone == [][hp' >= hp /\ hc' >= hc /\ hh' >= hh]_vars
(* nothing is held that neither the local database nor a proving remote had *)
HeldIsKnown == /\ hp <= Max(lp, rp) /\ hc <= Max(lc, rc) /\ hh <= Max(lh, rh)
(* whenUpdated's value is what Last() answers then *)
UpdatedIsLast == \A i \in 1..Len(hist) : hist[i][1] = "check" /\ hist[i][5] >= 0 =>
                    hist[i][5] = hist[i][7] /\ hist[i][6] = hist[i][8]
view == <<lp, lc, lh, rp, rc, rh, rmode, hp, hc, hh, hist, n, done>>
=============================================================================
