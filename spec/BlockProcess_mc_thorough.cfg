SPECIFICATION Spec
CONSTANTS
  World = "A"
  MaxOps = 2
  Workers = {2, 64}
  CatIds = {}
INVARIANTS Confluent ResultsOnce WorkerBound WorldOK
VIEW View
CHECK_DEADLOCK FALSE
