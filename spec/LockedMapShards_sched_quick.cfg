SPECIFICATION ShardSpec
CONSTANTS
  NK = 2
  MaxVal = 9
  NG = 2
  NSlots = 2
  MaxOps = 1
  Modes = {"blind"}
  Forced = TRUE
  OpSet <- OpsAll
INVARIANTS EmitSched
CHECK_DEADLOCK FALSE
