\* binding B: the parameters of harness/internal/handover/record.go (recordParams) and the retry limits of the code
SPECIFICATION TraceSpec
CONSTANTS
  Kinds <- KindsLong9
  MinChal = 2
  ReadyEndArg = 1
  MaxFail = 1
  FinishRetry = 33
  CancelRetry = 3
  MaxAsk = 2
  MaxFaults = 100000
  MaxBallots = 100
  LocalCancel = TRUE
  AllowDup = TRUE
  Bias = 0
CONSTRAINT HighWater
INVARIANTS
  NoLaterVote
  YInOnlyAfterXFinish
  XOutWhenYIn
  FinishedIsOut
  CancelledNotBoth
  YCancelledOut
  OnceCallbacks
  YInImpliesFinished
  FinishGuard
POSTCONDITION Accepted
CHECK_DEADLOCK FALSE
