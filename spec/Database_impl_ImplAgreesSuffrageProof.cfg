SPECIFICATION Spec
CONSTANTS
  Keys = {"a"}
  MaxLen = 4
  MaxWrites = 4
  MaxSteps = 1000
  MaxPool = 0
  KeepPath = FALSE
  EmitStep = FALSE
  WithReopen = FALSE
  WithCenter = TRUE
  Repaired = FALSE
  Contents <- AllContents
  SizeClasses = {"s"}
  MaxBig = 0
  WriteLimit = 128
  MergeLimit = 333
  CacheChoices = {FALSE}
  ReadOptional = FALSE
  Purge = TRUE
VIEW view
INVARIANTS ImplAgreesSuffrageProof
CHECK_DEADLOCK FALSE
