SPECIFICATION Spec
CONSTANTS
  Readers = {"r1", "r2"}
  MaxMerges = 2
  Purge = FALSE
  TempCacheHas = TRUE
VIEW view
INVARIANTS TypeOK CacheFresh NoStaleRead
CHECK_DEADLOCK FALSE
