------------------------------ MODULE Handover ------------------------------
(* HANDOVER - the protocol by which a running consensus node X hands its      *)
(* place (one node identity: address and key) to its replacement Y.           *)
(*                                                                            *)
(* Models /repo/isaac/states: handover_x.go (HandoverXBroker), handover_y.go  *)
(* (HandoverYBroker), handover_message.go (the six message kinds), and the    *)
(* parts of handover.go / consensus.go / states.go / states_handover.go that  *)
(* call the brokers: ConsensusHandler.whenNewVoteproof -> sendVoteproof,      *)
(* HandoverHandler.whenNewVoteproof/whenNewBlockSaved -> sendStagePoint /     *)
(* sendBlockMap, States.checkOutOfHandoverX -> finish(nil), Cancel*Broker ->  *)
(* cancel, patchStates (whenFinished: X leaves consensus; Y's whenFinished:   *)
(* Y enters consensus with the INIT voteproof of the Finish message).         *)
(*                                                                            *)
(* Implementation level: one action per public call / critical section of a   *)
(* broker; every message travels as a request of SendMessageFunc which the    *)
(* network resolves (delivered and answered, lost, delivered with the answer  *)
(* lost, delivered twice); retry (Finish 33x, Cancel 3x) and endure           *)
(* (MaxEnsureSendFailure) bookkeeping as in the code; goroutines the code     *)
(* starts (challenge response, cancel message, whenCanceled) are separate     *)
(* requests, so answers overtake each other.                                  *)
(*                                                                            *)
(* Voteproof k (1..N) is the k-th voteproof X's consensus handler sees after  *)
(* the handover was asked; Kinds[k] is "init" | "initdraw" | "accept" |       *)
(* "acceptdraw". The stage after voteproof k is what a node votes for once it *)
(* has handled k; "X voted k" / "Y is in at k" talk about these stages.       *)
(*                                                                            *)
(* Binding A: behaviours (-simulate) are replayed on real HandoverXBroker /   *)
(* HandoverYBroker objects joined by a harness network                        *)
(* (harness/internal/handover); binding B: events recorded from seeded runs   *)
(* of the real brokers are validated by HandoverTrace.tla.                    *)
EXTENDS Integers, Sequences, FiniteSets, TLC

CONSTANTS
  Kinds,        \* sequence of voteproof kinds
  MinChal,      \* HandoverXBrokerArgs.MinChallengeCount
  ReadyEndArg,  \* HandoverXBrokerArgs.ReadyEnd
  MaxFail,      \* MaxEnsureSendFailure of both brokers
  FinishRetry,  \* retries of the Finish message (33 in finish())
  CancelRetry,  \* retries of the Cancel message (3 in cancel())
  MaxAsk,       \* HandoverYBrokerArgs.MaxEnsureAsk
  MaxFaults,    \* bound: network faults (lost / answer lost / duplicate / forged)
  MaxBallots,   \* bound: ballots X forwards
  LocalCancel,  \* TRUE: operator cancellation / stop actions are enabled
  AllowDup,     \* TRUE: the network may deliver a request twice
  Bias          \* 0: off (model checking); n > 0 (simulation only): a disruptive action
                \* (cancellation, fault, forged message) is offered only 1 time in n

(* voteproof sequences for the cfg files (a cfg cannot hold a tuple) *)
KindsIAI    == <<"init", "accept", "init">>
KindsIAIA   == <<"init", "accept", "init", "accept">>
KindsIAIAI  == <<"init", "accept", "init", "accept", "init">>
KindsAIAIA  == <<"accept", "init", "accept", "init", "accept">>
KindsDraw   == <<"init", "acceptdraw", "init", "accept", "init">>
KindsIDraw  == <<"initdraw", "init", "accept", "init", "accept", "init">>
KindsLong   == <<"init", "accept", "init", "accept", "init", "accept", "init">>
KindsLong9  == <<"accept", "init", "accept", "init", "acceptdraw", "init", "accept", "initdraw", "init", "accept", "init">>

N == Len(Kinds)
VP == 1..N

IsInit(k)  == Kinds[k] \in {"init", "initdraw"}
IsSP(k)    == Kinds[k] # "accept"        \* isStagePointChallenge(voteproof k)
ChalType(k) == IF IsSP(k) THEN "sp" ELSE "bm"

VARIABLES
  \* ---- HandoverXBroker
  xb,     \* broker exists (created when Y asked)
  xc,     \* ctx cancelled (cancelOnce used)
  xf,     \* isFinishedLocked
  xlv,    \* lastVoteproof (0 = nil)
  xcc,    \* challengecount
  xlcc,   \* lastchallengecount
  xs,     \* successcount
  xre,    \* readyEnd
  xlr,    \* lastReceived: [t: "none"|"sp"|"bm", k]
  xpc,    \* previousChallengeHandover (0 = zero)
  xfail,  \* sendFailureCount
  xcs,    \* cancel-message goroutine: 0 idle, 1..CancelRetry attempt in flight, CancelRetry+1 done
  \* ---- X node (consensus handler goroutine + callbacks)
  xhpc,   \* "idle" | "data" | "finish"
  xhk,    \* voteproof the handler is in sendVoteproof with (0: finish(nil))
  xtry,   \* attempt of the Finish message
  xnext,  \* next voteproof the handler will see
  xOut,   \* whenFinished was called: X left the consensus states
  xVoted, \* voteproofs after which X went on to vote
  xFinAt, \* voteproof X began finish() with (0 none, -1 finish(nil))
  xFresh, \* at that moment the challenge of the last sent voteproof had been answered
  xWF, xWC, \* calls of WhenFinished / WhenCanceled
  xret,   \* what the last handler call returned
  xbusy,  \* ballot goroutine has a request in flight
  xnb,    \* ballots forwarded
  \* ---- HandoverYBroker
  yrta,   \* isReadyToAsk
  yds,    \* isDataSynced
  yid,    \* asked (id set)
  yf,     \* isFinishedLocked
  yc,     \* ctx cancelled
  yfail,  \* sendFailureCount
  yask,   \* maxEnsureAsk left
  ycs,    \* cancel-message goroutine (as xcs)
  \* ---- Y node (handover handler + callbacks)
  ypend,  \* voteproofs handed to newVoteprooff, not yet handled
  ylast,  \* last voteproof the handler handled (challenge sent)
  yIn,    \* 0: not in consensus; k: entered consensus with INIT voteproof k
  ySync,  \* Finish without voteproof received: moves to syncing
  yWF, yWC,
  \* ---- network
  net,    \* requests of SendMessageFunc in flight
  faults,
  step    \* output: the action taken (binding A)

XBv == <<xb, xc, xf, xlv, xcc, xlcc, xs, xre, xlr, xpc, xfail, xcs>>
XNv == <<xhpc, xhk, xtry, xnext, xOut, xVoted, xFinAt, xFresh, xWF, xWC, xret, xbusy, xnb>>
YBv == <<yrta, yds, yid, yf, yc, yfail, yask, ycs>>
YNv == <<ypend, ylast, yIn, ySync, yWF, yWC>>
XNvNoWC == <<xhpc, xhk, xtry, xnext, xOut, xVoted, xFinAt, xFresh, xWF, xret, xbusy, xnb>>
vars == <<XBv, XNv, YBv, YNv, net, faults, step>>
view == <<XBv, XNv, YBv, YNv, net, faults>>

M(from, t, k, ok, er, prev) == [from |-> from, t |-> t, k |-> k, ok |-> ok, er |-> er, prev |-> prev]
CancelMsg(from) == M(from, "cancel", 0, FALSE, FALSE, 0)
Ret(fin, err) == [fin |-> fin, err |-> err]

Init ==
  /\ xb = FALSE /\ xc = FALSE /\ xf = FALSE /\ xlv = 0 /\ xcc = 0 /\ xlcc = 0 /\ xs = 0 /\ xre = 0
  /\ xlr = [t |-> "none", k |-> 0] /\ xpc = 0 /\ xfail = 0 /\ xcs = 0
  /\ xhpc = "idle" /\ xhk = 0 /\ xtry = 0 /\ xnext = 1 /\ xOut = FALSE /\ xVoted = {} /\ xFinAt = 0
  /\ xFresh = TRUE /\ xWF = 0 /\ xWC = 0 /\ xret = Ret(FALSE, "nil") /\ xbusy = FALSE /\ xnb = 0
  /\ yrta = FALSE /\ yds = FALSE /\ yid = FALSE /\ yf = FALSE /\ yc = FALSE /\ yfail = 0
  /\ yask = MaxAsk /\ ycs = 0
  /\ ypend = {} /\ ylast = 0 /\ yIn = 0 /\ ySync = FALSE /\ yWF = 0 /\ yWC = 0
  /\ net = {} /\ faults = 0
  /\ step = [a |-> "Init"]

(* ------------------------------------------------------------------------ *)
(* cancel(err) / cancelByMessage / stop share one sync.Once per broker       *)
(* kind: "none" | "cancel" | "bymsg" | "stop"                                *)
XCan(kind) ==
  /\ xc' = (xc \/ kind # "none")
  /\ xWC' = IF ~xc /\ kind \in {"cancel", "bymsg"} THEN xWC + 1 ELSE xWC
  /\ xcs' = IF ~xc /\ kind = "cancel" THEN 1 ELSE xcs
XCanNet(kind) == IF ~xc /\ kind = "cancel" THEN {CancelMsg("x")} ELSE {}

YCan(kind) ==
  /\ yc' = (yc \/ kind # "none")
  /\ yWC' = IF ~yc /\ kind \in {"cancel", "bymsg"} THEN yWC + 1 ELSE yWC
  /\ ycs' = IF ~yc /\ kind = "cancel" /\ yid THEN 1 ELSE ycs     \* no message without an id
YCanNet(kind) == IF ~yc /\ kind = "cancel" /\ yid THEN {CancelMsg("y")} ELSE {}

(* (a parameter that depends on the state keeps TLC from caching the draw) *)
Rare(v) == IF Bias = 0 THEN TRUE ELSE RandomElement(1..(Bias + 0 * v)) = 1

(* endureHandoverSendMessageFunc: refuses to send once the count reached x   *)
Over(fail) == MaxFail > 0 /\ fail >= MaxFail
Swallowed(prev) == prev < MaxFail

(* ------------------------------------------------------------------------ *)
(* Y: data synchronisation goroutines of NewHandoverYBroker                  *)
YSyncReady ==
  /\ ~yrta /\ ~yc
  /\ yrta' = TRUE
  /\ step' = [a |-> "YSyncReady"]
  /\ UNCHANGED <<XBv, XNv, yds, yid, yf, yc, yfail, yask, ycs, YNv, net, faults>>

YSyncDone ==
  /\ yrta /\ ~yds /\ ~yc
  /\ yds' = TRUE
  /\ step' = [a |-> "YSyncDone"]
  /\ UNCHANGED <<XBv, XNv, yrta, yid, yf, yc, yfail, yask, ycs, YNv, net, faults>>

YSyncFail ==        \* SyncDataFunc returns an error
  /\ ~yds /\ ~yc /\ faults < MaxFaults /\ Rare(faults)
  /\ YCan("cancel")
  /\ net' = net \cup YCanNet("cancel")
  /\ faults' = faults + 1
  /\ step' = [a |-> "YSyncFail"]
  /\ UNCHANGED <<XBv, XNv, yrta, yds, yid, yf, yfail, yask, ypend, ylast, yIn, ySync, yWF>>

(* Y: Ask() from the syncing handler; X creates its broker on a good ask     *)
YAsk(good) ==
  /\ ~yid /\ ~yc /\ ~yf /\ yrta
  /\ IF good
       THEN /\ yid' = TRUE /\ xb' = TRUE
            /\ UNCHANGED <<yc, yWC, ycs, yask, faults>>
       ELSE /\ faults < MaxFaults /\ faults' = faults + 1 /\ Rare(faults)
            /\ yask' = yask - 1
            /\ YCan(IF yask - 1 < 1 THEN "cancel" ELSE "none")   \* no id: no message
            /\ UNCHANGED <<yid, xb>>
  /\ step' = [a |-> "YAsk", good |-> good]
  /\ UNCHANGED <<xc, xf, xlv, xcc, xlcc, xs, xre, xlr, xpc, xfail, xcs, XNv,
                 yrta, yds, yf, yfail, ypend, ylast, yIn, ySync, yWF, net>>

(* Y handler handles a voteproof it got from X and answers with a challenge  *)
(* (sendStagePoint / sendBlockMap)                                           *)
YChallenge(k) ==
  /\ k \in ypend
  /\ ypend' = ypend \ {k}
  /\ LET new   == k > ylast
         sends == new /\ ~yc /\ ~yf /\ yds /\ yid
         over  == sends /\ Over(yfail)
     IN /\ ylast' = IF new THEN k ELSE ylast
        /\ YCan(IF over THEN "cancel" ELSE "none")
        /\ net' = net \cup (IF over THEN YCanNet("cancel") ELSE {})
                      \cup (IF sends /\ ~over THEN {M("y", "chal", k, FALSE, FALSE, yfail)} ELSE {})
        /\ step' = [a |-> "YChallenge", k |-> k,
                    r |-> IF ~new THEN "stale" ELSE IF yc THEN "canceled" ELSE IF yf THEN "stopped"
                          ELSE IF ~yds THEN "notsynced" ELSE IF over THEN "over" ELSE "sent"]
  /\ UNCHANGED <<XBv, XNv, yrta, yds, yid, yf, yfail, yask, yIn, ySync, yWF, faults>>

YCancelLocal ==     \* States.CancelHandoverYBroker / SetAllowConsensus(true)
  /\ LocalCancel /\ ~yc /\ Rare(faults)
  /\ YCan("cancel")
  /\ net' = net \cup YCanNet("cancel")
  /\ step' = [a |-> "YCancelLocal"]
  /\ UNCHANGED <<XBv, XNv, yrta, yds, yid, yf, yfail, yask, ypend, ylast, yIn, ySync, yWF, faults>>

YStop ==            \* HandoverHandler.exit after a finished handover
  /\ LocalCancel /\ yf /\ ~yc
  /\ YCan("stop")
  /\ step' = [a |-> "YStop"]
  /\ UNCHANGED <<XBv, XNv, yrta, yds, yid, yf, yfail, yask, ypend, ylast, yIn, ySync, yWF, net, faults>>

(* ------------------------------------------------------------------------ *)
(* X: ConsensusHandler.whenNewVoteproof -> broker.sendVoteproof(vp)           *)
ReadyToFinish == xre >= 1 /\ xs >= MinChal /\ xs >= xre

XSendVoteproof ==
  /\ xb /\ xhpc = "idle" /\ ~xOut /\ xnext <= N
  /\ LET k == xnext IN
     IF xc THEN     \* States.HandoverXBroker() = nil: the handler votes as usual
       /\ xVoted' = xVoted \cup {k} /\ xnext' = xnext + 1
       /\ xret' = Ret(FALSE, "nobroker")
       /\ step' = [a |-> "XSendVoteproof", k |-> k, r |-> "nobroker"]
       /\ UNCHANGED <<XBv, xhpc, xhk, xtry, xOut, xFinAt, xFresh, xWF, xWC, xbusy, xnb, YBv, YNv, net, faults>>
     ELSE IF IsInit(k) /\ ReadyToFinish THEN    \* finish(ivp, pr)
       /\ xhpc' = "finish" /\ xhk' = k /\ xtry' = 1 /\ xFinAt' = k /\ xFresh' = (xlcc = xcc)
       /\ net' = net \cup {M("x", "finish", k, FALSE, FALSE, 0)}
       /\ step' = [a |-> "XSendVoteproof", k |-> k, r |-> "finish"]
       /\ UNCHANGED <<XBv, xnext, xOut, xVoted, xWF, xWC, xret, xbusy, xnb, YBv, YNv, faults>>
     ELSE           \* sendVoteproofErr; SendData
       /\ xlv' = k /\ xcc' = xcc + 1
       /\ IF Over(xfail)
            THEN /\ XCan("cancel")
                 /\ net' = net \cup XCanNet("cancel")
                 /\ xVoted' = xVoted \cup {k} /\ xnext' = xnext + 1
                 /\ xret' = Ret(FALSE, "canceled")
                 /\ step' = [a |-> "XSendVoteproof", k |-> k, r |-> "over"]
                 /\ UNCHANGED <<xhpc, xhk>>
            ELSE /\ UNCHANGED <<xc, xWC, xcs, xVoted, xnext, xret>>
                 /\ net' = net \cup {M("x", "data", k, FALSE, FALSE, xfail)}
                 /\ xhpc' = "data" /\ xhk' = k
                 /\ step' = [a |-> "XSendVoteproof", k |-> k, r |-> "data"]
       /\ UNCHANGED <<xb, xf, xlcc, xs, xre, xlr, xpc, xfail, xtry, xOut, xFinAt, xFresh, xWF, xbusy, xnb,
                      YBv, YNv, faults>>

(* States.checkOutOfHandoverX: X left the consensus states by itself          *)
XFinishNil ==
  /\ xb /\ xhpc = "idle" /\ ~xOut /\ ~xc /\ ~xf /\ LocalCancel /\ Rare(faults)
  /\ xhpc' = "finish" /\ xhk' = 0 /\ xtry' = 1 /\ xFinAt' = -1 /\ xFresh' = (xlcc = xcc)
  /\ net' = net \cup {M("x", "finish", 0, FALSE, FALSE, 0)}
  /\ step' = [a |-> "XFinishNil"]
  /\ UNCHANGED <<XBv, xnext, xOut, xVoted, xWF, xWC, xret, xbusy, xnb, YBv, YNv, faults>>

(* baseBallotHandler.sendBallotToHandoverY (its own goroutine)               *)
XBallot ==
  /\ xb /\ ~xbusy /\ xnb < MaxBallots /\ ~xOut
  /\ xhpc # "finish"          \* sendBallot reads isFinishedLocked, which finish() holds
  /\ xnb' = xnb + 1
  /\ IF xc \/ xf THEN
       /\ step' = [a |-> "XBallot", r |-> IF xc THEN "canceled" ELSE "nil"]
       /\ UNCHANGED <<XBv, xWC, xbusy, net>>
     ELSE IF Over(xfail) THEN
       /\ XCan("cancel") /\ net' = net \cup XCanNet("cancel")
       /\ step' = [a |-> "XBallot", r |-> "over"]
       /\ UNCHANGED <<xb, xf, xlv, xcc, xlcc, xs, xre, xlr, xpc, xfail, xbusy>>
     ELSE
       /\ xbusy' = TRUE
       /\ net' = net \cup {M("x", "ballot", 0, FALSE, FALSE, xfail)}
       /\ step' = [a |-> "XBallot", r |-> "sent"]
       /\ UNCHANGED <<XBv, xWC>>
  /\ UNCHANGED <<xhpc, xhk, xtry, xnext, xOut, xVoted, xFinAt, xFresh, xWF, xret, YBv, YNv, faults>>

XCancelLocal ==     \* States.CancelHandoverXBroker / SetAllowConsensus(false)
  /\ LocalCancel /\ xb /\ ~xc /\ Rare(faults)
  /\ XCan("cancel")
  /\ net' = net \cup XCanNet("cancel")
  /\ step' = [a |-> "XCancelLocal"]
  /\ UNCHANGED <<xb, xf, xlv, xcc, xlcc, xs, xre, xlr, xpc, xfail,
                 xhpc, xhk, xtry, xnext, xOut, xVoted, xFinAt, xFresh, xWF, xret, xbusy, xnb, YBv, YNv, faults>>

XStop ==            \* clean-up timer of patchStates after a finished handover
  /\ LocalCancel /\ xb /\ xf /\ ~xc
  /\ XCan("stop")
  /\ step' = [a |-> "XStop"]
  /\ UNCHANGED <<xb, xf, xlv, xcc, xlcc, xs, xre, xlr, xpc, xfail,
                 xhpc, xhk, xtry, xnext, xOut, xVoted, xFinAt, xFresh, xWF, xret, xbusy, xnb, YBv, YNv, net, faults>>

(* ------------------------------------------------------------------------ *)
(* Y.Receive(m) for a message of X (under receivelock: one atomic step)      *)
YRecvKind(m) ==
  IF yc \/ yf THEN "none"
  ELSE IF m.t = "cancel" THEN "bymsg"
  ELSE IF m.t = "badid" THEN "cancel"
  ELSE IF m.t = "resp" /\ m.er THEN "cancel"       \* receiveChallengeResponse returns hc.Err()
  ELSE "none"

YRecvResult(m) ==
  IF yc THEN "canceled" ELSE IF yf THEN "stopped"
  ELSE IF m.t \in {"cancel", "badid"} \/ (m.t = "resp" /\ m.er) THEN "canceled"
  ELSE "nil"                                         \* unknown kinds are ignored

YRecvAssign(m, d) ==
  LET live == d /\ ~yc /\ ~yf IN
  /\ YCan(IF d THEN YRecvKind(m) ELSE "none")
  /\ ypend' = IF live /\ m.t = "data" THEN ypend \cup {m.k} ELSE ypend
  /\ yf'    = (yf \/ (live /\ m.t = "finish"))
  /\ yIn'   = IF live /\ m.t = "finish" /\ m.k > 0 THEN m.k ELSE yIn
  /\ ySync' = (ySync \/ (live /\ m.t = "finish" /\ m.k = 0))
  /\ yWF'   = IF live /\ m.t = "finish" THEN yWF + 1 ELSE yWF
  /\ UNCHANGED <<yrta, yds, yid, yfail, yask, ylast>>
YRecvNew(m, d) == IF d THEN YCanNet(YRecvKind(m)) ELSE {}

(* X.Receive(m) for a message of Y (under the successcount lock)             *)
ChalClass(m) ==      \* receiveStagePoint / receiveBlockMap
  LET k == m.k  ty == ChalType(k) IN
  IF xlr.t = ty /\ k <= xlr.k THEN "ignore"              \* old stagepoint / old blockmap
  ELSE IF xlv = 0 THEN "error"                           \* no last voteproof
  ELSE IF ty = "sp" THEN (IF ~IsSP(xlv) \/ xlv # k THEN "reset" ELSE "pass")
  ELSE (IF Kinds[xlv] # "accept" \/ xlv # k THEN "reset" ELSE "pass")

ChalAfter == IF xlcc # xcc - 1 THEN 1 ELSE xs + 1
ChalOKErr(k) == xpc # 0 /\ k <= xpc        \* challengeIsReadyOK: not higher than the previous one
                                           \* (k > xlv cannot be: "pass" means k = xlv)
XRecvLive(d) == d /\ ~xf /\ ~xc

XRecvKind(m, d) ==
  IF ~XRecvLive(d) THEN "none"
  ELSE IF m.t = "cancel" THEN "bymsg"
  ELSE IF m.t = "badid" THEN "cancel"
  ELSE IF m.t = "chal" /\ ChalClass(m) = "error" THEN "cancel"
  ELSE IF m.t = "chal" /\ ChalClass(m) = "pass" /\ Over(xfail) THEN "cancel"  \* response goroutine
  ELSE "none"

XRecvResult(m) ==
  IF xf THEN "nil" ELSE IF xc THEN "canceled"
  ELSE IF m.t \in {"cancel", "badid"} THEN "canceled"
  ELSE IF m.t = "chal" /\ ChalClass(m) = "error" THEN "canceled"
  ELSE "nil"

XRecvNew(m, d) ==
  XCanNet(XRecvKind(m, d)) \cup
  (IF XRecvLive(d) /\ m.t = "chal" /\ ChalClass(m) = "pass" /\ ~Over(xfail)
     THEN {M("x", "resp", m.k, ~ChalOKErr(m.k) /\ ChalAfter >= MinChal, ChalOKErr(m.k), xfail)}
     ELSE {})

XRecvAssign(m, d) ==
  LET live == XRecvLive(d) /\ m.t = "chal"
      cl   == IF live THEN ChalClass(m) ELSE "ignore"
      k    == m.k
      af   == ChalAfter
      bad  == ChalOKErr(k)
      rdy  == ~bad /\ af >= MinChal
  IN
  /\ XCan(XRecvKind(m, d))
  /\ xlr'  = IF cl \in {"reset", "pass", "error"} THEN [t |-> ChalType(k), k |-> k] ELSE xlr
  /\ xlcc' = IF cl = "pass" THEN xcc ELSE xlcc
  /\ xpc'  = IF cl = "pass" /\ ~bad THEN k ELSE xpc
  /\ xs'   = IF cl = "reset" \/ (cl = "pass" /\ bad) THEN 0 ELSE IF cl = "pass" THEN af ELSE xs
  /\ xre'  = IF cl = "reset" \/ (cl = "pass" /\ bad) THEN 0
             ELSE IF cl = "pass" /\ rdy /\ xre = 0 THEN af + ReadyEndArg ELSE xre
  /\ UNCHANGED <<xb, xf, xlv, xcc, xfail>>

(* ------------------------------------------------------------------------ *)
(* the network resolves a request: o = "ok" delivered and answered, "lost"   *)
(* not delivered (error), "rl" delivered but the answer lost (error), "dup"  *)
(* delivered and still in flight, "cc" (Finish only) the sender's cancelled  *)
(* context aborts the request with context.Canceled                          *)
Delivered(o) == o \in {"ok", "rl", "dup"}
Fault(o) == o \in {"lost", "rl", "dup"}
SendErr(o, r) == o \in {"lost", "rl"} \/ (o = "ok" /\ r # "nil")

(* X -> Y *)
ResolveXY(m, o) ==
  /\ m \in net /\ m.from = "x"
  /\ o \in {"ok", "lost", "rl"} \cup (IF AllowDup THEN {"dup"} ELSE {})
          \cup (IF m.t = "finish" /\ xc THEN {"cc"} ELSE {})
  /\ Fault(o) => (faults < MaxFaults /\ Rare(faults))
  /\ faults' = IF Fault(o) THEN faults + 1 ELSE faults
  /\ YRecvAssign(m, Delivered(o))
  /\ LET r    == YRecvResult(m)
         serr == SendErr(o, r)
         ynew == YRecvNew(m, Delivered(o))
     IN
     /\ step' = [a |-> "Resolve", m |-> m, o |-> o, r |-> IF Delivered(o) THEN r ELSE "none"]
     /\ IF o = "dup" THEN
          /\ net' = net \cup ynew
          /\ UNCHANGED <<XBv, XNv>>
        ELSE CASE m.t = "data" ->       \* SendData returns to sendVoteproof
               /\ xfail' = IF serr THEN xfail + 1 ELSE 0
               /\ LET can == serr /\ ~Swallowed(m.prev) IN
                  /\ XCan(IF can THEN "cancel" ELSE "none")
                  /\ net' = (net \ {m}) \cup ynew \cup (IF can THEN XCanNet("cancel") ELSE {})
                  /\ xret' = Ret(FALSE, IF can THEN "canceled" ELSE "nil")
               /\ xVoted' = xVoted \cup {m.k} /\ xnext' = xnext + 1
               /\ xhpc' = "idle" /\ xhk' = 0
               /\ UNCHANGED <<xb, xf, xlv, xcc, xlcc, xs, xre, xlr, xpc,
                              xtry, xOut, xFinAt, xFresh, xWF, xbusy, xnb>>
             [] m.t = "ballot" ->
               /\ xfail' = IF serr THEN xfail + 1 ELSE 0
               /\ LET can == serr /\ ~Swallowed(m.prev) IN
                  /\ XCan(IF can THEN "cancel" ELSE "none")
                  /\ net' = (net \ {m}) \cup ynew \cup (IF can THEN XCanNet("cancel") ELSE {})
               /\ xbusy' = FALSE
               /\ UNCHANGED <<xb, xf, xlv, xcc, xlcc, xs, xre, xlr, xpc,
                              xhpc, xhk, xtry, xnext, xOut, xVoted, xFinAt, xFresh, xWF, xret, xnb>>
             [] m.t = "resp" ->         \* goroutine of challengeIsReady
               /\ xfail' = IF serr THEN xfail + 1 ELSE 0
               /\ LET can == serr /\ ~Swallowed(m.prev) IN
                  /\ XCan(IF can THEN "cancel" ELSE "none")
                  /\ net' = (net \ {m}) \cup ynew \cup (IF can THEN XCanNet("cancel") ELSE {})
               /\ UNCHANGED <<xb, xf, xlv, xcc, xlcc, xs, xre, xlr, xpc, XNvNoWC>>
             [] m.t = "cancel" ->       \* retrySendMessage(Background, Cancel, 3)
               /\ LET again == serr /\ xcs < CancelRetry IN
                  /\ xcs' = IF again THEN xcs + 1 ELSE CancelRetry + 1
                  /\ net' = (IF again THEN net ELSE net \ {m}) \cup ynew
               /\ UNCHANGED <<xb, xc, xf, xlv, xcc, xlcc, xs, xre, xlr, xpc, xfail, XNv>>
             [] m.t = "finish" ->       \* finish(): retrySendMessage(ctx, Finish, 33) under isFinishedLocked
               LET good  == ~serr \/ o = "cc"
                   giveup == ~good /\ (xc \/ xtry >= FinishRetry)
               IN
               IF ~good /\ ~giveup THEN
                 /\ xtry' = xtry + 1
                 /\ net' = net \cup ynew          \* the same request again
                 /\ UNCHANGED <<XBv, xhpc, xhk, xnext, xOut, xVoted, xFinAt, xFresh, xWF, xWC, xret, xbusy, xnb>>
               ELSE
                 /\ xf' = good
                 /\ xOut' = TRUE /\ xWF' = xWF + 1            \* deferred whenFinished, either way
                 /\ XCan(IF good THEN "none" ELSE "cancel")  \* finish failed: broker.cancel(err)
                 /\ net' = (net \ {m}) \cup ynew \cup (IF good THEN {} ELSE XCanNet("cancel"))
                 /\ xret' = IF xhk = 0 THEN Ret(FALSE, IF good THEN "nil" ELSE "error")
                            ELSE Ret(good, "nil")             \* sendVoteproof: (false, nil) on error
                 /\ xVoted' = IF ~good /\ xhk > 0 THEN xVoted \cup {xhk} ELSE xVoted
                 /\ xnext' = IF xhk > 0 THEN xnext + 1 ELSE xnext
                 /\ xhpc' = "idle" /\ xhk' = 0 /\ xtry' = 0
                 /\ UNCHANGED <<xb, xlv, xcc, xlcc, xs, xre, xlr, xpc, xfail, xFinAt, xFresh, xbusy, xnb>>

(* Y -> X: X.Receive blocks on isFinishedLocked while finish() runs *)
ResolveYX(m, o) ==
  /\ m \in net /\ m.from = "y"
  /\ o \in {"ok", "lost", "rl"} \cup (IF AllowDup THEN {"dup"} ELSE {})
  /\ Delivered(o) => xhpc # "finish"
  /\ Fault(o) => (faults < MaxFaults /\ Rare(faults))
  /\ faults' = IF Fault(o) THEN faults + 1 ELSE faults
  /\ XRecvAssign(m, Delivered(o))
  /\ LET r    == XRecvResult(m)
         serr == SendErr(o, r)
         xnew == XRecvNew(m, Delivered(o))
     IN
     /\ step' = [a |-> "Resolve", m |-> m, o |-> o, r |-> IF Delivered(o) THEN r ELSE "none"]
     /\ IF o = "dup" THEN
          /\ net' = net \cup xnew
          /\ UNCHANGED <<YBv, YNv>>
        ELSE CASE m.t = "chal" ->       \* sendStagePoint / sendBlockMap
               /\ yfail' = IF serr THEN yfail + 1 ELSE 0
               /\ LET can == serr /\ ~Swallowed(m.prev) IN
                  /\ YCan(IF can THEN "cancel" ELSE "none")
                  /\ net' = (net \ {m}) \cup xnew \cup (IF can THEN YCanNet("cancel") ELSE {})
               /\ UNCHANGED <<yrta, yds, yid, yf, yask, ypend, ylast, yIn, ySync, yWF>>
             [] m.t = "cancel" ->
               /\ LET again == serr /\ ycs < CancelRetry IN
                  /\ ycs' = IF again THEN ycs + 1 ELSE CancelRetry + 1
                  /\ net' = (IF again THEN net ELSE net \ {m}) \cup xnew
               /\ UNCHANGED <<yrta, yds, yid, yf, yc, yfail, yask, YNv>>
  /\ UNCHANGED XNvNoWC

(* a message with a foreign handover id reaches a broker (the handler of     *)
(* HandoverMessage has no sender check)                                       *)
BadId(to) ==
  /\ faults < MaxFaults /\ faults' = faults + 1 /\ Rare(faults)
  /\ LET m == M(IF to = "x" THEN "y" ELSE "x", "badid", 0, FALSE, FALSE, 0) IN
     IF to = "x" THEN
       /\ xb /\ xhpc # "finish"
       /\ XRecvAssign(m, TRUE)
       /\ net' = net \cup XRecvNew(m, TRUE)
       /\ step' = [a |-> "BadId", to |-> to, r |-> XRecvResult(m)]
       /\ UNCHANGED <<XNvNoWC, YBv, YNv>>
     ELSE
       /\ yid
       /\ YRecvAssign(m, TRUE)
       /\ net' = net \cup YRecvNew(m, TRUE)
       /\ step' = [a |-> "BadId", to |-> to, r |-> YRecvResult(m)]
       /\ UNCHANGED <<XBv, XNv>>

(* a well-formed message of a kind the receiver does not expect (a Y kind at *)
(* Y, an X kind at X): ignored                                               *)
Stray(to, t) ==
  /\ faults < MaxFaults /\ faults' = faults + 1 /\ Rare(faults)
  /\ IF to = "x" THEN xb /\ xhpc # "finish" /\ t \in {"data", "resp", "finish"}
                 ELSE yid /\ t = "chal"
  /\ step' = [a |-> "Stray", to |-> to, t |-> t,
              r |-> IF to = "x" THEN (IF xf THEN "nil" ELSE IF xc THEN "canceled" ELSE "nil")
                    ELSE (IF yc THEN "canceled" ELSE IF yf THEN "stopped" ELSE "nil")]
  /\ UNCHANGED <<XBv, XNv, YBv, YNv, net>>

Outcomes == {"ok", "lost", "rl", "dup", "cc"}

Next ==
  \/ YSyncReady \/ YSyncDone \/ YSyncFail
  \/ \E g \in BOOLEAN : YAsk(g)
  \/ \E k \in VP : YChallenge(k)
  \/ YCancelLocal \/ YStop
  \/ XSendVoteproof \/ XFinishNil \/ XBallot \/ XCancelLocal \/ XStop
  \/ \E m \in net, o \in Outcomes : ResolveXY(m, o)
  \/ \E m \in net, o \in Outcomes : ResolveYX(m, o)
  \/ \E to \in {"x", "y"} : BadId(to)
  \/ \E to \in {"x", "y"}, t \in {"data", "resp", "finish", "chal"} : Stray(to, t)

Spec == Init /\ [][Next]_vars

(* ======================================================================== *)
(* properties                                                               *)
MsgType == [from : {"x", "y"}, t : {"data", "ballot", "finish", "resp", "cancel", "chal"},
            k : 0..N, ok : BOOLEAN, er : BOOLEAN, prev : Nat]
TypeOK ==
  /\ xs \in Nat /\ xre \in Nat /\ xcc \in 0..N /\ xlcc \in 0..N /\ xlv \in 0..N /\ xpc \in 0..N
  /\ xhpc \in {"idle", "data", "finish"} /\ xVoted \subseteq VP /\ yIn \in 0..N
  /\ net \subseteq MsgType /\ ypend \subseteq VP /\ faults \in 0..MaxFaults

(* (1) the shared identity never votes twice for one stage: X went on to     *)
(* vote after voteproof j only for j before the voteproof Y entered with.    *)
NoDoubleVote == yIn > 0 => \A j \in xVoted : j < yIn
(* weaker: X never votes after a voteproof later than the one Y entered with *)
NoLaterVote  == yIn > 0 => \A j \in xVoted : j <= yIn

(* (2) Y enters consensus only with the voteproof X began to finish with, and*)
(* X is out of consensus once its finish() has returned; the finished flag   *)
(* of X implies X is out.                                                    *)
YInOnlyAfterXFinish == yIn > 0 => xFinAt = yIn
XOutWhenYIn == (yIn > 0 /\ xhpc # "finish") => xOut
FinishedIsOut == xf => xOut
(* (3) cancelled: never both in. X in consensus (not out) with a cancelled,  *)
(* unfinished broker => Y is not in; a Y whose broker was cancelled before   *)
(* it finished is not in.                                                    *)
CancelledNotBoth == (xc /\ ~xf /\ ~xOut /\ xhpc # "finish") => yIn = 0
YCancelledOut == (yc /\ ~yf) => yIn = 0
(* (4) messages are processed only where they are expected; callbacks once   *)
OnceCallbacks == xWF <= 1 /\ yWF <= 1 /\ xWC <= 1 /\ yWC <= 1
YInImpliesFinished == (yIn > 0 \/ ySync) => yf
NoLateProcessingX ==     \* a cancelled or finished X does not change its challenge bookkeeping
  [][(xc \/ xf) => UNCHANGED <<xs, xre, xlv, xcc, xlcc, xlr, xpc>>]_vars
NoLateProcessingY ==     \* a cancelled or finished Y hands nothing to its node any more
  [][(yc \/ yf) => (ypend' \subseteq ypend /\ UNCHANGED <<yIn, ySync, yWF, yf>>)]_vars
NothingBeforeAsk == ~yid => (ypend = {} /\ ~yf /\ ~xb /\ net = {})
(* an honest Y never provokes an error inside a challenge response (which    *)
(* would make Y cancel), unless the network duplicates a challenge: then the *)
(* copy passes the old-message filter when a challenge of the other kind     *)
(* came between (lastReceived holds one value for both kinds)                *)
ResponseNeverErr == ~AllowDup => \A m \in net : m.t = "resp" => ~m.er
(* X finishes only with the counters the code asks for *)
ResponseNeverErrDup == \A m \in net : m.t = "resp" => ~m.er     \* candidate: fails with a duplicate
FinishGuard == (xFinAt > 0 /\ xhpc = "finish") => (IsInit(xFinAt) /\ xs >= MinChal /\ xre >= 1 /\ xs >= xre)

(* candidates (expected to fail; model-only observations, see check/handover.md) *)
FreshAtFinish == xFinAt > 0 => xFresh          \* Y answered the last voteproof before X finished
NotBothOut == ~(xOut /\ yIn = 0 /\ xhpc = "idle" /\ (yc \/ ySync))   \* identity left without a voter
=============================================================================
