SPECIFICATION Spec
CONSTANTS
  MaxPoint = 4
  MaxRuns = 2
  MaxTicks = 2
  CtxChecks = TRUE
  CanClean = TRUE
INVARIANTS TypeOK NoActionAfterCancel CallbackOrder OneResolution OneLiveRun
PROPERTIES NewestOnlyGrows
CHECK_DEADLOCK FALSE
