\* exhaustive (thorough): draws, no duplicates: ResponseNeverErr is checked unconditionally
SPECIFICATION Spec
CONSTANTS
  Kinds <- KindsDraw
  MinChal = 1
  ReadyEndArg = 1
  MaxFail = 0
  FinishRetry = 3
  CancelRetry = 2
  MaxAsk = 1
  MaxFaults = 2
  MaxBallots = 0
  LocalCancel = FALSE
  AllowDup = FALSE
  Bias = 0
VIEW view
CHECK_DEADLOCK FALSE
INVARIANTS
  TypeOK
  NoLaterVote
  YInOnlyAfterXFinish
  XOutWhenYIn
  FinishedIsOut
  CancelledNotBoth
  YCancelledOut
  OnceCallbacks
  YInImpliesFinished
  NothingBeforeAsk
  ResponseNeverErr
  FinishGuard
PROPERTIES
  NoLateProcessingX
  NoLateProcessingY
