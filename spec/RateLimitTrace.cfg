SPECIFICATION TraceSpec
CONSTANTS
  Addrs = {"a1"}
  Handlers = {"h1"}
  ClientIds = {"c1"}
  InitCfgs = {"plain"}
  FullAlphabet = FALSE
  Walk = FALSE
  MaxSteps = 0
CONSTRAINT HighWater
INVARIANTS FastIsSlow
POSTCONDITION Accepted
CHECK_DEADLOCK FALSE
