SPECIFICATION TraceSpec
CONSTANTS
  Addrs = {"a1"}
  Handlers = {"h1"}
  ClientIds = {"c1"}
  InitCfgs = {"plain"}
  FullAlphabet = FALSE
  Walk = FALSE
  MaxSteps = 0
  Tight = FALSE
  Warm = FALSE
  Per = 8
  Rebuild = "limit-burst"
  SufCheck = "exists-first"
CONSTRAINT HighWater
INVARIANTS FastIsSlow
POSTCONDITION Accepted
CHECK_DEADLOCK FALSE
