SPECIFICATION Spec
CONSTANTS
  Node0 = {"n0", "n1", "n2", "n3", "n4", "n5", "n6"}
  Local0 = "n0"
  T100 = 670
  EmitStep = TRUE
  Heights = {1}
  Rounds = {0}
  Stages = {1}
  Facts = {"A"}
  ExSets = {{"n5"}, {"n6"}}
  AllowSC = FALSE
  MaxId = 1
  MaxVotes = 6
  MaxChan = 1
  MaxSet = 0
  StoreSC = "sf-"
  CleanSC = "sf-"
  CountRule = "impl"
  EagerCount = TRUE
  Holds = FALSE
  MaxTick = 0
  TickGuard = "impl"
VIEW view
INVARIANTS ImplExpelsMatchMajority
CHECK_DEADLOCK FALSE
