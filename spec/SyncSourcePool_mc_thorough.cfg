SPECIFICATION Spec
CONSTANTS
  Sources <- Src6
  MaxFixed = 2
  MaxAdd = 2
  MaxN = 4
  Impl = "repaired"
INVARIANTS TypeOK NoBad Disjoint DistinctFixed LenIsSum
PROPERTIES ReportFrame
CHECK_DEADLOCK FALSE
