----------------------------- MODULE PermCache -----------------------------
(* Implementation level: the state cache of the permanent database           *)
(* (perm_base.go: stcache, newStateCacheFuncs; perm_leveldb.go /             *)
(* perm_redis.go: State, mergeTempDatabaseFromLeveldb) for ONE state key,    *)
(* one merging goroutine (Center.mergePermanent) and concurrent readers      *)
(* (Center.State falls through to perm.State when no temp has the key).      *)
(*                                                                          *)
(* Reader, three critical sections:                                          *)
(*   Lookup   stateFromCache(key): a hit is returned                         *)
(*   Get      storage Get + decode                                           *)
(*   SetCache setStateToCache(st): kept unless the cache holds a newer one   *)
(* Merge of the next block that writes the key:                              *)
(*   MWrite   the batches reach the storage                                  *)
(*   MCaches  mergeTempCaches: the temp's own state cache (if it has the     *)
(*            state) is put into the cache, newer wins                       *)
(*   MPurge   leveldb back-end only: every state key of the merged temp is   *)
(*            removed from the cache                                         *)
(*                                                                          *)
(* Reopen (v2): the permanent database object is closed and created again   *)
(*   over the stored data: the cache is empty.                               *)
(* Whether the merged temp carries the state in its own state cache is      *)
(* chosen per merge (v2; TempCaches): a temp of a block written without      *)
(* SetStateCache, an imported block, a temp reloaded after a restart or one  *)
(* whose LFU cache evicted the key has none, and then MCaches does nothing.  *)
(*                                                                          *)
(* C19/C26 (reads agree with the committed chain): when no merge is running *)
(* a cached state is the stored one (CacheFresh), and a read that starts    *)
(* after a merge has ended returns that merge's state (NoStaleRead).        *)
(* `raced` (v2) says whether a read was ever in flight (between its cache   *)
(* lookup and its return) while a merge step ran. Without such an overlap   *)
(* the history is sequential - reads, merges and reopens one after the      *)
(* other - and CacheFresh / NoStaleRead must hold (SequentialFresh): the    *)
(* known race of the pinned tree needs the overlap, a merge that leaves a   *)
(* state cached by an EARLIER, COMPLETED read in place does not.             *)
(* TLC's counterexamples are schedules; binding G forces them on the real   *)
(* LeveldbPermanent/RedisPermanent through the verif gates "state-cache-    *)
(* miss" and "state-loaded" (harness/internal/c19/forced.go). Schedules in  *)
(* which merge steps interleave with reader steps more finely than the two  *)
(* reader gates allow are listed as not forced.                              *)
EXTENDS Integers, Sequences, FiniteSets, TLC, Json

CONSTANTS Readers,       \* e.g. {"r1"}
          MaxMerges,     \* how many merges write the key (heights 1..MaxMerges; height 0 is stored at the start)
          Purge,         \* TRUE: the merge purges the merged keys from the cache (both back-ends of the tree)
          TempCaches,    \* subset of BOOLEAN: may the merged temp's own state cache hold the merged state
          WithReopen     \* TRUE: the Reopen step is enabled

VARIABLES stored,   \* height of the key's state in the storage
          cache,    \* height of the cached state, -1 = not cached
          rpc,      \* reader -> "idle" | "miss" | "loaded" | "done"
          rval,     \* reader -> what Get returned
          rlo,      \* reader -> `stored` when its read was called while no merge was running, else -1
          rret,     \* reader -> what the read returned (-1 = none yet)
          mpc,      \* "idle" | "written" | "cached"
          mtc,      \* the running merge's temp holds the state in its own state cache
          raced,    \* a merge step ran while a read was in flight
          sched,    \* output: the schedule so far
          step
vars == <<stored, cache, rpc, rval, rlo, rret, mpc, mtc, raced, sched, step>>
view == <<stored, cache, rpc, rval, rlo, rret, mpc, mtc, raced>>

TypeOK == stored \in 0..MaxMerges /\ cache \in -1..MaxMerges

(* when no merge is running a cached state is the stored one *)
CacheFresh == mpc = "idle" => cache \in {-1, stored}
(* a read called after the merge of height h had ended never returns an older state *)
NoStaleRead == \A r \in Readers : rret[r] # -1 /\ rlo[r] # -1 => rret[r] >= rlo[r]

(* sequential histories: no read in flight during a merge step *)
SequentialFresh == ~raced => CacheFresh /\ NoStaleRead
InFlight == \E r \in Readers : rpc[r] \in {"miss", "loaded"}

Newer(a, b) == IF a >= b THEN a ELSE b
Rec(x) == /\ sched' = Append(sched, x)
          /\ step' = ToJson([sched |-> sched', stored |-> stored', cache |-> cache',
                             rets |-> [r \in Readers |-> rret'[r]], los |-> [r \in Readers |-> rlo'[r]],
                             fresh |-> CacheFresh', nostale |-> NoStaleRead', raced |-> raced'])

Init == /\ stored = 0 /\ cache = -1 /\ mpc = "idle" /\ mtc = FALSE /\ raced = FALSE
        /\ rpc = [r \in Readers |-> "idle"] /\ rval = [r \in Readers |-> -1]
        /\ rlo = [r \in Readers |-> -1] /\ rret = [r \in Readers |-> -1]
        /\ sched = <<>> /\ step = ""

Lookup(r) == /\ rpc[r] = "idle"
             /\ rlo' = [rlo EXCEPT ![r] = IF mpc = "idle" THEN stored ELSE -1]
             /\ IF cache # -1
                THEN /\ rret' = [rret EXCEPT ![r] = cache] /\ rpc' = [rpc EXCEPT ![r] = "done"]
                ELSE /\ rpc' = [rpc EXCEPT ![r] = "miss"] /\ UNCHANGED rret
             /\ UNCHANGED <<stored, cache, rval, mpc, mtc, raced>>
             /\ Rec(<<r, "lookup">>)

Get(r) == /\ rpc[r] = "miss"
          /\ rval' = [rval EXCEPT ![r] = stored]
          /\ rpc' = [rpc EXCEPT ![r] = "loaded"]
          /\ UNCHANGED <<stored, cache, rlo, rret, mpc, mtc, raced>>
          /\ Rec(<<r, "get">>)

SetCache(r) == /\ rpc[r] = "loaded"
               /\ cache' = IF cache # -1 /\ cache >= rval[r] THEN cache ELSE rval[r]
               /\ rret' = [rret EXCEPT ![r] = rval[r]]
               /\ rpc' = [rpc EXCEPT ![r] = "done"]
               /\ UNCHANGED <<stored, rval, rlo, mpc, mtc, raced>>
               /\ Rec(<<r, "setcache">>)

(* a reader may read again *)
Again(r) == /\ rpc[r] = "done" /\ Len(sched) < 4 * (MaxMerges + Cardinality(Readers))
            /\ rpc' = [rpc EXCEPT ![r] = "idle"]
            /\ rret' = [rret EXCEPT ![r] = -1]
            /\ UNCHANGED <<stored, cache, rval, rlo, mpc, mtc, raced, sched, step>>

MWrite(tc) == /\ mpc = "idle" /\ stored < MaxMerges
              /\ stored' = stored + 1
              /\ mpc' = "written"
              /\ mtc' = tc
              /\ raced' = (raced \/ InFlight)
              /\ UNCHANGED <<cache, rpc, rval, rlo, rret>>
              /\ Rec(<<"m", "write", IF tc THEN "tempcache" ELSE "notempcache">>)

MCaches == /\ mpc = "written"
           /\ cache' = IF mtc THEN (IF cache # -1 /\ cache >= stored THEN cache ELSE stored) ELSE cache
           /\ mpc' = "cached"
           /\ raced' = (raced \/ InFlight)
           /\ UNCHANGED <<stored, rpc, rval, rlo, rret, mtc>>
           /\ Rec(<<"m", "caches">>)

MPurge == /\ mpc = "cached"
          /\ cache' = IF Purge THEN -1 ELSE cache
          /\ mpc' = "idle"
          /\ raced' = (raced \/ InFlight)
          /\ UNCHANGED <<stored, rpc, rval, rlo, rret, mtc>>
          /\ Rec(<<"m", "purge">>)

(* close the permanent database, create it again over the stored data (no call is running) *)
Reopen == /\ WithReopen
          /\ mpc = "idle" /\ ~InFlight
          /\ cache # -1                       \* (only where it changes something)
          /\ cache' = -1
          /\ UNCHANGED <<stored, rpc, rval, rlo, rret, mpc, mtc, raced>>
          /\ Rec(<<"x", "reopen">>)

Next == \/ \E r \in Readers : Lookup(r) \/ Get(r) \/ SetCache(r) \/ Again(r)
        \/ \E tc \in TempCaches : MWrite(tc)
        \/ MCaches \/ MPurge \/ Reopen
Spec == Init /\ [][Next]_vars

=============================================================================
