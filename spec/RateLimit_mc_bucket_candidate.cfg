SPECIFICATION Spec
CONSTANTS
  Addrs = {"a1"}
  Handlers = {"h1"}
  ClientIds = {"c1"}
  InitCfgs = {"tsuf"}
  FullAlphabet = FALSE
  Walk = FALSE
  MaxSteps = 5
  Tight = TRUE
  Warm = TRUE
  Per = 8
  Rebuild = "type-checksum"
  SufCheck = "exists-first"
INVARIANTS BoundOK
CHECK_DEADLOCK FALSE
