\* candidate properties (expected to be violated by the model): the retry limits of the code
SPECIFICATION Spec
CONSTANTS
  Kinds <- KindsIAI
  MinChal = 1
  ReadyEndArg = 0
  MaxFail = 0
  FinishRetry = 33
  CancelRetry = 3
  MaxAsk = 1
  MaxFaults = 1
  MaxBallots = 0
  LocalCancel = FALSE
  AllowDup = FALSE
  Bias = 0
VIEW view
CHECK_DEADLOCK FALSE
