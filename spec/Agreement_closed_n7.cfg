SPECIFICATION Spec
CONSTANTS
  N = 7
  T10 = 670
  Mode = "closed"
  Fams = {"all", "live", "exact", "short"}
  Muts = {"none", "dup", "unknown-voter", "wrongkey", "badsig", "claim-missing", "expel-unknown-target", "expel-unknown-signer", "expel-wrongkey-signer", "expired", "dup-expel"}
INVARIANTS AgreePlainPlain AgreeExpelWithinF
CHECK_DEADLOCK FALSE
