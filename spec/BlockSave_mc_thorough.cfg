SPECIFICATION Spec
CONSTANTS
  Props <- PropsA
  Avps <- AvpsA
  MaxOps = 8
INVARIANTS TypeOK AgreedOnly OncePerHeight
CHECK_DEADLOCK FALSE
