SPECIFICATION Spec
CONSTANTS
  MaxH = 2
  MaxR = 1
  NN0 = 3
  T100 = 670
  Ex0 = {}
  Facts = {"A", "B"}
  MaxOps = 2
  StartAll = TRUE
  StartSuf = {TRUE, FALSE}
  EvpAny = FALSE
  WithSetLast = TRUE
  Guard = "before"
VIEW View
INVARIANTS TypeOK
PROPERTIES MoveOK LowerBallotRejected RejectedKeeps
CHECK_DEADLOCK FALSE
