SPECIFICATION Spec
CONSTANTS
  MaxH = 2
  MaxR = 2
  NN0 = 3
  T100 = 670
  Ex0 = {}
  Facts = {"A", "B"}
  MaxOps = 3
  StartAll = TRUE
  StartSuf = {TRUE}
  EvpAny = FALSE
  SymFirst = TRUE
  WithSetLast = FALSE
  Guard = "before"
VIEW View
INVARIANTS TypeOK
PROPERTIES MoveOK LowerBallotRejected RejectedKeeps
CHECK_DEADLOCK FALSE
