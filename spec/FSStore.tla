------------------------------- MODULE FSStore -------------------------------
(***************************************************************************)
(* FSSTORE - the block file store of a node: the file-system protocol of   *)
(* writing one block and the contract the readers rely on.                 *)
(*                                                                         *)
(* Code (pinned tree):                                                     *)
(*   isaac/block/localfs_writer.go  LocalFSWriter: NewLocalFSWriter, Set*, *)
(*                                  Save/save, saveMap, Cancel,            *)
(*                                  CleanBlockTempDirectory,               *)
(*                                  FindHighestDirectory                   *)
(*   isaac/block/writer.go          Writer.Save: fswriter.Save, then the   *)
(*                                  database (SetBlockMap, mergeDatabase)  *)
(*   isaac/block.go                 BlockItemFilesMaker.Save (files.json)  *)
(*   isaac/readers.go               BlockItemReaders: ItemFiles (cache),   *)
(*                                  Item, WriteItemFiles,                  *)
(*                                  removeEmptyHeightDirectory             *)
(*   isaac/block/validator.go       IsValidLastBlocks (start-up)           *)
(*   launch/p_storage.go            PCheckLocalFS (temp clean-up),         *)
(*                                  PCheckBlocksOfStorage,                 *)
(*                                  PLoadFromDatabase (start-up)           *)
(*                                                                         *)
(* Directory layout under the data root (h = height, 21 digits split 3 by  *)
(* 3):  temp/<h>-<ulid>/<item files>   the writer's private directory      *)
(*      000/.../<ddd>/                 the height directory ("hdir")       *)
(*      000/.../<h>.json               the block item files ("fjson"),     *)
(*                                     next to the height directory        *)
(*                                                                         *)
(* Writing protocol of one block (one named action per file-system         *)
(* operation that another process / a restart can observe):                *)
(*   WNew         mkdir temp/<h>-<id>; create operations + states (open)   *)
(*   WItem        create + write + close one item file inside temp         *)
(*                (SetOperationsTree / SetStatesTree also close the        *)
(*                operations / states file)                                *)
(*   WSaveStat    stat(hdir): exists => Save fails, nothing touched        *)
(*   WSaveDrop    close operations/states; remove the ones the map does    *)
(*                not name (empty files)                                   *)
(*   WSaveMapC    create map file in temp (empty)                          *)
(*   WSaveMapW    write signed map, close                                  *)
(*   WSaveRename  mkdirall(parent); rename(temp dir, hdir)                 *)
(*                (fails when hdir is a non-empty directory)               *)
(*   WSaveRmAll   error path of Save before the repair: RemoveAll(hdir)    *)
(*   WSaveFjC     create/truncate <h>.json                                 *)
(*   WSaveFjW     write <h>.json (every item: local://<name>)              *)
(*   WDBMerge     Writer.Save: block map + states into the database        *)
(*   WCancel      RemoveAll(temp dir) - nothing else                       *)
(* Nothing is fsync'ed: Crash is a process stop (kill, panic), not a power *)
(* loss; what was handed to the kernel stays.                              *)
(*                                                                         *)
(* Readers: ReadItem(h, t) = load <h>.json (through the per-height cache), *)
(* take the item's URI, open hdir/<name>, decode. The readers do NOT       *)
(* compare check sums; that a reader never hands out bytes that differ     *)
(* from what the map names is a property of the *protocol* (P2).           *)
(*                                                                         *)
(* Empty-height clean-up: Upload (WriteItemFiles) replaces <h>.json by     *)
(* temp file + rename under the per-height lock; when the old one had a    *)
(* local item and the new has none the height is queued ("empt"); the pass *)
(* (CleanLoad, CleanStat, CleanRmAll = removeEmptyHeightDirectory under    *)
(* the same per-height lock) removes hdir when <h>.json (cache!) names no  *)
(* local item.                                                             *)
(*                                                                         *)
(* Properties (from the design, not from the code):                        *)
(*  P1 CrashAtomic   after a restart whose start-up checks pass, every     *)
(*                   height the store presents (readable <h>.json with     *)
(*                   local items) is a complete block: map + every item    *)
(*                   file, closed, written by the map's writer; and every  *)
(*                   height of the database is presented.                  *)
(*  P2 ReadMatchesMap  whenever a reader finds item t of height h, the     *)
(*                   bytes are complete and are those of the writer whose  *)
(*                   map the same reader finds at h (check sum match).     *)
(*  P3 FirstSurvives a block whose Save returned success stays intact as   *)
(*                   long as its <h>.json names local items, whatever      *)
(*                   other writers of the same height do.                  *)
(*  P4 (codec; bound by the harness only) compressed / uncompressed item   *)
(*                   variants decode to the same items.                    *)
(*  P5 CleanupSafe   the clean-up pass never removes a directory of a      *)
(*                   height presented with local items, nor a temp         *)
(*                   directory.                                            *)
(*  P6 Recoverable   after a restart whose start-up checks pass, a fresh   *)
(*                   writer of height dbLast+1 can Save (no leftovers      *)
(*                   block it).                                            *)
(*                                                                         *)
(* Binding: A (TLC enumerates crash points / interleavings, `step` carries *)
(* the case; the Go harness materialises each on the real LocalFSWriter,   *)
(* readers, validator, start-up functions) + B (inotify trace of the real  *)
(* writer validated by FSStoreTrace.tla).                                  *)
(***************************************************************************)
EXTENDS Integers, Sequences, FiniteSets, TLC, Json

CONSTANTS Writers,        \* writer instances ("w1", "w2"); HeightOf, ShapeOf below
          Heights,        \* heights above the stored prefix (1..N); height 0 is stored and complete
          Shapes,         \* subset of {"full","noops","bare"}
          MaxCrash,       \* number of process stops explored
          Concurrent,     \* TRUE: several writers may be inside Save at once (TOCTOU)
          Uploads,        \* TRUE: operator uploads of <h>.json + clean-up pass
          SameHeight,     \* TRUE: all writers write height 1 (rewrites); FALSE: writer i writes height i
          CheckAFixed,    \* TRUE: launch.PCheckBlocksOfStorage stops the start-up on a height difference (the tree
                          \* after fixes/FSSTORE-check-blocks-of-storage-errors-as.diff); FALSE: it never fails (before)
          SaveRmForeign   \* FALSE: Save's error path removes the height directory only after its own rename (the tree
                          \* after fixes/FSSTORE-save-error-path-removes-foreign-directory.diff); TRUE: always (before)

ItemsAll == {"proposal", "operations", "operations_tree", "states", "states_tree", "voteproofs"}
ItemsOf(s) == CASE s = "full"  -> ItemsAll
                [] s = "noops" -> ItemsAll \ {"operations", "operations_tree"}
                [] s = "bare"  -> {"proposal", "voteproofs"}
Files == ItemsAll \cup {"map"}
\* the order in which isaacblock.Writer drives the LocalFSWriter (saveWorker jobs, then waitSaveWorker)
ItemOrder == <<"voteproofs", "proposal", "operations_tree", "states_tree">>

NoDir == [k |-> "none"]
B(b) == IF b THEN "T" ELSE "F"
NoW == "-"

VARIABLES
  up,       \* the node process is running
  started,  \* start-up checks of the last (re)start passed
  crashes,
  pc,       \* [Writers -> program counter]
  idx,      \* [Writers -> index into ItemOrder]
  shape,    \* [Writers -> Shapes]   (chosen once)
  hof,      \* [Writers -> Heights]
  tmp,      \* [Writers -> NoDir or [k |-> "dir", f |-> [Files -> {"absent","open","closed"}]]]
  hdir,     \* [Heights -> NoDir or [k |-> "dir", o |-> writer, f |-> [Files -> ...]]]
  fjson,    \* [Heights -> [k: "none"|"trunc"|"local"|"remote", o: writer]]
  db,       \* [Heights -> writer or NoW]   block map of the database
  saved,    \* [Heights -> writer or NoW]   history: whose Save (fs) returned success last
  cache,    \* [Heights -> fjson value or [k |-> "nocache"]]  BlockItemReaders.bfilescache
  empt,     \* set of heights queued for clean-up (emptyHeightsLock + pool)
  cl,       \* clean-up pass: [pc |-> "idle"|"loaded"|"stat", h |-> height]
  cp,       \* [Writers -> program counter at the last process stop] (output only)
  step      \* output: last action (binding A)

vars == <<up, started, crashes, pc, idx, shape, hof, tmp, hdir, fjson, db, saved, cache, empt, cl, cp, step>>
view == <<up, started, crashes, pc, idx, shape, hof, tmp, hdir, fjson, db, saved, cache, empt, cl>>
viewcp == <<view, cp>>   \* keeps one state per crash point (prediction export, FSStore_crash.cfg)

FJ(k, o) == [k |-> k, o |-> o]
NoCache == [k |-> "nocache", o |-> NoW]
EmptyFiles == [x \in Files |-> "absent"]

HeightsFn == IF SameHeight THEN {[w \in Writers |-> 1]}
             ELSE {f \in [Writers -> Heights] : \A a, b \in Writers : a # b => f[a] # f[b]}

Init ==
  /\ up = TRUE /\ started = TRUE /\ crashes = 0
  /\ pc = [w \in Writers |-> "idle"]
  /\ idx = [w \in Writers |-> 1]
  /\ shape \in [Writers -> Shapes]
  /\ hof \in HeightsFn
  /\ tmp = [w \in Writers |-> NoDir]
  /\ hdir = [h \in Heights |-> NoDir]
  /\ fjson = [h \in Heights |-> FJ("none", NoW)]
  /\ db = [h \in Heights |-> NoW]
  /\ saved = [h \in Heights |-> NoW]
  /\ cache = [h \in Heights |-> NoCache]
  /\ empt = {}
  /\ cl = [pc |-> "idle", h |-> 0]
  /\ cp = [w \in Writers |-> "-"]
  /\ step = "Init"

InSave(w) == pc[w] \in {"s_drop", "s_mapc", "s_mapw", "s_ren", "s_rmall", "s_fjc", "s_fjw"}
NoOtherInSave(w) == Concurrent \/ \A v \in Writers \ {w} : ~InSave(v)
DbLast == IF \E h \in Heights : db[h] # NoW THEN CHOOSE h \in Heights : db[h] # NoW /\ \A g \in Heights : db[g] # NoW => g <= h ELSE 0
\* the node writes height dbLast+1 only (the states hand the processor one height at a time)
MayWrite(w) == hof[w] = DbLast + 1

----------------------------------------------------------------------------
(* the writer *)

WNew(w) ==
  /\ up /\ pc[w] = "idle" /\ MayWrite(w)
  /\ tmp' = [tmp EXCEPT ![w] = [k |-> "dir", f |-> [EmptyFiles EXCEPT !["operations"] = "open", !["states"] = "open"]]]
  /\ pc' = [pc EXCEPT ![w] = "items"] /\ idx' = [idx EXCEPT ![w] = 1]
  /\ step' = "WNew" \o " " \o w
  /\ UNCHANGED <<up, started, crashes, shape, hof, hdir, fjson, db, saved, cache, empt, cl, cp>>

\* one Set* call; items the block shape does not have are skipped (the Writer does not call them)
WItem(w) ==
  /\ up /\ pc[w] = "items" /\ idx[w] <= Len(ItemOrder)
  /\ LET it == ItemOrder[idx[w]]
         has == it \in ItemsOf(shape[w])
         closes == CASE it = "operations_tree" -> "operations" [] it = "states_tree" -> "states" [] OTHER -> it
     IN /\ tmp' = IF has THEN [tmp EXCEPT ![w].f[it] = "closed", ![w].f[closes] = "closed"] ELSE tmp
        /\ step' = "WItem" \o " " \o w \o " " \o it \o " " \o B(has)
  /\ idx' = [idx EXCEPT ![w] = @ + 1]
  /\ pc' = [pc EXCEPT ![w] = IF idx[w] = Len(ItemOrder) THEN "ready" ELSE "items"]
  /\ UNCHANGED <<up, started, crashes, shape, hof, hdir, fjson, db, saved, cache, empt, cl, cp>>

WSaveStat(w) ==
  /\ up /\ pc[w] = "ready" /\ NoOtherInSave(w)
  /\ pc' = [pc EXCEPT ![w] = IF hdir[hof[w]].k = "dir" THEN "failed" ELSE "s_drop"]
  /\ step' = "WSaveStat" \o " " \o w \o " " \o B(hdir[hof[w]].k = "dir")
  /\ UNCHANGED <<up, started, crashes, idx, shape, hof, tmp, hdir, fjson, db, saved, cache, empt, cl, cp>>

WSaveDrop(w) ==
  /\ up /\ pc[w] = "s_drop"
  /\ tmp' = [tmp EXCEPT ![w].f = [x \in Files |->
               IF x \in {"operations", "states"}
               THEN (IF x \in ItemsOf(shape[w]) THEN "closed" ELSE "absent") ELSE tmp[w].f[x]]]
  /\ pc' = [pc EXCEPT ![w] = "s_mapc"]
  /\ step' = "WSaveDrop" \o " " \o w
  /\ UNCHANGED <<up, started, crashes, idx, shape, hof, hdir, fjson, db, saved, cache, empt, cl, cp>>

WSaveMapC(w) ==
  /\ up /\ pc[w] = "s_mapc"
  /\ tmp' = [tmp EXCEPT ![w].f["map"] = "open"]
  /\ pc' = [pc EXCEPT ![w] = "s_mapw"]
  /\ step' = "WSaveMapC" \o " " \o w
  /\ UNCHANGED <<up, started, crashes, idx, shape, hof, hdir, fjson, db, saved, cache, empt, cl, cp>>

WSaveMapW(w) ==
  /\ up /\ pc[w] = "s_mapw"
  /\ tmp' = [tmp EXCEPT ![w].f["map"] = "closed"]
  /\ pc' = [pc EXCEPT ![w] = "s_ren"]
  /\ step' = "WSaveMapW" \o " " \o w
  /\ UNCHANGED <<up, started, crashes, idx, shape, hof, hdir, fjson, db, saved, cache, empt, cl, cp>>

DirEmpty(d) == d.k = "dir" /\ \A x \in Files : d.f[x] = "absent"

\* rename(2) of a directory onto an existing directory succeeds only when the target is empty
WSaveRename(w) ==
  /\ up /\ pc[w] = "s_ren"
  /\ LET h == hof[w] IN
     IF hdir[h].k = "none" \/ DirEmpty(hdir[h])
     THEN /\ hdir' = [hdir EXCEPT ![h] = [k |-> "dir", o |-> w, f |-> tmp[w].f]]
          /\ tmp' = [tmp EXCEPT ![w] = NoDir]
          /\ pc' = [pc EXCEPT ![w] = "s_fjc"]
          /\ step' = "WSaveRename" \o " " \o w \o " " \o "TRUE"
     ELSE /\ pc' = [pc EXCEPT ![w] = IF SaveRmForeign THEN "s_rmall" ELSE "failed"]
          /\ step' = "WSaveRename" \o " " \o w \o " " \o "FALSE"
          /\ UNCHANGED <<hdir, tmp, cp>>
  /\ UNCHANGED <<up, started, crashes, idx, shape, hof, fjson, db, saved, cache, empt, cl, cp>>

\* Save's error path before the repair: `_ = os.RemoveAll(heightdirectory)` - whoever owns it
\* (SaveRmForeign). After it: only when this writer's rename happened; errors after the rename
\* (<height>.json cannot be written) are not modelled, the harness forces one (save-error-after-rename).
WSaveRmAll(w) ==
  /\ up /\ pc[w] = "s_rmall"
  /\ hdir' = [hdir EXCEPT ![hof[w]] = NoDir]
  /\ pc' = [pc EXCEPT ![w] = "failed"]
  /\ step' = "WSaveRmAll" \o " " \o w
  /\ UNCHANGED <<up, started, crashes, idx, shape, hof, tmp, fjson, db, saved, cache, empt, cl, cp>>

WSaveFjC(w) ==
  /\ up /\ pc[w] = "s_fjc"
  /\ fjson' = [fjson EXCEPT ![hof[w]] = FJ("trunc", w)]
  /\ pc' = [pc EXCEPT ![w] = "s_fjw"]
  /\ step' = "WSaveFjC" \o " " \o w
  /\ UNCHANGED <<up, started, crashes, idx, shape, hof, tmp, hdir, db, saved, cache, empt, cl, cp>>

WSaveFjW(w) ==
  /\ up /\ pc[w] = "s_fjw"
  /\ fjson' = [fjson EXCEPT ![hof[w]] = FJ("local", w)]
  /\ saved' = [saved EXCEPT ![hof[w]] = w]
  /\ pc' = [pc EXCEPT ![w] = "saved"]
  /\ step' = "WSaveFjW" \o " " \o w
  /\ UNCHANGED <<up, started, crashes, idx, shape, hof, tmp, hdir, db, cache, empt, cl, cp>>

WDBMerge(w) ==
  /\ up /\ pc[w] = "saved"
  /\ db' = [db EXCEPT ![hof[w]] = w]
  /\ pc' = [pc EXCEPT ![w] = "done"]
  /\ step' = "WDBMerge" \o " " \o w
  /\ UNCHANGED <<up, started, crashes, idx, shape, hof, tmp, hdir, fjson, saved, cache, empt, cl, cp>>

\* Cancel (also after a failed Save): RemoveAll(w.temp). After a Save that got as far as the rename
\* w.temp no longer exists; RemoveAll of a missing path is a no-op.
WCancel(w) ==
  /\ up /\ pc[w] \in {"items", "ready", "failed"}
  /\ tmp' = [tmp EXCEPT ![w] = NoDir]
  /\ pc' = [pc EXCEPT ![w] = "cancelled"]
  /\ step' = "WCancel" \o " " \o w
  /\ UNCHANGED <<up, started, crashes, idx, shape, hof, hdir, fjson, db, saved, cache, empt, cl, cp>>

\* the same proposal is processed again (next round, after a restart): a fresh writer instance
WAgain(w) ==
  /\ up /\ pc[w] \in {"cancelled", "dead"} /\ tmp[w].k = "none"
  /\ pc' = [pc EXCEPT ![w] = "idle"]
  /\ step' = "WAgain" \o " " \o w
  /\ UNCHANGED <<up, started, crashes, idx, shape, hof, tmp, hdir, fjson, db, saved, cache, empt, cl, cp>>

----------------------------------------------------------------------------
(* what a reader sees *)

\* BlockItemReaders.ItemFiles: cache first, then the file (the result is cached when found)
FilesSeen(h) == IF cache[h].k # "nocache" THEN cache[h] ELSE fjson[h]

\* Item(h, t) -> <<found, owner, closed>>. "trunc": decode error -> not found (error).
\* "remote": fetched from the remote named in <h>.json; the operator's copy is the saved block.
ReadItem(h, t) ==
  LET fj == FilesSeen(h) IN
  CASE fj.k \in {"none", "trunc", "nocache"} -> [found |-> FALSE, o |-> NoW, closed |-> FALSE]
    [] fj.k = "remote" -> IF t = "map" \/ t \in ItemsOf(shape[fj.o])
                          THEN [found |-> TRUE, o |-> fj.o, closed |-> TRUE]
                          ELSE [found |-> FALSE, o |-> NoW, closed |-> FALSE]
    [] fj.k = "local" ->
         IF hdir[h].k = "dir" /\ hdir[h].f[t] # "absent"
         THEN [found |-> TRUE, o |-> hdir[h].o, closed |-> hdir[h].f[t] = "closed"]
         ELSE [found |-> FALSE, o |-> NoW, closed |-> FALSE]

MapItems(w) == ItemsOf(shape[w])
Presented(h) == fjson[h].k \in {"local", "remote"}
Complete(h) ==
  \/ fjson[h].k = "remote"
  \/ /\ fjson[h].k = "local"
     /\ hdir[h].k = "dir"
     /\ hdir[h].o = fjson[h].o
     /\ hdir[h].f["map"] = "closed"
     /\ \A t \in MapItems(hdir[h].o) : hdir[h].f[t] = "closed"

----------------------------------------------------------------------------
(* process stop and restart *)

Crash ==
  /\ up /\ crashes < MaxCrash
  /\ up' = FALSE /\ started' = FALSE /\ crashes' = crashes + 1
  /\ pc' = [w \in Writers |-> IF pc[w] \in {"idle", "done"} THEN pc[w] ELSE "dead"]
  /\ cl' = [pc |-> "idle", h |-> 0]
  /\ cache' = [h \in Heights |-> NoCache]
  /\ cp' = [w \in Writers |-> IF pc[w] = "items" THEN "items" \o ToString(idx[w]) ELSE pc[w]]
  /\ step' = "Crash"
  /\ UNCHANGED <<idx, shape, hof, tmp, hdir, fjson, db, saved, empt>>

\* FindHighestDirectory: the highest <h>.json BY NAME (content not looked at)
FsLast == IF \E h \in Heights : fjson[h].k # "none"
          THEN CHOOSE h \in Heights : fjson[h].k # "none" /\ \A g \in Heights : fjson[g].k # "none" => g <= h ELSE 0
\* the map a reader (fresh, no cache) finds at h:  <<"found", owner>> / <<"notfound">> / <<"error">>
MapAt(h) ==
  CASE fjson[h].k = "none" -> <<"notfound">>
    [] fjson[h].k = "trunc" -> <<"error">>
    [] fjson[h].k = "remote" -> <<"found", fjson[h].o>>
    [] fjson[h].k = "local" -> IF hdir[h].k = "dir" /\ hdir[h].f["map"] = "closed" THEN <<"found", hdir[h].o>>
                               ELSE IF hdir[h].k = "dir" /\ hdir[h].f["map"] = "open" THEN <<"error">>
                               ELSE <<"notfound">>
\* launch.PCheckBlocksOfStorage: IsValidLastBlocks. Intended (CheckAFixed): a difference of heights
\* between the database and the local fs is fatal; every other error is dropped (the
\* `if errors.As(err, &derr)` has no else). Before the repair `derr` was declared as the struct type while
\* the error is a pointer to it, errors.As never matched and the check never failed (CheckAFixed = FALSE).
CheckAIntended ==
  LET l == FsLast IN
  IF l = 0 THEN DbLast = 0               \* the stored prefix (height 0) is what the local fs has last
  ELSE LET m == MapAt(l) IN
       IF m[1] # "found" THEN TRUE        \* error / only-in-database: dropped
       ELSE l = DbLast                    \* different heights: fatal ; different maps: dropped
CheckA == IF CheckAFixed THEN CheckAIntended ELSE TRUE
\* launch.PLoadFromDatabase: map and voteproofs of the database's last height from the local fs
CheckB ==
  LET l == DbLast IN
  IF l = 0 THEN TRUE
  ELSE LET m == MapAt(l) IN
       /\ m[1] = "found" /\ m[2] = db[l]
       /\ (fjson[l].k = "local" => hdir[l].f["voteproofs"] = "closed")

\* what the model predicts for the harness (single-writer configurations): shape, crash point,
\* presented / complete / height directory left / a fresh writer of that height can Save
Pred == LET w == CHOOSE x \in Writers : TRUE
            h == hof[w]
        IN shape[w] \o " " \o cp[w] \o " " \o B(Presented(h)) \o " " \o B(Complete(h)) \o " " \o hdir[h].k
             \o " " \o fjson[h].k \o " " \o B(db[h] # NoW)

Restart ==
  /\ ~up
  /\ tmp' = [w \in Writers |-> NoDir]            \* CleanBlockTempDirectory
  /\ crashes <= MaxCrash
  \* a refused start-up is final (operator action needed); crashes = MaxCrash + 1 marks it
  /\ IF CheckA /\ CheckB THEN up' = TRUE /\ started' = TRUE /\ crashes' = crashes
     ELSE up' = FALSE /\ started' = FALSE /\ crashes' = MaxCrash + 1
  /\ step' = "Restart" \o " " \o B(CheckA) \o " " \o B(CheckB) \o " " \o Pred
  /\ UNCHANGED <<pc, idx, shape, hof, hdir, fjson, db, saved, cache, empt, cl, cp>>

----------------------------------------------------------------------------
(* readers: cache fill, operator uploads, the clean-up pass *)

\* any reader call loads <h>.json into the cache (only when found and decodable)
ReadFill(h) ==
  /\ up /\ cache[h].k = "nocache" /\ fjson[h].k \in {"local", "remote"}
  /\ cache' = [cache EXCEPT ![h] = fjson[h]]
  /\ step' = "ReadFill" \o " " \o ToString(h)
  /\ UNCHANGED <<up, started, crashes, pc, idx, shape, hof, tmp, hdir, fjson, db, saved, empt, cl, cp>>

\* WriteItemFiles(h, new) under the per-height lock: needs an old <h>.json; new one must list
\* every old item; atomically replaced (temp file + rename); cache entry dropped.
\* kind "remote": no local item (=> queued when the old had one); "local": back to local files.
Upload(h, kind) ==
  /\ Uploads /\ up /\ cl.h # h
  /\ FilesSeen(h).k \in {"local", "remote"} /\ db[h] # NoW
  /\ kind # FilesSeen(h).k
  /\ kind = "local" => (hdir[h].k = "dir" /\ hdir[h].o = FilesSeen(h).o)   \* launch validates the upload by reading every item
  /\ fjson' = [fjson EXCEPT ![h] = FJ(kind, FilesSeen(h).o)]
  /\ cache' = [cache EXCEPT ![h] = NoCache]
  /\ empt' = IF kind = "remote" THEN empt \cup {h} ELSE empt \ {h}
  /\ step' = "Upload" \o " " \o ToString(h) \o " " \o kind
  /\ UNCHANGED <<up, started, crashes, pc, idx, shape, hof, tmp, hdir, db, saved, cl, cp>>

\* removeEmptyHeightDirectory(h), three observable steps, per-height lock held (cl.h)
CleanLoad(h) ==
  /\ Uploads /\ up /\ cl.pc = "idle" /\ h \in empt
  /\ LET fj == FilesSeen(h) IN
     IF fj.k = "remote" THEN cl' = [pc |-> "loaded", h |-> h] /\ empt' = empt
     ELSE cl' = cl /\ empt' = empt \ {h}       \* not found / local items: ignored, entry dropped
  /\ step' = "CleanLoad" \o " " \o ToString(h) \o " " \o FilesSeen(h).k
  /\ UNCHANGED <<up, started, crashes, pc, idx, shape, hof, tmp, hdir, fjson, db, saved, cache, cp>>

CleanStat ==
  /\ up /\ cl.pc = "loaded"
  /\ IF hdir[cl.h].k = "dir" THEN cl' = [cl EXCEPT !.pc = "stat"] /\ empt' = empt
     ELSE cl' = [pc |-> "idle", h |-> 0] /\ empt' = empt \ {cl.h}
  /\ step' = "CleanStat" \o " " \o ToString(cl.h) \o " " \o hdir[cl.h].k
  /\ UNCHANGED <<up, started, crashes, pc, idx, shape, hof, tmp, hdir, fjson, db, saved, cache, cp>>

CleanRmAll ==
  /\ up /\ cl.pc = "stat"
  /\ hdir' = [hdir EXCEPT ![cl.h] = NoDir]
  /\ empt' = empt \ {cl.h}
  /\ cl' = [pc |-> "idle", h |-> 0]
  /\ step' = "CleanRmAll" \o " " \o ToString(cl.h)
  /\ UNCHANGED <<up, started, crashes, pc, idx, shape, hof, tmp, fjson, db, saved, cache, cp>>

----------------------------------------------------------------------------
Next ==
  \/ \E w \in Writers : \/ WNew(w) \/ WItem(w) \/ WSaveStat(w) \/ WSaveDrop(w) \/ WSaveMapC(w)
                        \/ WSaveMapW(w) \/ WSaveRename(w) \/ WSaveRmAll(w) \/ WSaveFjC(w)
                        \/ WSaveFjW(w) \/ WDBMerge(w) \/ WCancel(w) \/ WAgain(w)
  \/ Crash \/ Restart
  \/ \E h \in Heights : \/ ReadFill(h) \/ CleanLoad(h)
                        \/ \E k \in {"local", "remote"} : Upload(h, k)
  \/ CleanStat \/ CleanRmAll

Spec == Init /\ [][Next]_vars

----------------------------------------------------------------------------
(* properties *)

TypeOK ==
  /\ up \in BOOLEAN /\ started \in BOOLEAN /\ crashes \in 0..(MaxCrash + 1)
  /\ \A w \in Writers : tmp[w].k \in {"none", "dir"}
  /\ \A h \in Heights : /\ hdir[h].k \in {"none", "dir"}
                        /\ fjson[h].k \in {"none", "trunc", "local", "remote"}

\* P1
CrashAtomic ==
  (up /\ started /\ crashes > 0) =>
     /\ \A h \in Heights : Presented(h) => Complete(h)
     /\ \A h \in Heights : db[h] # NoW => (Presented(h) /\ (fjson[h].k = "local" => hdir[h].o = db[h]))

\* P2 (at every moment, also while writers and the clean-up run)
ReadMatchesMap ==
  \A h \in Heights : \A t \in ItemsAll :
     LET r == ReadItem(h, t)
         m == ReadItem(h, "map")
     IN (up /\ r.found) => /\ r.closed
                           /\ m.found => r.o = m.o
                           /\ t \in MapItems(r.o)

\* P3
FirstSurvives ==
  \A h \in Heights :
     (saved[h] # NoW /\ fjson[h].k = "local" /\ fjson[h].o = saved[h]) =>
        /\ hdir[h].k = "dir" /\ hdir[h].o = saved[h]
        /\ hdir[h].f["map"] = "closed"
        /\ \A t \in MapItems(saved[h]) : hdir[h].f[t] = "closed"
\* and <h>.json of a saved block is never replaced by another writer
FirstFilesSurvive ==
  [][\A h \in Heights : (saved[h] # NoW /\ fjson[h].k \in {"local", "remote"}) =>
        (fjson'[h].k \in {"local", "remote"} /\ fjson'[h].o = fjson[h].o)]_vars

\* P5: the pass removes only directories of heights whose <h>.json names no local item
CleanupSafe ==
  [][\A h \in Heights : (cl.pc = "stat" /\ cl.h = h /\ hdir'[h].k = "none" /\ hdir[h].k = "dir")
        => fjson[h].k = "remote"]_vars
CleanupLeavesTemp ==
  [][(cl.pc # "idle" /\ cl'.pc # cl.pc) => tmp' = tmp]_vars

\* P6
Recoverable ==
  (up /\ started /\ crashes > 0 /\ \A w \in Writers : pc[w] \in {"idle", "dead", "done", "cancelled"}) =>
     (DbLast + 1 \in Heights => hdir[DbLast + 1].k = "none" \/ DirEmpty(hdir[DbLast + 1]))

\* Save success implies a complete block at that moment (sanity of the protocol itself)
SaveComplete ==
  \A w \in Writers : pc[w] = "saved" => Complete(hof[w]) /\ hdir[hof[w]].o = w

\* a presented height is complete even when start-up was skipped (stronger reading of P1)
PresentedComplete == \A h \in Heights : (up /\ fjson[h].k = "local") => Complete(h)

=============================================================================
