--------------------------- MODULE LockedMapTrace ---------------------------
(* Binding B for C32: concurrent histories recorded from the real maps and     *)
(* locked values (util/lock.go) are searched for a linearization.              *)
(*                                                                              *)
(* Log format (ndjson), many histories separated by Reset:                      *)
(*   {"a":"Reset","i":12,"n":31, ...}   i = history number, n = its events      *)
(*   {"a":"Call","c":7,"op":"Set","k":"k2","md":"inc","v":3,"r":[0,1,3,0,0]}    *)
(*        logged (global order) before the real call starts; r = what the call  *)
(*        answered, attached afterwards (it prunes the search, it is not known  *)
(*        to the object)                                                        *)
(*   {"a":"Ret","c":7}    logged after the real call returned                   *)
(*   {"a":"Final","len":2,"kv":[3,0,1]}  after all goroutines finished:         *)
(*        Len() and the content of Map()                                        *)
(* Lin(c) is the internal linearization point of call c, anywhere between its  *)
(* Call and its Ret: the sequential map of LockedMap.tla must give the answer   *)
(* the real call gave. A history is linearizable iff some path consumes all of  *)
(* its events; GiveUp lets the search go on with the next history, the numbers  *)
(* of the histories without a linearization are printed at the end (NOTLIN).    *)
(* LenStrict = FALSE leaves the answers of Len calls made during the history    *)
(* unconstrained (the statement constrains the length after the operations      *)
(* finished); TravStrict = FALSE does the same for Traverse (diagnosis only).   *)
EXTENDS LockedMap, Json

CONSTANTS MaxCalls, LenStrict, TravStrict

Trace == ndJsonDeserialize("trace.ndjson")
VARIABLES l,       \* next trace line
          at,      \* call id -> line of its Call event (0: not pending)
          lin,     \* pending calls that have taken effect
          h0,      \* line of the Reset event of the current history
          bad      \* the search has given the current history up
tvars == <<m, closed, l, at, lin, h0, bad>>
Ev == Trace[l]
CallIds == 1..MaxCalls
Consume == l <= Len(Trace) /\ l' = l + 1

CallOf(e) == [op |-> e.op, k |-> e.k, md |-> e.md, v |-> e.v]
Free(e) == \/ e.op = "Len" /\ ~LenStrict
           \/ e.op = "Traverse" /\ ~TravStrict

(* registers: 2 = histories seen, 3 = histories for which a linearization was found *)
Note(reg, i) == TLCSet(reg, TLCGet(reg) \cup {i})
Fresh == /\ m' = EmptyMap /\ closed' = FALSE
         /\ at' = [c \in CallIds |-> 0] /\ lin' = {}

(* a Reset (or the End event) closes the previous history: reached without giving up *)
(* = every event of it was explained                                                  *)
TReset == /\ Consume /\ Ev.a \in {"Reset", "End"}
          /\ IF h0 # 0 /\ ~bad THEN Note(3, Trace[h0].i) ELSE TRUE
          /\ IF Ev.a = "Reset" THEN Note(2, Ev.i) ELSE TRUE
          /\ Fresh /\ h0' = l /\ bad' = FALSE

TCall == /\ Consume /\ Ev.a = "Call"
         /\ at' = [at EXCEPT ![Ev.c] = l]
         /\ UNCHANGED <<m, closed, lin, h0, bad>>

Lin(c) == /\ at[c] # 0 /\ c \notin lin
          /\ LET e == Trace[at[c]] IN
               /\ Free(e) \/ Explains(CallOf(e), e.r)
               /\ Do(CallOf(e))
          /\ lin' = lin \cup {c}
          /\ UNCHANGED <<l, at, h0, bad>>

TRet == /\ Consume /\ Ev.a = "Ret"
        /\ Ev.c \in lin
        /\ at' = [at EXCEPT ![Ev.c] = 0] /\ lin' = lin \ {Ev.c}
        /\ UNCHANGED <<m, closed, h0, bad>>

(* after the goroutines finished: Map() is the sequential map's content (part of  *)
(* linearizability); the reported length against the number of keys is sentence 2 *)
(* of the statement and is reported, not searched                                 *)
NoLen == -1000        \* the object has no length (Locked[T])
NKeys(kv) == Cardinality({i \in 1..Len(kv) : kv[i] # NoVal})
TFinal == /\ Consume /\ Ev.a = "Final"
          /\ \A i \in 1..Len(Keys) : Ev.kv[i] = m[Keys[i]]
          /\ IF Ev.len = NoLen \/ Ev.len = NKeys(Ev.kv) THEN TRUE
             ELSE PrintT(<<"MISMATCH", "final-len", l, Ev.len, NKeys(Ev.kv)>>)
          /\ UNCHANGED <<m, closed, at, lin, h0, bad>>

(* the search may give the current history up at any point: it jumps to the next  *)
(* Reset (Trace[h0].n = number of events of the history) and the history is not   *)
(* noted as linearizable unless another path explains it                          *)
GiveUp == /\ h0 # 0 /\ ~bad /\ l <= Len(Trace) /\ Ev.a \notin {"Reset", "End"}
          /\ l' = h0 + Trace[h0].n + 1 /\ bad' = TRUE
          /\ Fresh /\ UNCHANGED h0

TraceInit == Init /\ l = 1 /\ at = [c \in CallIds |-> 0] /\ lin = {} /\ h0 = 0 /\ bad = FALSE
TraceNext == TReset \/ TCall \/ TRet \/ TFinal \/ GiveUp \/ \E c \in CallIds : Lin(c)
TraceSpec == TraceInit /\ [][TraceNext]_tvars

ASSUME TLCSet(1, 0) /\ TLCSet(2, {}) /\ TLCSet(3, {})
(* furthest line reached without giving up (diagnosis of a single history) *)
HighWater == bad \/ l > Len(Trace) \/ TLCSet(1, IF l > TLCGet(1) THEN l ELSE TLCGet(1))
Accepted == /\ PrintT(<<"NOTLIN", TLCGet(2) \ TLCGet(3)>>)
            /\ PrintT(<<"HW", TLCGet(1), Len(Trace)>>)
=============================================================================
