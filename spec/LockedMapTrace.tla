--------------------------- MODULE LockedMapTrace ---------------------------
(* Binding B for C32: concurrent histories recorded from the real maps and     *)
(* locked values (util/lock.go) are searched for a linearization.              *)
(*                                                                              *)
(* Log format (ndjson), many histories separated by Reset:                      *)
(*   {"a":"Reset", ...}                                                         *)
(*   {"a":"Call","c":7,"op":"Set","k":"k2","md":"inc","v":3,"r":[0,1,3,0,0]}    *)
(*        logged (global order) before the real call starts; r = what the call  *)
(*        answered, attached afterwards (it prunes the search, it is not known  *)
(*        to the object)                                                        *)
(*   {"a":"Ret","c":7}    logged after the real call returned                   *)
(*   {"a":"Final","len":2,"kv":[3,0,1]}  after all goroutines finished:         *)
(*        Len() and the content of Map()                                        *)
(* Lin(c) is the internal linearization point of call c, anywhere between its  *)
(* Call and its Ret: the sequential map of LockedMap.tla must give the answer   *)
(* the real call gave. The history is linearizable iff TLC can consume it.      *)
(* LenStrict = FALSE leaves the answers of Len calls made during the history    *)
(* unconstrained (the statement constrains the length after the operations      *)
(* finished); TravStrict = FALSE does the same for Traverse (diagnosis only).   *)
EXTENDS LockedMap, Json

CONSTANTS MaxCalls, LenStrict, TravStrict

Trace == ndJsonDeserialize("trace.ndjson")
VARIABLES l,       \* next trace line
          at,      \* call id -> line of its Call event (0: not pending)
          lin      \* pending calls that have taken effect
tvars == <<m, closed, l, at, lin>>
Ev == Trace[l]
CallIds == 1..MaxCalls
Consume == l <= Len(Trace) /\ l' = l + 1

CallOf(e) == [op |-> e.op, k |-> e.k, md |-> e.md, v |-> e.v]
Free(e) == \/ e.op = "Len" /\ ~LenStrict
           \/ e.op = "Traverse" /\ ~TravStrict

TReset == /\ Consume /\ Ev.a = "Reset"
          /\ m' = EmptyMap /\ closed' = FALSE
          /\ at' = [c \in CallIds |-> 0] /\ lin' = {}

TCall == /\ Consume /\ Ev.a = "Call"
         /\ at' = [at EXCEPT ![Ev.c] = l]
         /\ UNCHANGED <<m, closed, lin>>

Lin(c) == /\ at[c] # 0 /\ c \notin lin
          /\ LET e == Trace[at[c]] IN
               /\ Free(e) \/ Explains(CallOf(e), e.r)
               /\ Do(CallOf(e))
          /\ lin' = lin \cup {c}
          /\ UNCHANGED <<l, at>>

TRet == /\ Consume /\ Ev.a = "Ret"
        /\ Ev.c \in lin
        /\ at' = [at EXCEPT ![Ev.c] = 0] /\ lin' = lin \ {Ev.c}
        /\ UNCHANGED <<m, closed>>

(* after the goroutines finished: Map() is the sequential map's content (part of  *)
(* linearizability); the reported length against the number of keys is sentence 2 *)
(* of the statement and is reported, not searched                                 *)
NKeys(kv) == Cardinality({i \in 1..Len(kv) : kv[i] # NoVal})
TFinal == /\ Consume /\ Ev.a = "Final"
          /\ \A i \in 1..Len(Keys) : Ev.kv[i] = m[Keys[i]]
          /\ IF Ev.len = Wild \/ Ev.len = NKeys(Ev.kv) THEN TRUE
             ELSE PrintT(<<"MISMATCH", "final-len", l, Ev.len, NKeys(Ev.kv)>>)
          /\ UNCHANGED <<m, closed, at, lin>>

TraceInit == Init /\ l = 1 /\ at = [c \in CallIds |-> 0] /\ lin = {}
TraceNext == TReset \/ TCall \/ TRet \/ TFinal \/ \E c \in CallIds : Lin(c)
TraceSpec == TraceInit /\ [][TraceNext]_tvars

ASSUME TLCSet(1, 0)
HighWater == TLCSet(1, IF l > TLCGet(1) THEN l ELSE TLCGet(1))
Accepted == \/ TLCGet(1) = Len(Trace) + 1
            \/ PrintT(<<"HW", TLCGet(1), Len(Trace)>>) /\ FALSE
=============================================================================
