SPECIFICATION Spec
CONSTANTS
  Fact = {"A", "B"}
  Signer = {1, 2}
  MaxAdd = 2
  MaxReSet = 0
  MaxCalls = 3
  Limits = {5}
  MaxRej = 2
  Impl = "fixed"
  Sym = TRUE
  NCallers = 2
  Removal = "skip"
  MaxTwice = 1
  SetRace = "unlocked"
  Pick = 0
  Emit = "all"
INVARIANTS R6ok
VIEW View
CHECK_DEADLOCK FALSE
