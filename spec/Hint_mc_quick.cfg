SPECIFICATION Spec
CONSTANTS
  TypeMaxLen = 4
  Versions <- VersionsDef
  JunkMaxLen = 3
VIEW view
INVARIANTS TypeOK VersionsArePrinted PrintedUnambiguous LenientAmbiguousOnlyWithMarker FirstMatchRightIffNoMarker
CHECK_DEADLOCK FALSE
