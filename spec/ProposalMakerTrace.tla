------------------------- MODULE ProposalMakerTrace -------------------------
(* Binding B for C38: call/return logs of the real isaac.ProposalMaker over a   *)
(* real TempPool (operations added, with duplicate facts, by another goroutine) *)
(* called from several goroutines.                                              *)
(*   Reset{kind}            kind: position -> "old" | "near" | "far"            *)
(*   Call{id, op, pos} / Ret{id, pos, pr, sig, nops, dupop, dupfact, err}       *)
(* "Every return for a position is the same signed proposal" does not depend    *)
(* on the order of the calls, so the returns are compared as they come: the     *)
(* first return of a position fixes its proposal (fact hash pr, signature sig). *)
(* Mismatches are printed with their class; the log itself is always consumed.  *)
EXTENDS Integers, Sequences, FiniteSets, TLC, Json

Trace == ndJsonDeserialize("trace.ndjson")
VARIABLES l, kind, first
tvars == <<l, kind, first>>
Ev == Trace[l]
None == "-"
Expect(class, ok, got) == IF ok THEN TRUE ELSE PrintT(<<"MISMATCH", class, l, got>>)
Consume == l <= Len(Trace) /\ l' = l + 1
AllPos == {"o", "n0", "n1", "n2", "n3", "fp", "fh", "f2"}

TReset == /\ Consume /\ Ev.a = "Reset"
          /\ kind' = Ev.kind /\ first' = [p \in AllPos |-> [pr |-> None, sig |-> None]]
TCall == Consume /\ Ev.a = "Call" /\ UNCHANGED <<kind, first>>
TRet == /\ Consume /\ Ev.a = "Ret"
        /\ UNCHANGED kind
        /\ IF Ev.err # ""
           THEN /\ UNCHANGED first
                /\ Expect("RefusedOnlyOld", kind[Ev.pos] = "old", <<Ev.pos, Ev.err>>)
           ELSE /\ first' = IF first[Ev.pos].pr = None THEN [first EXCEPT ![Ev.pos] = [pr |-> Ev.pr, sig |-> Ev.sig]] ELSE first
                /\ Expect("OnePerPosition", first[Ev.pos].pr \in {None, Ev.pr}, <<Ev.pos, first[Ev.pos].pr, Ev.pr>>)
                /\ Expect("SameSignature", first[Ev.pos].pr # Ev.pr \/ first[Ev.pos].sig = Ev.sig, <<Ev.pos>>)
                /\ Expect("OldRefused", kind[Ev.pos] # "old", <<Ev.pos>>)
                /\ Expect("FarIsEmpty", kind[Ev.pos] = "far" => Ev.nops = 0, <<Ev.pos, Ev.nops>>)
                /\ Expect("DistinctOperations", ~Ev.dupop, <<Ev.pos, Ev.pr>>)
                /\ Expect("DistinctFacts", ~Ev.dupfact, <<Ev.pos, Ev.pr>>)

TraceInit == l = 1 /\ kind = [p \in AllPos |-> "near"] /\ first = [p \in AllPos |-> [pr |-> None, sig |-> None]]
TraceNext == TReset \/ TCall \/ TRet
TraceSpec == TraceInit /\ [][TraceNext]_tvars

ASSUME TLCSet(1, 0)
HighWater == TLCSet(1, IF l > TLCGet(1) THEN l ELSE TLCGet(1))
Accepted == \/ TLCGet(1) = Len(Trace) + 1
            \/ PrintT(<<"HW", TLCGet(1), Len(Trace)>>) /\ FALSE
=============================================================================
