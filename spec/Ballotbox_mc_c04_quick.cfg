SPECIFICATION Spec
CONSTANTS
  Node0 = {"n0", "n1", "n2"}
  Local0 = "n0"
  T100 = 670
  EmitStep = FALSE
  Heights = {1}
  Rounds = {0}
  Stages = {1, 3}
  Facts = {"A"}
  ExSets = {{}, {"n2"}}
  AllowSC = TRUE
  MaxId = 3
  MaxVotes = 4
  MaxChan = 1
  MaxSet = 0
  StoreSC = "sf-"
  CleanSC = "sf-"
  CountRule = "impl"
  EagerCount = FALSE
  Holds = FALSE
  MaxTick = 0
  TickGuard = "impl"
VIEW view
INVARIANTS TypeOK ReadsIsolated KeyMatchesRecord ImplEmitsSound ImplExpelsMatchMajority
PROPERTIES EmitSound CleanReleases
CHECK_DEADLOCK FALSE
