------------------------- MODULE LastPointVoteTrace -------------------------
(* C06, binding B for the moves the ballot box makes itself: histories recorded    *)
(* from a REAL isaacstates.Ballotbox (harness c06 "votes"; really signed ballots    *)
(* with embedded voteproofs, Vote / Count / SetLastPoint, LastPoint() read before   *)
(* and after every call) are replayed through the actions of LastPointVote.tla.     *)
(*   verdict   the statement (LastPoint!StepOK: height never decreases; an earlier   *)
(*             round or stage only for a suffrage-confirm result while the position  *)
(*             is not a majority; the position is not taken again except majority    *)
(*             over non-majority) evaluated on the REAL position before and after    *)
(*             every call, and "a ballot for a lower height is never taken";         *)
(*             printed as <<"MISMATCH", class, line>>, nothing stops at the first    *)
(*   evidence  the model's own answer (voted, position after the call; a set where   *)
(*             the code iterates a map) compared with the real one: <<"DIVERGE", ..>> *)
(*             The model then continues from the real position.                      *)
EXTENDS LastPointVote, Json

Trace == ndJsonDeserialize("trace.ndjson")
VARIABLE l
tvars == <<box, ops, act, l>>
Ev == Trace[l]

Expect(class, ok) == IF ok THEN TRUE ELSE PrintT(<<"MISMATCH", class, l>>)
Agree(class, ok)  == IF ok THEN TRUE ELSE PrintT(<<"DIVERGE", class, l>>)

Consume == l <= Len(Trace) /\ l' = l + 1 /\ UNCHANGED ops

(* the statement on the real move made by the call of line l *)
RealStepOK(op) ==
  LET a == Ev.before
      b == Ev.after
  IN IF a = b THEN TRUE
     ELSE /\ Expect(op \o ":height-decrease", LP!HeightOK(a, b))
          /\ Expect(op \o ":back-step-not-sc", LP!BackOK(a, b))
          /\ Expect(op \o ":retake", LP!RetakeOK(a, b))

(* a position the box takes by voting is the position of a voteproof it hands out in   *)
(* the same call ("to take a suffrage-confirm RESULT": the flags are the voteproof's)  *)
TakenIsEmitted(op) ==
  Expect(op \o ":position-of-no-voteproof",
         Ev.after = Ev.before \/ \E i \in 1..Len(Ev.emit) : Ev.emit[i] = Ev.after)

Synced == Agree("position-before-call", box.last = Ev.before)

TReset == /\ Consume /\ Ev.a = "Reset"
          /\ box' = [last |-> Zero, votes |-> {}, fin |-> {}, suf |-> Ev.suf, nn |-> Ev.nn, tt |-> Ev.t10,
                     ex |-> IF Ev.ex THEN {"n" \o ToString(Ev.nn - 1)} ELSE {}]
          /\ act' = Act("Reset", NoBallot, FALSE)

TLearn == /\ Consume /\ Ev.a = "Learn"
          /\ box' = [box EXCEPT !.suf = TRUE]
          /\ act' = Act("Learn", NoBallot, FALSE)

TSetLast ==
  /\ Consume /\ Ev.a = "SetLast"
  /\ RealStepOK("setlast")
  /\ Expect("setlast:moved-though-refused", Ev.ok \/ Ev.after = Ev.before)
  /\ Synced
  /\ LET m == SetLastOut(box, Ev.p) IN
     /\ Agree("SetLast", m.last = Ev.after)
     /\ box' = [m EXCEPT !.last = Ev.after]
  /\ act' = Act("SetLast", NoBallot, Ev.ok)

TVote ==
  /\ Consume /\ Ev.a = "Vote"
  /\ RealStepOK("vote")
  /\ TakenIsEmitted("vote")
  /\ Expect("vote:lower-height-ballot-taken",
            (~IsZero(Ev.before) /\ Ev.k.h < Ev.before.h) => (~Ev.ok /\ Ev.after = Ev.before))
  /\ Synced
  /\ LET b    == [n |-> Ev.n, k |-> Ev.k, f |-> Ev.f, e |-> Ev.e]
         outs == VoteOut(box, b)
         same == {o \in outs : o.st.last = Ev.after /\ o.voted = Ev.ok}
     IN IF same # {}
        THEN box' = (CHOOSE o \in same : TRUE).st
        ELSE /\ Agree(IF \E o \in outs : o.voted = Ev.ok THEN "Vote:position-after" ELSE "Vote:voted", FALSE)
             /\ box' = [(CHOOSE o \in outs : TRUE).st EXCEPT !.last = Ev.after]
  /\ act' = Act("Vote", NoBallot, Ev.ok)

TCount ==
  /\ Consume /\ Ev.a = "Count"
  /\ RealStepOK("count")
  /\ TakenIsEmitted("count")
  /\ Synced
  /\ LET outs == CountOut(box)
         same == {s \in outs : s.last = Ev.after}
     IN IF same # {}
        THEN box' = CHOOSE s \in same : TRUE
        ELSE /\ Agree("Count:position-after", FALSE)
             /\ box' = [(CHOOSE s \in outs : TRUE) EXCEPT !.last = Ev.after]
  /\ act' = Act("Count", NoBallot, Ev.ok)

TraceInit == /\ box = [last |-> Zero, votes |-> {}, fin |-> {}, suf |-> TRUE, nn |-> NN0, tt |-> T100, ex |-> {}]
             /\ ops = 0 /\ act = Act("Init", NoBallot, FALSE) /\ l = 1
TraceNext == TReset \/ TLearn \/ TSetLast \/ TVote \/ TCount
TraceSpec == TraceInit /\ [][TraceNext]_tvars

ASSUME TLCSet(1, 0)
HighWater == TLCSet(1, IF l > TLCGet(1) THEN l ELSE TLCGet(1))
Accepted == \/ TLCGet(1) = Len(Trace) + 1
            \/ PrintT(<<"HW", TLCGet(1), Len(Trace)>>) /\ FALSE
=============================================================================
