------------------------------ MODULE Agreement ------------------------------
(* C03 - agreement: no two voteproofs accepted for one suffrage and stage point  *)
(* carry different majority facts while at most F nodes equivocate.               *)
(* Accepted(c) is an implementation-level transcription, check by check, of what  *)
(* the code does to a voteproof:                                                  *)
(*   Voteproof.IsValid            base/voteproof_isvalid.go IsValidVoteproof,     *)
(*                                isaac/voteproof.go (expel / stuck variants)     *)
(*   IsValidVoteproofWithSuffrage isaac/voteproof_isvalid.go,                     *)
(*                                isaac/suffrage_operation.go IsValidExpelWithSuffrage, *)
(*                                isaac/suffrage.go NewSuffrageWithExpels,        *)
(*                                base/voteproof_isvalid.go (recount)             *)
(* The agreement property is written from the statement. Three modes:             *)
(*   "cands"   every state is one candidate voteproof (votes, expelled set,       *)
(*             expel-signer family, claimed result, structural mutation, stage);  *)
(*             dumped with the model's verdict; the harness builds the real,      *)
(*             really signed voteproof and asks the real validators (binding A);  *)
(*             agreement is then evaluated over the table of REAL verdicts.       *)
(*   "agree"   every state is (Byzantine set, who signed which facts); the        *)
(*             invariants say that no two accepted voteproofs conflict, one       *)
(*             invariant per class so that every failing class is reported.       *)
(*   "closed"  the same with the closed form that only needs cardinalities        *)
(*             (checked equal to the explicit form in "agree" mode), for larger N *)
(*   "orbits"  candidates up to a renaming of the nodes, for suffrages too large  *)
(*             for "cands": one representative per profile (number of expelled    *)
(*             nodes, votes for the claimed fact, votes for the other fact,       *)
(*             signer family, stage), placed adversarially - the voteproofs for A *)
(*             vote from the lowest node upwards and expel the highest nodes, the *)
(*             voteproofs for B vote from the highest node downwards and expel    *)
(*             the lowest - so that for every two profiles the table holds the    *)
(*             pair with the FEWEST common signers (OrbitRepresents and           *)
(*             OrbitOverlapMinimal, checked in "agree" mode). Binding A as for    *)
(*             "cands": the harness builds and validates every representative and *)
(*             agreement is evaluated over the REAL verdicts; this is where the   *)
(*             threshold arithmetic separates (n-k)*t/100 from n-k and k<=f from  *)
(*             k>f (n=5: f=1, n=7: f=2, n=10: f=3), which n<=4 cannot.            *)
(*             The same runs also emit validation HISTORIES (variable hist): the  *)
(*             sequences of voteproofs handed, in this order, to ONE long-lived   *)
(*             validator (one process). By the statement the verdict on a         *)
(*             voteproof is Accepted of that voteproof alone - it must not depend *)
(*             on what was validated before (Verdict, HistoryIndependent) - and   *)
(*             no voteproof with a sign fact its node did not make for that fact  *)
(*             at that stage point may ever be accepted (AcceptedOnlyGenuine).    *)
(*             The histories pair a genuine voteproof with the voteproof forged   *)
(*             from its signatures (signature-transplant mutations tp-*: the sign *)
(*             of node v for fact X attached to fact Y, to the fact of another    *)
(*             stage point, to another node), genuine first and forged first.     *)
(* Tally!Result / Tally!Req are the C01/C02 definitions (instantiated).           *)
EXTENDS Integers, FiniteSets, Sequences, TLC, Json

CONSTANTS N,        \* suffrage size; nodes are 1..N
          T10,      \* threshold * 10 (670 = 67.0 %)
          Mode,     \* "cands" | "agree" | "closed" | "orbits"
          Fams,     \* expel-signer families explored
          Muts      \* structural mutations explored in "cands" mode

Node == 1..N
NoVote == "-"
FactNo(x) == IF x = "A" THEN 1 ELSE IF x = "B" THEN 2 ELSE 3      \* "C": a fact nobody signed

Tally == INSTANCE Tally WITH MaxQ <- N + 2, NFacts <- 3, Extra <- 2, T10Set <- {T10},
                             q <- 0, t10 <- 0, r <- 0, cnt <- 0, step <- ""
Req(n) == Tally!Req(n, T10)
F == (N * 1000 - N * T10) \div 1000                  \* floor(n - n*t/100), exact

VARIABLES c,      \* "cands": the candidate
          byz,    \* "agree"/"closed": Byzantine nodes
          sg,     \* "agree"/"closed": Node -> SUBSET {"A","B"}, the facts each node signed
          hist,   \* "orbits": the sequence of candidates validated so far by one long-lived validator
          phase,  \* "start": only the partition key is chosen (cheap initial states); "go": the state proper,
                  \* produced by Next so that the expensive evaluation is spread over TLC's workers
          step
vars == <<c, byz, sg, hist, phase, step>>

---------------------------------------------------------------------------------
(* candidates *)
(* signature transplants: the sign fact carries a signature its node really made, but for something else *)
(*   tp-fact-*   for the OTHER fact ("A" <-> "B") of the same stage point                                *)
(*   tp-point-*  for the other fact of ANOTHER stage point                                               *)
(*   tp-node-one the signature bytes another voter made for this fact, under this node's name and key    *)
(* -all: every sign fact of the voteproof; -one: only the first voter's                                  *)
TransplantMuts == {"tp-fact-all", "tp-fact-one", "tp-point-all", "tp-point-one", "tp-node-one"}
ForgedMuts == TransplantMuts \cup {"wrongkey", "badsig"}
ExpelMuts == {"expel-unknown-target", "expel-unknown-signer", "expel-wrongkey-signer", "expired", "dup-expel"}

(* NewSuffrageWithExpels: per-expel sign threshold *)
SignTh(k) == IF k > N - Req(N) THEN N - k ELSE Req(N)

Lowest(S, m) == {x \in S : Cardinality({y \in S : y < x}) < m}
(* who signed the expel of node e, by family; the target's own signature never counts *)
ExpelSigners(fam, ex, e) ==
  LET k == Cardinality(ex) IN
  CASE fam = "all"   -> Node \ {e}                       \* every other node signed (the adversarial extreme)
    [] fam = "live"  -> Node \ ex                        \* exactly the nodes that are not expelled
    [] fam = "exact" -> Lowest(Node \ {e}, SignTh(k))    \* exactly as many as demanded
    [] fam = "short" -> Lowest(Node \ {e}, SignTh(k) - 1)
    [] fam = "self"  -> {}                               \* only the target signed its own expel
    [] OTHER -> {}

Voters(cd) == {v \in Node : cd.votes[v] # NoVote}
FirstVoter(cd) == CHOOSE v \in Voters(cd) : \A w \in Voters(cd) : v <= w
ClaimFact(cd) == IF cd.claim = "DRAW" THEN (IF Voters(cd) = {} THEN "A" ELSE cd.votes[FirstVoter(cd)]) ELSE cd.claim
(* sign-fact counts per fact as the recount sees them: "dup" and "unknown-voter" add one *)
Count(cd) == [f \in 1..3 |->
   Cardinality({v \in Node : cd.votes[v] # NoVote /\ FactNo(cd.votes[v]) = f})
   + (IF cd.mut \in {"dup", "unknown-voter"} /\ FactNo(ClaimFact(cd)) = f THEN 1 ELSE 0)]

K(cd) == Cardinality(cd.ex)

(* ---- Voteproof.IsValid ---- *)
V1NonEmpty(cd)     == Voters(cd) # {}
V2NoDupSigner(cd)  == cd.mut # "dup"
V3MajorityInSignFacts(cd) == cd.claim = "DRAW" \/ (cd.mut # "claim-missing" /\ \E v \in Node : cd.votes[v] = cd.claim)
V4SignaturesVerify(cd) == cd.mut \notin ({"badsig"} \cup TransplantMuts)
V5KindShape(cd)    == (cd.kind = "plain") = (cd.ex = {})
V6ExpelOpsValid(cd) == \A e \in cd.ex : ExpelSigners(cd.fam, cd.ex, e) # {}    \* "empty signs"
V7NoDupExpel(cd)   == cd.mut # "dup-expel"
V8ExpelledDidNotVote(cd) == \A e \in cd.ex : cd.votes[e] = NoVote
V9StuckShape(cd)   == cd.kind = "stuck" => cd.claim = "DRAW"               \* finish() clears the majority
IsValid(cd) == /\ V1NonEmpty(cd) /\ V2NoDupSigner(cd) /\ V3MajorityInSignFacts(cd) /\ V4SignaturesVerify(cd)
               /\ V5KindShape(cd) /\ V6ExpelOpsValid(cd) /\ V7NoDupExpel(cd) /\ V8ExpelledDidNotVote(cd)
               /\ V9StuckShape(cd)

(* ---- isaac.IsValidVoteproofWithSuffrage ---- *)
S1ExpelWithSuffrage(cd) == cd.mut \notin {"expired", "expel-unknown-target", "expel-unknown-signer", "expel-wrongkey-signer"}
S2ExpelSignThreshold(cd) == \A e \in cd.ex : Cardinality(ExpelSigners(cd.fam, cd.ex, e)) >= SignTh(K(cd))
S3ReducedNonEmpty(cd) == K(cd) < N
S4StuckCount(cd) == cd.kind = "stuck" => N = Cardinality(Voters(cd)) + K(cd)
S5VotersInReducedSuffrage(cd) == /\ cd.mut \notin {"unknown-voter", "wrongkey"}
                                 /\ \A v \in Voters(cd) : v \notin cd.ex
(* recount: 100 % over the reduced suffrage when nodes are expelled, t over the suffrage otherwise *)
Quorum(cd) == N - K(cd)
Need(cd)   == IF K(cd) > 0 THEN Quorum(cd) ELSE Req(N)
Recount(cd) == Tally!Result(Quorum(cd), Need(cd), Count(cd))
S6Recount(cd) == cd.kind = "stuck" \/
   IF cd.claim = "DRAW" THEN Recount(cd) = "DRAW"
   ELSE Recount(cd) = "MAJORITY" /\ Tally!MajSet(Quorum(cd), Need(cd), Count(cd)) = {FactNo(cd.claim)}
WithSuffrage(cd) == /\ S1ExpelWithSuffrage(cd) /\ S2ExpelSignThreshold(cd) /\ S3ReducedNonEmpty(cd)
                    /\ S4StuckCount(cd) /\ S5VotersInReducedSuffrage(cd) /\ S6Recount(cd)

Accepted(cd) == IsValid(cd) /\ WithSuffrage(cd)

Why(cd) == CASE ~V1NonEmpty(cd) -> "V1NonEmpty" [] ~V2NoDupSigner(cd) -> "V2NoDupSigner"
             [] ~V3MajorityInSignFacts(cd) -> "V3MajorityInSignFacts" [] ~V4SignaturesVerify(cd) -> "V4SignaturesVerify"
             [] ~V5KindShape(cd) -> "V5KindShape" [] ~V6ExpelOpsValid(cd) -> "V6ExpelOpsValid"
             [] ~V7NoDupExpel(cd) -> "V7NoDupExpel" [] ~V8ExpelledDidNotVote(cd) -> "V8ExpelledDidNotVote"
             [] ~V9StuckShape(cd) -> "V9StuckShape"
             [] ~S1ExpelWithSuffrage(cd) -> "S1ExpelWithSuffrage" [] ~S2ExpelSignThreshold(cd) -> "S2ExpelSignThreshold"
             [] ~S3ReducedNonEmpty(cd) -> "S3ReducedNonEmpty" [] ~S4StuckCount(cd) -> "S4StuckCount"
             [] ~S5VotersInReducedSuffrage(cd) -> "S5VotersInReducedSuffrage" [] ~S6Recount(cd) -> "S6Recount"
             [] OTHER -> "accepted"

Plain(cd) == [cd EXCEPT !.mut = "none"]
(* worth mutating: accepted as it is, or one more vote for the claim would make it accepted *)
Near(cd) == \/ Accepted(Plain(cd))
            \/ \E v \in Node : cd.votes[v] = NoVote /\ v \notin cd.ex /\ cd.claim # "DRAW"
                               /\ Accepted([Plain(cd) EXCEPT !.votes[v] = cd.claim])

(* the candidates: every well-shaped unmutated INIT candidate; for those that are Near also every *)
(* applicable mutation and the ACCEPT-stage twin. An operator (not a constant) so that TLC only     *)
(* builds the set in "cands" mode.                                                                  *)
Bases(fams, vv) == {b \in [votes : {vv}, ex : SUBSET Node, fam : fams,
                       kind : {"plain", "expel", "stuck"}, claim : {"A", "B", "DRAW"}] :
                 /\ (b.ex = {}) = (b.kind = "plain")                \* a plain voteproof cannot carry expels
                 /\ (b.ex = {} => b.fam = CHOOSE f \in fams : TRUE)  \* the family is irrelevant without expels
                 /\ (b.kind = "stuck" => b.claim = "DRAW")}
With(b, m, st) == [votes |-> b.votes, ex |-> b.ex, fam |-> b.fam, kind |-> b.kind, claim |-> b.claim,
                   mut |-> m, stage |-> st]
Applicable(b, m) == /\ m # "none"
                    /\ b.kind # "stuck"
                    /\ (m \in ExpelMuts => b.ex # {})
                    /\ (m = "claim-missing" => b.claim # "DRAW")
                    /\ (m \in {"dup", "wrongkey", "badsig"} \cup TransplantMuts => \E v \in Node : b.votes[v] # NoVote)
CandsOf(fams, muts, vv) ==
  UNION {{With(b, "none", "INIT")}
         \cup (IF Near(With(b, "none", "INIT"))
               THEN {With(b, "none", "ACCEPT")} \cup {With(b, m, "INIT") : m \in {x \in muts : Applicable(b, x)}}
               ELSE {})
         : b \in Bases(fams, vv)}

(* ---- orbit representatives ("orbits" mode) ---- *)
(* position p of side "lo" is node p, of side "hi" node N+1-p (an involution) *)
Pos(side, p) == IF side = "lo" THEN p ELSE N + 1 - p
SideOf(X) == IF X = "A" THEN "lo" ELSE "hi"
(* side claims X: positions 1..a vote X, a+1..a+b vote the other fact, the last k positions are expelled *)
(* (a+b > N-k: expelled nodes voted; such candidates must be rejected)                                  *)
OrbitCand(X, k, a, b, fam, st) ==
  LET side == SideOf(X)
      Y == IF X = "A" THEN "B" ELSE "A"
  IN [votes |-> [v \in Node |-> LET p == Pos(side, v) IN IF p <= a THEN X ELSE IF p <= a + b THEN Y ELSE NoVote],
      ex |-> {Pos(side, p) : p \in (N - k + 1)..N}, fam |-> fam,
      kind |-> IF k = 0 THEN "plain" ELSE "expel", claim |-> X, mut |-> "none", stage |-> st]
Profiles == {ab \in (1..N) \X (0..N) : ab[1] + ab[2] <= N}
OrbitsOf(fams, k) ==
  LET ff == IF k = 0 THEN {CHOOSE f \in fams : TRUE} ELSE fams
      init == {OrbitCand(X, k, ab[1], ab[2], fam, "INIT") : X \in {"A", "B"}, ab \in Profiles, fam \in ff}
  IN init \cup {[o EXCEPT !.stage = "ACCEPT"] : o \in {x \in init : Near(x)}}

(* ---- validation histories ("orbits" mode) ---- *)
(* every sign fact of cd was made by its node, with its key, for its fact at its stage point *)
Genuine(cd) == cd.mut \notin ForgedMuts
(* the i-th verdict of a validator that is handed h[1], h[2], ... in this order: by the statement a function *)
(* of h[i] alone                                                                                            *)
Verdict(h, i) == Accepted(h[i])
At(cd, p) == cd @@ ("pt" :> p)          \* p = 0: the stage point, p = 1: another stage point
(* the voteproof forged from the genuine g (claims "A"): the same nodes "vote" "B", signatures by mutation m *)
ForgedFrom(g, m) == [g EXCEPT !.votes = [v \in Node |-> IF g.votes[v] = "A" THEN "B" ELSE NoVote],
                             !.claim = "B", !.mut = m]
HistBases(k) == {OrbitCand("A", k, a, 0, "all", st) : a \in 1..(N - k), st \in {"INIT", "ACCEPT"}}
HistoriesOf(k) ==
  UNION {    {<<At(g, 0), At(ForgedFrom(g, m), 0)>> : m \in {"tp-fact-all", "tp-fact-one"}}         \* genuine first
       \cup {<<At(ForgedFrom(g, m), 0), At(g, 0)>> : m \in {"tp-fact-all", "tp-fact-one"}}         \* forged first
       \cup {<<At(g, 1), At(ForgedFrom(g, m), 0), At(g, 0)>> : m \in {"tp-point-all", "tp-point-one"}}
       \cup {<<At(ForgedFrom(g, m), 0), At(g, 1), At(g, 0)>> : m \in {"tp-point-all", "tp-point-one"}}
       \cup {<<At(ForgedFrom(g, "tp-node-one"), 0), At(ForgedFrom(g, "tp-node-one"), 0)>>}          \* the donor's sign is seen first
       \cup {<<At(g, 0), At(g, 0)>>}                                                               \* the same voteproof again
       : g \in HistBases(k)}
OutCand(cd) == [votes |-> [i \in 1..N |-> cd.votes[i]],
                ex |-> [i \in 1..N |-> IF i \in cd.ex THEN 1 ELSE 0],
                signers |-> [i \in 1..N |-> IF i \in cd.ex
                                THEN [j \in 1..N |-> IF j \in ExpelSigners(cd.fam, cd.ex, i) THEN 1 ELSE 0]
                                ELSE [j \in 1..N |-> 0]],
                fam |-> cd.fam, kind |-> cd.kind, claim |-> cd.claim, mut |-> cd.mut, stage |-> cd.stage, pt |-> cd.pt]
OutH == ToJson([n |-> N, t10 |-> T10, f |-> F,
                hist |-> [i \in 1..Len(hist) |-> OutCand(hist[i])],
                accepted |-> [i \in 1..Len(hist) |-> Verdict(hist, i)],
                why |-> [i \in 1..Len(hist) |-> Why(hist[i])]])

OutC == ToJson([n |-> N, t10 |-> T10, f |-> F,
                votes |-> [i \in 1..N |-> c.votes[i]],
                ex |-> [i \in 1..N |-> IF i \in c.ex THEN 1 ELSE 0],
                signers |-> [i \in 1..N |-> IF i \in c.ex
                                THEN [j \in 1..N |-> IF j \in ExpelSigners(c.fam, c.ex, i) THEN 1 ELSE 0]
                                ELSE [j \in 1..N |-> 0]],
                fam |-> c.fam, kind |-> c.kind, claim |-> c.claim, mut |-> c.mut, stage |-> c.stage,
                accepted |-> Accepted(c), why |-> Why(c)])

---------------------------------------------------------------------------------
(* agreement, from the statement *)
Go == phase = "go"
S(X) == {v \in Node : X \in sg[v]}
(* the candidate with the most votes for X that expels E: acceptance is monotone in the votes  *)
(* for X (plain: more votes never hurt; expel: exactly the live nodes must all vote X), so if  *)
(* any voteproof for X expelling E is accepted, this one is                                    *)
Best(X, E, fam) == [votes |-> [v \in Node |-> IF v \in S(X) \ E THEN X ELSE NoVote], ex |-> E, fam |-> fam,
                    kind |-> IF E = {} THEN "plain" ELSE "expel", claim |-> X, mut |-> "none", stage |-> "INIT"]
Exists(X, lo, hi, fam) == \E E \in SUBSET Node : Cardinality(E) >= lo /\ Cardinality(E) <= hi
                                                   /\ Accepted(Best(X, E, fam))
(* closed form of the same (cardinalities only), prototype of DESIGN Appendix B *)
SignersCard(fam, k) == CASE fam = "all" -> N - 1 [] fam = "live" -> N - k [] fam = "exact" -> SignTh(k)
                         [] fam = "short" -> SignTh(k) - 1 [] OTHER -> 0
ClosedVP(X, E, fam) == LET k == Cardinality(E) IN
   IF k = 0 THEN Cardinality(S(X)) >= Req(N)
   ELSE /\ k < N /\ SignersCard(fam, k) >= SignTh(k) /\ SignersCard(fam, k) >= 1
        /\ (Node \ E) \subseteq S(X)
ExistsClosed(X, lo, hi, fam) == \E E \in SUBSET Node : Cardinality(E) >= lo /\ Cardinality(E) <= hi /\ ClosedVP(X, E, fam)
Ex(X, lo, hi, fam) == IF Mode = "closed" THEN ExistsClosed(X, lo, hi, fam) ELSE Exists(X, lo, hi, fam)

AgreePlainPlain   == Go => ~(Ex("A", 0, 0, "all") /\ Ex("B", 0, 0, "all"))
AgreeExpelWithinF == Go => \A fam \in Fams : ~(Ex("A", 0, F, fam) /\ Ex("B", 0, F, fam))
AgreeExpelBeyondF == Go => \A fam \in Fams : ~(  (Ex("A", F + 1, N, fam) /\ Ex("B", 0, N, fam))
                                        \/ (Ex("A", 0, N, fam) /\ Ex("B", F + 1, N, fam)))
ClosedMatchesExplicit == Go => \A fam \in Fams, X \in {"A", "B"}, E \in SUBSET Node :
                            ClosedVP(X, E, fam) = Accepted(Best(X, E, fam))

(* the orbit table is enough: whatever voteproof for X expelling E is accepted, the representative with *)
(* the same profile is accepted (and conversely), and no placement of two voteproofs has fewer common   *)
(* signers than the two representatives                                                                 *)
OrbitRepresents == Go => \A fam \in Fams, X \in {"A", "B"}, E \in SUBSET Node :
   S(X) \ E # {} =>
      Accepted(Best(X, E, fam)) = Accepted(OrbitCand(X, Cardinality(E), Cardinality(S(X) \ E), 0, fam, "INIT"))
OrbitOverlapMinimal == Go => \A E1 \in SUBSET Node, E2 \in SUBSET Node :
   LET va == S("A") \ E1   vb == S("B") \ E2
       ra == Voters(OrbitCand("A", Cardinality(E1), Cardinality(va), 0, "all", "INIT"))
       rb == Voters(OrbitCand("B", Cardinality(E2), Cardinality(vb), 0, "all", "INIT"))
   IN Cardinality(ra \cap rb) <= Cardinality(va \cap vb)

---------------------------------------------------------------------------------
Dummy == [votes |-> [v \in Node |-> NoVote], ex |-> {}, fam |-> "all", kind |-> "plain", claim |-> "DRAW",
          mut |-> "none", stage |-> "INIT"]
InitCands == /\ \E vv \in [Node -> {NoVote, "A", "B"}] : c = [Dummy EXCEPT !.votes = vv]
             /\ byz = {} /\ sg = [v \in Node |-> {}] /\ hist = <<>> /\ phase = "start" /\ step = ""
NextCands == /\ phase = "start" /\ phase' = "go"
             /\ c' \in CandsOf(Fams, Muts, c.votes)
             /\ UNCHANGED <<byz, sg, hist>>
             /\ step' = OutC'
InitAgree == /\ c = Dummy /\ step = "" /\ phase = "start" /\ hist = <<>>
             /\ byz \in {B \in SUBSET Node : Cardinality(B) <= F}
             /\ sg \in [Node -> SUBSET {"A", "B"}]
             /\ \A v \in Node \ byz : Cardinality(sg[v]) <= 1      \* honest: at most one fact per stage point
NextAgree == phase = "start" /\ phase' = "go" /\ UNCHANGED <<c, byz, sg, hist, step>>
(* "orbits": the cheap initial states choose the number of expelled nodes *)
InitOrbits == /\ \E k \in 0..(N - 1) : c = [Dummy EXCEPT !.ex = (N - k + 1)..N]
              /\ byz = {} /\ sg = [v \in Node |-> {}] /\ hist = <<>> /\ phase = "start" /\ step = ""
NextOrbits == /\ phase = "start" /\ phase' = "go"
              /\ c' \in OrbitsOf(Fams, Cardinality(c.ex))
              /\ UNCHANGED <<byz, sg, hist>>
              /\ step' = OutC'
(* one long-lived validator is handed a whole history *)
ValidateHistory == /\ phase = "start" /\ phase' = "hist"
                   /\ hist' \in HistoriesOf(Cardinality(c.ex))
                   /\ UNCHANGED <<c, byz, sg>>
                   /\ step' = OutH'
Init == CASE Mode = "cands" -> InitCands [] Mode = "orbits" -> InitOrbits [] OTHER -> InitAgree
Next == CASE Mode = "cands" -> NextCands [] Mode = "orbits" -> (NextOrbits \/ ValidateHistory) [] OTHER -> NextAgree
Spec == Init /\ [][Next]_vars
(* the validator has no memory: whatever was validated before, the verdict is that of the voteproof alone, *)
(* and a voteproof with a sign fact that is not its node's for its fact is never accepted                    *)
HistoryIndependent == \A i \in 1..Len(hist) : Verdict(hist, i) = Accepted(hist[i])
AcceptedOnlyGenuine == /\ \A i \in 1..Len(hist) : Verdict(hist, i) => Genuine(hist[i])
                       /\ (Mode \in {"cands", "orbits"} /\ Go /\ Accepted(c)) => Genuine(c)
(* sanity of the transcription on the candidates *)
AcceptedImpliesWellFormed == (Mode \in {"cands", "orbits"} /\ Go) =>
   (Accepted(c) => /\ Voters(c) \cap c.ex = {}
                   /\ (c.claim # "DRAW" /\ c.kind # "stuck" => Count(c)[FactNo(c.claim)] >= Need(c)))
=============================================================================
