--------------------------- MODULE BroadcasterTrace ---------------------------
(* Binding B for C08: event logs recorded from the real mimic-ballot function,  *)
(* DefaultBallotBroadcaster and TempPool (forced schedules and free-running     *)
(* concurrent deliveries / handler calls) are validated against Broadcaster.tla.*)
(*                                                                              *)
(* Events:  Reset{dsp,df}   new pool/broadcaster/ballot box/States              *)
(*          Deliver{c,voted} Ballotbox.Vote of the sync source's ballot returned*)
(*          MimicRet{c}     the mimic function returned for this delivery       *)
(*          Checked{c}      gate mimic:checked (pool lookup found nothing)      *)
(*          Signed{c,s,f,local} gate mimic:signed (the mimic ballot)            *)
(*          AtBcast{c}      gate mimic:broadcast                                *)
(*          HLookC{c} / HLook{c,found,f} / HSign{c,s,f} / BcastC{c} / BcastR{c} / Again{c}  *)
(*                          handler pattern on the real broadcaster             *)
(*          Send{c,s,f,local} the broadcast function was handed a ballot        *)
(* Silent: the mimic pool lookup (between Deliver's call and Checked) and       *)
(* Broadcast's set (between AtBcast/BcastC and Send).                           *)
(* What the broadcast function is handed is a guard (it must be what the model  *)
(* of the current tree sends); the statement itself (one fact per stage point)  *)
(* is evaluated on the logged Send events and printed as MISMATCH.              *)
EXTENDS Broadcaster

Trace == ndJsonDeserialize("trace.ndjson")
VARIABLES l,
          seen   \* Caller -> last event kind seen of the caller's current step
tvars == <<vars, l, seen>>
Ev == Trace[l]

Expect(class, ok, got) == IF ok THEN TRUE ELSE PrintT(<<"MISMATCH", class, l, got>>)
More == l <= Len(Trace)
Consume == More /\ l' = l + 1
Silent == More /\ UNCHANGED l
Mark(c, k) == seen' = [seen EXCEPT ![c] = k]

TReset == /\ Consume /\ Ev.a = "Reset" /\ Start(Ev.dsp, Ev.df)
          /\ seen' = [c \in Caller |-> "none"]

(* Deliver is logged when Ballotbox.Vote returned; the mimic goroutine may already have run *)
TDeliver == /\ Consume /\ Ev.a = "Deliver"
            /\ Ev.c \in Deliv
            /\ UNCHANGED <<vars, seen>>
(* the mimic function returned: the delivery is over *)
TMimicRet == /\ Consume /\ Ev.a = "MimicRet"
             /\ pc[Ev.c] = "done"
             /\ UNCHANGED <<vars, seen>>
SCheck == /\ Silent /\ \E c \in Deliv : seen[c] = "none" /\ Check(c) /\ Mark(c, "looked")
TChecked == /\ Consume /\ Ev.a = "Checked"
            /\ seen[Ev.c] = "looked" /\ pc[Ev.c] = "checked"
            /\ Mark(Ev.c, "checked") /\ UNCHANGED vars
TSigned == /\ Consume /\ Ev.a = "Signed"
           /\ seen[Ev.c] = "checked"
           /\ Ev.s = dsp[Ev.c] /\ Ev.f = df[Ev.c] /\ Ev.local
           /\ Sign(Ev.c) /\ Mark(Ev.c, "signed")
TAtBcast == /\ Consume /\ Ev.a = "AtBcast"
            /\ seen[Ev.c] = "signed" /\ pc[Ev.c] = "signed"
            /\ Mark(Ev.c, "bcast") /\ UNCHANGED vars

THLookC == /\ Consume /\ Ev.a = "HLookC"
           /\ Ev.c \in Handler /\ seen[Ev.c] = "none"
           /\ Mark(Ev.c, "calling") /\ UNCHANGED vars
SHCheck == /\ Silent /\ \E c \in Handler : seen[c] = "calling" /\ Check(c) /\ Mark(c, "looked")
THLook == /\ Consume /\ Ev.a = "HLook"
          /\ seen[Ev.c] = "looked"
          /\ Ev.found = (pc[Ev.c] = "signed")
          /\ Ev.found => Ev.f = bl[Ev.c]
          /\ Mark(Ev.c, IF Ev.found THEN "signed" ELSE "checked") /\ UNCHANGED vars
THSign == /\ Consume /\ Ev.a = "HSign"
          /\ seen[Ev.c] = "checked" /\ Ev.s = dsp[Ev.c] /\ Ev.f = df[Ev.c]
          /\ Sign(Ev.c) /\ Mark(Ev.c, "signed")
TBcastC == /\ Consume /\ Ev.a = "BcastC"
           /\ seen[Ev.c] = "signed" /\ pc[Ev.c] = "signed"
           /\ Mark(Ev.c, "bcast") /\ UNCHANGED vars
TBcastR == /\ Consume /\ Ev.a = "BcastR"
           /\ pc[Ev.c] = "done" /\ UNCHANGED <<vars, seen>>
TAgain == /\ Consume /\ Ev.a = "Again"
          /\ Again(Ev.c) /\ Mark(Ev.c, "signed")

SSet == /\ Silent /\ \E c \in Caller : seen[c] = "bcast" /\ Set(c) /\ Mark(c, "set")
TSend == /\ Consume /\ Ev.a = "Send"
         /\ seen[Ev.c] = "set"
         /\ Ev.s = dsp[Ev.c] /\ Ev.f = out[Ev.c] /\ Ev.local
         /\ Send(Ev.c) /\ Mark(Ev.c, "sent")
         /\ Expect("NoEquivocation", \A x \in sent : x[1] = Ev.s => x[2] = Ev.f, <<Ev.c, Ev.s, Ev.f>>)

TraceInit == /\ dsp = [c \in Caller |-> CHOOSE s \in SP : TRUE] /\ df = [c \in Caller |-> CHOOSE f \in Fact : TRUE]
             /\ pc = [c \in Caller |-> "new"] /\ bl = [c \in Caller |-> None] /\ out = [c \in Caller |-> None]
             /\ pool = [s \in SP |-> None] /\ sent = {} /\ signed = {} /\ again = [h \in Handler |-> 0]
             /\ hist = <<>> /\ step = ""
             /\ l = 1 /\ seen = [c \in Caller |-> "none"]
TraceNext == \/ TReset \/ TDeliver \/ TMimicRet \/ SCheck \/ TChecked \/ TSigned \/ TAtBcast
             \/ THLookC \/ SHCheck \/ THLook \/ THSign \/ TBcastC \/ TBcastR \/ TAgain \/ SSet \/ TSend
TraceSpec == TraceInit /\ [][TraceNext]_tvars

ASSUME TLCSet(1, 0)
HighWater == TLCSet(1, IF l > TLCGet(1) THEN l ELSE TLCGet(1))
Accepted == \/ TLCGet(1) = Len(Trace) + 1
            \/ PrintT(<<"HW", TLCGet(1), Len(Trace)>>) /\ FALSE
=============================================================================
