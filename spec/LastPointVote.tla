---------------------------- MODULE LastPointVote ----------------------------
(* C06 - consensus progress is monotonic: the moves the ballot box makes ITSELF.   *)
(* LastPoint.tla covers the position as it is moved from outside (SetLastPoint,     *)
(* SetLastPointFromVoteproof, LastVoteproofsHandler.Set). The box also moves its    *)
(* own position while it VOTES (isaac/states/ballotbox.go):                         *)
(*   Vote(b)     Ballotbox.Vote -> isNewBallot -> voterecords.vote -> (goroutine)   *)
(*               countVoterecords of the ballot's record                            *)
(*   Count       Ballotbox.Count: countVoterecords of every unfinished record       *)
(*               above the position, lowest stage point first                       *)
(*   SetLast(p)  Ballotbox.SetLastPoint between votes (the states do that)          *)
(*   Learn       the suffrage of the voted height becomes known (until then ballots *)
(*               are kept unvalidated and nothing is counted)                       *)
(* countVoterecords (transcribed in CountRec): the record yields up to two          *)
(* voteproofs - one EMBEDDED in a stored ballot that passes the record's filter     *)
(* (isNewVoteproofWithSuffrageConfirmFunc: new by IsNewVoteproof, or ANY voteproof   *)
(* for a suffrage-confirm record while the position is not a majority) and the one   *)
(* COUNTED from the votes (tally over the suffrage) -, filters them once more and    *)
(* offers the last one to the position. The filter is looser than Before(): the      *)
(* statement only holds because the position is moved through SetLastPoint's own     *)
(* Before() check (Guard = "before"). With Guard = "filter" (the filtered voteproof  *)
(* is taken as it is) TLC finds the step back to an old non-suffrage-confirm         *)
(* majority (LastPointVote_cand.cfg): the check on the REAL box is therefore not     *)
(* vacuous, and every way of losing that guard is in the explored class.             *)
(*                                                                                  *)
(* A ballot is [n, k, f, e]: node, record key k = [h, r, k] with kind "I" (INIT),    *)
(* "S" (suffrage-confirm INIT) or "A" (ACCEPT), fact name, embedded voteproof given  *)
(* by its position (LastPoint!Zero = none). Voteproofs are identified with their     *)
(* position [h, r, s, m, c] as in LastPoint.tla. Expels are one set per history      *)
(* (every INIT / ACCEPT ballot and voteproof carries it, as after a real expel): the  *)
(* votes of the other nodes are tallied first, and an INIT draw with expels pending   *)
(* is held back (for ever here: the hold never expires). Invalid voteproofs and       *)
(* record recycling are C04/C05's subject and not modelled: an embedded voteproof is  *)
(* valid and carries the box's threshold.                                             *)
(*                                                                                  *)
(* Binding B (LastPointVoteTrace.tla): histories recorded from a real                *)
(* isaacstates.Ballotbox driven with really signed ballots (harness c06 "votes":     *)
(* every start position x every ballot x every embedded voteproof, also with the     *)
(* suffrage learnt late so that Count makes the move; every record voted to a         *)
(* decision from every start position; seeded consensus-like flows with late,         *)
(* duplicate and suffrage-confirm ballots) are replayed through these actions;        *)
(* the statement (LastPoint!StepOK) is evaluated on the REAL position before and     *)
(* after every call, the model's answer is compared as evidence.                     *)
EXTENDS Integers, FiniteSets, Sequences, TLC

CONSTANTS MaxH, MaxR,   \* ballots for heights 1..MaxH, rounds 0..MaxR
          NN0, T100,    \* suffrage size and threshold (tenths of a percent) of the closed model
          Facts,
          Ex0,          \* the nodes every INIT / ACCEPT ballot expels ({}: nobody)
          MaxOps,       \* bound on the number of calls
          StartAll,     \* TRUE: the box starts at every position (as after SetLastPoint on a fresh box)
          StartSuf,     \* initial values of "the suffrage is known" ({TRUE}: Learn never fires)
          EvpAny,       \* TRUE: a ballot embeds any voteproof; FALSE: none or one the protocol carries
          SymFirst,     \* TRUE: the first vote on a record is n0's for fact A (nodes and facts are interchangeable while Ex0 = {})
          WithSetLast,  \* SetLast is part of Next (redundant with StartAll for short behaviours)
          Guard         \* "before": as the code; "filter": the filtered voteproof is taken unchecked

LP == INSTANCE LastPoint WITH Rules <- {"B"}, Walk <- FALSE, rule <- "B", last <- 0, cand <- 0, step <- ""

INIT == 1
ACCEPT == 3
Zero == LP!Zero
IsZero(p) == LP!IsZero(p)

Pos  == {p \in LP!Pos : p.h >= 1}
VPs  == {p \in Pos : ~(p.c = 1 /\ p.m = 0)}     \* a suffrage-confirm voteproof is a majority
Keys == [h : 1..MaxH, r : 0..MaxR, k : {"I", "S", "A"}]
Nodes0 == {"n" \o ToString(i) : i \in 0..(NN0 - 1)}

Stage(k) == IF k.k = "A" THEN ACCEPT ELSE INIT
SP(k) == [h |-> k.h, r |-> k.r, s |-> Stage(k)]
IsSC(k) == k.k = "S"

(* the voteproof a ballot of key k carries in the protocol *)
Canon(k) ==
  LET P(h, r, s, m, c) == [h |-> h, r |-> r, s |-> s, m |-> m, c |-> c] IN
  (IF k.k = "S" THEN {P(k.h, k.r, INIT, 1, 0)}
   ELSE IF k.k = "A" THEN {P(k.h, k.r, INIT, 1, 0), P(k.h, k.r, INIT, 1, 1)}
   ELSE IF k.r = 0 THEN {P(k.h - 1, r2, ACCEPT, 1, 0) : r2 \in 0..MaxR}
   ELSE {P(k.h, k.r - 1, ACCEPT, 0, 0), P(k.h, k.r - 1, INIT, 0, 0)}) \cap VPs

(* an ACCEPT ballot can only embed an INIT voteproof (its type) *)
Embeddable(k) == {Zero} \cup {e \in (IF EvpAny THEN VPs ELSE Canon(k)) : k.k = "A" => e.s = INIT}
Ballots == {b \in [n : Nodes0, k : Keys, f : Facts, e : VPs \cup {Zero}] : b.e \in Embeddable(b.k)}

---------------------------------------------------------------------------------
(* the box as a value: st = [last, votes, fin, suf, nn, tt, ex]                    *)
(*   votes  the ballots kept in records (voterecords.voted / ballots / vps)        *)
(*   fin    keys of finished records (voterecords.vp # nil)                        *)
(*   suf    the suffrage is known                                                  *)
(*   nn, tt suffrage size, threshold                                               *)
(*   ex     the expelled nodes named by every INIT / ACCEPT ballot of the history   *)
RecVotes(V, k) == {v \in V : v.k = k}

Min2(a, b) == IF a < b THEN a ELSE b
Req(n, t) == (n * t + 999) \div 1000                        \* base.Threshold.Threshold
(* base.FindVoteResult over the votes S of one record *)
Tally(S, n, t) ==
  LET th   == Min2(Req(n, t), n)
      tot  == Cardinality(S)
      F    == {v.f : v \in S}
      cnt(f) == Cardinality({v \in S : v.f = f})
      miss == IF tot >= n THEN 0 ELSE n - tot
  IN IF tot = 0 THEN "notyet"
     ELSE IF \E f \in F : cnt(f) >= th THEN "majority"
     ELSE IF \A f \in F : cnt(f) + miss < th THEN "draw"
     ELSE "notyet"

(* voterecords.countFromVoted: countWithExpels first (the votes of the nodes the     *)
(* ballots do not expel; at 100% over the rest when more nodes are expelled than the  *)
(* default threshold tolerates), then the plain tally of all votes; an INIT draw      *)
(* while expels are pending is held back                                              *)
TallyX(S, st, k) ==
  LET x   == Cardinality(st.ex)
      big == x > st.nn - Req(st.nn, 670)
      W   == {v \in S : v.n \notin st.ex}
      tw  == IF big THEN Tally(W, st.nn - x, 1000) ELSE Tally(W, st.nn, st.tt)
      enough == Cardinality(W) >= (IF big THEN st.nn - x ELSE Min2(Req(st.nn, st.tt), st.nn))
  IN IF st.ex # {} /\ ~IsSC(k) /\ enough /\ tw = "majority" THEN "majority"
     ELSE Tally(S, st.nn, st.tt)
Held(st, k, t) == st.ex # {} /\ k.k = "I" /\ t = "draw"

(* Ballotbox.isNewBallot / the check voterecords.vote and count repeat *)
IsNewB(l, k) == LP!Before(l, SP(k), IsSC(k))
(* isNewVoteproofWithSuffrageConfirmFunc(isc); an empty position lets everything through *)
Filter(isc, l, p) == \/ IsZero(l)
                     \/ LP!IsNewVoteproofByPoint(l, p, p.m = 1, p.c = 1)
                     \/ (isc /\ l.m = 0)
(* how countVoterecords moves the position to the last filtered voteproof *)
Move(l, p) == IF Guard = "filter" THEN p
              ELSE IF LP!Before(l, p, p.c = 1) THEN p ELSE l

(* Ballotbox.clean: records below the position are dropped *)
Clean(st) == IF IsZero(st.last) THEN st
             ELSE LET gone == {k \in {v.k : v \in st.votes} \cup st.fin : LP!SPCmp(SP(k), st.last) < 0} IN
                  [st EXCEPT !.votes = {v \in @ : v.k \notin gone}, !.fin = @ \ gone]

(* countVoterecords(record k): the set of possible outcomes (which of several      *)
(* forwardable embedded voteproofs is met first is a map's iteration order)         *)
CountRec(st, k) ==
  LET l   == st.last
      isc == IsSC(k)
      S   == RecVotes(st.votes, k)
  IN IF ~st.suf \/ ~IsNewB(l, k) \/ k \in st.fin \/ S = {} THEN {st}
     ELSE
       LET E  == {v.e : v \in {w \in S : w.e # Zero /\ Filter(isc, l, w.e)}}
           t  == TallyX(S, st, k)
           cv == IF t = "notyet" \/ Held(st, k, t) THEN Zero
                 ELSE [h |-> k.h, r |-> k.r, s |-> Stage(k),
                       m |-> IF t = "majority" THEN 1 ELSE 0,
                       c |-> IF t = "majority" /\ isc THEN 1 ELSE 0]
           fin2  == IF cv = Zero THEN st.fin ELSE st.fin \cup {k}
           cpass == cv # Zero /\ Filter(isc, l, cv)
           Fwd   == IF E = {} THEN {Zero} ELSE E
       IN { LET lastvp == IF cpass THEN cv ELSE e IN
            IF lastvp = Zero THEN [st EXCEPT !.fin = fin2]
            ELSE Clean([st EXCEPT !.fin = fin2, !.last = Move(l, lastvp)]) : e \in Fwd }

(* Ballotbox.Vote: set of [st, voted] *)
VoteOut(st, b) ==
  LET k == b.k IN
  IF ~IsNewB(st.last, k) THEN {[st |-> st, voted |-> FALSE]}
  ELSE IF k \in st.fin \/ \E v \in RecVotes(st.votes, k) : v.n = b.n
       THEN {[st |-> st, voted |-> FALSE]}       \* (an embedded voteproof may still be forwarded; the position stays)
  ELSE LET st1 == [st EXCEPT !.votes = @ \cup {b}] IN
       {[st |-> s, voted |-> TRUE] : s \in CountRec(st1, k)}

(* Ballotbox.Count: unfinished records above the position, sorted by stage point    *)
(* (the order of an INIT and a suffrage-confirm record of one point is arbitrary)   *)
Pending(st) == {k \in {v.k : v \in st.votes} :
                  k \notin st.fin /\ (IsZero(st.last) \/ LP!SPCmp(SP(k), st.last) > 0)}
RECURSIVE CountSeq(_, _)
CountSeq(SS, P) ==
  IF P = {} THEN SS
  ELSE LET firsts == {k \in P : \A j \in P : LP!SPCmp(SP(k), SP(j)) <= 0} IN
       UNION {CountSeq(UNION {CountRec(s, k) : s \in SS}, P \ {k}) : k \in firsts}
CountOut(st) == CountSeq({st}, Pending(st))

SetLastOut(st, p) == [st EXCEPT !.last = IF LP!Before(@, p, p.c = 1) THEN p ELSE @]

---------------------------------------------------------------------------------
VARIABLES box,   \* the box value
          ops,   \* calls so far
          act    \* the last call: [a, b, voted]
vars == <<box, ops, act>>

NoBallot == [n |-> "", k |-> [h |-> 0, r |-> 0, k |-> ""], f |-> "", e |-> Zero]
Act(a, b, voted) == [a |-> a, b |-> b, voted |-> voted]

Init == /\ box \in {[last |-> l, votes |-> {}, fin |-> {}, suf |-> s, nn |-> NN0, tt |-> T100, ex |-> Ex0] :
                       l \in (IF StartAll THEN Pos \cup {Zero} ELSE {Zero}), s \in StartSuf}
        /\ ops = 0
        /\ act = Act("Init", NoBallot, FALSE)

Vote(b) == /\ ops < MaxOps
           /\ (SymFirst /\ RecVotes(box.votes, b.k) = {}) => (b.n = "n0" /\ b.f = "A")
           /\ \E o \in VoteOut(box, b) : box' = o.st /\ act' = Act("Vote", b, o.voted)
           /\ ops' = ops + 1
Count == /\ ops < MaxOps
         /\ \E s \in CountOut(box) : box' = s
         /\ act' = Act("Count", NoBallot, FALSE)
         /\ ops' = ops + 1
SetLast(p) == /\ ops < MaxOps
              /\ box' = SetLastOut(box, p)
              /\ act' = Act("SetLast", NoBallot, FALSE)
              /\ ops' = ops + 1
Learn == /\ ~box.suf
         /\ box' = [box EXCEPT !.suf = TRUE]
         /\ act' = Act("Learn", NoBallot, FALSE)
         /\ UNCHANGED ops

Next == (\E b \in Ballots : Vote(b)) \/ Count \/ (WithSetLast /\ \E p \in Pos : SetLast(p)) \/ Learn
Spec == Init /\ [][Next]_vars

View == <<box, ops>>

TypeOK == /\ box.last \in Pos \cup {Zero}
          /\ box.votes \subseteq Ballots
          /\ box.fin \subseteq Keys
          /\ \A k \in Keys : Cardinality({v.n : v \in RecVotes(box.votes, k)}) = Cardinality(RecVotes(box.votes, k))

(* the statement, sentences 1 and 3, on every move of the position whoever makes it *)
MoveOK == [][box'.last # box.last => LP!StepOK(box.last, box'.last)]_vars
(* sentence 2 for ballots: a ballot for a lower height is never taken *)
LowerBallotRejected ==
  [][(act'.a = "Vote" /\ ~IsZero(box.last) /\ act'.b.k.h < box.last.h) => (~act'.voted /\ box'.last = box.last)]_vars
(* a call that does not take the ballot does not move the position *)
RejectedKeeps == [][(act'.a = "Vote" /\ ~act'.voted) => box'.last = box.last]_vars

(* not vacuous (LastPointVote_vac.cfg, all four expected to be violated; pairwise      *)
(* disjoint so that TLC -continue reports each): the box does move its position by     *)
(* counting, backwards by voting (for a suffrage-confirm result), forwards to an        *)
(* embedded and to a counted voteproof                                                  *)
Back(a, b) == ~IsZero(a) /\ b.h = a.h /\ LP!Earlier(b, a)
NeverMovesByCount == [][~(act'.a = "Count" /\ box'.last # box.last)]_vars
NeverBackByVote   == [][~(act'.a = "Vote" /\ Back(box.last, box'.last))]_vars
NeverToEmbedded   == [][~(act'.a = "Vote" /\ box'.last # box.last /\ ~Back(box.last, box'.last)
                           /\ box'.last = act'.b.e)]_vars
NeverToCounted    == [][~(act'.a = "Vote" /\ box'.last # box.last /\ ~Back(box.last, box'.last)
                           /\ box'.last # act'.b.e)]_vars
=============================================================================
