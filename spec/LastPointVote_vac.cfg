SPECIFICATION Spec
CONSTANTS
  MaxH = 1
  MaxR = 1
  NN0 = 2
  T100 = 1000
  Ex0 = {}
  Facts = {"A", "B"}
  MaxOps = 2
  StartAll = TRUE
  StartSuf = {TRUE, FALSE}
  EvpAny = FALSE
  SymFirst = TRUE
  WithSetLast = FALSE
  Guard = "before"
VIEW View
PROPERTIES NeverMovesByCount NeverBackByVote NeverToEmbedded NeverToCounted
CHECK_DEADLOCK FALSE
