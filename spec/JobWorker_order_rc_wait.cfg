SPECIFICATION Spec
CONSTANTS
  NJobs = 1
  SemSize = 1
  Kind = "base"
  MayFail = {1}
  EndOrder = "release-cancel"
  AcquireAnswer = "cause"
  ParentMay = FALSE
INVARIANTS WaitNilNoFailure
CHECK_DEADLOCK FALSE
