SPECIFICATION Spec
CONSTANTS
  MaxC = 2
  MaxH = 2
  Sizes = {0, 1, 3}
  Tamper = FALSE
  LenVals = {}
  CutOffsets = {1, 2, 3}
  CutWindow = 3
VIEW view
INVARIANTS TypeOK ReadBackIdentically ResponseWhereBodyExpected NoAdversaryNoStop GrammarRoundTrip
CHECK_DEADLOCK FALSE
