SPECIFICATION Spec
CONSTANTS
  MaxH = 2
  MaxR = 2
  Walk = FALSE
  Rules = {"B", "V"}
VIEW View
PROPERTIES NeverBack NeverReplace
CHECK_DEADLOCK FALSE
