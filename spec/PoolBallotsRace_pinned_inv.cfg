SPECIFICATION Spec
CONSTANTS
  Locked = FALSE
  MaxReads = 2
INVARIANTS OneWinner StableRead
CHECK_DEADLOCK FALSE
