SPECIFICATION Spec
CONSTANTS
  Member = {"n1", "n2", "n3", "n4", "n5", "n6", "n7"}
  Outsider = {"x"}
  Local = "n1"
  T10 = 670
  OpSet <- OpsTie
  InState <- NoFacts
  Heights = {1}
  MaxCalls = 5
  MaxFinds = 1
  Sim = FALSE
  Level = "abstract"
VIEW view
INVARIANTS TypeOK NeverLocal NoSelfSignature PoolIsUnionOfVotes ConsensusAccepts Idempotent
CHECK_DEADLOCK FALSE
