SPECIFICATION Spec
CONSTANTS
  MaxC = 1
  MaxH = 2
  Sizes = {0, 3}
  Tamper = FALSE
  LenVals = {}
  CutOffsets = {1, 2, 3}
  CutWindow = 2
VIEW view
INVARIANTS TypeOK ReadBackIdentically ResponseWhereBodyExpected NoAdversaryNoStop GrammarRoundTrip
CHECK_DEADLOCK FALSE
