SPECIFICATION Spec
CONSTANTS
  MaxQ = 7
  NFacts = 3
  Extra = 2
  T10Set = {510, 550, 600, 667, 670, 750, 900, 1000}
INVARIANTS TypeOK AtMostOneMajority DecidedWhenFull ReqIsCeiling
PROPERTIES Stable
CHECK_DEADLOCK FALSE
