------------------------------ MODULE Framing ------------------------------
(* C29 - length-prefixed framing of util/bytes.go.                          *)
(*                                                                          *)
(* What is modelled.  A writer puts a list of byte strings on a wire        *)
(* (WriteLengthedSlice / NewLengthedBytesSlice, or BytesFrameWriter:        *)
(* 2 version bytes, header list, then a raw body or lengthed bodies); an    *)
(* adversary may rewrite a length field, flip bits of a byte or cut the     *)
(* wire; a reader parses it (ReadLengthedBytesSlice on a buffer,            *)
(* ReadLengthedSlice on a stream, BytesFrameReader New/Header/Body/         *)
(* Lengthed).  The wire is a sequence of real byte values (lengths are      *)
(* 8 bytes big endian), so that misaligned reads after a wrong length are   *)
(* judged exactly.  Parse / FrameParse are the *reference* readers written  *)
(* from the grammar, not from the code; the properties at the end are the   *)
(* statement of C29 and TLC checks the reference against them.  Lists too   *)
(* large to enumerate byte by byte (32767, 32768, 40000 items; 64 KiB       *)
(* items) are modelled as size classes: a uniform list is the count field   *)
(* (real bytes) plus the number of complete items that follow ("ulist").    *)
(*                                                                          *)
(* Binding A: every final state (pc = "d") is a test case.  `step` carries  *)
(* the wire, the value the reader must return and chunkings derived from    *)
(* the field layout; harness/internal/c29 replays them on the real readers  *)
(* over a chunking io.Reader and runs the real writers on `written`.        *)
EXTENDS Integers, Sequences, FiniteSets, TLC, Json

CONSTANTS
  ByteVals,     \* data byte values of written items
  MaxItems,     \* written lists have at most this many items ...
  MaxItemLen,   \* ... of at most this many bytes (byte-exact part)
  Trailers,     \* byte strings that may follow a list on the wire ("left")
  HdrMaxItems,  \* frame headers: at most this many items
  RawBodies,    \* raw frame bodies
  LenBodies,    \* lengthed frame bodies (sequences of byte strings)
  LenVals,      \* names of values an adversary writes into a length field
  FlipMasks,    \* xor masks for single byte flips, subset of {1, 128, 255}
  MaxTamper,    \* number of adversary actions per behaviour
  UShapes,      \* size classes: <<item count, item size>> of uniform lists
  UFills        \* byte values filling the items of uniform lists

SeqsUpTo(S, n) == UNION {[1..k -> S] : k \in 0..n}
Items   == SeqsUpTo(ByteVals, MaxItemLen)
Lists   == SeqsUpTo(Items, MaxItems)
Headers == SeqsUpTo(Items, HdrMaxItems)

-----------------------------------------------------------------------------
(* numbers on the wire: 8 bytes, big endian.  TLC integers are 32 bit, so a *)
(* decoded length is either a value below 2^31 or "huge".                   *)
Enc8(v) == <<0, 0, 0, 0, v \div 16777216, (v \div 65536) % 256, (v \div 256) % 256, v % 256>>
Dec8(b) == LET hg == (b[1] + b[2] + b[3] + b[4] > 0) \/ b[5] >= 128
           IN [huge |-> hg,
               v    |-> IF hg THEN 0 ELSE ((b[5] * 256 + b[6]) * 256 + b[7]) * 256 + b[8]]

NamedLen(name, cur) ==
  CASE name = "zero" -> Enc8(0)
    [] name = "dec"  -> IF cur > 0 THEN Enc8(cur - 1) ELSE Enc8(0)
    [] name = "inc"  -> Enc8(cur + 1)
    [] name = "i31m" -> <<0, 0, 0, 0, 127, 255, 255, 255>>   \* 2^31-1: the largest item the readers take
    [] name = "i31"  -> <<0, 0, 0, 0, 128, 0, 0, 0>>         \* 2^31
    [] name = "i63"  -> <<128, 0, 0, 0, 0, 0, 0, 0>>         \* 2^63
    [] name = "max"  -> <<255, 255, 255, 255, 255, 255, 255, 255>>

Xor(b, m) == CASE m = 1   -> IF b % 2 = 0 THEN b + 1 ELSE b - 1
               [] m = 128 -> IF b < 128 THEN b + 128 ELSE b - 128
               [] m = 255 -> 255 - b

-----------------------------------------------------------------------------
(* the grammar:  List = U64(count) Item^count ;  Item = U64(n) byte^n       *)
EncItem(it) == Enc8(Len(it)) \o it
RECURSIVE EncItems(_)
EncItems(l) == IF Len(l) = 0 THEN <<>> ELSE EncItem(Head(l)) \o EncItems(Tail(l))
Encode(l) == Enc8(Len(l)) \o EncItems(l)

(* field layout of what a writer wrote: kind and size of every field        *)
(* C count, L item length, D item data, V version, T trailer / raw body,    *)
(* BL / BD length and data of a lengthed body                               *)
Fld(k, n) == [k |-> k, n |-> n]
RECURSIVE LayItems(_, _, _)
LayItems(l, kl, kd) == IF Len(l) = 0 THEN <<>>
                       ELSE <<Fld(kl, 8), Fld(kd, Len(Head(l)))>> \o LayItems(Tail(l), kl, kd)
LayList(l) == <<Fld("C", 8)>> \o LayItems(l, "L", "D")

Err == [ok |-> FALSE, list |-> <<>>, left |-> <<>>]

(* reference reader: the well-formed prefix and what is left, or Err        *)
RECURSIVE ParseItems(_, _, _)
ParseItems(n, s, acc) ==
  IF n = 0 THEN [ok |-> TRUE, list |-> acc, left |-> s]
  ELSE IF Len(s) < 8 THEN Err
  ELSE LET d == Dec8(SubSeq(s, 1, 8)) IN
       IF d.huge \/ d.v > Len(s) - 8 THEN Err
       ELSE ParseItems(n - 1, SubSeq(s, 9 + d.v, Len(s)), Append(acc, SubSeq(s, 9, 8 + d.v)))

Parse(s) ==
  IF Len(s) < 8 THEN Err
  ELSE LET d == Dec8(SubSeq(s, 1, 8)) IN
       IF d.huge \/ d.v > (Len(s) - 8) \div 8     \* every item needs its 8 length bytes
       THEN Err
       ELSE ParseItems(d.v, SubSeq(s, 9, Len(s)), <<>>)

(* lengthed bodies: items until the wire ends; ok = it ended at an item edge *)
RECURSIVE ParseBodies(_, _)
ParseBodies(s, acc) ==
  IF Len(s) = 0 THEN [ok |-> TRUE, items |-> acc]
  ELSE IF Len(s) < 8 THEN [ok |-> FALSE, items |-> acc]
  ELSE LET d == Dec8(SubSeq(s, 1, 8)) IN
       IF d.huge \/ d.v > Len(s) - 8 THEN [ok |-> FALSE, items |-> acc]
       ELSE ParseBodies(SubSeq(s, 9 + d.v, Len(s)), Append(acc, SubSeq(s, 9, 8 + d.v)))

(* frame = 2 version bytes, header list, body *)
FrameParse(s) ==
  IF Len(s) < 2
  THEN [vok |-> FALSE, ver |-> <<>>, hok |-> FALSE, hlist |-> <<>>, raw |-> <<>>, lok |-> FALSE, litems |-> <<>>]
  ELSE LET h == Parse(SubSeq(s, 3, Len(s)))
           b == ParseBodies(h.left, <<>>)
       IN [vok |-> TRUE, ver |-> SubSeq(s, 1, 2), hok |-> h.ok, hlist |-> h.list, raw |-> h.left,
           lok |-> h.ok /\ b.ok, litems |-> IF h.ok THEN b.items ELSE <<>>]

-----------------------------------------------------------------------------
VARIABLES
  pc,       \* "w" nothing written, "t" on the wire (adversary may act), "d" read
  mode,     \* "list" | "frame" | "ulist"
  written,  \* what the writer was given
  wire,     \* bytes on the wire (ulist: the count field only)
  uni,      \* ulist: [have, size, fill, tail, tr] what follows the count field
  layout,   \* fields as written
  tlog,     \* adversary actions so far
  res,      \* what the reader returned
  step      \* output only
vars == <<pc, mode, written, wire, uni, layout, tlog, res, step>>
view == <<pc, mode, written, wire, uni, layout, tlog, res>>

NoUni == [have |-> 0, size |-> 0, fill |-> 0, tail |-> 0, tr |-> <<>>]
NoRes == [ok |-> FALSE]

Init == /\ pc = "w" /\ mode = "" /\ written = <<>> /\ wire = <<>> /\ uni = NoUni
        /\ layout = <<>> /\ tlog = <<>> /\ res = NoRes /\ step = ""

(* ---- writers ---- *)
WriteSlice(l, tr) ==          \* WriteLengthedSlice(w, l); then tr is written to the same stream
  /\ pc = "w"
  /\ pc' = "t" /\ mode' = "list"
  /\ written' = [list |-> l, tr |-> tr]
  /\ wire' = Encode(l) \o tr
  /\ layout' = LayList(l) \o <<Fld("T", Len(tr))>>
  /\ UNCHANGED <<uni, tlog, res, step>>

WriteFrame(h, bk, raw, bodies) ==   \* NewBytesFrameWriter; Header(h...); Writer().Write(raw) | Lengthed(b)*
  /\ pc = "w"
  /\ pc' = "t" /\ mode' = "frame"
  /\ written' = [hdr |-> h, bk |-> bk, raw |-> raw, bodies |-> bodies]
  /\ wire' = <<0, 0>> \o Encode(h) \o (IF bk = "raw" THEN raw ELSE EncItems(bodies))
  /\ layout' = <<Fld("V", 2)>> \o LayList(h)
                 \o (IF bk = "raw" THEN <<Fld("T", Len(raw))>> ELSE LayItems(bodies, "BL", "BD"))
  /\ UNCHANGED <<uni, tlog, res, step>>

WriteUniform(c, n, b, tr) ==  \* WriteLengthedSlice of c items, each n bytes b
  /\ pc = "w"
  /\ pc' = "t" /\ mode' = "ulist"
  /\ written' = [count |-> c, size |-> n, fill |-> b, tr |-> tr]
  /\ wire' = Enc8(c)
  /\ uni' = [have |-> c, size |-> n, fill |-> b, tail |-> 0, tr |-> tr]
  /\ layout' = <<Fld("C", 8)>>
  /\ UNCHANGED <<tlog, res, step>>

(* ---- adversary ---- *)
Offset(i) == LET S[j \in 0..Len(layout)] == IF j = 0 THEN 0 ELSE S[j-1] + layout[j].n IN S[i-1]
LenKinds == {"C", "L", "BL"}
FieldAt(p) == CHOOSE i \in DOMAIN layout : Offset(i) < p /\ p <= Offset(i) + layout[i].n
IsEdge(n) == \E i \in DOMAIN layout : Offset(i) = n
Truncated == Len(tlog) > 0 /\ tlog[Len(tlog)].a \in {"trunc", "utrunc"}
MayTamper == pc = "t" /\ Len(tlog) < MaxTamper /\ ~Truncated

Log(a, f, i, x) == [a |-> a, f |-> f, i |-> i, x |-> x]

SetLen(i, name) ==            \* rewrite the i-th field (a length) of the wire
  /\ MayTamper
  /\ layout[i].k \in LenKinds
  /\ LET off == Offset(i)
         cur == Dec8(SubSeq(wire, off + 1, off + 8))
         new == NamedLen(name, IF cur.huge THEN 0 ELSE cur.v)
     IN /\ ~cur.huge
        /\ new # SubSeq(wire, off + 1, off + 8)
        /\ wire' = SubSeq(wire, 1, off) \o new \o SubSeq(wire, off + 9, Len(wire))
  /\ tlog' = Append(tlog, Log("set", layout[i].k, i, name))
  /\ UNCHANGED <<pc, mode, written, uni, layout, res, step>>

Flip(p, m) ==                 \* xor one byte
  /\ MayTamper
  /\ wire' = [wire EXCEPT ![p] = Xor(@, m)]
  /\ tlog' = Append(tlog, Log("flip", layout[FieldAt(p)].k, p, ToString(m)))
  /\ UNCHANGED <<pc, mode, written, uni, layout, res, step>>

Truncate(n) ==                \* the wire ends after n bytes
  /\ MayTamper /\ mode # "ulist"
  /\ n < Len(wire)
  /\ wire' = SubSeq(wire, 1, n)
  /\ tlog' = Append(tlog, Log("trunc", IF IsEdge(n) THEN "edge" ELSE layout[FieldAt(n + 1)].k, n, ""))
  /\ UNCHANGED <<pc, mode, written, uni, layout, res, step>>

UTruncate(h, t) ==            \* uniform list: h complete items and t bytes of the next one remain
  /\ MayTamper /\ mode = "ulist"
  /\ h < uni.have /\ t < 8 + uni.size
  /\ uni' = [uni EXCEPT !.have = h, !.tail = t, !.tr = <<>>]
  /\ tlog' = Append(tlog, Log("utrunc", IF t = 0 THEN "edge" ELSE IF t < 8 THEN "L" ELSE "D", h, ToString(t)))
  /\ UNCHANGED <<pc, mode, written, wire, layout, res, step>>

(* ---- readers (reference) ---- *)
UParse == LET d == Dec8(wire) IN
          IF d.huge \/ d.v > uni.have THEN [ok |-> FALSE, count |-> 0]
          ELSE [ok |-> TRUE, count |-> d.v]

(* chunkings derived from the field layout; the harness delivers the wire in *)
(* chunks of these sizes (and everything after the plan in one chunk)        *)
RECURSIVE SplitLens(_)
SplitLens(lay) == IF Len(lay) = 0 THEN <<>>
                  ELSE (IF Head(lay).k \in LenKinds THEN <<3, 5>>
                        ELSE IF Head(lay).n > 0 THEN <<Head(lay).n>> ELSE <<>>) \o SplitLens(Tail(lay))
RECURSIVE Whole(_)
Whole(lay) == IF Len(lay) = 0 THEN <<>>
              ELSE (IF Head(lay).n > 0 THEN <<Head(lay).n>> ELSE <<>>) \o Whole(Tail(lay))
Plans == [all   |-> <<Len(wire)>>,
          one   |-> [i \in 1..Len(wire) |-> 1],
          tok   |-> Whole(layout),
          inlen |-> SplitLens(layout)]

Out ==
  IF pc # "d" THEN ""
  ELSE IF mode = "list" THEN
    ToJson([m |-> "list", w |-> written.list, tr |-> written.tr, wire |-> wire, t |-> tlog,
            ok |-> res.ok, list |-> res.list, left |-> res.left, plans |-> Plans])
  ELSE IF mode = "frame" THEN
    ToJson([m |-> "frame", hdr |-> written.hdr, bk |-> written.bk, raw |-> written.raw,
            bodies |-> written.bodies, wire |-> wire, t |-> tlog,
            vok |-> res.vok, ver |-> res.ver, hok |-> res.hok, hlist |-> res.hlist, rraw |-> res.raw,
            lok |-> res.lok, litems |-> res.litems, plans |-> Plans])
  ELSE
    ToJson([m |-> "ulist", c |-> written.count, n |-> uni.size, fill |-> uni.fill, tr |-> uni.tr,
            wire |-> wire, have |-> uni.have, tail |-> uni.tail, t |-> tlog,
            ok |-> res.ok, count |-> res.count])

Read ==
  /\ pc = "t"
  /\ pc' = "d"
  /\ res' = CASE mode = "list"  -> Parse(wire)
              [] mode = "frame" -> FrameParse(wire)
              [] mode = "ulist" -> UParse
  /\ UNCHANGED <<mode, written, wire, uni, layout, tlog>>
  /\ step' = Out'

UTruncPoints == {<<h, t>> \in ({0, 1, uni.have - 1} \cap 0..(uni.have - 1)) \X
                              {0, 1, 7, 8, 8 + uni.size - 1} : t < 8 + uni.size}

Next ==
  \/ /\ pc = "w"
     /\ \/ \E l \in Lists, tr \in Trailers : WriteSlice(l, tr)
        \/ \E h \in Headers : \/ \E raw \in RawBodies : WriteFrame(h, "raw", raw, <<>>)
                              \/ \E bs \in LenBodies : WriteFrame(h, "len", <<>>, bs)
        \/ \E sh \in UShapes, b \in UFills, tr \in Trailers : WriteUniform(sh[1], sh[2], b, tr)
  \/ /\ MayTamper
     /\ \/ \E i \in DOMAIN layout, name \in LenVals : SetLen(i, name)
        \/ \E p \in DOMAIN wire, m \in FlipMasks : Flip(p, m)
        \/ \E n \in 0..(Len(wire) - 1) : Truncate(n)
        \/ \E ht \in UTruncPoints : UTruncate(ht[1], ht[2])
  \/ Read

Spec == Init /\ [][Next]_vars

-----------------------------------------------------------------------------
(* The statement of C29 on the reference readers.                           *)
Done == pc = "d"
Untouched == tlog = <<>>
IsPrefix(p, s) == Len(p) <= Len(s) /\ SubSeq(s, 1, Len(p)) = p

(* "Any list written with the framing reads back identically"               *)
RoundTrip ==
  (Done /\ Untouched) =>
     CASE mode = "list"  -> res.ok /\ res.list = written.list /\ res.left = written.tr
       [] mode = "frame" -> /\ res.vok /\ res.ver = <<0, 0>> /\ res.hok /\ res.hlist = written.hdr
                            /\ written.bk = "raw" => res.raw = written.raw
                            /\ written.bk = "len" => res.lok /\ res.litems = written.bodies
       [] mode = "ulist" -> res.ok /\ res.count = written.count

(* "never a success that drops or invents data": what a reader returns is   *)
(* exactly what the wire begins with                                         *)
Sound ==
  Done =>
     CASE mode = "list"  -> res.ok => wire = Encode(res.list) \o res.left
       [] mode = "frame" -> /\ res.hok => wire = res.ver \o Encode(res.hlist) \o res.raw
                            /\ res.lok => res.raw = EncItems(res.litems)
       [] mode = "ulist" -> res.ok => res.count <= uni.have /\ Dec8(wire).v = res.count

(* "malformed input yields an error" - and only malformed input does: when  *)
(* the reader fails no list of the universe encodes to a prefix of the wire *)
Complete ==
  (Done /\ mode = "list" /\ ~res.ok) => \A l \in Lists : ~IsPrefix(Encode(l), wire)

(* "truncated input yields an error" *)
TruncatedIsError ==
  (Done /\ Len(tlog) = 1 /\ tlog[1].a \in {"trunc", "utrunc"}) =>
     CASE mode = "list"  -> tlog[1].i < Len(Encode(written.list)) => ~res.ok
       [] mode = "frame" -> /\ tlog[1].i < 2 + Len(Encode(written.hdr)) => ~res.hok
                            /\ (written.bk = "len" /\ tlog[1].f \in {"BL", "BD"}) => ~res.lok
       [] mode = "ulist" -> ~res.ok

(* constant values the .cfg files name (a cfg cannot write tuples) *)
TrailersDef   == {<<>>, <<7>>}
RawBodiesDef  == {<<>>, <<9, 0>>}
LenBodiesDef  == {<<>>, << <<>> >>, << <<9>> >>, << <<9>>, <<>> >>}
(* 32767 is the largest count the readers document; 40000 and 64 KiB are the statement's bounds *)
UShapesQuick  == {<<0, 0>>, <<1, 0>>, <<1, 1>>, <<3, 2>>, <<1, 65536>>, <<3, 65536>>,
                  <<32767, 1>>, <<32768, 0>>, <<40000, 2>>}
UShapesBig    == {sh \in {0, 1, 2, 3, 32766, 32767, 32768, 40000} \X {0, 1, 2, 65536} :
                    sh[2] < 65536 \/ sh[1] <= 3}
LenBodiesBig  == LenBodiesDef \cup {<< <<>>, <<9, 0>> >>, << <<0>>, <<255, 9>>, <<>> >>}

TypeOK == /\ pc \in {"w", "t", "d"}
          /\ \A i \in DOMAIN wire : wire[i] \in 0..255
          /\ Len(tlog) <= MaxTamper
=============================================================================
