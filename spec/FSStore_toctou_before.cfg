SPECIFICATION Spec
CONSTANTS
  Writers = {"w1", "w2"}
  Heights = {1}
  Shapes = {"full"}
  MaxCrash = 0
  Concurrent = TRUE
  Uploads = FALSE
  CheckAFixed = TRUE
  SaveRmForeign = TRUE
  SameHeight = TRUE
VIEW view
CHECK_DEADLOCK FALSE
INVARIANTS FirstSurvives
