SPECIFICATION Spec
CONSTANTS
  Lens = {1, 2, 3, 4}
  Limits = {1, 2, 3, 4, 5}
  PrevKinds = {"nil", "map"}
  PrevH = 4
  ScenKinds = {"valid", "wrongprev", "altered", "wrongheight", "swap", "error"}
  ScenPos = {0, 1, 2, 3, 4, 5}
  Variants = {"fixed"}
  Interleave = TRUE
  Emit = "none"
VIEW view
INVARIANTS TypeOK AcceptOnlyLinked ValidAccepted NoPanic CalledAreArrived FilledWhenAccepted
PROPERTIES Terminates
CHECK_DEADLOCK FALSE
