SPECIFICATION Spec
CONSTANTS
  World = "A"
  MaxOps = 3
  Workers = {2, 64}
  CatIds = {"j1", "j3", "j12", "j13", "jx2", "cx1", "cx2", "cx1b", "cc2", "d2", "d4", "d2b", "e1", "e2", "e1b", "p2", "p0", "pkey", "w2a"}
INVARIANTS Confluent ResultsOnce WorkerBound WorldOK
VIEW View
CHECK_DEADLOCK FALSE
