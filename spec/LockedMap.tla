----------------------------- MODULE LockedMap -----------------------------
(* C32 - the concurrent maps and locked values of /repo/util/lock.go            *)
(* (SingleLockedMap, ShardedMap, NewDeepShardedMap, Locked[T]) as the           *)
(* SEQUENTIAL object the statement compares them with: a map Key -> Val, a      *)
(* closed flag, and for every operation of the LockedMap interface the answer   *)
(* a sequential map gives. Written from the statement and the interface, not    *)
(* from the locking code.                                                        *)
(*                                                                               *)
(* A call is a record [op, k, md, v]; callbacks are taken from a fixed menu     *)
(* (md) so that the answer is a function of the state:                           *)
(*   Set / SetOrRemove   md = "set" (store v) | "inc" (store old+1, v if absent) *)
(*                       | "rm" (SetOrRemove: remove) | "ign" (ErrLockedSetIgnore)*)
(*                       | "err" (some error)                                    *)
(*   GetOrCreate         md = "val" (create v) | "ign" | "err"                   *)
(*   Remove              md = "ok" | "ign" | "err"                               *)
(* The answer is a tuple of integers (code 0 = callback ran / plain answer,     *)
(* 1 = closed error, 2 = ignored, 3 = callback error; -1 = not constrained).     *)
(* A Locked[T] is the same object with the single key "k1" (found = not empty).  *)
(*                                                                               *)
(* Binding B (LockedMapTrace.tla): recorded concurrent histories of the real    *)
(* objects are searched for a linearization by TLC, one internal Lin(c) step    *)
(* per call between its Call and Ret events.                                     *)
EXTENDS Integers, FiniteSets, Sequences, TLC

CONSTANTS NK,        \* number of keys: "k1" .. "k<NK>" (a Locked[T] uses the key "k1" only)
          MaxVal     \* values are 1..MaxVal

Keys == SubSeq(<<"k1", "k2", "k3", "k4">>, 1, NK)

NoVal == 0
Val == 1..MaxVal
KeySet == {Keys[i] : i \in 1..Len(Keys)}
Wild == -1

VARIABLES m,        \* KeySet -> Val \cup {NoVal}
          closed
mvars == <<m, closed>>

Init == m = [k \in KeySet |-> NoVal] /\ closed = FALSE

B(b) == IF b THEN 1 ELSE 0
Inc(old, v) == IF old = NoVal THEN v ELSE (old % MaxVal) + 1
EmptyMap == [k \in KeySet |-> NoVal]

(* The sequential semantics is written over an explicit map mm (KeySet -> Val \cup {NoVal}), so *)
(* that the implementation-level layer (LockedMapShards.tla: one inner map per shard slot) can  *)
(* apply the same definitions to an inner map; the object of the statement is mm = m.            *)
HasIn(mm, k) == mm[k] # NoVal
SizeIn(mm) == Cardinality({k \in KeySet : HasIn(mm, k)})
(* the value a "set"/"inc" callback hands back *)
NewValIn(mm, c) == IF c.md = "inc" THEN Inc(mm[c.k], c.v) ELSE c.v

(* ---- state after the call (open map) ---- *)
AfterIn(mm, c) ==
  LET put(k, v) == [mm EXCEPT ![k] = v]
      del(k) == [mm EXCEPT ![k] = NoVal] IN
  CASE c.op = "SetValue"    -> put(c.k, c.v)
    [] c.op = "RemoveValue" -> del(c.k)
    [] c.op = "GetOrCreate" -> IF ~HasIn(mm, c.k) /\ c.md = "val" THEN put(c.k, c.v) ELSE mm
    [] c.op = "Set"         -> IF c.md \in {"set", "inc"} THEN put(c.k, NewValIn(mm, c)) ELSE mm
    [] c.op = "Remove"      -> IF c.md = "ok" THEN del(c.k) ELSE mm
    [] c.op = "SetOrRemove" -> IF c.md \in {"set", "inc"} THEN put(c.k, NewValIn(mm, c))
                               ELSE IF c.md = "rm" THEN del(c.k) ELSE mm
    [] c.op \in {"Empty", "Close"} -> EmptyMap
    [] OTHER -> mm

(* ---- the answers of a sequential map (open) ---- *)
AnswerIn(mm, c) ==
  LET has == HasIn(mm, c.k)  old == mm[c.k] IN
  CASE c.op = "Exists"      -> <<B(has)>>
    [] c.op = "Value"       -> <<B(has), old>>
    [] c.op = "SetValue"    -> <<B(~has)>>                                       \* added
    [] c.op = "RemoveValue" -> <<B(has)>>                                        \* removed
    [] c.op = "Get"         -> <<0, B(has), old>>                                \* callback saw (found, value)
    [] c.op = "GetOrCreate" -> IF has THEN <<0, 0, old>>                         \* callback saw (created, value)
                               ELSE CASE c.md = "val" -> <<0, 1, c.v>>
                                      [] c.md = "ign" -> <<2, Wild, Wild>>
                                      [] OTHER        -> <<3, Wild, Wild>>
    [] c.op = "Set"         -> \* <<code, created, returned value, callback saw found, saw value>>
                               CASE c.md \in {"set", "inc"} -> <<0, B(~has), NewValIn(mm, c), B(has), old>>
                                 [] c.md = "ign"           -> <<2, 0, old, B(has), old>>
                                 [] OTHER                  -> <<3, 0, NoVal, B(has), old>>
    [] c.op = "Remove"      -> \* <<code, removed, saw found, saw value>>
                               CASE c.md = "ok"  -> <<0, B(has), B(has), old>>
                                 [] c.md = "ign" -> <<2, 0, B(has), old>>
                                 [] OTHER        -> <<3, 0, B(has), old>>
    [] c.op = "SetOrRemove" -> \* <<code, created, removed, returned value, saw found, saw value>>
                               CASE c.md \in {"set", "inc"} -> <<0, B(~has), 0, NewValIn(mm, c), B(has), old>>
                                 [] c.md = "rm"  -> <<0, 0, B(has), NoVal, B(has), old>>
                                 [] c.md = "ign" -> <<2, 0, 0, old, B(has), old>>
                                 [] OTHER        -> <<3, 0, 0, NoVal, B(has), old>>
    [] c.op = "Traverse"    -> [i \in 1..Len(Keys) |-> mm[Keys[i]]]              \* visited key/value pairs
    [] c.op = "Len"         -> <<SizeIn(mm)>>
    [] OTHER                -> <<>>                                              \* Empty, Close

Has(k) == HasIn(m, k)
Size == SizeIn(m)
After(c) == IF closed THEN m ELSE AfterIn(m, c)
ClosedAfter(c) == closed \/ c.op = "Close"
Answer(c) == AnswerIn(m, c)

(* ---- after Close: the closed error, or the answer of an empty map where the  *)
(* ---- interface has no error to give (weaker reading: Get and Remove may do   *)
(* ---- either - the single and the sharded map differ there)                    *)
ClosedAnswers(c) ==
  CASE c.op = "Exists"      -> {<<0>>}
    [] c.op = "Value"       -> {<<0, NoVal>>}
    [] c.op = "SetValue"    -> {<<0>>}
    [] c.op = "RemoveValue" -> {<<0>>}
    [] c.op = "Get"         -> {<<1, Wild, Wild>>, <<0, 0, NoVal>>}
    [] c.op = "GetOrCreate" -> {<<1, Wild, Wild>>}
    [] c.op = "Set"         -> {<<1, Wild, Wild, Wild, Wild>>}
    [] c.op = "Remove"      -> {<<1, Wild, Wild, Wild>>,
                                CASE c.md = "ok" -> <<0, 0, 0, NoVal>> [] c.md = "ign" -> <<2, 0, 0, NoVal>>
                                  [] OTHER -> <<3, 0, 0, NoVal>>}
    [] c.op = "SetOrRemove" -> {<<1, Wild, Wild, Wild, Wild, Wild>>}
    [] c.op = "Traverse"    -> {[i \in 1..Len(Keys) |-> NoVal]}
    [] c.op = "Len"         -> {<<0>>}
    [] OTHER                -> {<<>>}

Answers(c) == IF closed THEN ClosedAnswers(c) ELSE {Answer(c)}

(* got (a sequence of integers from the real call) agrees with want *)
Agrees(got, want) == /\ Len(got) = Len(want)
                     /\ \A i \in 1..Len(want) : want[i] = Wild \/ got[i] = Wild \/ got[i] = want[i]
Explains(c, got) == \E w \in Answers(c) : Agrees(got, w)

Do(c) == m' = After(c) /\ closed' = ClosedAfter(c)

(* ---- the object on its own: every call of the menu, exhaustively ---- *)
Ops1 == {"Exists", "Value", "RemoveValue", "Get"}
Calls == [op : Ops1, k : KeySet, md : {"-"}, v : {0}]
    \cup [op : {"SetValue"}, k : KeySet, md : {"-"}, v : Val]
    \cup [op : {"GetOrCreate"}, k : KeySet, md : {"val", "ign", "err"}, v : Val]
    \cup [op : {"Set"}, k : KeySet, md : {"set", "inc", "ign", "err"}, v : Val]
    \cup [op : {"Remove"}, k : KeySet, md : {"ok", "ign", "err"}, v : {0}]
    \cup [op : {"SetOrRemove"}, k : KeySet, md : {"set", "inc", "rm", "ign", "err"}, v : Val]
    \cup [op : {"Traverse", "Len", "Empty", "Close"}, k : {Keys[1]}, md : {"-"}, v : {0}]
Next == \E c \in Calls : Do(c)
Spec == Init /\ [][Next]_mvars

TypeOK == m \in [KeySet -> Val \cup {NoVal}] /\ closed \in BOOLEAN
ClosedIsEmpty == closed => Size = 0
(* what a call reports is consistent with what it does: created/added <=> the key is new, *)
(* removed <=> the key disappears, and the length is the number of keys                     *)
AnswersConsistent ==
  \A c \in Calls : ~closed =>
    LET a == Answer(c)  sz == Cardinality({k \in KeySet : After(c)[k] # NoVal}) IN
      /\ c.op = "SetValue" => (a[1] = 1 <=> sz = Size + 1)
      /\ c.op = "RemoveValue" => (a[1] = 1 <=> sz = Size - 1)
      /\ c.op = "Set" => (a[2] = 1 <=> sz = Size + 1)
      /\ c.op = "Remove" => (a[2] = 1 <=> sz = Size - 1)
      /\ c.op = "SetOrRemove" => (a[2] = 1 <=> sz = Size + 1) /\ (a[3] = 1 <=> sz = Size - 1)
      /\ c.op = "GetOrCreate" => (a[1] = 0 /\ a[2] = 1 <=> sz = Size + 1)
=============================================================================
