SPECIFICATION SpecS
CONSTANTS
  World = "A"
  MaxOps = 3
  Workers = {64}
  CatIds = {"j1", "j2", "j6", "j12", "j13", "jx2", "cx1", "cc2", "d2", "d4", "d4a", "d2b", "e1", "e2", "e1b", "w2a"}
INVARIANTS MatchesDecl WellFormed OnlyEligible WorldOK
VIEW View
CHECK_DEADLOCK FALSE
