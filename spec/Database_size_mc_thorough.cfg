SPECIFICATION Spec
CONSTANTS
  Keys = {"a"}
  MaxLen = 3
  MaxWrites = 3
  MaxSteps = 1000
  MaxPool = 0
  KeepPath = TRUE
  EmitStep = TRUE
  WithReopen = FALSE
  WithCenter = TRUE
  Repaired = TRUE
  Contents = {{}, {"a"}, {"a", "SUF"}}
  SizeClasses = {"s", "w-", "w=", "w+", "ww=", "w3", "m-", "m=", "m+", "mm=", "mm+", "m3"}
  MaxBig = 1
  WriteLimit = 128
  MergeLimit = 333
  CacheChoices = {FALSE}
  ReadOptional = FALSE
  Purge = TRUE
VIEW view
INVARIANTS TypeOK ReadsConsistent ImplAgreesSuffrageProof ImplAgreesProofByBlockHeight ImplStateAgrees CacheFresh BatchesCarryEveryRecord
PROPERTIES MemoryInvisible
CHECK_DEADLOCK FALSE
