------------------------------- MODULE Syncer -------------------------------
(* SYNCER - the block syncer that the SYNCING state handler drives, at implementation level.       *)
(*                                                                                                 *)
(* Models /repo/isaac/states/syncer.go (Syncer: Add, start loop, sync, checkPrevMap, prepareMaps,   *)
(* syncBlocks with its unbounded util.Retry, Finished/Done, Cancel, IsFinished) together with the   *)
(* pieces it is wired to in launch/p_states.go: base.BatchIsValidMaps (block maps fetched in        *)
(* windows of BatchLimit, every window concurrently), isaacblock.ImportBlocks (windows of           *)
(* BatchLimit: importers made concurrently, then Save concurrently, then the merge functions one by *)
(* one in height order, then mergeBlockWriterDatabasesf), a database that - like                    *)
(* isaacdatabase.Center.MergeBlockWriteDatabase - only takes the block of height last+1 and whose   *)
(* RemoveBlocks(h) drops every block >= h.  ISAAC.tla abstracts all of this into one SyncBlock step. *)
(*                                                                                                 *)
(* The contract (operators *OK below) is what the properties are stated with; the model's           *)
(* invariants apply it to the implementation-level steps and SyncerTrace.tla applies the same       *)
(* operators to the values observed on the real isaacstates.Syncer (binding B).                     *)
(*                                                                                                 *)
(* Repaired = FALSE is the algorithm of the pinned tree, Repaired = TRUE the algorithm with the two *)
(* deviations removed that TLC finds (Syncer_pinned_*.cfg): the retry of a failed import resumes    *)
(* behind what is already stored, and a previous block found different from the remotes' is         *)
(* imported again after it was removed.                                                            *)
EXTENDS Integers, Sequences, FiniteSets, TLC

CONSTANTS L0,          \* height of the last stored block when the syncer is made (-1: empty database)
          MaxH,        \* the remotes have blocks 0..MaxH
          Batch,       \* SyncerArgs.BatchLimit
          AddHeights,  \* heights the environment may Add
          MaxAdds,     \* bound: number of Add calls
          MaxFaults,   \* bound: number of source failures (block map fetch / importer Save)
          MaxRetry,    \* bound: retries of a failed import that are followed
          Repaired,    \* see above
          ForkPrev,    \* TRUE: the local block of height L0 differs from the remotes' block of that height
          CanCancel    \* TRUE: the environment may call Cancel

NilH == -1
Min(a, b) == IF a < b THEN a ELSE b
Max(a, b) == IF a > b THEN a ELSE b
SetMax(S) == CHOOSE x \in S : \A y \in S : y <= x

(* ------------------------------------------------------------------ the contract *)
(* every height from the stored last + 1 up to the highest added height is imported exactly once, in *)
(* order: an import starts right behind the stored prefix, never below it, never beyond a gap ...     *)
ImportFromOK(from, stored) == from = stored + 1
(* ... and never goes beyond the highest height that was ever added                                  *)
ImportToOK(to, highestAdded) == to <= highestAdded
(* the database takes blocks one by one in height order                                              *)
MergeOK(h, stored) == h = stored + 1
(* Finished reports an added height, and only when every block up to it is saved and merged          *)
FinishedOK(h, stored, addedSet) == h <= stored /\ h \in addedSet
(* Add(h) extends the target exactly if h is above the current target; otherwise it is a no-op       *)
AddResult(h, target) == h > target
(* IsFinished() = (top, TRUE) promises that everything up to top is stored                           *)
IsFinishedOK(t, fin, stored) == fin => t <= stored

(* windows of util.BatchWork over first..to *)
WindowEnd(start, to_) == Min(start + Batch - 1, to_)
Window(start, to_) == start..WindowEnd(start, to_)

VARIABLES
  top,       \* topvalue
  prev,      \* height of prevvalue (NilH: nil)
  store,     \* height of the last block in the database (the database holds 0..store)
  checked,   \* checkedprevs
  queue,     \* heights in startsyncch (sent by goroutines: unordered; duplicates are skipped anyway)
  pc,        \* where the start() goroutine is
  lasth,     \* lastheight of start()
  to,        \* target of the running sync()
  from,      \* first height of the running syncBlocks()
  wstart,    \* first height of the current window (maps / import)
  got,       \* heights of the window whose map is fetched+validated / whose importer is made
  saved,     \* heights of the window whose importer is saved
  nmerged,   \* heights of the window whose merge function ran
  pool,      \* TempSyncPool
  finq,      \* heights being sent to finishedch (one goroutine each)
  fins,      \* heights received from Finished(), in order
  ctxc,      \* the daemon's context is cancelled (Cancel called)
  isdone,    \* isdonevalue
  cancelret, \* Cancel returned
  erred,     \* sync returned an error: doneerr set, donech signalled
  strag,     \* importer jobs still running after ImportBlocks gave up (JobWorker.Wait does not wait for them)
  added,     \* heights for which Add returned true
  nadds, nfaults, nretry,
  viol       \* contract clauses broken by a step (kept so that TLC reports them as invariants)

vars == <<top, prev, store, checked, queue, pc, lasth, to, from, wstart, got, saved, nmerged, pool,
          finq, fins, ctxc, isdone, cancelret, erred, strag, added, nadds, nfaults, nretry, viol>>

loopvars == <<pc, lasth, to, from, wstart, got, saved, nmerged>>

TypeOK ==
  /\ top \in NilH..MaxH /\ prev \in NilH..MaxH /\ store \in NilH..MaxH
  /\ checked \subseteq 0..MaxH /\ queue \subseteq 0..MaxH /\ pool \subseteq 0..MaxH
  /\ pc \in {"idle", "checkprev", "decide", "maps", "call", "newimp", "save", "merge", "retry", "post", "failed", "stopped"}
  /\ finq \subseteq 0..MaxH /\ fins \in Seq(0..MaxH)
  /\ ctxc \in BOOLEAN /\ isdone \in BOOLEAN /\ cancelret \in BOOLEAN /\ erred \in BOOLEAN
  /\ viol \subseteq {"import-from-below-stored", "import-from-gap", "import-to", "merge-order", "finished"}

Init ==
  /\ top = L0 /\ prev = L0 /\ store = L0
  /\ checked = {} /\ queue = {} /\ pc = "idle" /\ lasth = NilH /\ to = NilH /\ from = NilH
  /\ wstart = NilH /\ got = {} /\ saved = {} /\ nmerged = {} /\ pool = {}
  /\ finq = {} /\ fins = <<>> /\ ctxc = FALSE /\ isdone = FALSE /\ cancelret = FALSE /\ erred = FALSE
  /\ strag = {} /\ added = {} /\ nadds = 0 /\ nfaults = 0 /\ nretry = 0 /\ viol = {}

Running == pc \notin {"failed", "stopped"}

(* ------------------------------------------------------------------ Add (any goroutine) *)
(* topvalue.Set is the critical section; the send to startsyncch is a goroutine of its own *)
Add(h) ==
  /\ ~isdone /\ nadds < MaxAdds /\ nadds' = nadds + 1
  /\ IF AddResult(h, top)
       THEN top' = h /\ queue' = queue \cup {h} /\ added' = added \cup {h}
       ELSE UNCHANGED <<top, queue, added>>
  /\ UNCHANGED <<prev, store, checked, loopvars, pool, finq, fins, ctxc, isdone, cancelret, erred, strag, nfaults, nretry, viol>>

(* ------------------------------------------------------------------ start(): the loop *)
Dequeue(h) ==
  /\ pc = "idle" /\ h \in queue
  /\ queue' = queue \ {h}
  /\ IF h <= lasth
       THEN UNCHANGED <<pc, lasth, to>>
       ELSE lasth' = h /\ to' = h /\ pc' = "checkprev"
  /\ UNCHANGED <<top, prev, store, checked, from, wstart, got, saved, nmerged, pool, finq, fins, ctxc, isdone,
                 cancelret, erred, strag, added, nadds, nfaults, nretry, viol>>

Fail == pc' = "failed" /\ erred' = TRUE

(* sync(): the previous map is compared with the remotes' once per height (checkedprevs) *)
Forked == ForkPrev /\ prev = L0 /\ L0 \notin checked
CheckPrevSkip ==
  /\ pc = "checkprev" /\ (prev = NilH \/ prev \in checked)
  /\ pc' = "decide"
  /\ UNCHANGED <<top, prev, store, checked, queue, lasth, to, from, wstart, got, saved, nmerged, pool, finq, fins,
                 ctxc, isdone, cancelret, erred, strag, added, nadds, nfaults, nretry, viol>>
CheckPrevSame ==
  /\ pc = "checkprev" /\ prev # NilH /\ prev \notin checked /\ ~Forked
  /\ checked' = checked \cup {prev} /\ pc' = "decide"
  /\ UNCHANGED <<top, prev, store, queue, lasth, to, from, wstart, got, saved, nmerged, pool, finq, fins,
                 ctxc, isdone, cancelret, erred, strag, added, nadds, nfaults, nretry, viol>>
(* checkPrevMap: the remotes have another block at prev: RemovePrevBlockFunc(prev) (Center.RemoveBlocks drops  *)
(* every block >= prev), and prevvalue becomes the REMOTES' map of that height                                *)
CheckPrevFork ==
  /\ pc = "checkprev" /\ Forked
  /\ checked' = checked \cup {prev} /\ store' = prev - 1
  /\ prev' = IF Repaired THEN prev - 1 ELSE prev
  /\ pc' = "decide"
  /\ UNCHANGED <<top, queue, lasth, to, from, wstart, got, saved, nmerged, pool, finq, fins,
                 ctxc, isdone, cancelret, erred, strag, added, nadds, nfaults, nretry, viol>>
CheckPrevFail ==
  /\ pc = "checkprev" /\ prev # NilH /\ prev \notin checked /\ nfaults < MaxFaults
  /\ nfaults' = nfaults + 1 /\ Fail
  /\ UNCHANGED <<top, prev, store, checked, queue, lasth, to, from, wstart, got, saved, nmerged, pool, finq, fins,
                 ctxc, isdone, cancelret, strag, added, nadds, nretry, viol>>

Decide ==
  /\ pc = "decide"
  /\ IF prev # NilH /\ to <= prev
       THEN pc' = "idle" /\ UNCHANGED <<wstart, got>>
       ELSE pc' = "maps" /\ wstart' = prev + 1 /\ got' = {}
  /\ UNCHANGED <<top, prev, store, checked, queue, lasth, to, from, saved, nmerged, pool, finq, fins,
                 ctxc, isdone, cancelret, erred, strag, added, nadds, nfaults, nretry, viol>>

(* prepareMaps = base.BatchIsValidMaps: the maps of one window are fetched concurrently, validated and put  *)
(* into the temp pool; the next window starts when the whole window is done                                 *)
FetchMap(h) ==
  /\ pc = "maps" /\ h \in Window(wstart, to) \ got
  /\ got' = got \cup {h} /\ pool' = pool \cup {h}
  /\ UNCHANGED <<top, prev, store, checked, queue, pc, lasth, to, from, wstart, saved, nmerged, finq, fins,
                 ctxc, isdone, cancelret, erred, strag, added, nadds, nfaults, nretry, viol>>
FetchFail(h) ==
  /\ pc = "maps" /\ h \in Window(wstart, to) \ got /\ nfaults < MaxFaults
  /\ nfaults' = nfaults + 1 /\ Fail
  /\ UNCHANGED <<top, prev, store, checked, queue, lasth, to, from, wstart, got, saved, nmerged, pool, finq, fins,
                 ctxc, isdone, cancelret, strag, added, nadds, nretry, viol>>
MapsNext ==
  /\ pc = "maps" /\ got = Window(wstart, to)
  /\ IF WindowEnd(wstart, to) = to
       THEN pc' = "call" /\ from' = prev + 1 /\ UNCHANGED <<wstart, got>>     \* syncBlocks: from = prev height + 1 (0 if nil)
       ELSE wstart' = wstart + Batch /\ got' = {} /\ UNCHANGED <<pc, from>>
  /\ UNCHANGED <<top, prev, store, checked, queue, lasth, to, saved, nmerged, pool, finq, fins,
                 ctxc, isdone, cancelret, erred, strag, added, nadds, nfaults, nretry, viol>>

(* one call of NewImportBlocksFunc(from, to) = isaacblock.ImportBlocks *)
ImportCall ==
  /\ pc = "call"
  /\ viol' = viol \cup (IF from <= store THEN {"import-from-below-stored"} ELSE {})
                  \cup (IF from > store + 1 THEN {"import-from-gap"} ELSE {})
                  \cup (IF ~ImportToOK(to, top) THEN {"import-to"} ELSE {})
  /\ pc' = "newimp" /\ wstart' = from /\ got' = {} /\ saved' = {} /\ nmerged' = {}
  /\ UNCHANGED <<top, prev, store, checked, queue, lasth, to, from, pool, finq, fins,
                 ctxc, isdone, cancelret, erred, strag, added, nadds, nfaults, nretry>>
NewImporter(h) ==
  /\ pc = "newimp" /\ h \in Window(wstart, to) \ got /\ h \in pool
  /\ got' = got \cup {h}
  /\ IF got' = Window(wstart, to) THEN pc' = "save" ELSE UNCHANGED pc
  /\ UNCHANGED <<top, prev, store, checked, queue, lasth, to, from, wstart, saved, nmerged, pool, finq, fins,
                 ctxc, isdone, cancelret, erred, strag, added, nadds, nfaults, nretry, viol>>
Save(h) ==
  /\ pc = "save" /\ h \in Window(wstart, to) \ saved
  /\ saved' = saved \cup {h}
  /\ IF saved' = Window(wstart, to) THEN pc' = "merge" ELSE UNCHANGED pc
  /\ UNCHANGED <<top, prev, store, checked, queue, lasth, to, from, wstart, got, nmerged, pool, finq, fins,
                 ctxc, isdone, cancelret, erred, strag, added, nadds, nfaults, nretry, viol>>
(* an importer fails: ImportBlocks cancels the window's importers and returns the error; syncBlocks retries  *)
SaveFail(h) ==
  /\ pc = "save" /\ h \in Window(wstart, to) \ saved /\ nfaults < MaxFaults
  /\ nfaults' = nfaults + 1 /\ pc' = "retry"
  /\ UNCHANGED <<top, prev, store, checked, queue, lasth, to, from, wstart, got, saved, nmerged, pool, finq, fins,
                 ctxc, isdone, cancelret, erred, strag, added, nadds, nretry, viol>>
(* the merge functions of the window run one after the other in height order; the database refuses every  *)
(* height but last+1 (Center.MergeBlockWriteDatabase: "new TempDatabase has wrong height")                 *)
Merge ==
  /\ pc = "merge"
  /\ LET h == wstart + Cardinality(nmerged)
         windowdone == (nmerged \cup {h}) = Window(wstart, to)
         lastwindow == WindowEnd(wstart, to) = to
     IN IF MergeOK(h, store)
          THEN /\ store' = h /\ UNCHANGED viol
               /\ IF ~windowdone
                    THEN nmerged' = nmerged \cup {h} /\ UNCHANGED <<pc, wstart, got, saved>>
                    ELSE IF lastwindow
                           THEN pc' = "post" /\ nmerged' = nmerged \cup {h} /\ UNCHANGED <<wstart, got, saved>>
                           ELSE pc' = "newimp" /\ wstart' = wstart + Batch /\ got' = {} /\ saved' = {} /\ nmerged' = {}
          ELSE /\ viol' = viol \cup {"merge-order"} /\ pc' = "retry"
               /\ UNCHANGED <<store, nmerged, wstart, got, saved>>
  /\ UNCHANGED <<top, prev, checked, queue, lasth, to, from, pool, finq, fins,
                 ctxc, isdone, cancelret, erred, strag, added, nadds, nfaults, nretry>>
(* util.Retry(ctx, ..., -1, time.Second): the same call again - pinned: with the same `from` *)
Retry ==
  /\ pc = "retry" /\ ~ctxc /\ nretry < MaxRetry
  /\ nretry' = nretry + 1 /\ pc' = "call"
  /\ from' = IF Repaired THEN store + 1 ELSE from
  /\ UNCHANGED <<top, prev, store, checked, queue, lasth, to, wstart, got, saved, nmerged, pool, finq, fins,
                 ctxc, isdone, cancelret, erred, strag, added, nadds, nfaults, viol>>
(* sync() after doSync: prevvalue = map of `to`; Finished(top) if that is the top, else the top is queued again *)
Post ==
  /\ pc = "post"
  /\ prev' = to /\ pc' = "idle"
  /\ IF to = top
       THEN /\ finq' = finq \cup {to} /\ UNCHANGED queue
            /\ viol' = viol \cup (IF FinishedOK(to, store, added) THEN {} ELSE {"finished"})
       ELSE /\ queue' = IF to < top THEN queue \cup {top} ELSE queue
            /\ UNCHANGED <<finq, viol>>
  /\ UNCHANGED <<top, store, checked, lasth, to, from, wstart, got, saved, nmerged, pool, fins,
                 ctxc, isdone, cancelret, erred, strag, added, nadds, nfaults, nretry>>
Deliver(h) ==
  /\ h \in finq /\ finq' = finq \ {h} /\ fins' = Append(fins, h)
  /\ UNCHANGED <<top, prev, store, checked, queue, loopvars, pool, ctxc, isdone, cancelret, erred, strag, added,
                 nadds, nfaults, nretry, viol>>

(* ------------------------------------------------------------------ Cancel *)
CancelCall ==
  /\ CanCancel /\ ~ctxc /\ ctxc' = TRUE
  /\ UNCHANGED <<top, prev, store, checked, queue, loopvars, pool, finq, fins, isdone, cancelret, erred, strag, added,
                 nadds, nfaults, nretry, viol>>
(* the loop (or whatever sync() is doing) notices the cancelled context: start() returns.  Importer jobs of  *)
(* the window that are still running go on (BaseJobWorker.Wait returns on a cancelled context at once)       *)
Abort ==
  /\ ctxc /\ Running
  /\ pc' = "stopped"
  /\ strag' = IF pc = "save" THEN Window(wstart, to) \ saved ELSE {}
  /\ erred' = (erred \/ pc # "idle")            \* sync returned ctx.Err(): donech is signalled, Err() = context canceled
  /\ UNCHANGED <<top, prev, store, checked, queue, lasth, to, from, wstart, got, saved, nmerged, pool, finq, fins,
                 ctxc, isdone, cancelret, added, nadds, nfaults, nretry, viol>>
StragglerSave(h) ==
  /\ h \in strag /\ strag' = strag \ {h}
  /\ UNCHANGED <<top, prev, store, checked, queue, loopvars, pool, finq, fins, ctxc, isdone, cancelret, erred, added,
                 nadds, nfaults, nretry, viol>>
CancelRet ==
  /\ ctxc /\ ~Running /\ ~cancelret
  /\ isdone' = TRUE /\ cancelret' = TRUE
  /\ UNCHANGED <<top, prev, store, checked, queue, loopvars, pool, finq, fins, ctxc, erred, strag, added,
                 nadds, nfaults, nretry, viol>>

Sys ==
  \/ \E h \in 0..MaxH : Dequeue(h) \/ FetchMap(h) \/ NewImporter(h) \/ Save(h) \/ Deliver(h)
  \/ CheckPrevSkip \/ CheckPrevSame \/ CheckPrevFork \/ Decide \/ MapsNext \/ ImportCall \/ Merge \/ Retry \/ Post
Env ==
  \/ \E h \in AddHeights : Add(h)
  \/ \E h \in 0..MaxH : FetchFail(h) \/ SaveFail(h) \/ StragglerSave(h)
  \/ CheckPrevFail \/ CancelCall \/ Abort \/ CancelRet
Next == Sys \/ Env
Spec == Init /\ [][Next]_vars
FairSpec == Spec /\ WF_vars(Sys)

(* ------------------------------------------------------------------ properties *)
(* no gap, no duplicate, nothing below the stored prefix, nothing beyond the highest added height *)
ImportsContiguous == viol \cap {"import-from-below-stored", "import-from-gap", "import-to", "merge-order"} = {}
FinishedAfterMerged == "finished" \notin viol /\ \A i \in 1..Len(fins) : fins[i] \in added
(* Add of a lower/equal height is a no-op: the whole state but the call counter is unchanged *)
AddLowerIsNoop == [][\A h \in AddHeights : (Add(h) /\ h <= top) =>
                       UNCHANGED <<top, queue, added, prev, store, pc, lasth, to, finq, fins>>]_vars
(* after Cancel returned nothing is merged any more (weak reading) ...                       *)
NothingAfterCancel == [][cancelret => store' = store]_vars
(* ... and no importer works any more (strong reading: not guaranteed by util.BaseJobWorker) *)
NoStragglerAfterCancel == cancelret => strag = {}
(* an error from a source leaves the stored prefix as it is *)
ErrorKeepsPrefix == [][erred => store' = store]_vars
StoreOnlyGrows == [][store' >= store \/ (pc = "checkprev" /\ Forked)]_vars
(* concurrent Adds extend the target without losing heights: without faults and Cancel the syncer ends up   *)
(* with everything up to the highest added height stored, and says so                                        *)
NoHeightLost == <>[](store = top /\ finq = {} /\ (added # {} => \E i \in 1..Len(fins) : fins[i] = top))
=============================================================================
