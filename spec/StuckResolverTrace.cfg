SPECIFICATION TraceSpec
CONSTANTS
  MaxPoint = 64
  MaxRuns = 64
  MaxTicks = 64
  CtxChecks = TRUE
  CanClean = TRUE
CONSTRAINT HighWater
POSTCONDITION Accepted
CHECK_DEADLOCK FALSE
