SPECIFICATION TraceSpec
CONSTANTS
  NJobs = 64
  SemSize = 1000
  Kind = "base"
  MayFail = {}
  EndOrder = "cancel-release"
  AcquireAnswer = "cause"
  ParentMay = FALSE
CONSTRAINT HighWater
POSTCONDITION Accepted
CHECK_DEADLOCK FALSE
