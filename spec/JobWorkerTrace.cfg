SPECIFICATION TraceSpec
CONSTANTS
  NJobs = 64
  SemSize = 1000
  Kind = "base"
  MayFail = {}
  ParentMay = FALSE
CONSTRAINT HighWater
POSTCONDITION Accepted
CHECK_DEADLOCK FALSE
