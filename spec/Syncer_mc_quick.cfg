SPECIFICATION Spec
CONSTANTS
  L0 = 1
  MaxH = 6
  Batch = 2
  AddHeights = {1, 3, 4, 6}
  MaxAdds = 2
  MaxFaults = 1
  MaxRetry = 1
  Repaired = TRUE
  ForkPrev = TRUE
  CanCancel = TRUE
INVARIANTS TypeOK ImportsContiguous FinishedAfterMerged
PROPERTIES AddLowerIsNoop NothingAfterCancel ErrorKeepsPrefix StoreOnlyGrows
CHECK_DEADLOCK FALSE
