----------------------------- MODULE PoolExpels -----------------------------
(* C23 - expel-operation pool of isaac/database/pool.go (TempPool):          *)
(*   SetSuffrageExpelOperation, TraverseSuffrageExpelOperations,             *)
(*   SuffrageExpelOperation (lookup of a node at a height),                  *)
(*   RemoveSuffrageExpelOperationsByFact / ...ByHeight.                      *)
(*                                                                           *)
(* Abstract level (from the statement): the pool is a set of operations,     *)
(* each with a node and a validity range [start, end]; Cover / LookupSet /   *)
(* AfterRemove say what a traversal visits, when a lookup finds, and what a  *)
(* removal by height leaves.                                                 *)
(* Implementation level (transcription of the code): the storage key of an   *)
(* operation is (end, fact hash); the three readers iterate the keys in      *)
(* DESCENDING order and decide per entry to visit / skip / stop. The order   *)
(* among equal ends is the order of the fact hashes, i.e. arbitrary: every   *)
(* order is checked. TLC compares the two levels (…Refines invariants).      *)
(* EarlyStop = TRUE is the pinned tree (stop at the first entry whose start  *)
(* is above the height), FALSE the repaired code (skip it and go on).        *)
(*                                                                           *)
(* Binding A: every distinct state of the exhaustive run, and every step of  *)
(* the -simulate walks, is replayed into a real TempPool (harness c23); the  *)
(* expected answers are the ABSTRACT ones carried in `step`.                 *)
(* The fact hash of an expel fact covers (node, start, end) only, so one     *)
(* (node, start, end) is one storage key: an operation is that triple.       *)
EXTENDS Integers, FiniteSets, Sequences, TLC, Json

CONSTANTS Node,       \* model nodes, strings
          MaxH,       \* heights 1..MaxH (start > genesis height 0 is required by the fact)
          MaxOps,     \* at most this many stored operations
          MaxRm,      \* RemoveByFact takes at most this many stored facts (+ one unknown)
          EarlyStop   \* TRUE: pinned-tree iteration; FALSE: repaired iteration

Heights == 1..MaxH
Query   == 0..(MaxH + 1)      \* query / removal heights, incl. below and above every range
Ops     == {o \in [node : Node, start : Heights, end : Heights] : o.start <= o.end}

VARIABLES expels,   \* set of stored operations
          step      \* output only
vars == <<expels, step>>

--------------------------------------------------------------------------------
(* the statement *)
Covers(o, h)        == o.start <= h /\ h <= o.end
Cover(S, h)         == {o \in S : Covers(o, h)}            \* what a traversal at h visits
LookupSet(S, n, h)  == {o \in Cover(S, h) : o.node = n}    \* found iff non-empty; result in it
AfterRemove(S, h)   == {o \in S : o.end > h}               \* removal by height h

--------------------------------------------------------------------------------
(* the code: descending key order, entry-wise decision *)
Orders(S) ==      \* all key orders the fact hashes may produce: descending end, ties free
  LET n == Cardinality(S) IN
  {f \in [1..n -> S] : /\ \A i, j \in 1..n : i # j => f[i] # f[j]
                       /\ \A i \in 1..(n-1) : f[i].end >= f[i+1].end}

RECURSIVE ImplTraverseFrom(_, _, _)
ImplTraverseFrom(f, i, h) ==
  IF i > Len(f) THEN {}
  ELSE IF f[i].end < h THEN {}                                  \* return false
  ELSE IF f[i].start > h THEN (IF EarlyStop THEN {}             \* pinned: return false
                               ELSE ImplTraverseFrom(f, i + 1, h))
  ELSE {f[i]} \cup ImplTraverseFrom(f, i + 1, h)                \* callback, continues
ImplTraverse(f, h) == ImplTraverseFrom(f, 1, h)

NotFound == [node |-> "", start |-> 0, end |-> 0]
RECURSIVE ImplLookupFrom(_, _, _, _)
ImplLookupFrom(f, i, n, h) ==
  IF i > Len(f) THEN NotFound
  ELSE IF f[i].node # n THEN ImplLookupFrom(f, i + 1, n, h)     \* other node: next
  ELSE IF f[i].end < h THEN NotFound
  ELSE IF f[i].start > h THEN (IF EarlyStop THEN NotFound
                               ELSE ImplLookupFrom(f, i + 1, n, h))
  ELSE f[i]
ImplLookup(f, n, h) == ImplLookupFrom(f, 1, n, h)

ImplRemove(f, h) == {f[i] : i \in {j \in 1..Len(f) : f[j].end > h}}   \* full scan, deletes end <= h

--------------------------------------------------------------------------------
Id(o)  == o.node \o ":" \o ToString(o.start) \o ":" \o ToString(o.end)
Ids(S) == {Id(o) : o \in S}
(* everything a replay needs: the stored set and the abstract answer to every query.  *)
(* index i of the sequences stands for height i-1                                     *)
StOut(S) == [ops   |-> S,
             cover |-> [i \in 1..(MaxH + 2) |-> Ids(Cover(S, i - 1))],
             look  |-> [n \in Node |-> [i \in 1..(MaxH + 2) |-> Ids(LookupSet(S, n, i - 1))]],
             rem   |-> [i \in 1..(MaxH + 2) |-> Ids(AfterRemove(S, i - 1))]]

Init == /\ expels = {}
        /\ step = ToJson([a |-> "Init", st |-> StOut({})])

(* SetSuffrageExpelOperation: a Put under the fact's key; storing a stored fact again changes nothing *)
Set(o) == /\ o \in expels \/ Cardinality(expels) < MaxOps
          /\ expels' = expels \cup {o}
          /\ step' = ToJson([a |-> "Set", op |-> o, st |-> StOut(expels')])

RemoveByFact(F) == /\ expels' = expels \ F
                   /\ step' = ToJson([a |-> "RemoveByFact", facts |-> F, st |-> StOut(expels')])

RemoveByHeight(h) == /\ expels' = AfterRemove(expels, h)
                     /\ step' = ToJson([a |-> "RemoveByHeight", h |-> h, st |-> StOut(expels')])

Unknown == IF Ops \ expels = {} THEN {} ELSE {CHOOSE o \in Ops \ expels : TRUE}

Next == \/ \E o \in Ops : Set(o)
        \/ \E F \in SUBSET expels : /\ Cardinality(F) <= MaxRm
                                    /\ F # {}
                                    /\ \E U \in {{}, Unknown} : RemoveByFact(F \cup U)
        \/ \E h \in Query : RemoveByHeight(h)
Spec == Init /\ [][Next]_vars

View == expels
--------------------------------------------------------------------------------
TypeOK == expels \subseteq Ops /\ Cardinality(expels) <= MaxOps

(* implementation level refines the statement, whatever the hash order *)
TraverseRefines == \A f \in Orders(expels) : \A h \in Query : ImplTraverse(f, h) = Cover(expels, h)
LookupRefines ==
  \A f \in Orders(expels) : \A h \in Query : \A n \in Node :
     LET r == ImplLookup(f, n, h) IN
     IF LookupSet(expels, n, h) = {} THEN r = NotFound ELSE r \in LookupSet(expels, n, h)
RemoveRefines == \A f \in Orders(expels) : \A h \in Query : ImplRemove(f, h) = AfterRemove(expels, h)

(* sanity of the abstract definitions against each other: a removal by height h does *)
(* not change what a traversal above h visits, and nothing that stays ended by h      *)
RemoveKeepsLater ==
  \A h \in Query : LET R == AfterRemove(expels, h) IN
     /\ \A g \in Query : g > h => Cover(R, g) = Cover(expels, g)
     /\ \A o \in R : o.end > h
     /\ \A o \in expels \ R : o.end <= h
=============================================================================
