SPECIFICATION Spec
CONSTANTS
  Keys = {"a"}
  MaxLen = 3
  MaxWrites = 3
  MaxSteps = 1000
  MaxPool = 0
  KeepPath = FALSE
  EmitStep = FALSE
  WithReopen = FALSE
  WithCenter = TRUE
  Repaired = FALSE
VIEW view
INVARIANTS ImplAgreesSuffrageProof ImplAgreesProofByBlockHeight
CHECK_DEADLOCK FALSE
