SPECIFICATION Spec
CONSTANTS
  Keys = {"a", "b"}
  MaxLen = 6
  MaxWrites = 14
  MaxSteps = 1000
  MaxPool = 8
  KeepPath = FALSE
  EmitStep = TRUE
  WithReopen = TRUE
  WithCenter = TRUE
  Repaired = TRUE
CHECK_DEADLOCK FALSE
