SPECIFICATION Spec
CONSTANTS
  Keys = {"a", "b"}
  MaxLen = 6
  MaxWrites = 14
  MaxSteps = 1000
  MaxPool = 8
  KeepPath = FALSE
  EmitStep = TRUE
  WithReopen = TRUE
  WithCenter = TRUE
  Repaired = TRUE
  Contents <- AllContents
  SizeClasses = {"s", "w+", "m=", "m+", "mm+"}
  MaxBig = 1
  WriteLimit = 128
  MergeLimit = 333
  CacheChoices = {TRUE, FALSE}
  ReadOptional = TRUE
  Purge = TRUE
CHECK_DEADLOCK FALSE
