SPECIFICATION Spec
CONSTANTS
  NJobs = 2
  SemSize = 1
  Kind = "base"
  MayFail = {1, 2}
  ParentMay = FALSE
INVARIANTS RunReturnsFirstError
CHECK_DEADLOCK FALSE
