SPECIFICATION Spec
CONSTANTS
  N = 64
  Mul = 37
  Mod = 67
  Hs = {0}
  Rs = {0}
  Sums = {0}
  MaxSum = 8000
  FailSum = 1
  MaxFail = 3
  Sim = TRUE
  Hist = FALSE
  NSel = 1
  MaxBlocks = 0
  MaxSel = 0
  HRs = {0}
  HSums = {0}
  S0Min = 1
  Kinds = {"stay"}
  Keys = {1}
  Late = FALSE
INVARIANTS Member ImplMatchesAbstract NoRepeat
CHECK_DEADLOCK FALSE
