SPECIFICATION Spec
CONSTANTS
  N = 64
  Mul = 37
  Mod = 67
  Hs = {0}
  Rs = {0}
  Sums = {0}
  MaxSum = 8000
  FailSum = 1
  MaxFail = 3
  Sim = TRUE
INVARIANTS Member ImplMatchesAbstract NoRepeat
CHECK_DEADLOCK FALSE
