SPECIFICATION Spec
CONSTANTS
  L0 <- NilH
  MaxH = 5
  Batch = 2
  AddHeights = {0, 2, 3, 5}
  MaxAdds = 3
  MaxFaults = 1
  MaxRetry = 1
  Repaired = TRUE
  ForkPrev = FALSE
  CanCancel = TRUE
INVARIANTS TypeOK ImportsContiguous FinishedAfterMerged
PROPERTIES AddLowerIsNoop NothingAfterCancel ErrorKeepsPrefix StoreOnlyGrows
CHECK_DEADLOCK FALSE
