SPECIFICATION Spec
CONSTANTS
  World = "A"
  MaxOps = 2
  Workers = {64}
  CatIds = {"j1", "j2", "j4", "j6", "j12", "cx1", "cx2", "cx1b", "cc2", "d2", "d2k", "d2b", "e1", "e2", "e1b", "p2", "p0", "w2a"}
INVARIANTS Confluent ResultsOnce WorkerBound WorldOK
VIEW View
CHECK_DEADLOCK FALSE
