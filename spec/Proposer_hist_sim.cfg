SPECIFICATION Spec
CONSTANTS
  N = 64
  Mul = 37
  Mod = 67
  Hs = {0}
  Rs = {0}
  Sums = {0}
  MaxSum = 8000
  FailSum = 1
  MaxFail = 1
  Sim = TRUE
  Hist = TRUE
  NSel = 2
  MaxBlocks = 6
  MaxSel = 12
  HRs = {0, 1, 2, 3}
  HSums = {0}
  S0Min = 1
  Kinds = {"stay", "join", "leave", "swap"}
  Keys = {1, 2, 5, 11, 37, 41, 66}
  Late = TRUE
INVARIANTS ChainWellFormed HMember HistoryIndependent ImplObjectMatches
CHECK_DEADLOCK FALSE
