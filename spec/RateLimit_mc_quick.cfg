SPECIFICATION Spec
CONSTANTS
  Addrs = {"a1"}
  Handlers = {"h1"}
  ClientIds = {"c1", "c2"}
  InitCfgs = {"cids", "netn", "nodes"}
  FullAlphabet = FALSE
  Walk = FALSE
  MaxSteps = 3
INVARIANTS DeviationOnlyViaCache FreshIsChoose PrecedenceOK
CHECK_DEADLOCK FALSE
