SPECIFICATION Spec
CONSTANTS
  Addrs = {"a1"}
  Handlers = {"h1"}
  ClientIds = {"c1", "c2"}
  InitCfgs = {"cids", "netn", "nodes"}
  FullAlphabet = FALSE
  Walk = FALSE
  MaxSteps = 3
  Tight = FALSE
  Warm = FALSE
  Per = 8
  Rebuild = "limit-burst"
  SufCheck = "exists-first"
INVARIANTS SuffrageOnlyInConsensus DeviationOnlyViaCache FreshIsChoose PrecedenceOK BoundOK ZeroOK
CHECK_DEADLOCK FALSE
