SPECIFICATION Spec
CONSTANTS
  Shapes = {"full"}
  MaxTampers = 1
  TamperSet = {"sts_alter", "sts_foreign_tree", "vps_other_round", "avp_prev", "checksum", "ops_foreign_tree"}
  AllOrders = TRUE
  OrderSet <- OrdersQuick
INVARIANTS HonestStorable TampersBreak ChecksumsKept OrderIndependent ImporterChecks FactsAgree
VIEW View
CHECK_DEADLOCK FALSE
