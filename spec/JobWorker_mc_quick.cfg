SPECIFICATION Spec
CONSTANTS
  NJobs = 3
  SemSize = 2
  Kind = "base"
  MayFail = {1, 2, 3}
  ParentMay = TRUE
INVARIANTS TypeOK WaitNilAfterAll NoAcceptAfterDone
PROPERTIES AcceptedEnds DriverReturns
CHECK_DEADLOCK FALSE
