------------------------------ MODULE Proposer ------------------------------
(* C07 - proposer selection is deterministic and picks a suffrage member.        *)
(* Models isaac/proposer_selector.go (BlockBasedProposerSelector.Select) and the  *)
(* part of isaac/proposal_selector.go that feeds it: getNodes (sort by address    *)
(* string), selectFromProposer, and proposalFromOthers (the same function on the  *)
(* nodes that are left after a proposer failed, filterDeadNodes keeps the order). *)
(* Abstract level (from the statement): the proposer is a function of the SET of  *)
(* suffrage nodes, the point and the previous block - Select(S, ...) takes the    *)
(* set, so listing order cannot matter by construction - and is a member of S.    *)
(* Implementation level: ImplChain works on the LISTING the way the code does     *)
(* (sort when there are 2 or more nodes, index by (sum of hash bytes + height +   *)
(* round) modulo the length, filter the failed node out of the sorted list);      *)
(* TLC compares the two (ImplMatchesAbstract).                                    *)
(* Nodes are 1..N; Rank gives the order of their (random) addresses - the harness *)
(* assigns the k-th smallest address string to the node of rank order k, so       *)
(* address order differs from id order. Local 0 = a node outside the suffrage.    *)
(* Binding A: every state of the exhaustive run and the last state of every       *)
(* -simulate behaviour is one case replayed through the real                      *)
(* isaac.BaseProposalSelector (harness c07).                                      *)
EXTENDS Integers, Sequences, FiniteSets, TLC, Json

CONSTANTS N,            \* nodes are 1..N
          Mul, Mod,     \* Rank(i) = (i * Mul) % Mod, injective on 1..N (Mod prime > N)
          Hs, Rs, Sums, \* exhaustive mode: heights, rounds, byte sums of the previous block hash
          MaxSum,       \* simulate mode: byte sum drawn from 0..MaxSum
          MaxFail,      \* at most this many proposers fail in a script
          FailSum,      \* the byte sum used in the failure scripts of the exhaustive mode
          Sim           \* FALSE: every case is an initial state; TRUE: a behaviour builds one random case

Node == 1..N
Rank(i) == (i * Mul) % Mod
ASSUME \A i, j \in Node : i # j => Rank(i) # Rank(j)

VARIABLES listing,   \* the suffrage nodes in the order GetNodesFunc returns them
          target,    \* simulate: length the listing grows to
          h, r, hs,  \* point and byte sum of the previous block hash
          local,     \* the node that runs the selection (0: not in the suffrage)
          nfail,     \* the first nfail proposers asked (other than local) fail
          phase, step
vars == <<listing, target, h, r, hs, local, nfail, phase, step>>

Range(s) == {s[i] : i \in 1..Len(s)}

---------------------------------------------------------------------------------
(* abstract: from the statement *)
(* all nodes in rank order (computed once), and the members of S in that order *)
AllByRank == LET slot == [k \in 1..Mod |-> IF \E i \in Node : Rank(i) = k - 1
                                           THEN CHOOSE i \in Node : Rank(i) = k - 1 ELSE 0]
             IN SelectSeq(slot, LAMBDA n : n # 0)
SortedSeq(S) == SelectSeq(AllByRank, LAMBDA n : n \in S)
Select(S, hh, rr, ss) ==
  IF Cardinality(S) = 1 THEN CHOOSE n \in S : TRUE
  ELSE SortedSeq(S)[((ss + hh + rr) % Cardinality(S)) + 1]

(* proposers selected one after the other while they fail; local never fails (it makes *)
(* the proposal itself); k = failures still to come                                    *)
RECURSIVE Chain(_, _, _, _, _, _)
Chain(S, hh, rr, ss, loc, k) ==
  IF S = {} THEN <<>>
  ELSE LET p == Select(S, hh, rr, ss) IN
       IF p = loc \/ k = 0 THEN <<p>>
       ELSE <<p>> \o Chain(S \ {p}, hh, rr, ss, loc, k - 1)

(* who makes the proposal in the end: the last selected node, or local when all failed *)
Winner(ch, loc, k) == IF Len(ch) > 0 /\ (ch[Len(ch)] = loc \/ Len(ch) > k) THEN ch[Len(ch)] ELSE loc

---------------------------------------------------------------------------------
(* implementation level: on the listing *)
SortListing(l) == IF Len(l) < 2 THEN l ELSE SortedSeq(Range(l))           \* getNodes
ImplSelect(nodes, hh, rr, ss) == IF Len(nodes) < 2 THEN nodes[1]           \* BlockBasedProposerSelector.Select
                                 ELSE nodes[((ss + hh + rr) % Len(nodes)) + 1]
Filter(nodes, x) == SelectSeq(nodes, LAMBDA n : n # x)                     \* filterDeadNodes
RECURSIVE ImplChainR(_, _, _, _, _, _)
ImplChainR(nodes, hh, rr, ss, loc, k) ==
  IF Len(nodes) = 0 THEN <<>>
  ELSE LET p == ImplSelect(nodes, hh, rr, ss) IN
       IF p = loc \/ k = 0 THEN <<p>>
       ELSE <<p>> \o ImplChainR(Filter(nodes, p), hh, rr, ss, loc, k - 1)
ImplChain(l, hh, rr, ss, loc, k) == ImplChainR(SortListing(l), hh, rr, ss, loc, k)

---------------------------------------------------------------------------------
RECURSIVE Perms(_)
Perms(S) == IF S = {} THEN {<<>>}
            ELSE UNION {{<<x>> \o p : p \in Perms(S \ {x})} : x \in S}
ListingsOf(U) == UNION {Perms(S) : S \in (SUBSET U) \ {{}}}   \* an operator, so that TLC does not evaluate it in simulate mode

Out == LET ch == Chain(Range(listing), h, r, hs, local, nfail) IN
       ToJson([listing |-> listing, order |-> AllByRank, h |-> h, r |-> r, hs |-> hs,
               local |-> local, nfail |-> nfail,
               first |-> ch[1], chain |-> ch, winner |-> Winner(ch, local, nfail)])

InitAll == /\ listing \in ListingsOf(Node)
           /\ target = Len(listing)
           /\ h \in Hs /\ r \in Rs /\ (h = 0 => r = 0)
           /\ hs \in Sums
           /\ local \in Range(listing) \cup {0}
           /\ nfail \in 0..(IF Len(listing) < MaxFail THEN Len(listing) ELSE MaxFail)
           /\ (nfail > 0 => r = 0 /\ hs = FailSum)      \* failure scripts: every listing, local and height, one round and sum
           /\ phase = "ask"
           /\ step = Out

InitSim == /\ listing = <<>>
           /\ target \in 1..N
           /\ h = 0 /\ r = 0 /\ hs = 0 /\ local = 0 /\ nfail = 0
           /\ phase = "build"
           /\ step = ""

Grow == /\ phase = "build"
          /\ Len(listing) < target
          /\ listing' = Append(listing, RandomElement(Node \ Range(listing)))
          /\ UNCHANGED <<target, h, r, hs, local, nfail, phase, step>>

Ask == /\ phase = "build"
       /\ Len(listing) = target
       /\ h' = RandomElement(1..60)
       /\ r' = RandomElement(0..20)
       /\ hs' = RandomElement(0..(MaxSum \div 100)) * 100 + RandomElement(0..99)
       /\ local' = RandomElement(Range(listing) \cup {0})
       /\ nfail' = RandomElement(0..(IF target < MaxFail THEN target ELSE MaxFail))
       /\ phase' = "params"
       /\ UNCHANGED <<listing, target, step>>

(* the expected observables are computed in a step of their own, on the unprimed state *)
Emit == /\ phase = "params"
        /\ phase' = "ask"
        /\ step' = Out
        /\ UNCHANGED <<listing, target, h, r, hs, local, nfail>>

Init == IF Sim THEN InitSim ELSE InitAll
Next == Sim /\ (Grow \/ Ask \/ Emit)
Spec == Init /\ [][Next]_vars

---------------------------------------------------------------------------------
Asked == phase = "ask"
TheChain == Chain(Range(listing), h, r, hs, local, nfail)

(* statement: the selected proposer is a member of the suffrage *)
Member == Asked => \A i \in 1..Len(TheChain) : TheChain[i] \in Range(listing)
(* statement: whatever order the nodes are listed in - the code's way of computing it *)
(* from the listing gives what the set-based definition gives                         *)
ImplMatchesAbstract == Asked => ImplChain(listing, h, r, hs, local, nfail) = TheChain
(* every node (whoever is local) selects the same first proposer *)
LocalIndependent == Asked => \A loc \in Range(listing) \cup {0} :
                       Chain(Range(listing), h, r, hs, loc, 0) = <<TheChain[1]>>
(* a failed proposer is not selected again *)
NoRepeat == Asked => \A i, j \in 1..Len(TheChain) : i # j => TheChain[i] # TheChain[j]
=============================================================================
