------------------------------ MODULE Proposer ------------------------------
(* C07 - proposer selection is deterministic and picks a suffrage member.        *)
(* Models isaac/proposer_selector.go (BlockBasedProposerSelector.Select) and the  *)
(* part of isaac/proposal_selector.go that feeds it: getNodes (sort by address    *)
(* string), selectFromProposer, and proposalFromOthers (the same function on the  *)
(* nodes that are left after a proposer failed, filterDeadNodes keeps the order). *)
(* Abstract level (from the statement): the proposer is a function of the SET of  *)
(* suffrage nodes, the point and the previous block - Select(S, ...) takes the    *)
(* set, so listing order cannot matter by construction - and is a member of S.    *)
(* Implementation level: ImplChain works on the LISTING the way the code does     *)
(* (sort when there are 2 or more nodes, index by (sum of hash bytes + height +   *)
(* round) modulo the length, filter the failed node out of the sorted list);      *)
(* TLC compares the two (ImplMatchesAbstract).                                    *)
(* Nodes are 1..N; Rank gives the order of their (random) addresses - the harness *)
(* assigns the k-th smallest address string to the node of rank order k, so       *)
(* address order differs from id order. Local 0 = a node outside the suffrage.    *)
(* Binding A: every state of the exhaustive run and the last state of every       *)
(* -simulate behaviour is one case replayed through the real                      *)
(* isaac.BaseProposalSelector (harness c07).                                      *)
(*                                                                                *)
(* History part (Hist = TRUE). The statement makes the proposer a function of     *)
(* (point, previous block, suffrage) ALONE. A consensus node keeps ONE selector   *)
(* object for its whole life and asks it height after height, round after round,  *)
(* while the blocks it saves change the suffrage; so "every node selects the      *)
(* same" also quantifies over what the selector objects were asked BEFORE: a node *)
(* that has been running for long and a node that has just started must agree.    *)
(* The chain: sufs[g+1] = the suffrage in the state of block g, bsums[g+1] = byte  *)
(* sum of the hash of block g; the point of height hh is decided by the suffrage  *)
(* of block hh-1 (GetNodesFunc is a function of the block HEIGHT, it answers      *)
(* "not found" above the top of the chain) and its previous block is block hh-1.  *)
(* Commit appends a block whose suffrage differs from the last one by a join, a   *)
(* leave, a swap or nothing; SelectBy(s, ...) puts one more selection to the      *)
(* long-lived selector object s. `script` is the sequence of all events; every    *)
(* maximal script (exhaustive) / the last state of every behaviour (-simulate) is *)
(* replayed on real long-lived selector objects, and every selection of a script  *)
(* is put at the same time to a selector object made for that single call (a node *)
(* that has just started) with another listing of the same suffrage.              *)
EXTENDS Integers, Sequences, FiniteSets, TLC, Json

CONSTANTS N,            \* nodes are 1..N
          Mul, Mod,     \* Rank(i) = (i * Mul) % Mod, injective on 1..N (Mod prime > N)
          Hs, Rs, Sums, \* exhaustive mode: heights, rounds, byte sums of the previous block hash
          MaxSum,       \* simulate mode: byte sum drawn from 0..MaxSum
          MaxFail,      \* at most this many proposers fail in a script
          FailSum,      \* the byte sum used in the failure scripts of the exhaustive mode
          Sim,          \* FALSE: every case is an initial state; TRUE: a behaviour builds one random case
          Hist,         \* TRUE: the history part (scripts over a chain whose suffrage changes); Sim then says exhaustive or random
          NSel,         \* history: long-lived selector objects 1..NSel
          MaxBlocks,    \* history: blocks 0..MaxBlocks, so points of height 1..MaxBlocks+1
          MaxSel,       \* history: at most this many selections in a script
          HRs, HSums,   \* history: rounds selected at, byte sums of the block hashes
          S0Min,        \* history: the genesis suffrage has at least this many nodes
          Kinds,        \* history: how a block may change the suffrage, subset of {"stay", "join", "leave", "swap"}
          Keys,         \* history: listing orders (node i is listed at position order (i * key) % Mod)
          Late          \* history: FALSE = a selector is asked for the current height and only for later and later points;
                        \*          TRUE = for any height that has a previous block, in any order

Node == 1..N
Rank(i) == (i * Mul) % Mod
ASSUME \A i, j \in Node : i # j => Rank(i) # Rank(j)

VARIABLES listing,   \* the suffrage nodes in the order GetNodesFunc returns them
          target,    \* simulate: length the listing grows to
          h, r, hs,  \* point and byte sum of the previous block hash
          local,     \* the node that runs the selection (0: not in the suffrage)
          nfail,     \* the first nfail proposers asked (other than local) fail
          phase, step,
          sufs,      \* history: sufs[g+1] = suffrage (set of nodes) in the state of block g
          bsums,     \* history: bsums[g+1] = byte sum of the hash of block g
          script     \* history: all events so far (blocks and selections) - what the harness replays
cvars == <<listing, target, h, r, hs, local, nfail>>
hvars == <<sufs, bsums, script>>
vars == <<listing, target, h, r, hs, local, nfail, phase, step, sufs, bsums, script>>

Range(s) == {s[i] : i \in 1..Len(s)}

---------------------------------------------------------------------------------
(* abstract: from the statement *)
(* all nodes in rank order (computed once), and the members of S in that order *)
AllByRank == LET slot == [k \in 1..Mod |-> IF \E i \in Node : Rank(i) = k - 1
                                           THEN CHOOSE i \in Node : Rank(i) = k - 1 ELSE 0]
             IN SelectSeq(slot, LAMBDA n : n # 0)
SortedSeq(S) == SelectSeq(AllByRank, LAMBDA n : n \in S)
Select(S, hh, rr, ss) ==
  IF Cardinality(S) = 1 THEN CHOOSE n \in S : TRUE
  ELSE SortedSeq(S)[((ss + hh + rr) % Cardinality(S)) + 1]

(* proposers selected one after the other while they fail; local never fails (it makes *)
(* the proposal itself); k = failures still to come                                    *)
RECURSIVE Chain(_, _, _, _, _, _)
Chain(S, hh, rr, ss, loc, k) ==
  IF S = {} THEN <<>>
  ELSE LET p == Select(S, hh, rr, ss) IN
       IF p = loc \/ k = 0 THEN <<p>>
       ELSE <<p>> \o Chain(S \ {p}, hh, rr, ss, loc, k - 1)

(* who makes the proposal in the end: the last selected node, or local when all failed *)
Winner(ch, loc, k) == IF Len(ch) > 0 /\ (ch[Len(ch)] = loc \/ Len(ch) > k) THEN ch[Len(ch)] ELSE loc

---------------------------------------------------------------------------------
(* implementation level: on the listing *)
SortListing(l) == IF Len(l) < 2 THEN l ELSE SortedSeq(Range(l))           \* getNodes
ImplSelect(nodes, hh, rr, ss) == IF Len(nodes) < 2 THEN nodes[1]           \* BlockBasedProposerSelector.Select
                                 ELSE nodes[((ss + hh + rr) % Len(nodes)) + 1]
Filter(nodes, x) == SelectSeq(nodes, LAMBDA n : n # x)                     \* filterDeadNodes
RECURSIVE ImplChainR(_, _, _, _, _, _)
ImplChainR(nodes, hh, rr, ss, loc, k) ==
  IF Len(nodes) = 0 THEN <<>>
  ELSE LET p == ImplSelect(nodes, hh, rr, ss) IN
       IF p = loc \/ k = 0 THEN <<p>>
       ELSE <<p>> \o ImplChainR(Filter(nodes, p), hh, rr, ss, loc, k - 1)
ImplChain(l, hh, rr, ss, loc, k) == ImplChainR(SortListing(l), hh, rr, ss, loc, k)

---------------------------------------------------------------------------------
RECURSIVE Perms(_)
Perms(S) == IF S = {} THEN {<<>>}
            ELSE UNION {{<<x>> \o p : p \in Perms(S \ {x})} : x \in S}
ListingsOf(U) == UNION {Perms(S) : S \in (SUBSET U) \ {{}}}   \* an operator, so that TLC does not evaluate it in simulate mode

Out == LET ch == Chain(Range(listing), h, r, hs, local, nfail) IN
       ToJson([listing |-> listing, order |-> AllByRank, h |-> h, r |-> r, hs |-> hs,
               local |-> local, nfail |-> nfail,
               first |-> ch[1], chain |-> ch, winner |-> Winner(ch, local, nfail)])

HOff == sufs = <<>> /\ bsums = <<>> /\ script = <<>>                             \* the history part is off
COff == listing = <<>> /\ h = 0 /\ r = 0 /\ hs = 0 /\ local = 0 /\ nfail = 0     \* the single-case part is off

InitAll == /\ listing \in ListingsOf(Node)
           /\ target = Len(listing)
           /\ h \in Hs /\ r \in Rs /\ (h = 0 => r = 0)
           /\ hs \in Sums
           /\ local \in Range(listing) \cup {0}
           /\ nfail \in 0..(IF Len(listing) < MaxFail THEN Len(listing) ELSE MaxFail)
           /\ (nfail > 0 => r = 0 /\ hs = FailSum)      \* failure scripts: every listing, local and height, one round and sum
           /\ phase = "ask"
           /\ step = Out
           /\ HOff

InitSim == /\ listing = <<>>
           /\ target \in 1..N
           /\ h = 0 /\ r = 0 /\ hs = 0 /\ local = 0 /\ nfail = 0
           /\ phase = "build"
           /\ step = ""
           /\ HOff

Grow == /\ phase = "build"
          /\ Len(listing) < target
          /\ listing' = Append(listing, RandomElement(Node \ Range(listing)))
          /\ UNCHANGED <<target, h, r, hs, local, nfail, phase, step>>
          /\ UNCHANGED hvars

Ask == /\ phase = "build"
       /\ Len(listing) = target
       /\ h' = RandomElement(1..60)
       /\ r' = RandomElement(0..20)
       /\ hs' = RandomElement(0..(MaxSum \div 100)) * 100 + RandomElement(0..99)
       /\ local' = RandomElement(Range(listing) \cup {0})
       /\ nfail' = RandomElement(0..(IF target < MaxFail THEN target ELSE MaxFail))
       /\ phase' = "params"
       /\ UNCHANGED <<listing, target, step>>
       /\ UNCHANGED hvars

(* the expected observables are computed in a step of their own, on the unprimed state *)
Emit == /\ phase = "params"
        /\ phase' = "ask"
        /\ step' = Out
        /\ UNCHANGED <<listing, target, h, r, hs, local, nfail>>
        /\ UNCHANGED hvars

---------------------------------------------------------------------------------
(* history part: long-lived selector objects over a chain whose suffrage changes *)
Sels == 1..NSel
Top == Len(sufs) - 1                    \* height of the last block
SufAt(hh) == sufs[hh]                   \* the suffrage that decides the point of height hh >= 1: state of block hh-1
SumAt(hh) == bsums[hh]                  \* byte sum of the previous block of a point of height hh
IsSel(e) == e.k = 1
IsBlock(e) == e.k = 0

(* the members of S listed in the order of (i * key) % Mod (Mod is prime: the node at position p is *)
(* p times the inverse of key)                                                                      *)
Listed(S, key) == LET inv  == CHOOSE x \in 1..(Mod - 1) : (x * key) % Mod = 1
                      slot == [p \in 1..Mod |-> LET i == ((p - 1) * inv) % Mod IN IF i \in S THEN i ELSE 0]
                  IN SelectSeq(slot, LAMBDA n : n # 0)

(* selector object s belongs to node LocOf(s) (0: a node that is never in a suffrage) *)
LocOf(s) == s % (N + 1)

(* what selector object s has been asked so far: its history *)
HistOf(s) == SelectSeq(script, LAMBDA e : IsSel(e) /\ e.sel = s)
LastPoint(s) == LET hi == HistOf(s) IN IF Len(hi) = 0 THEN <<0, 0>> ELSE <<hi[Len(hi)].h, hi[Len(hi)].r>>
Beyond(hh, rr, pt) == hh > pt[1] \/ (hh = pt[1] /\ rr > pt[2])
NSelected == Cardinality({i \in DOMAIN script : IsSel(script[i])})

BlockEvent(g, S, b) == [k |-> 0, g |-> g, suf |-> S, hs |-> b]
(* a selection and what the statement demands of it: a function of the point, the previous block *)
(* and the suffrage of that height - nothing of HistOf(s) enters                                  *)
SelEvent(s, hh, rr, key, nf) ==
  LET S  == SufAt(hh)
      ch == Chain(S, hh, rr, SumAt(hh), LocOf(s), nf)
  IN [k |-> 1, sel |-> s, loc |-> LocOf(s), h |-> hh, r |-> rr, hs |-> SumAt(hh), key |-> key,
      nfail |-> nf, chain |-> ch, winner |-> Winner(ch, LocOf(s), nf)]
(* how GetNodesFunc lists the suffrage in the call of event e (not carried by the event: it is a *)
(* function of the suffrage of that height and the key)                                         *)
ListingOf(e) == Listed(SufAt(e.h), e.key)

Changes(S) ==
     (IF "stay" \in Kinds THEN {S} ELSE {})
  \cup (IF "join" \in Kinds THEN {S \cup {n} : n \in Node \ S} ELSE {})
  \cup (IF "leave" \in Kinds /\ Cardinality(S) > 1 THEN {S \ {n} : n \in S} ELSE {})
  \cup (IF "swap" \in Kinds THEN {(S \ {n}) \cup {m} : n \in S, m \in Node \ S} ELSE {})

InitHist == /\ COff /\ target = 0
            /\ phase = "hist"
            /\ \E S \in SUBSET Node, b \in HSums :
                 /\ Cardinality(S) >= S0Min
                 /\ sufs = <<S>> /\ bsums = <<b>>
                 /\ script = <<BlockEvent(0, S, b)>>
            /\ step = ToString(script)

(* the block of height Top+1 is saved; its state holds the suffrage S *)
Commit(S, b) == /\ phase = "hist"
                /\ Top < MaxBlocks
                /\ sufs' = Append(sufs, S)
                /\ bsums' = Append(bsums, b)
                /\ script' = Append(script, BlockEvent(Top + 1, S, b))
                /\ step' = ToString(script')
                /\ UNCHANGED <<cvars, phase>>

(* the long-lived selector object s is asked for the point (hh, rr) *)
SelectBy(s, hh, rr, key, nf) ==
                /\ phase = "hist"
                /\ NSelected < MaxSel
                /\ hh \in 1..(Top + 1)
                /\ Late \/ (hh = Top + 1 /\ Beyond(hh, rr, LastPoint(s)))
                /\ script' = Append(script, SelEvent(s, hh, rr, key, nf))
                /\ step' = ToString(script')
                /\ UNCHANGED <<cvars, phase, sufs, bsums>>

SortedKeys == LET slot == [p \in 1..Mod |-> IF p \in Keys THEN p ELSE 0] IN SelectSeq(slot, LAMBDA n : n # 0)
(* exhaustive: the listing order of a call is fixed by the position in the script (all orders of one *)
(* call are the business of the single-case part), no failing proposers                            *)
KeyAt(n) == LET ks == SortedKeys IN ks[(n % Len(ks)) + 1]
NextHist == \/ \E S \in Changes(sufs[Len(sufs)]), b \in HSums : Commit(S, b)
            \/ \E s \in Sels, hh \in 1..(Top + 1), rr \in HRs : SelectBy(s, hh, rr, KeyAt(Len(script)), 0)

(* random scripts, up to N nodes: the genesis suffrage has about `target` members *)
InitHistSim == /\ COff /\ target \in 1..N
               /\ phase = "hbuild"
               /\ HOff
               /\ step = ""
RandomSum == RandomElement(0..(MaxSum \div 100)) * 100 + RandomElement(0..99)
(* a random value is drawn once by binding it over a singleton set *)
HGenesis == /\ phase = "hbuild"
            /\ \E S0 \in {{i \in Node : RandomElement(1..N) <= target}}, n0 \in {RandomElement(Node)}, b \in {RandomSum} :
                 LET S == IF S0 = {} THEN {n0} ELSE S0
                 IN /\ sufs' = <<S>> /\ bsums' = <<b>>
                    /\ script' = <<BlockEvent(0, S, b)>>
            /\ phase' = "hist"
            /\ step' = ToString(script')
            /\ UNCHANGED cvars
RandomChange(S) ==
  LET out == Node \ S
  IN CHOOSE T \in {IF out = {} /\ Cardinality(S) = 1 THEN S ELSE
       LET kind == RandomElement(Kinds)
           m    == IF out = {} THEN 0 ELSE RandomElement(out)
           n    == RandomElement(S)
       IN IF kind = "join" /\ out # {} THEN S \cup {m}
          ELSE IF kind = "leave" /\ Cardinality(S) > 1 THEN S \ {n}
          ELSE IF kind = "swap" /\ out # {} THEN (S \ {n}) \cup {m}
          ELSE S} : TRUE
HRandom == /\ phase = "hist"
           /\ \E coin \in {RandomElement(1..5)} :
                IF Top < MaxBlocks /\ coin <= 2
                THEN \E S \in {RandomChange(sufs[Len(sufs)])}, b \in {RandomSum} : Commit(S, b)
                ELSE \E s \in {RandomElement(Sels)}, rr \in {RandomElement(HRs)}, key \in {RandomElement(Keys)},
                        hh \in {IF Late /\ RandomElement(1..4) = 1 THEN RandomElement(1..(Top + 1)) ELSE Top + 1},
                        nf \in {IF RandomElement(1..12) = 1 THEN 1 ELSE 0} :
                       SelectBy(s, hh, rr, key, nf)

Init == IF Hist THEN (IF Sim THEN InitHistSim ELSE InitHist)
        ELSE (IF Sim THEN InitSim ELSE InitAll)
Next == \/ ~Hist /\ Sim /\ (Grow \/ Ask \/ Emit)
        \/ Hist /\ ~Sim /\ NextHist
        \/ Hist /\ Sim /\ (HGenesis \/ HRandom)
Spec == Init /\ [][Next]_vars

---------------------------------------------------------------------------------
Asked == phase = "ask"
TheChain == Chain(Range(listing), h, r, hs, local, nfail)

(* statement: the selected proposer is a member of the suffrage *)
Member == Asked => \A i \in 1..Len(TheChain) : TheChain[i] \in Range(listing)
(* statement: whatever order the nodes are listed in - the code's way of computing it *)
(* from the listing gives what the set-based definition gives                         *)
ImplMatchesAbstract == Asked => ImplChain(listing, h, r, hs, local, nfail) = TheChain
(* every node (whoever is local) selects the same first proposer *)
LocalIndependent == Asked => \A loc \in Range(listing) \cup {0} :
                       Chain(Range(listing), h, r, hs, loc, 0) = <<TheChain[1]>>
(* a failed proposer is not selected again *)
NoRepeat == Asked => \A i, j \in 1..Len(TheChain) : i # j => TheChain[i] # TheChain[j]

---------------------------------------------------------------------------------
(* history part *)
SelIdx == {i \in DOMAIN script : IsSel(script[i])}
(* the chain the script tells is the chain of the state *)
ChainWellFormed ==
  /\ Len(sufs) = Len(bsums)
  /\ \A i \in DOMAIN script : IsBlock(script[i]) =>
        /\ script[i].g + 1 \in DOMAIN sufs
        /\ sufs[script[i].g + 1] = script[i].suf /\ bsums[script[i].g + 1] = script[i].hs
  /\ \A i \in SelIdx : /\ script[i].h \in 1..Len(sufs)
                       /\ script[i].hs = SumAt(script[i].h)
  /\ (script # <<>> /\ IsSel(script[Len(script)])) =>
        LET e == script[Len(script)] IN
        /\ Range(ListingOf(e)) = SufAt(e.h)                  \* every member listed, nobody else,
        /\ Len(ListingOf(e)) = Cardinality(SufAt(e.h))       \* once
(* statement: every selected proposer is a member of the suffrage of that height - not of the one *)
(* before the last block changed it                                                                *)
HMember == \A i \in SelIdx : \A j \in DOMAIN script[i].chain : script[i].chain[j] \in SufAt(script[i].h)
(* statement: same point, same previous block, same suffrage => same proposer; whichever selector   *)
(* object is asked, whatever it was asked before, in whatever order the nodes are listed           *)
HistoryIndependent ==
  \A i, j \in SelIdx :
     (script[i].h = script[j].h /\ script[i].r = script[j].r /\ script[i].hs = script[j].hs
      /\ SufAt(script[i].h) = SufAt(script[j].h))
     => script[i].chain[1] = script[j].chain[1]
(* implementation level: the selector as an object that lives across calls. GetNodes[g] is what     *)
(* GetNodesFunc answers for block height g in the call's order. The pinned code asks it at every    *)
(* call for SafePrev(height) and keeps nothing between calls: its answer is a function of the       *)
(* arguments of this call and of the chain.                                                         *)
SafePrev(hh) == IF hh <= 0 THEN 0 ELSE hh - 1
ImplObject(getnodes, e) == ImplChain(getnodes[SafePrev(e.h)], e.h, e.r, e.hs, e.loc, e.nfail)
ImplObjectMatches ==
  (script # <<>> /\ IsSel(script[Len(script)])) =>
     LET e == script[Len(script)]
         getnodes == [g \in 0..Top |-> Listed(sufs[g + 1], e.key)]
     IN ImplObject(getnodes, e) = e.chain
=============================================================================
