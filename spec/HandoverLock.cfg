\* the lock order of the code: NotStuck is violated
SPECIFICATION Spec
CONSTANTS
  Nested = TRUE
  Rounds = 2
INVARIANTS TypeOK Exclusive NotStuck
CHECK_DEADLOCK FALSE
