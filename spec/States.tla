------------------------------- MODULE States -------------------------------
(* C09 - the node state machine (isaac/states/states.go, handler.go).          *)
(*                                                                             *)
(* Implementation-level transcription of States: AskMoveState (ask-time check, *)
(* one sender goroutine per request => free order), the switch goroutine       *)
(* (startStatesSwitch -> ensureSwitchState -> switchState), Hold (a second     *)
(* goroutine calling switchState directly), checkStateSwitchContext,           *)
(* exitAndEnter under the state lock, the BROKEN fallback and the loop guard   *)
(* of ensureSwitchState, SetAllowConsensus (under the read side of the state   *)
(* lock; notifies a JOINING/CONSENSUS handler; cancels a handover-y broker)    *)
(* and the handover-y broker as far as checkHandoverStateSwitchContext reads   *)
(* it. One action per critical section: Snap (st.current()), Check, DoExit,    *)
(* DoEnter (the last two hold the state lock), Report.                          *)
(*                                                                             *)
(* The properties are written from the statement of C09, over ghost records    *)
(* of the last committed entry / check / report:                               *)
(*   StoppedEdges, StaleRequestNoEffect, NotAllowedNeverEnters, ToSyncing,     *)
(*   ReportMatches.  NotAllowedAtCheck is the weaker fact the code does        *)
(*   establish (allowed at the time of the check).                             *)
(*                                                                             *)
(* Binding G: the maximal behaviours of a small instance (Record = TRUE, the   *)
(* history is part of the state) are forced on the real States through the     *)
(* verif gates "switch:begin" / "switch:checked" and scripted stub handlers.   *)
(* Binding B: the event log of every forced and every free-running execution   *)
(* is validated by StatesTrace.tla.                                            *)
EXTENDS Integers, Sequences, FiniteSets, TLC, Json

CONSTANTS
  AskSet,       \* requests <<from, next>> the environment may ask
  MaxAsk, MaxToggle, MaxHold, MaxY,
  ExitOut,      \* outcomes of handler.exit:  subset of {"ok","error","ignore","finish"}
  EnterKinds,   \* outcomes of handler.enter: subset of {"ok","error","ignore","redirect"}
  Redirects,    \* targets of an enter redirect
  InitAllowed,  \* subset of BOOLEAN: StatesArgs.AllowConsensus
  Sched,        \* TRUE: schedule enumeration (uncontrollable steps are taken eagerly)
  Record        \* TRUE: keep the history (schedule export)

ST == "STOPPED"  BO == "BOOTING"  JO == "JOINING"  CO == "CONSENSUS"
SY == "SYNCING"  HA == "HANDOVER" BR == "BROKEN"
State == {ST, BO, JO, CO, SY, HA, BR}
Thread == {"loop", "hold"}

VARIABLES
  cur,      \* state of States.cs
  allowed,  \* States.allowedConsensus
  ybroker,  \* handover-y broker: "none" | "unasked" | "asked"
  pending,  \* requests whose sender goroutine waits on statech: set of [id, f, n]
  iasks,    \* AskMoveState calls issued by a handler ("notify") or by the cancelled broker
            \* ("cancel"), not yet executed: set of [id, f, n, k]
  th,       \* Thread -> [pc, f, n, snap, cnt, direct, achk]
  lock,     \* holder of the write side of States.stateLock: "none" | thread
  cnt,      \* [ask, tog, hold, y, seq] budgets used; taken = 1 once the loop has taken a request
            \* (before that the switch goroutine is inside States.start()'s first ensureSwitchState)
  last,     \* ghost: last committed entry (st.cs = nextHandler)
  chk,      \* ghost: last passed check
  rep,      \* ghost: last report (WhenStateSwitchedFunc)
  bad,      \* ghost (Record = TRUE): statement properties violated so far in this behaviour
  hist,     \* output only: the actions so far (Record = TRUE)
  step      \* output only: ToJson(hist)
vars == <<cur, allowed, ybroker, pending, iasks, th, lock, cnt, last, chk, rep, bad, hist, step>>
view == <<cur, allowed, ybroker, pending, iasks, th, lock, cnt, last, chk, rep>>

Off == [pc |-> "off", f |-> "", n |-> "", snap |-> "", cnt |-> 0, direct |-> TRUE, achk |-> FALSE]
Idle == [Off EXCEPT !.pc = "idle", !.direct = FALSE]

(* ensureSwitchState: next iteration with switch context (f, n); c is the value *)
(* of its counter n. n > 3 => broken context from nsctx.from(), counter reset.  *)
NextIter(f, n, c) ==
  IF c > 3 THEN [pc |-> "begin", f |-> f, n |-> BR, snap |-> "", cnt |-> 1, direct |-> FALSE, achk |-> FALSE]
           ELSE [pc |-> "begin", f |-> f, n |-> n, snap |-> "", cnt |-> c + 1, direct |-> FALSE, achk |-> FALSE]
Direct(f, n) == [pc |-> "begin", f |-> f, n |-> n, snap |-> "", cnt |-> 0, direct |-> TRUE, achk |-> FALSE]

(* what a thread does when its switchState call is over *)
Done(t) == IF th[t].direct THEN (IF t = "loop" THEN [Off EXCEPT !.pc = "dead"] ELSE Off) ELSE Idle

Ignore == [k |-> "ignore", f |-> "", n |-> ""]
Pass(f, n) == [k |-> "pass", f |-> f, n |-> n]

(* checkStateSwitchContext(sctx = (f, n), current = snap) with the values of   *)
(* AllowedConsensus() and of the handover-y broker it reads                     *)
Chk(f, n, snap, al, y) ==
  IF snap = ST /\ n \notin {BO, BR} THEN Ignore
  ELSE IF n = snap THEN Ignore
  ELSE IF f # snap THEN Ignore
  ELSE IF n = BR THEN Pass(f, n)
  ELSE IF y = "none" /\ n = HA THEN Ignore
  ELSE IF y = "unasked" THEN Ignore
  ELSE IF y = "asked" /\ snap # HA /\ n \in {CO, JO} THEN Pass(f, HA)
  ELSE IF al THEN (IF n = HA THEN Ignore ELSE Pass(f, n))
  ELSE IF snap = HA THEN Pass(f, n)
  ELSE IF n \in {CO, JO} THEN (IF snap = SY THEN Ignore ELSE Pass(snap, SY))
  ELSE Pass(f, n)

(* --- the statement of C09 --- *)
(* Stopped goes only to Booting or Broken *)
StoppedEdges == last.prev = ST => last.st \in {BO, BR}
(* a request whose origin is not the current state has no effect (no entry is committed for it) *)
StaleRequestNoEffect == last.st # "" => last.sf = last.prev
(* not allowed => never enters Joining/Consensus except out of Handover *)
NotAllowedNeverEnters == (last.st \in {JO, CO} /\ last.prev # HA) => last.al
(* ... it goes to or stays in Syncing instead (a request that passes the check is turned to Syncing) *)
ToSyncing == (chk.rn \in {JO, CO} /\ ~chk.al /\ chk.snap # HA /\ chk.y = "none") => chk.on = SY
(* every reported switch matches the state the machine is in afterwards *)
ReportMatches == rep.n = rep.cur

(* what the code does establish: allowed held when the request was checked *)
NotAllowedAtCheck == (last.st \in {JO, CO} /\ last.prev # HA) => last.achk

Violated == (IF StoppedEdges THEN {} ELSE {"StoppedEdges"})
       \cup (IF StaleRequestNoEffect THEN {} ELSE {"StaleRequestNoEffect"})
       \cup (IF NotAllowedNeverEnters THEN {} ELSE {"NotAllowedNeverEnters"})
       \cup (IF ToSyncing THEN {} ELSE {"ToSyncing"})
       \cup (IF ReportMatches THEN {} ELSE {"ReportMatches"})

Log(e) == /\ hist' = IF Record THEN Append(hist, e) ELSE hist
          /\ bad' = IF Record THEN bad \cup Violated' ELSE bad
          /\ step' = IF Record THEN ToJson([h |-> hist', bad |-> bad']) ELSE step

Bump(k) == cnt' = [cnt EXCEPT ![k] = @ + 1, !.seq = @ + 1]
NoLock == lock = "none"

Init ==
  /\ cur = ST
  /\ allowed \in InitAllowed
  /\ ybroker = "none"
  /\ pending = {}
  /\ iasks = {}
  /\ th = [t \in Thread |-> IF t = "loop" THEN NextIter(ST, BO, 0) ELSE Off]   \* States.start()
  /\ lock = "none"
  /\ cnt = [ask |-> 0, tog |-> 0, hold |-> 0, y |-> 0, seq |-> 0, taken |-> 0]
  /\ last = [prev |-> "", st |-> "", sf |-> "", al |-> TRUE, achk |-> TRUE, t |-> ""]
  /\ chk = [rn |-> "", on |-> "", snap |-> "", al |-> TRUE, y |-> "none"]
  /\ rep = [t |-> "", n |-> "", cur |-> ""]
  /\ bad = {}
  /\ hist = IF Record THEN <<[a |-> "Init", al |-> allowed]>> ELSE <<>>
  /\ step = IF Record THEN ToJson([h |-> hist, bad |-> bad]) ELSE ""

(* the same as an action (trace validation: a new execution starts) *)
Start(al) ==
  /\ cur' = ST
  /\ allowed' = al
  /\ ybroker' = "none"
  /\ pending' = {}
  /\ iasks' = {}
  /\ th' = [t \in Thread |-> IF t = "loop" THEN NextIter(ST, BO, 0) ELSE Off]
  /\ lock' = "none"
  /\ cnt' = [ask |-> 0, tog |-> 0, hold |-> 0, y |-> 0, seq |-> 0, taken |-> 0]
  /\ last' = [prev |-> "", st |-> "", sf |-> "", al |-> TRUE, achk |-> TRUE, t |-> ""]
  /\ chk' = [rn |-> "", on |-> "", snap |-> "", al |-> TRUE, y |-> "none"]
  /\ rep' = [t |-> "", n |-> "", cur |-> ""]
  /\ UNCHANGED <<bad, hist, step>>

(* the ask-time part of AskMoveState; the send happens in its own goroutine *)
DoAsk(f, n) ==
  LET r == Chk(f, n, cur, allowed, ybroker) IN
  pending' = IF r.k = "pass" THEN pending \cup {[id |-> cnt.seq, f |-> r.f, n |-> r.n]} ELSE pending

Ask(f, n) ==
  /\ NoLock   \* st.current() needs the read side of the state lock
  /\ cnt.ask < MaxAsk
  /\ DoAsk(f, n)
  /\ Bump("ask")
  /\ UNCHANGED <<cur, allowed, ybroker, iasks, th, lock, last, chk, rep>>
  /\ Log([a |-> "Ask", f |-> f, n |-> n])

(* an AskMoveState issued by a handler (whenSetAllowConsensus) or by the     *)
(* cancelled handover-y broker, from its own goroutine                        *)
IAsk(r) ==
  /\ NoLock
  /\ r \in iasks
  /\ iasks' = iasks \ {r}
  /\ DoAsk(r.f, r.n)
  /\ cnt' = [cnt EXCEPT !.seq = @ + 1]
  /\ UNCHANGED <<cur, allowed, ybroker, th, lock, last, chk, rep>>
  /\ Log([a |-> "IAsk", f |-> r.f, n |-> r.n])

Take(r) ==
  /\ th["loop"].pc = "idle"
  /\ r \in pending
  /\ pending' = pending \ {r}
  /\ th' = [th EXCEPT !["loop"] = NextIter(r.f, r.n, 0)]
  /\ cnt' = [cnt EXCEPT !.taken = 1]
  /\ UNCHANGED <<cur, allowed, ybroker, iasks, lock, last, chk, rep>>
  /\ Log([a |-> "Take", t |-> "loop", f |-> r.f, n |-> r.n])

Snap(t) ==
  /\ th[t].pc = "begin"
  /\ NoLock
  /\ th' = [th EXCEPT ![t].pc = "snapped", ![t].snap = cur]
  /\ UNCHANGED <<cur, allowed, ybroker, pending, iasks, lock, cnt, last, chk, rep>>
  /\ Log([a |-> "Snap", t |-> t])

Check(t) ==
  /\ th[t].pc = "snapped"
  /\ UNCHANGED <<cur, allowed, ybroker, pending, iasks, lock, cnt, last, rep>>
  /\ LET r == Chk(th[t].f, th[t].n, th[t].snap, allowed, ybroker) IN
     /\ th' = IF r.k = "pass"
              THEN [th EXCEPT ![t].pc = "checked", ![t].f = r.f, ![t].n = r.n, ![t].achk = allowed]
              ELSE [th EXCEPT ![t] = Done(t)]
     /\ chk' = IF r.k = "pass"
               THEN [rn |-> th[t].n, on |-> r.n, snap |-> th[t].snap, al |-> allowed, y |-> ybroker]
               ELSE chk
     /\ Log([a |-> "Check", t |-> t, k |-> r.k, f |-> r.f, n |-> r.n])

(* exitAndEnter, first half: current.exit(sctx) under the state lock *)
DoExit(t, o) ==
  /\ th[t].pc = "checked"
  /\ NoLock
  /\ o \in ExitOut
  /\ o = "finish" => th[t].snap = HA
  /\ allowed' = IF o = "finish" THEN TRUE ELSE allowed
  /\ LET go == o \in {"ok", "finish"} \/ th[t].n = BR IN
     /\ th' = IF go THEN [th EXCEPT ![t].pc = "exited"]
              ELSE IF o = "ignore" \/ th[t].direct THEN [th EXCEPT ![t] = Done(t)]
              ELSE [th EXCEPT ![t] = NextIter(th[t].f, BR, 0)]     \* movetobroken(nsctx.from(), err)
     /\ lock' = IF go THEN t ELSE "none"
  /\ UNCHANGED <<cur, ybroker, pending, iasks, cnt, last, chk, rep>>
  /\ Log([a |-> "Exit", t |-> t, o |-> o])

(* exitAndEnter, second half: nextHandler.enter(current.state(), sctx) *)
DoEnter(t, o, rd) ==
  /\ th[t].pc = "exited"
  /\ lock = t
  /\ o \in EnterKinds
  /\ rd \in (IF o = "redirect" THEN Redirects ELSE {""})
  /\ lock' = "none"
  /\ LET commit == o \in {"ok", "redirect"} IN
     /\ cur' = IF commit THEN th[t].n ELSE cur
     /\ last' = IF commit
                THEN [prev |-> cur, st |-> th[t].n, sf |-> th[t].f, al |-> allowed, achk |-> th[t].achk, t |-> t]
                ELSE last
     /\ th' = CASE o = "ok" -> [th EXCEPT ![t].pc = "report"]
                [] o = "ignore" \/ th[t].direct -> [th EXCEPT ![t] = Done(t)]
                [] o = "redirect" -> [th EXCEPT ![t] = NextIter(th[t].n, rd, th[t].cnt)]
                [] OTHER -> IF th[t].n = BR                               \* "switch to broken" failed:
                            THEN IF cnt.taken = 0                         \* start() returns at once, or
                                 THEN [th EXCEPT ![t] = [Off EXCEPT !.pc = "dead"]]
                                 ELSE [th EXCEPT ![t].pc = "stopping"]    \* after a last switch to STOPPED
                            ELSE [th EXCEPT ![t] = NextIter(th[t].f, BR, 0)]
  /\ UNCHANGED <<allowed, ybroker, pending, iasks, cnt, chk, rep>>
  /\ Log([a |-> "Enter", t |-> t, o |-> o, rd |-> rd])

Report(t) ==
  /\ th[t].pc = "report"
  /\ rep' = [t |-> t, n |-> th[t].n, cur |-> cur]
  /\ th' = [th EXCEPT ![t] = Done(t)]
  /\ UNCHANGED <<cur, allowed, ybroker, pending, iasks, lock, cnt, last, chk>>
  /\ Log([a |-> "Report", t |-> t])

(* States.start() after startStatesSwitch failed: switchState(current -> STOPPED) *)
FinalStop ==
  /\ th["loop"].pc = "stopping"
  /\ NoLock
  /\ th' = [th EXCEPT !["loop"] = Direct(cur, ST)]
  /\ UNCHANGED <<cur, allowed, ybroker, pending, iasks, lock, cnt, last, chk, rep>>
  /\ Log([a |-> "FinalStop"])

(* States.Hold(): switchState(current -> STOPPED) from the caller's goroutine *)
Hold ==
  /\ cnt.hold < MaxHold
  /\ th["hold"].pc = "off"
  /\ NoLock
  /\ th' = [th EXCEPT !["hold"] = Direct(cur, ST)]
  /\ Bump("hold")
  /\ UNCHANGED <<cur, allowed, ybroker, pending, iasks, lock, last, chk, rep>>
  /\ Log([a |-> "Hold"])

(* SetAllowConsensus(b) holds the read side of the state lock *)
Toggle(b) ==
  /\ cnt.tog < MaxToggle
  /\ NoLock
  /\ Sched => allowed # b      \* schedules: only toggles that change the flag
  /\ allowed' = b
  /\ LET isset == allowed # b
         notify == isset /\ cur \in {JO, CO} /\ ~b        \* the handler asks to move to SYNCING
         cancel == isset /\ b /\ ybroker # "none"         \* broker.cancel: asks to move to SYNCING
         new == {[id |-> cnt.seq, f |-> cur, n |-> SY, k |-> IF notify THEN "notify" ELSE "cancel"]}
     IN /\ iasks' = IF notify \/ cancel THEN iasks \cup new ELSE iasks
        /\ ybroker' = IF cancel THEN "none" ELSE ybroker
  /\ Bump("tog")
  /\ UNCHANGED <<cur, pending, th, lock, last, chk, rep>>
  /\ Log([a |-> "Toggle", b |-> b])

NewY ==
  /\ cnt.y < MaxY
  /\ ~allowed /\ ybroker = "none"
  /\ ybroker' = "unasked"
  /\ Bump("y")
  /\ UNCHANGED <<cur, allowed, pending, iasks, th, lock, last, chk, rep>>
  /\ Log([a |-> "NewY"])

AskY ==
  /\ ybroker = "unasked"
  /\ ybroker' = "asked"
  /\ UNCHANGED <<cur, allowed, pending, iasks, th, lock, cnt, last, chk, rep>>
  /\ Log([a |-> "AskY"])

(* steps the harness cannot hold back: they are taken before anything else *)
Eager == (iasks # {}) \/ (\E t \in Thread : th[t].pc \in {"snapped", "exited", "report", "stopping"})
Env == \/ \E r \in AskSet : Ask(r[1], r[2])
       \/ \E b \in BOOLEAN : Toggle(b)
       \/ Hold \/ NewY \/ AskY
Internal == \/ \E r \in iasks : IAsk(r)
            \/ \E t \in Thread : Check(t)
            \/ \E t \in Thread, o \in EnterKinds, rd \in Redirects \cup {""} : DoEnter(t, o, rd)
            \/ \E t \in Thread : Report(t)
            \/ FinalStop
Gated == \/ \E r \in pending : Take(r)
         \/ \E t \in Thread : Snap(t)
         \/ \E t \in Thread, o \in ExitOut : DoExit(t, o)

Next == IF Sched /\ Eager THEN Internal
        ELSE IF lock # "none" THEN Internal      \* the lock holder runs alone (everything else blocks or is irrelevant)
        ELSE Env \/ Internal \/ Gated
Spec == Init /\ [][Next]_vars

-----------------------------------------------------------------------------
PCs == {"off", "idle", "begin", "snapped", "checked", "exited", "report", "stopping", "dead"}
TypeOK ==
  /\ cur \in State /\ allowed \in BOOLEAN /\ ybroker \in {"none", "unasked", "asked"}
  /\ \A t \in Thread : th[t].pc \in PCs
  /\ lock \in Thread \cup {"none"}
  /\ \A r \in pending \cup iasks : r.f \in State /\ r.n \in State

(* schedule export (Record = TRUE): every maximal behaviour is printed once *)
Terminal == /\ pending = {} /\ iasks = {}
            /\ \A t \in Thread : th[t].pc \in {"idle", "off", "dead"}
            /\ cnt.ask = MaxAsk /\ cnt.tog = MaxToggle /\ cnt.hold = MaxHold
            /\ (cnt.y = MaxY \/ allowed \/ ybroker # "none") /\ ybroker # "unasked"
Emit == Terminal => PrintT(<<"SCHED", step>>)

(* request alphabets for the configurations *)
AskAll == {r \in State \X State : r[2] # ST /\ r[1] # r[2]}
AskCore == {<<BO, JO>>, <<BO, SY>>, <<SY, JO>>, <<SY, CO>>, <<JO, CO>>, <<CO, SY>>, <<JO, SY>>,
            <<BO, BR>>, <<BR, BO>>, <<ST, BO>>, <<ST, JO>>, <<ST, SY>>, <<SY, HA>>, <<HA, CO>>, <<HA, SY>>}
AskQuick == {<<BO, JO>>, <<BO, SY>>, <<SY, CO>>, <<SY, JO>>, <<JO, SY>>, <<BO, BR>>, <<ST, JO>>, <<ST, SY>>}
AskSched == {<<BO, JO>>, <<BO, CO>>, <<BO, SY>>, <<SY, CO>>, <<JO, CO>>, <<ST, JO>>}
AskHold == {<<BO, SY>>, <<ST, JO>>, <<ST, SY>>, <<ST, BO>>}
AskY3 == {<<BO, JO>>, <<HA, CO>>, <<BO, SY>>, <<SY, HA>>}
AskOut == {<<BO, JO>>, <<SY, JO>>}
=============================================================================
