SPECIFICATION Spec
CONSTANTS
  MaxH = 2
  MaxR = 2
  Walk = FALSE
  Rules = {"B", "V"}
VIEW View
INVARIANTS TypeOK LowerRejected
PROPERTIES HeightMonotone BackOnlyForSC NoRetake
CHECK_DEADLOCK FALSE
