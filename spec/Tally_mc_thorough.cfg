SPECIFICATION Spec
CONSTANTS
  MaxQ = 10
  NFacts = 4
  Extra = 3
  T10Set = {510, 511, 519, 550, 555, 600, 625, 660, 666, 667, 668, 670, 700, 750, 800, 875, 900, 950, 990, 999, 1000}
INVARIANTS TypeOK AtMostOneMajority DecidedWhenFull ReqIsCeiling
PROPERTIES Stable
CHECK_DEADLOCK FALSE
