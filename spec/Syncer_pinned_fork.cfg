SPECIFICATION Spec
CONSTANTS
  L0 = 2
  MaxH = 5
  Batch = 2
  AddHeights = {5}
  MaxAdds = 1
  MaxFaults = 0
  MaxRetry = 1
  Repaired = FALSE
  ForkPrev = TRUE
  CanCancel = FALSE
INVARIANTS TypeOK ImportsContiguous
CHECK_DEADLOCK FALSE
