SPECIFICATION Spec
CONSTANTS
  MaxPoint = 2
  MaxRuns = 2
  MaxTicks = 2
  CtxChecks = FALSE
  CanClean = FALSE
INVARIANTS TypeOK NoActionAfterCancel
CHECK_DEADLOCK FALSE
