-------------------------- MODULE RateLimitTrace --------------------------
(* C36, enforcement: executions recorded from the real                       *)
(* RateLimitHandler.Func are judged by RateLimit!WindowOK.                    *)
(* One line of trace.ndjson per execution:                                    *)
(*   [src, insts]   insts = one sequence per limiter instance (addr, handler) *)
(*                  of <<burst, per, tb, ta, ok, step>> in call order         *)
(* An execution is either the replay of a history of RateLimit.tla (requests  *)
(* mixed with SetClientID / SetNet / SetNode / SetSuffrage / SetDefault /     *)
(* SetMembers / AddNode; src = "history") or a burst of calls under one rule  *)
(* while the harness replaces rule sets by equal ones, changes the suffrage   *)
(* state hash, flips the type of the picked rule or sends other traffic       *)
(* (src = "burst"). burst and per are the limiter's own, as                   *)
(* RateLimiterResult reports them after each call; tb / ta = harness clock    *)
(* (monotonic) read before / after the call, in the unit of per. The limiter  *)
(* reads its clock between tb and ta, so the bound is sound without a clock   *)
(* hook. An execution that breaks the bound is printed as MISMATCH with the   *)
(* instance and the steps of its earliest shortest bad window, and            *)
(* validation goes on.                                                        *)
EXTENDS RateLimit

Trace == ndJsonDeserialize("trace.ndjson")
VARIABLE l
tvars == <<vars, l>>
Ev == Trace[l]

(* WindowOK with cumulative counts and run starts (same predicate, fewer evaluations):
   C[m] = allowed among s[1..m]; rs[j] = first call of the run of equal rules that contains j *)
BadWindows(s) ==
  LET len == Len(s)
      C == [m \in 0..len |-> Cardinality({x \in 1..m : s[x][5] = 1})]
      B == {m \in 1..len : m = 1 \/ s[m][1] # s[m - 1][1] \/ s[m][2] # s[m - 1][2]}
      rs == [m \in 1..len |-> CHOOSE x \in B : x <= m /\ \A y \in B : y <= m => y <= x]
  IN {p \in (1..len) \X (1..len) :
        /\ s[p[2]][1] > 0 /\ rs[p[2]] <= p[1] /\ p[1] <= p[2]
        /\ (C[p[2]] - C[p[1] - 1] - s[p[2]][1]) * s[p[2]][2] > s[p[2]][1] * (s[p[2]][4] - s[p[1]][3])}
WindowOKFast(s) ==
  LET len == Len(s)
      C == [m \in 0..len |-> Cardinality({x \in 1..m : s[x][5] = 1})]
      B == {m \in 1..len : m = 1 \/ s[m][1] # s[m - 1][1] \/ s[m][2] # s[m - 1][2]}
      rs == [m \in 1..len |-> CHOOSE x \in B : x <= m /\ \A y \in B : y <= m => y <= x]
  IN \A j \in 1..len : s[j][1] > 0 =>
        \A i \in rs[j]..j : (C[j] - C[i - 1] - s[j][1]) * s[j][2] <= s[j][1] * (s[j][4] - s[i][3])

\* the earliest, then shortest, bad window of an instance
FirstBad(s) == LET bad == BadWindows(s) IN CHOOSE p \in bad : \A q \in bad : p[2] < q[2] \/ (p[2] = q[2] /\ p[1] >= q[1])

JudgeInst(x, s) ==
  /\ IF WindowOKFast(s) THEN TRUE
     ELSE LET fb == FirstBad(s) IN PrintT(<<"MISMATCH", "window-bound", l, x, s[fb[1]][6], s[fb[2]][6]>>)
  /\ IF ZeroRuleOK(s) THEN TRUE
     ELSE PrintT(<<"MISMATCH", "zero-rule-allows", l, x, 0, 0>>)

Judge(e) == \A x \in 1..Len(e.insts) : JudgeInst(x, e.insts[x])

\* the variables of part 1 are not used here: they stay at their initial values
TraceInit == Init /\ l = 1
TraceNext == l <= Len(Trace) /\ Judge(Ev) /\ l' = l + 1 /\ UNCHANGED vars
TraceSpec == TraceInit /\ [][TraceNext]_tvars

\* the fast form is the statement's form (checked on short instances only: the latter is cubic)
FastIsSlow == l <= Len(Trace) =>
                 \A x \in 1..Len(Ev.insts) : Len(Ev.insts[x]) <= 12 =>
                    (WindowOKFast(Ev.insts[x]) <=> WindowOK(Ev.insts[x]))

ASSUME TLCSet(1, 0)
HighWater == TLCSet(1, IF l > TLCGet(1) THEN l ELSE TLCGet(1))
Accepted == \/ TLCGet(1) = Len(Trace) + 1
            \/ PrintT(<<"HW", TLCGet(1), Len(Trace)>>) /\ FALSE
=============================================================================
