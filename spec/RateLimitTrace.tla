-------------------------- MODULE RateLimitTrace --------------------------
(* C36, enforcement: bursts of requests recorded from the real               *)
(* RateLimitHandler.Func under one fixed rule are judged by                  *)
(* RateLimit!WindowOK. One line of trace.ndjson per burst:                   *)
(*   [burst, per (microseconds), kind ("limit"|"nolimit"|"zero"), obs]      *)
(* obs = sequence of [tb, ta, ok]: harness clock (us, monotonic) read before *)
(* and after the call, ok = 1 if the request was allowed. The limiter reads  *)
(* its own clock between tb and ta, so the window from tb_i to ta_j contains *)
(* the limiter's window for calls i..j: the bound is sound without a clock   *)
(* hook. A burst that breaks the bound is printed as MISMATCH with its class *)
(* and validation goes on.                                                   *)
EXTENDS RateLimit

Trace == ndJsonDeserialize("trace.ndjson")
VARIABLE l
tvars == <<vars, l>>
Ev == Trace[l]

\* cumulative count of allowed calls: Cum(obs)[k] = allowed among obs[1..k]
Cum(obs) == [k \in 0..Len(obs) |-> Cardinality({m \in 1..k : obs[m].ok = 1})]

\* WindowOK with the counts taken from the cumulative counts (same predicate, fewer evaluations)
WindowOKFast(burst, per, obs) ==
  LET C == Cum(obs)
  IN \A i \in 1..Len(obs) : \A j \in i..Len(obs) :
        (C[j] - C[i - 1]) * per <= burst * per + burst * (obs[j].ta - obs[i].tb)

AllowedCount(obs) == Cum(obs)[Len(obs)]

Judge(e) ==
  CASE e.kind = "limit"   -> IF WindowOKFast(e.burst, e.per, e.obs) THEN TRUE
                             ELSE PrintT(<<"MISMATCH", "window-bound", l, e.burst, e.per>>)
    [] e.kind = "zero"    -> IF AllowedCount(e.obs) = 0 THEN TRUE
                             ELSE PrintT(<<"MISMATCH", "zero-rule-allows", l, AllowedCount(e.obs), 0>>)
    [] e.kind = "nolimit" -> TRUE      \* nothing to bound

\* the variables of part 1 are not used here: they stay at their initial values
TraceInit == Init /\ l = 1
TraceNext == l <= Len(Trace) /\ Judge(Ev) /\ l' = l + 1 /\ UNCHANGED vars
TraceSpec == TraceInit /\ [][TraceNext]_tvars

\* the fast form is the statement's form (checked on the first bursts only: it is quadratic times linear)
FastIsSlow == (l <= Len(Trace) /\ l <= 3 /\ Ev.kind = "limit" /\ Len(Ev.obs) <= 60) =>
                 (WindowOKFast(Ev.burst, Ev.per, Ev.obs) <=> WindowOK(Ev.burst, Ev.per, Ev.obs))

ASSUME TLCSet(1, 0)
HighWater == TLCSet(1, IF l > TLCGet(1) THEN l ELSE TLCGet(1))
Accepted == \/ TLCGet(1) = Len(Trace) + 1
            \/ PrintT(<<"HW", TLCGet(1), Len(Trace)>>) /\ FALSE
=============================================================================
