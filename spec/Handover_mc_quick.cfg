\* exhaustive small instance (quick): 3 voteproofs, one fault of any kind, local cancellation at every point
SPECIFICATION Spec
CONSTANTS
  Kinds <- KindsIAI
  MinChal = 1
  ReadyEndArg = 0
  MaxFail = 0
  FinishRetry = 3
  CancelRetry = 2
  MaxAsk = 1
  MaxFaults = 1
  MaxBallots = 0
  LocalCancel = TRUE
  AllowDup = TRUE
  Bias = 0
VIEW view
CHECK_DEADLOCK FALSE
INVARIANTS
  TypeOK
  NoLaterVote
  YInOnlyAfterXFinish
  XOutWhenYIn
  FinishedIsOut
  CancelledNotBoth
  YCancelledOut
  OnceCallbacks
  YInImpliesFinished
  NothingBeforeAsk
  ResponseNeverErr
  FinishGuard
PROPERTIES
  NoLateProcessingX
  NoLateProcessingY
