SPECIFICATION Spec
CONSTANTS
  TypeNames = {"ta", "tb", "tc"}
  Vers <- VersSim
  MaxOps = 20
  EmitAll = TRUE
CHECK_DEADLOCK FALSE
