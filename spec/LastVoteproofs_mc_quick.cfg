SPECIFICATION Spec
CONSTANTS
  MaxH = 1
  MaxR = 1
  MaxCalls = 4
  CacheSize = 8
  WithForce = FALSE
VIEW View
INVARIANTS TypeOK
PROPERTIES CapBackOnlyWhenTakingSC
CHECK_DEADLOCK FALSE
