---------------------------- MODULE MembersPool ----------------------------
(* C37, implementation-level layer: the member table of the repository is TWO *)
(* sharded locked maps (network/quicmemberlist/memberlist.go membersPool):    *)
(*   addrs   : member id (udp address) -> member      (the address table)     *)
(*   members : node address            -> []member    (the per-node lists)    *)
(* and a join / leave updates both. This module transcribes the update        *)
(* protocol at the grain of the steps another goroutine can fall between,     *)
(* and lets TLC compare it with the concurrent layer of Members.tla:          *)
(*   - every access to a per-node list needs the list's key, node.String(),   *)
(*     and a re-join compares old.Address().Equal(new): these calls on the    *)
(*     member's node address are the boundaries of the steps below (they are  *)
(*     also the points where the harness - which supplies the address         *)
(*     objects - can park a goroutine, see Forced);                           *)
(*   - a step of an operation on address a inside the callback of             *)
(*     addrs.Set/Remove holds the lock of a's shard (lock[a]); a single       *)
(*     operation on a per-node list is atomic (its own shard lock).           *)
(* Discipline names where the node lists are updated relative to the critical *)
(* section of the address:                                                    *)
(*   "repo"        as in the repository: join and leave update the lists      *)
(*                 inside the critical section of the address                 *)
(*   "leave-after" candidate: leave deletes the address, leaves the critical  *)
(*                 section and filters the list afterwards                    *)
(*   "join-after"  candidate: join writes the address, leaves the critical    *)
(*                 section and updates the lists afterwards                   *)
(*   "free"        no critical section at all: every interleaving of the      *)
(*                 steps; used to enumerate the schedules the harness tries   *)
(*                 to force on the real table (a schedule the real locks      *)
(*                 forbid degrades into one they allow; the recorded history  *)
(*                 is judged by MembersTrace.tla whatever happened)           *)
(* Empty() clears the address table, then the lists, with nothing held in between: with   *)
(* "Empty" among the calls AtRestConsistent fails for "repo" too (MembersPool_cand_empty:  *)
(* a join between the two leaves an address that is in no list) - a model-level candidate, *)
(* reported as such: the harness has no boundary to hold Empty at.                         *)
(* Each goroutine performs ONE call, chosen at Init together with the table's *)
(* content (init0). Checked: NoDup, AgreeWhenUnlocked (the reason the          *)
(* statement holds), and at rest (all calls returned) AtRestConsistent (lists  *)
(* = present members of the node) and AtRestExplained (addresses, answers =    *)
(* some order of the calls on the sequential table).                          *)
(* Forced = TRUE: `toks` records which goroutine made each step and every      *)
(* terminal state prints SCHED <init0> ; <ops> ; <toks> - the command list     *)
(* "advance goroutine g to its next boundary or to its return".               *)
EXTENDS Integers, FiniteSets, Sequences, TLC

CONSTANTS Addr, Node, Procs,
          Discipline,      \* "repo" | "leave-after" | "join-after" | "free"
          Forced,          \* TRUE: schedule enumeration
          CallOps,         \* names of the operations the goroutines may call
          MinMutators      \* at least this many of the calls are joins / leaves
None == "none"

VARIABLES addrT,   \* Addr -> Node \cup {None}: the address table (node of the stored member)
          list,    \* Node -> Seq(Addr): the per-node lists
          lock,    \* Addr -> Procs \cup {0}: who is inside the critical section of the address
          pc,      \* Procs -> "start" | "eq" | "old" | "new" | "lstr" | "elist" | "done"
          loc,     \* Procs -> [old, r]: node of the member found at the start, the answer
          ops,     \* Procs -> call (constant of the behaviour)
          init0,   \* content of the table before the calls (constant of the behaviour)
          toks     \* Forced: the goroutines in the order of their steps
pvars == <<addrT, list, lock, pc, loc, ops, init0, toks>>

(* the abstract table: only its state-free operators are used (answers over explicit maps) *)
M == INSTANCE Members WITH present <- addrT, pend <- [g \in Procs |-> [st |-> "idle"]]

N == Cardinality(Procs)
ASSUME Procs = 1..N
AddrOrder == <<"a1", "a2", "a3", "a4">>
NodeOrder == <<"n1", "n2", "n3">>
OpOrder   == <<"Join", "Leave", "Exists", "Get", "MembersLen", "Others", "Len", "Empty">>
Idx(s, x) == IF x = None THEN 0 ELSE CHOOSE i \in 1..Len(s) : s[i] = x
ASSUME Addr \subseteq {AddrOrder[i] : i \in 1..Len(AddrOrder)}
ASSUME Node \subseteq {NodeOrder[i] : i \in 1..Len(NodeOrder)}
CallKey(c) == 100 * Idx(OpOrder, c.op) + 10 * Idx(AddrOrder, c.addr) + Idx(NodeOrder, c.node)

Range(s) == {s[i] : i \in 1..Len(s)}
Filter(s, a) == SelectSeq(s, LAMBDA x : x # a)
(* the addresses of a node in AddrOrder (content of a list before the calls) *)
ListOf(P, n) == SelectSeq(AddrOrder, LAMBDA x : x \in Addr /\ P[x] = n)

UseLock == Discipline # "free"
CanEnter(a) == ~UseLock \/ lock[a] = 0
Enter(a, p) == lock' = IF UseLock THEN [lock EXCEPT ![a] = p] ELSE lock
Exit(a)     == lock' = IF UseLock THEN [lock EXCEPT ![a] = 0] ELSE lock
Tok(p) == toks' = IF Forced THEN toks \o " " \o ToString(p) ELSE toks
Const == UNCHANGED <<ops, init0>>
Goto(p, to) == pc' = [pc EXCEPT ![p] = to]
Found(p, old, r) == loc' = [loc EXCEPT ![p] = [old |-> old, r |-> r]]

(* the calls of the goroutines: enough joins / leaves among them; goroutine numbers carry *)
(* no meaning, so only one of the renumberings (non-decreasing CallKey) is taken           *)
PoolCalls == {c \in M!Calls : c.op \in CallOps}
OpsChoices == {o \in [Procs -> PoolCalls] :
                 /\ Cardinality({p \in Procs : M!Mutator(o[p])}) >= MinMutators
                 /\ \A p \in Procs : p + 1 \in Procs => CallKey(o[p]) <= CallKey(o[p + 1])}

Init ==
  /\ init0 \in [Addr -> Node \cup {None}]
  /\ ops \in OpsChoices
  /\ addrT = init0
  /\ list = [n \in Node |-> ListOf(init0, n)]
  /\ lock = [a \in Addr |-> 0]
  /\ pc = [p \in Procs |-> "start"]
  /\ loc = [p \in Procs |-> [old |-> None, r |-> M!Rep(0, None, 0, 0)]]
  /\ toks = ""

(* ---------------- join: membersPool.Set(member of address a, node n) ---------------- *)
(* addrs.Set(a, callback): the callback sees the stored member (old) *)
JStart(p) ==
  /\ pc[p] = "start" /\ ops[p].op = "Join"
  /\ LET a == ops[p].addr  n == ops[p].node  old == addrT[a] IN
       /\ CanEnter(a)
       /\ Found(p, old, M!Rep(M!B2N(old = None), None, 0, 0))
       /\ Goto(p, IF old = None THEN "new" ELSE "eq")       \* next boundary: new.String() / old.Equal(new)
       /\ IF Discipline = "join-after"
            THEN addrT' = [addrT EXCEPT ![a] = n] /\ UNCHANGED lock     \* entered and left again
            ELSE Enter(a, p) /\ UNCHANGED addrT
       /\ UNCHANGED list /\ Tok(p) /\ Const
(* old.Address().Equal(member.Address()) *)
JEq(p) ==
  /\ pc[p] = "eq"
  /\ Goto(p, IF loc[p].old # ops[p].node THEN "old" ELSE "new")
  /\ UNCHANGED <<addrT, list, lock, loc>> /\ Tok(p) /\ Const
(* removeFromNode(old.Address(), id): the list of the node the address had joined under before *)
JOld(p) ==
  /\ pc[p] = "old"
  /\ list' = [list EXCEPT ![loc[p].old] = Filter(@, ops[p].addr)]
  /\ Goto(p, "new")
  /\ UNCHANGED <<addrT, lock, loc>> /\ Tok(p) /\ Const
(* members.Set(member.Address().String(), filter + append); the callback returns and the *)
(* address table takes the member                                                        *)
JNew(p) ==
  /\ pc[p] = "new"
  /\ LET a == ops[p].addr  n == ops[p].node IN
       /\ list' = [list EXCEPT ![n] = Append(Filter(@, a), a)]
       /\ IF Discipline = "join-after"
            THEN UNCHANGED <<addrT, lock>>
            ELSE addrT' = [addrT EXCEPT ![a] = n] /\ Exit(a)
  /\ Goto(p, "done") /\ UNCHANGED loc /\ Tok(p) /\ Const

(* ---------------- leave: membersPool.Remove(a) ---------------- *)
LStart(p) ==
  /\ pc[p] = "start" /\ ops[p].op = "Leave"
  /\ LET a == ops[p].addr  old == addrT[a] IN
       /\ CanEnter(a)
       /\ Found(p, old, M!Rep(M!B2N(old # None), None, 0, 0))
       /\ IF old = None
            THEN Goto(p, "done") /\ UNCHANGED <<addrT, lock>>
            ELSE /\ Goto(p, "lstr")                          \* next boundary: stored.Address().String()
                 /\ IF Discipline = "leave-after"
                      THEN addrT' = [addrT EXCEPT ![a] = None] /\ UNCHANGED lock
                      ELSE Enter(a, p) /\ UNCHANGED addrT
       /\ UNCHANGED list /\ Tok(p) /\ Const
(* removeFromNode(stored.Address(), id); the callback returns and the address is deleted *)
LStr(p) ==
  /\ pc[p] = "lstr"
  /\ LET a == ops[p].addr IN
       /\ list' = [list EXCEPT ![loc[p].old] = Filter(@, a)]
       /\ IF Discipline = "leave-after"
            THEN UNCHANGED <<addrT, lock>>
            ELSE addrT' = [addrT EXCEPT ![a] = None] /\ Exit(a)
  /\ Goto(p, "done") /\ UNCHANGED loc /\ Tok(p) /\ Const

(* ---------------- membersPool.Empty(): addrs.Empty() ; members.Empty() ---------------- *)
(* No call on an address object lies between the two: the harness cannot hold a goroutine  *)
(* there, so with Forced the two are one step; in the model they are two.                  *)
EAddrs(p) ==
  /\ pc[p] = "start" /\ ops[p].op = "Empty"
  /\ \A a \in Addr : CanEnter(a)                    \* every shard lock is taken in turn
  /\ addrT' = [a \in Addr |-> None]
  /\ Found(p, None, M!Rep(0, None, 0, 0))
  /\ IF Forced THEN list' = [n \in Node |-> <<>>] /\ Goto(p, "done")
               ELSE UNCHANGED list /\ Goto(p, "elist")
  /\ UNCHANGED lock /\ Tok(p) /\ Const
ELists(p) ==
  /\ pc[p] = "elist"
  /\ list' = [n \in Node |-> <<>>]
  /\ Goto(p, "done") /\ UNCHANGED <<addrT, lock, loc>> /\ Tok(p) /\ Const

(* ---------------- reads: one access to one table ---------------- *)
ListAnswer(c) ==
  LET s == list[c.node] IN
  IF c.op = "MembersLen" THEN M!Rep(0, None, Len(s), 0)
  ELSE M!Rep(M!B2N(c.addr \in Range(s)), None, Len(s), Len(Filter(s, c.addr)))
Read(p) ==
  /\ pc[p] = "start" /\ ops[p].op \notin {"Join", "Leave", "Empty"}
  /\ LET c == ops[p] IN
       /\ c.op \in {"Exists", "Get"} => CanEnter(c.addr)       \* read lock of the address's shard
       /\ Found(p, None, IF c.op \in {"MembersLen", "Others"} THEN ListAnswer(c) ELSE M!AnswerIn(addrT, c))
  /\ Goto(p, "done") /\ UNCHANGED <<addrT, list, lock>> /\ Tok(p) /\ Const

Done == \A p \in Procs : pc[p] = "done"
Next == \E p \in Procs : \/ JStart(p) \/ JEq(p) \/ JOld(p) \/ JNew(p) \/ LStart(p) \/ LStr(p)
                         \/ EAddrs(p) \/ ELists(p) \/ Read(p)
Spec == Init /\ [][Next]_pvars

-----------------------------------------------------------------------------
TypeOK == /\ addrT \in [Addr -> Node \cup {None}]
          /\ \A n \in Node : Range(list[n]) \subseteq Addr
          /\ lock \in [Addr -> Procs \cup {0}]
NoDup == \A n \in Node : Cardinality(Range(list[n])) = Len(list[n])
(* the lists agree with the address table on every address nobody is in the critical section of *)
AgreeOn(a) == \A n \in Node : a \in Range(list[n]) <=> addrT[a] = n
AgreeWhenUnlocked == \A a \in Addr : lock[a] = 0 => AgreeOn(a)
(* at rest: the per-node lists contain exactly the present members of the node, no duplicates *)
AtRestConsistent == Done => NoDup /\ \A a \in Addr : AgreeOn(a)
(* at rest: the address table and the answers are those of SOME order of the calls on the  *)
(* sequential table (reads of the lists made while other calls run are not constrained)     *)
Strict(c) == c.op \in {"Join", "Leave", "Exists", "Get", "Empty"}
Orders == {f \in [1..N -> Procs] : \A i, j \in 1..N : i # j => f[i] # f[j]}
ExplainedBy(f) ==
  LET St[k \in 0..N] == IF k = 0 THEN init0 ELSE M!AfterIn(St[k - 1], ops[f[k]]) IN
  /\ St[N] = addrT
  /\ \A k \in 1..N : Strict(ops[f[k]]) => loc[f[k]].r = M!AnswerIn(St[k - 1], ops[f[k]])
AtRestExplained == Done => \E f \in Orders : ExplainedBy(f)

(* schedule emission (Forced): one line per terminal state *)
EmitSched == (Forced /\ Done) =>
               PrintT("SCHED " \o ToString(init0) \o " ; " \o ToString(ops) \o " ;" \o toks)
=============================================================================
