SPECIFICATION Spec
CONSTANTS
  MaxPoint = 3
  MaxRuns = 2
  MaxTicks = 2
  CtxChecks = TRUE
  CanClean = FALSE
INVARIANTS TypeOK NoActionAfterCancel CallbackOrder OneResolution OneLiveRun
PROPERTIES NewestOnlyGrows
CHECK_DEADLOCK FALSE
