SPECIFICATION Spec
CONSTANTS
  Writers = {"w1"}
  Heights = {1}
  Shapes = {"full", "bare"}
  MaxCrash = 1
  Concurrent = FALSE
  Uploads = FALSE
  CheckAFixed = TRUE
  SaveRmForeign = FALSE
  SameHeight = TRUE
VIEW view
CHECK_DEADLOCK FALSE
INVARIANTS Recoverable
