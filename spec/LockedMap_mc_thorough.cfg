SPECIFICATION Spec
CONSTANTS
  NK = 3
  MaxVal = 4
INVARIANTS TypeOK ClosedIsEmpty AnswersConsistent
CHECK_DEADLOCK FALSE
