SPECIFICATION Spec
CONSTANTS
  MaxK = 4
  Gap = 3
  Sizes = {1}
  Positions = {0}
  Variants = {"pinned"}
  Emit = FALSE
  Mode = "build"
  Limits = {2, 3}
  RespKinds = {"consistent", "last-invalid", "missing", "error", "fork-one", "wrongheight", "swap", "fork", "older", "nongenesis-zero"}
INVARIANTS BNoPanic
CHECK_DEADLOCK FALSE
