SPECIFICATION Spec
CONSTANTS
  Shapes = {"full", "empty"}
  MaxTampers = 2
  TamperSet = {"vps_other_block", "vps_other_round", "ivp_prev", "ivp_next", "ivp_round", "avp_prev", "avp_next", "avp_other_newblock", "avp_draw"}
  AllOrders = FALSE
  OrderSet <- OrdersThorough
INVARIANTS HonestStorable TampersBreak ChecksumsKept OrderIndependent ImporterChecks FactsAgree
VIEW View
CHECK_DEADLOCK FALSE
