SPECIFICATION Spec
CONSTANTS
  N = 3
  Mul = 3
  Mod = 7
  Hs = {0}
  Rs = {0}
  Sums = {0}
  MaxSum = 0
  FailSum = 1
  MaxFail = 0
  Sim = FALSE
  Hist = TRUE
  NSel = 1
  MaxBlocks = 2
  MaxSel = 3
  HRs = {0}
  HSums = {2}
  S0Min = 2
  Kinds = {"stay", "join", "leave"}
  Keys = {1, 3, 5}
  Late = TRUE
INVARIANTS ChainWellFormed HMember HistoryIndependent ImplObjectMatches
CHECK_DEADLOCK FALSE
