------------------------------- MODULE Quorum -------------------------------
(* Arithmetic core of voteproof agreement (C03, plain voteproofs): with a       *)
(* threshold of at least 67.0 % two sets of Req(n,t) voters out of n overlap in  *)
(* more nodes than the tolerated number of faulty nodes F(n,t), hence in at      *)
(* least one honest node. Proved for all n by TLAPS; TLC checks the grid.        *)
EXTENDS Integers, TLAPS

Req(n, t10) == (n * t10 + 999) \div 1000            \* least integer >= n*t/100
F(n, t10)   == (n * 1000 - n * t10) \div 1000        \* floor(n - n*t/100)

(* linear form: x stands for n*t10 *)
LEMMA Lin == \A n \in Nat, x \in Int :
               (n >= 1 /\ 670 * n <= x /\ x <= 1000 * n)
                 => 2 * ((x + 999) \div 1000) - n > (n * 1000 - x) \div 1000
  BY SMT

THEOREM Overlap == \A n \in Nat, t10 \in 670..1000 :
                     n >= 1 => 2 * Req(n, t10) - n > F(n, t10)
<1> SUFFICES ASSUME NEW n \in Nat, NEW t10 \in 670..1000, n >= 1
             PROVE 2 * Req(n, t10) - n > F(n, t10)
    OBVIOUS
<1>1. n * t10 \in Int /\ 670 * n <= n * t10 /\ n * t10 <= 1000 * n
    BY SMT
<1>2. QED BY <1>1, Lin DEF Req, F
=============================================================================
