SPECIFICATION Spec
CONSTANTS
  NJobs = 2
  SemSize = 1
  Kind = "base"
  MayFail = {1, 2}
  EndOrder = "release-cancel"
  AcquireAnswer = "cause"
  ParentMay = FALSE
INVARIANTS NoAcceptAfterFailure
CHECK_DEADLOCK FALSE
