----------------------------- MODULE TallyTable -----------------------------
(* C02, binding B (table validation): every line of the table recorded from    *)
(* the real base.Threshold.Threshold is an initial state; TLC evaluates the    *)
(* exact integer ceiling Tally!Req for all 491 one-decimal thresholds 51.0 ..  *)
(* 100.0 of the line; row.v says how the thresholds were made ("value": Go     *)
(* constants; "text": decoded from their text form as voteproofs and the node  *)
(* parameters carry them - the count the protocol requires must be the same)   *)
(* 100.0 of the line and prints every mismatch (it never stops at the first:   *)
(* the driver classifies each mismatch).                                       *)
EXTENDS Integers, Sequences, TLC, Json

Table == ndJsonDeserialize("c02_table.ndjson")

VARIABLE i
Req(n, tt) == (n * tt + 999) \div 1000

RowOK(row) == \A k \in 1..Len(row.r) :
                 \/ row.r[k] = Req(row.n, 509 + k)
                 \/ PrintT(<<"MISMATCH", row.n, 509 + k, row.r[k], Req(row.n, 509 + k), row.v>>)
(* least integer that is at least n*t/100, stated directly (the statement) and *)
(* checked against Req on the same rows, so that Req itself is not trusted     *)
IsCeil(n, tt, x) == x * 1000 >= n * tt /\ (x - 1) * 1000 < n * tt
ReqIsCeil(row) == \A k \in 1..Len(row.r) : IsCeil(row.n, 509 + k, Req(row.n, 509 + k))

Init == i \in 1..Len(Table)
Next == UNCHANGED i
Spec == Init /\ [][Next]_i
Checked == RowOK(Table[i]) /\ ReqIsCeil(Table[i]) /\ Len(Table[i].r) = 491
=============================================================================
