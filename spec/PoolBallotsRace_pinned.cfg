SPECIFICATION Spec
CONSTANTS
  Locked = FALSE
  MaxReads = 2
CHECK_DEADLOCK FALSE
