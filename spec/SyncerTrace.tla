---------------------------- MODULE SyncerTrace ----------------------------
(* Binding B for SYNCER: executions recorded from the real isaacstates.Syncer (harness/internal/syncer: *)
(* real BatchIsValidMaps, ImportBlocks, LeveldbTempSyncPool, signed block maps; harness-supplied        *)
(* sources and a database that takes and removes blocks like isaacdatabase.Center) are validated        *)
(* against the contract of Syncer.tla.                                                                 *)
(*                                                                                                     *)
(* The syncer is concurrent (Add/Cancel/IsFinished from any goroutine, windows of concurrent jobs), so  *)
(* the trace spec is a monitor: the observable variables of Syncer.tla (store, pool, fins, added,       *)
(* cancel/error flags, the running import call; `top` = the highest height an Add has RETURNED true     *)
(* for, a lower bound of topvalue) are driven by the events, every event is judged with the contract    *)
(* operators of Syncer.tla, and a judgement that fails is printed with its class (never blocks).        *)
(* Calls that overlap (AddCall..AddRet) are judged by what every linearization allows.                  *)
(* Events (one ndjson line each; a Reset line starts a new execution):                                  *)
(*   Reset AddCall AddRet LastMap Fetch RemovePrev Pool ImportCall NewImp Save Merge MergeAll CancelImp *)
(*   LastVps ImportRet Finished Done CancelCall CancelRet Stopped IsFin Quiescent Livelock End          *)
EXTENDS Syncer, Json

Trace == ndJsonDeserialize("trace.ndjson")

VARIABLES l,        \* index of the next event
          inflight, \* Add calls that have not returned: <<call id, height, top at the call, Cancel had returned>>
          lm,       \* highest height the syncer's own last-block-map poll was answered with (internal Add)
          active,   \* an import call is running
          imps,     \* heights for which the running call made an importer
          savedok   \* heights whose importer was saved in the running call
tvars == <<vars, l, inflight, lm, active, imps, savedok>>
Ev == Trace[l]

Expect(class, seen, want) == IF seen = want THEN TRUE
                            ELSE PrintT(<<"MISMATCH", class, l, seen, want>>)
B(x) == IF x THEN 1 ELSE 0
Consume == l <= Len(Trace) /\ l' = l + 1

unobserved == <<prev, checked, queue, pc, lasth, wstart, got, saved, nmerged, finq, isdone, strag, nadds, nretry, viol>>

TReset ==
  /\ Consume /\ Ev.a = "Reset"
  /\ top' = Ev.l0 /\ store' = Ev.l0 /\ pool' = {} /\ fins' = <<>> /\ added' = {}
  /\ ctxc' = FALSE /\ cancelret' = FALSE /\ erred' = FALSE /\ nfaults' = 0 /\ from' = NilH /\ to' = NilH
  /\ inflight' = {} /\ lm' = NilH /\ active' = FALSE /\ imps' = {} /\ savedok' = {}
  /\ UNCHANGED unobserved

Same == UNCHANGED <<top, store, pool, fins, added, ctxc, cancelret, erred, nfaults, from, to, inflight, lm, active,
                    imps, savedok, unobserved>>

(* ---- Add *)
TAddCall ==
  /\ Consume /\ Ev.a = "AddCall"
  /\ inflight' = inflight \cup {<<Ev.c, Ev.h, top, cancelret>>}
  /\ UNCHANGED <<top, store, pool, fins, added, ctxc, cancelret, erred, nfaults, from, to, lm, active, imps, savedok, unobserved>>

(* the highest target any other call may have set by now *)
Others(c) == {top, lm} \cup {x[2] : x \in {y \in inflight : y[1] # c}}
TAddRet ==
  /\ Consume /\ Ev.a = "AddRet"
  /\ LET x == CHOOSE y \in inflight : y[1] = Ev.c IN
       /\ inflight' = inflight \ {x}
       /\ IF Ev.ok = 1
            THEN /\ top' = Max(top, Ev.h) /\ added' = added \cup {Ev.h}
                 \* the target was at least x[3] during the whole call: a height not above it is a no-op
                 /\ Expect("Add-accepted-not-higher", B(AddResult(Ev.h, x[3])), 1)
                 /\ Expect("Add-accepted-after-cancel", B(x[4]), 0)
            ELSE /\ UNCHANGED <<top, added>>
                 \* refused: only if some target >= h existed, or the syncer was being cancelled
                 /\ Expect("Add-refused-higher", B(ctxc \/ ~AddResult(Ev.h, SetMax(Others(Ev.c)))), 1)
  /\ UNCHANGED <<store, pool, fins, ctxc, cancelret, erred, nfaults, from, to, lm, active, imps, savedok, unobserved>>

TLastMap ==
  /\ Consume /\ Ev.a = "LastMap"
  /\ lm' = Max(lm, Ev.h) /\ added' = added \cup {Ev.h}
  /\ UNCHANGED <<top, store, pool, fins, ctxc, cancelret, erred, nfaults, from, to, inflight, active, imps, savedok, unobserved>>

(* the highest height that was ever added (or is being added) *)
Highest == SetMax({top, lm} \cup {x[2] : x \in inflight})

(* ---- sources *)
TFetch ==
  /\ Consume /\ Ev.a = "Fetch"
  /\ nfaults' = IF Ev.res \in {"ok", "ctx"} THEN nfaults ELSE nfaults + 1
  /\ Expect("Fetch-beyond-added", B(Ev.h <= Highest), 1)
  /\ UNCHANGED <<top, store, pool, fins, added, ctxc, cancelret, erred, from, to, inflight, lm, active, imps, savedok, unobserved>>

TRemovePrev ==
  /\ Consume /\ Ev.a = "RemovePrev"
  /\ nfaults' = nfaults + 1
  /\ IF Ev.removed = 1
       THEN store' = Ev.h - 1 /\ Expect("RemovePrev-not-last", Ev.h, store)
       ELSE UNCHANGED store
  /\ UNCHANGED <<top, pool, fins, added, ctxc, cancelret, erred, from, to, inflight, lm, active, imps, savedok, unobserved>>

TPool ==
  /\ Consume /\ Ev.a = "Pool"
  /\ pool' = IF Ev.ok = 1 THEN pool \cup {Ev.h} ELSE pool
  /\ UNCHANGED <<top, store, fins, added, ctxc, cancelret, erred, nfaults, from, to, inflight, lm, active, imps, savedok, unobserved>>

(* ---- import *)
TImportCall ==
  /\ Consume /\ Ev.a = "ImportCall"
  /\ from' = Ev.from /\ to' = Ev.to /\ active' = TRUE /\ imps' = {} /\ savedok' = {}
  /\ IF ImportFromOK(Ev.from, store) THEN TRUE
     ELSE IF Ev.from <= store THEN Expect("Import-from-below-stored", Ev.from, store + 1)
                              ELSE Expect("Import-from-gap", Ev.from, store + 1)
  /\ Expect("Import-beyond-added", B(ImportToOK(Ev.to, Highest)), 1)
  /\ Expect("Import-after-cancel", B(cancelret), 0)
  /\ Expect("Import-after-error", B(erred), 0)
  /\ Expect("Import-unprepared-map", (Ev.from..Ev.to) \ pool, {})
  /\ UNCHANGED <<top, store, pool, fins, added, ctxc, cancelret, erred, nfaults, inflight, lm, unobserved>>

TNewImp ==
  /\ Consume /\ Ev.a = "NewImp"
  /\ imps' = imps \cup {Ev.h}
  /\ Expect("Importer-outside-call", B(active /\ Ev.h \in from..to), 1)
  /\ Expect("Importer-twice", B(Ev.h \in imps), 0)
  /\ Expect("Importer-after-cancel", B(cancelret), 0)
  /\ UNCHANGED <<top, store, pool, fins, added, ctxc, cancelret, erred, nfaults, from, to, inflight, lm, active, savedok, unobserved>>

TSave ==
  /\ Consume /\ Ev.a = "Save"
  /\ savedok' = IF Ev.ok = 1 THEN savedok \cup {Ev.h} ELSE savedok
  /\ nfaults' = IF Ev.ok = 1 THEN nfaults ELSE nfaults + 1
  /\ Expect("Save-without-importer", B(Ev.h \in imps), 1)
  /\ Expect("Save-after-cancel", B(cancelret), 0)
  /\ UNCHANGED <<top, store, pool, fins, added, ctxc, cancelret, erred, from, to, inflight, lm, active, imps, unobserved>>

TMerge ==
  /\ Consume /\ Ev.a = "Merge"
  /\ store' = IF Ev.ok = 1 THEN Ev.h ELSE store
  /\ IF MergeOK(Ev.h, store) THEN TRUE
     ELSE IF Ev.h <= store THEN Expect("Merge-duplicate", Ev.h, store + 1)
                           ELSE Expect("Merge-gap", Ev.h, store + 1)
  /\ Expect("Merge-after-cancel", B(cancelret), 0)
  /\ Expect("Merge-after-error", B(erred), 0)
  /\ Expect("Merge-beyond-added", B(Ev.h <= Highest), 1)
  /\ Expect("Merge-unsaved", B(Ev.h \in savedok), 1)
  /\ IF Ev.ok = 1 THEN Expect("Store-not-linked", Ev.link, 1) ELSE TRUE
  /\ UNCHANGED <<top, pool, fins, added, ctxc, cancelret, erred, nfaults, from, to, inflight, lm, active, imps, savedok, unobserved>>

TImportRet ==
  /\ Consume /\ Ev.a = "ImportRet"
  /\ active' = FALSE
  /\ IF Ev.ok = 1 THEN Expect("Import-ok-not-stored", B(store >= Ev.to), 1) ELSE TRUE
  /\ UNCHANGED <<top, store, pool, fins, added, ctxc, cancelret, erred, nfaults, from, to, inflight, lm, imps, savedok, unobserved>>

(* ---- reports *)
TFinished ==
  /\ Consume /\ Ev.a = "Finished"
  /\ fins' = Append(fins, Ev.h)
  /\ Expect("Finished-before-merged", B(Ev.h <= store), 1)
  \* (an Add whose return is not logged yet may already be synced)
  /\ Expect("Finished-not-added", B(Ev.h \in added \cup {x[2] : x \in inflight}), 1)
  /\ Expect("Finished-twice", B(\E i \in 1..Len(fins) : fins[i] = Ev.h), 0)
  /\ UNCHANGED <<top, store, pool, added, ctxc, cancelret, erred, nfaults, from, to, inflight, lm, active, imps, savedok, unobserved>>

TDone ==
  /\ Consume /\ Ev.a = "Done"
  /\ erred' = (erred \/ Ev.err = "error")
  /\ IF Ev.err = "error" THEN Expect("Error-without-source-fault", B(nfaults > 0 \/ ctxc), 1)
     ELSE IF Ev.err = "canceled" THEN Expect("Canceled-without-cancel", B(ctxc), 1)
     ELSE Expect("Done-without-error", Ev.err, "error")
  /\ UNCHANGED <<top, store, pool, fins, added, ctxc, cancelret, nfaults, from, to, inflight, lm, active, imps, savedok, unobserved>>

TCancelCall ==
  /\ Consume /\ Ev.a = "CancelCall" /\ ctxc' = TRUE
  /\ UNCHANGED <<top, store, pool, fins, added, cancelret, erred, nfaults, from, to, inflight, lm, active, imps, savedok, unobserved>>
TCancelRet ==
  /\ Consume /\ Ev.a = "CancelRet" /\ cancelret' = TRUE
  /\ Expect("Cancel-error", Ev.ok, 1)
  /\ UNCHANGED <<top, store, pool, fins, added, ctxc, erred, nfaults, from, to, inflight, lm, active, imps, savedok, unobserved>>

TIsFin ==
  /\ Consume /\ Ev.a = "IsFin"
  /\ Expect("IsFinished-before-stored", B(IsFinishedOK(Ev.top, Ev.fin = 1, store)), 1)
  /\ Expect("IsFinished-top-beyond-added", B(Ev.top <= Highest), 1)
  /\ IF Ev.quiet = 1 /\ lm = NilH
       THEN Expect("IsFinished-top", Ev.top, top) /\ Expect("IsFinished-not-finished", Ev.fin, B(store = top))
       ELSE TRUE
  /\ Same

(* the harness found the syncer idle for good (start() parked in its select, no goroutine of the syncer alive) *)
TQuiescent ==
  /\ Consume /\ Ev.a = "Quiescent"
  /\ IF ctxc \/ erred THEN TRUE
     ELSE IF Ev.confirmed = 1 THEN Expect("Quiescent-below-top", B(store >= top), 1)
     ELSE Expect("Stalled-unconfirmed", B(store >= top), 1)
  /\ Same

TLivelock ==
  /\ Consume /\ Ev.a = "Livelock"
  /\ Expect("Import-retried-for-ever", Ev.call, "")
  /\ Same

TEnd ==
  /\ Consume /\ Ev.a = "End"
  /\ Expect("End-store", Ev.store, store)
  /\ Same

TOther == Consume /\ Ev.a \in {"MergeAll", "CancelImp", "LastVps", "Stopped"} /\ Same

TraceInit == Init /\ l = 1 /\ inflight = {} /\ lm = NilH /\ active = FALSE /\ imps = {} /\ savedok = {}
TraceNext == \/ TReset \/ TAddCall \/ TAddRet \/ TLastMap \/ TFetch \/ TRemovePrev \/ TPool \/ TImportCall \/ TNewImp
             \/ TSave \/ TMerge \/ TImportRet \/ TFinished \/ TDone \/ TCancelCall \/ TCancelRet \/ TIsFin
             \/ TQuiescent \/ TLivelock \/ TEnd \/ TOther
TraceSpec == TraceInit /\ [][TraceNext]_tvars

ASSUME TLCSet(1, 0)
HighWater == TLCSet(1, IF l > TLCGet(1) THEN l ELSE TLCGet(1))
Accepted == \/ TLCGet(1) = Len(Trace) + 1
            \/ PrintT(<<"HW", TLCGet(1), Len(Trace)>>) /\ FALSE
=============================================================================
