SPECIFICATION Spec
CONSTANTS
  MaxH = 3
  MaxR = 3
  Walk = FALSE
  Rules = {"B", "V"}
VIEW View
INVARIANTS TypeOK LowerRejected
PROPERTIES HeightMonotone BackOnlyForSC NoRetake
CHECK_DEADLOCK FALSE
