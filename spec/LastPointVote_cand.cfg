SPECIFICATION Spec
CONSTANTS
  MaxH = 1
  MaxR = 1
  NN0 = 2
  T100 = 1000
  Ex0 = {}
  Facts = {"A", "B"}
  MaxOps = 2
  StartAll = TRUE
  StartSuf = {TRUE}
  EvpAny = FALSE
  SymFirst = TRUE
  WithSetLast = FALSE
  Guard = "filter"
VIEW View
PROPERTIES MoveOK
CHECK_DEADLOCK FALSE
