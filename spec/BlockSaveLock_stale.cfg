SPECIFICATION LSpec
CONSTANTS
  Props <- PropsA
  Avps <- AvpsA
  MaxOps = 0
  Calls <- CallsPair
  MaxCalls = 4
  CheckUnderLock = FALSE
  GateSave = TRUE
  Modes = {"forced"}
INVARIANTS LTypeOK LockOK RunningHeld AgreedOnly OncePerHeight 
CHECK_DEADLOCK FALSE
