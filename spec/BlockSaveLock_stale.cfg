SPECIFICATION LSpec
CONSTANTS
  Props <- PropsA
  Avps <- AvpsA
  MaxOps = 0
  Calls <- CallsQuick
  MaxCalls = 4
  CheckUnderLock = FALSE
  Forced = TRUE
INVARIANTS LTypeOK LockOK RunningHeld AgreedOnly OncePerHeight
CHECK_DEADLOCK FALSE
