SPECIFICATION Spec
CONSTANTS
  Fact = {"A", "B", "C", "D"}
  Signer = {1, 2, 3}
  MaxAdd = 10
  MaxReSet = 2
  MaxCalls = 4
  Limits = {1, 2, 3, 4, 6, 12}
  MaxRej = 3
  Impl = "fixed"
  Sym = FALSE
  NCallers = 0
  Removal = "skip"
  MaxTwice = 0
  SetRace = "unlocked"
  Pick = 6
  Emit = "terminal"
INVARIANTS TypeOK Gone R0ok R1ok R2ok R3ok R4ok R6ok
CHECK_DEADLOCK FALSE
