----------------------------- MODULE TimersTrace -----------------------------
(* Binding B (and the observation half of binding G) for C34: the event log of *)
(* a real util.SimpleTimers - forced schedules and free runs of the daemon     *)
(* loop - is consumed event by event with the actions of Timers.tla. Every     *)
(* event is logged at the point where it happens (Reg / Removed inside the     *)
(* registry's shard lock, RunEnter before the context check, RunChecked after  *)
(* it, CbStart at callback entry, StopRet after the API call returned), so the *)
(* log is deterministic for the specification: no search, the three sentences  *)
(* of the statement are evaluated at each callback start and each removal with *)
(* the predicates of Timers.tla and every failure is printed with its class.   *)
(* An event the actions cannot take (gate order the model does not know) stops *)
(* the validation: HW = that line, no verdict.                                 *)
EXTENDS Timers

Trace == ndJsonDeserialize("trace.ndjson")
VARIABLES l,      \* next trace line
          cae,    \* instances whose context was already cancelled when their current run() was entered
          pend    \* caller -> instances the pending stop call is going to stop
tvars == <<vars, l, cae, pend>>
Ev == Trace[l]
Callers == 1..2

Expect(class, got, want) == IF got = want THEN TRUE
                            ELSE PrintT(<<"MISMATCH", class, l, got, want>>)
Consume == l <= Len(Trace) /\ l' = l + 1
Quiet == UNCHANGED <<bnd, hist, step>>
SeqSet(s) == {s[i] : i \in 1..Len(s)}
Same == UNCHANGED <<reg, owner, ivl, pc, rm, cancelled, stopped, exp, base, badStart, sbc, badRemove, badEarly>>

TReset ==
  /\ Consume /\ Ev.a = "Reset"
  /\ reg' = [i \in Ids |-> None] /\ owner' = [x \in Inst |-> NoId] /\ ivl' = [x \in Inst |-> 0]
  /\ pc' = [x \in Inst |-> "idle"] /\ rm' = [x \in Inst |-> 0]
  /\ cancelled' = {} /\ stopped' = {} /\ exp' = [x \in Inst |-> Inf] /\ base' = [x \in Inst |-> 0]
  /\ now' = 0 /\ badStart' = {} /\ sbc' = {} /\ badRemove' = {} /\ badEarly' = {}
  /\ cae' = {} /\ pend' = [g \in Callers |-> {}] /\ Quiet

(* NewTimer took effect (logged from inside timers.Set): an overwritten instance is not  *)
(* stopped by a pending stop call any more                                                 *)
TReg ==
  /\ Consume /\ Ev.a = "Reg"
  /\ New(Ev.id, Ev.x, Ev.t, Ev.iv) /\ now' = Ev.t
  /\ pend' = [g \in Callers |-> pend[g] \ {reg[Ev.id]}]
  /\ UNCHANGED cae /\ Quiet

TStopCall ==
  /\ Consume /\ Ev.a = "StopCall"
  /\ pend' = [pend EXCEPT ![Ev.g] = {reg[i] : i \in SeqSet(Ev.ids) \cap Registered}]
  /\ Same /\ UNCHANGED <<now, cae>> /\ Quiet

(* one removeTimer of an API call: whenRemoved ran for Ev.x *)
TRemovedApi ==
  /\ Consume /\ Ev.a = "Removed" /\ Ev.by = 0
  /\ Expect("registry-entry", reg[owner[Ev.x]], Ev.x)
  /\ Expect("removed-without-request", Ev.x \in UNION {pend[g] : g \in Callers}, TRUE)
  /\ RemoveEffect({Ev.x})
  /\ UNCHANGED <<owner, ivl, pc, rm, stopped, exp, base, badStart, sbc, badRemove, badEarly, now, cae, pend>> /\ Quiet

(* the stop call returned: what it was going to stop is stopped *)
TStopRet ==
  /\ Consume /\ Ev.a = "StopRet"
  /\ stopped' = stopped \cup pend[Ev.g]
  /\ \A x \in pend[Ev.g] : Expect("stopped-still-registered", reg[owner[x]] = x, FALSE)
  /\ pend' = [pend EXCEPT ![Ev.g] = {}]
  /\ UNCHANGED <<reg, owner, ivl, pc, rm, cancelled, exp, base, badStart, sbc, badRemove, badEarly, now, cae>> /\ Quiet

(* iterate() collected Ev.S (the traversal is not atomic over shards: no comparison with the registry) *)
TSnap ==
  /\ Consume /\ Ev.a = "Snap"
  /\ \A x \in SeqSet(Ev.S) : Expect("collected-while-running", pc[x], "idle")
  /\ Collect(SeqSet(Ev.S))
  /\ UNCHANGED <<now, cae, pend>> /\ Quiet

TRunEnter ==
  /\ Consume /\ Ev.a = "RunEnter"
  /\ pc[Ev.x] = "snap"
  /\ cae' = IF Ev.x \in cancelled THEN cae \cup {Ev.x} ELSE cae \ {Ev.x}
  /\ Same /\ UNCHANGED <<now, pend>> /\ Quiet

TRunChecked ==
  /\ Consume /\ Ev.a = "RunChecked"
  /\ RunCheckR(Ev.x, TRUE)
  /\ UNCHANGED <<now, cae, pend>> /\ Quiet

(* the job is about to call removeTimer; ck = this job had passed the context check *)
TJobRemove ==
  /\ Consume /\ Ev.a = "JobRemove"
  /\ IF Ev.ck THEN rm[Ev.x] > 0 /\ Same ELSE RunCheckR(Ev.x, FALSE)
  /\ UNCHANGED <<now, cae, pend>> /\ Quiet

TCbStart ==
  /\ Consume /\ Ev.a = "CbStart"
  /\ IF ~StartsStopped(Ev.x) THEN TRUE
     ELSE PrintT(<<"MISMATCH", "StoppedStaysStopped", l,
                 IF Ev.x \notin cancelled THEN "stopped-not-cancelled"
                 ELSE IF Ev.x \in cae THEN "stop-before-run-entry" ELSE "stop-after-run-entry", Ev.x>>)
  /\ IF ~StartsEarly(Ev.x, Ev.t) THEN TRUE
     ELSE PrintT(<<"MISMATCH", "NotEarly", l, Ev.t - base[Ev.x], ivl[Ev.x]>>)
  /\ CbStart(Ev.x, Ev.t) /\ now' = Ev.t
  /\ UNCHANGED <<cae, pend>> /\ Quiet

TCbEnd ==
  /\ Consume /\ Ev.a = "CbEnd"
  /\ CbEnd(Ev.x, Ev.r, Ev.t) /\ now' = Ev.t
  /\ UNCHANGED <<cae, pend>> /\ Quiet

(* the removeTimer of the job of instance Ev.by took Ev.x out of the registry *)
TRemovedJob ==
  /\ Consume /\ Ev.a = "Removed" /\ Ev.by # 0
  /\ Expect("registry-entry", reg[owner[Ev.x]], Ev.x)
  /\ IF ~RemovesOther(Ev.by, Ev.x) THEN TRUE
     ELSE PrintT(<<"MISMATCH", "RemoveOnlySelf", l, Ev.by, Ev.x>>)
  /\ AfterRunV(Ev.by, Ev.x)
  /\ pend' = pend
  /\ UNCHANGED <<now, cae>> /\ Quiet

(* the job ended; rmv = 1: its removeTimer found nothing to remove *)
TJobDone ==
  /\ Consume /\ Ev.a = "JobDone"
  /\ IF Ev.rmv = 1 THEN AfterRunV(Ev.x, None) ELSE Same
  /\ UNCHANGED <<now, cae, pend>> /\ Quiet

(* TimerIDs() at a quiescent point *)
TObs ==
  /\ Consume /\ Ev.a = "Obs"
  /\ Expect("registered-ids", SeqSet(Ev.ids), Registered)
  /\ Same /\ UNCHANGED <<now, cae, pend>> /\ Quiet

(* summary line of a registration storm (counts only) *)
TStorm ==
  /\ Consume /\ Ev.a = "Storm"
  /\ Same /\ UNCHANGED <<now, cae, pend>> /\ Quiet

TraceInit == Init /\ l = 1 /\ cae = {} /\ pend = [g \in Callers |-> {}]
TraceNext == TReset \/ TReg \/ TStopCall \/ TRemovedApi \/ TStopRet \/ TSnap \/ TRunEnter \/ TRunChecked
             \/ TJobRemove \/ TCbStart \/ TCbEnd \/ TRemovedJob \/ TJobDone \/ TObs \/ TStorm
TraceSpec == TraceInit /\ [][TraceNext]_tvars

ASSUME TLCSet(1, 0)
HighWater == TLCSet(1, IF l > TLCGet(1) THEN l ELSE TLCGet(1))
Accepted == \/ TLCGet(1) = Len(Trace) + 1
            \/ PrintT(<<"HW", TLCGet(1), Len(Trace)>>) /\ FALSE
=============================================================================
