INIT Init
NEXT Next
CONSTANTS
  Lens = {1, 2, 3, 4, 5}
  Limits = {1, 2, 3, 4, 5, 6}
  PrevKinds = {"nil", "map"}
  PrevH = 4
  ScenKinds = {"valid", "wrongprev", "altered", "wrongheight", "swap", "error"}
  ScenPos = {0, 1, 2, 3, 4, 5, 6}
  Variants = {"pinned", "fixed"}
  Interleave = TRUE
  Emit = "done"
CHECK_DEADLOCK FALSE
