SPECIFICATION Spec
CONSTANTS
  Deliv = {"d1", "d2", "d3"}
  Handler = {"h1", "h2"}
  SP = {"i", "a", "s"}
  Fact = {"A", "B"}
  MaxAgain = 1
  SendKept = TRUE
  Record = TRUE
CHECK_DEADLOCK FALSE
