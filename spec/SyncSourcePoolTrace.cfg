SPECIFICATION TraceSpec
CONSTANTS
  Sources <- Src6
  MaxFixed = 6
  MaxAdd = 6
  MaxN = 8
  Impl = "repaired"
CONSTRAINT HighWater
INVARIANTS Disjoint DistinctFixed
POSTCONDITION Accepted
CHECK_DEADLOCK FALSE
