SPECIFICATION Spec
CONSTANTS
  MaxK = 3
  Gap = 3
  Sizes = {1, 2, 5, 8}
  Positions = {0, 1, 3, 4, 7}
  Variants = {"fixed"}
  Emit = FALSE
  Mode = "prove"
  Limits = {1}
  RespKinds = {}
INVARIANTS TypeOK AcceptedIffNotForged AcceptOnlyOK ValidAccepted NoPanic
PROPERTIES Terminates
CHECK_DEADLOCK FALSE
