SPECIFICATION Spec
CONSTANTS
  MaxHist = 4
  Repeat = TRUE
CHECK_DEADLOCK FALSE
