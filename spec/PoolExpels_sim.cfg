SPECIFICATION Spec
CONSTANTS
  Node = {"n1", "n2", "n3", "n4"}
  MaxH = 9
  MaxOps = 10
  MaxRm = 2
  EarlyStop = FALSE
INVARIANTS TypeOK
CHECK_DEADLOCK FALSE
