SPECIFICATION Spec
CONSTANTS
  Fact = {"A", "B", "C"}
  Signer = {1, 2, 3}
  MaxAdd = 6
  MaxReSet = 1
  MaxCalls = 6
  Limits = {1, 2, 3, 6, 12}
  MaxRej = 3
  Impl = "fixed"
  Sym = FALSE
  NCallers = 3
  Removal = "skip"
  MaxTwice = 1
  SetRace = "locked"
  Pick = 3
  Emit = "terminal"
INVARIANTS TypeOK Gone R0ok R1ok R2ok R3ok R4ok R6ok
CHECK_DEADLOCK FALSE
