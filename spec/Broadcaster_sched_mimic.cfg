SPECIFICATION Spec
CONSTANTS
  Deliv = {"d1", "d2"}
  Handler = {}
  SP = {"i", "a"}
  Fact = {"A", "B"}
  MaxAgain = 0
  SendKept = TRUE
  Record = TRUE
INVARIANTS Emit
CHECK_DEADLOCK FALSE
