------------------------------- MODULE Tally -------------------------------
(* Vote tally of base/vote.go and the required count of base/threshold.go.  *)
(* C01: MAJORITY / DRAW / NOT YET decided from the statement; C02: Req.      *)
(* Written from the property statements, not from the code: the code is      *)
(* bound to it by replaying every state of this module (binding A) and by    *)
(* validating the table recorded from the real Threshold.Threshold against   *)
(* Req (TallyTable.tla, binding B).                                          *)
EXTENDS Integers, FiniteSets, Sequences, TLC, Json

CONSTANTS MaxQ,      \* largest suffrage size (quorum argument)
          NFacts,    \* number of distinct facts voted for
          Extra,     \* how many votes beyond q are explored (votes may exceed q)
          T10Set     \* thresholds in tenths of a percent (510..1000), "t" mode

Fact == 1..NFacts

VARIABLES q,     \* suffrage size
          t10,   \* threshold*10, or 0 when the required count r is given directly
          r,     \* required count handed to FindMajority / FindVoteResult
          cnt,   \* Fact -> number of votes
          step   \* output only: JSON of the case and of the expected observables
vars == <<q, t10, r, cnt, step>>

(* C02: least integer >= n*t/100 with t = t10/10, exact *)
Req(n, tt) == (n * tt + 999) \div 1000

Total(c) == LET S[i \in 0..NFacts] == IF i = 0 THEN 0 ELSE S[i-1] + c[i] IN S[NFacts]
Min2(a, b) == IF a < b THEN a ELSE b
Th(qq, rr) == Min2(rr, qq)
MajSet(qq, rr, c) == {f \in Fact : c[f] >= Th(qq, rr)}
Missing(qq, c) == IF Total(c) >= qq THEN 0 ELSE qq - Total(c)

(* the statement: MAJORITY(F) iff F reached the required count; DRAW iff no fact  *)
(* (seen or unseen) can still reach it even with every missing vote; else NOT YET *)
Result(qq, rr, c) ==
  IF MajSet(qq, rr, c) # {} THEN "MAJORITY"
  ELSE IF /\ \A f \in Fact : c[f] + Missing(qq, c) < Th(qq, rr)
          /\ Missing(qq, c) < Th(qq, rr)            \* an unseen fact has 0 votes
          /\ Total(c) > 0
       THEN "DRAW"
       ELSE "NOT YET"

Out == ToJson([q |-> q, t10 |-> t10, r |-> r, cnt |-> [i \in 1..NFacts |-> cnt[i]],
               res |-> Result(q, r, cnt),
               maj |-> [i \in 1..NFacts |-> IF i \in MajSet(q, r, cnt) THEN 1 ELSE 0]])

Init == /\ q \in 1..MaxQ
        /\ \/ t10 \in T10Set /\ r = Req(q, t10)
           \/ t10 = 0 /\ r \in 1..(q+1)
        /\ cnt = [f \in Fact |-> 0]
        /\ step = Out

Vote(f) == /\ Total(cnt) < q + Extra
           /\ cnt' = [cnt EXCEPT ![f] = @ + 1]
           /\ UNCHANGED <<q, t10, r>>
           /\ step' = Out'

Next == \E f \in Fact : Vote(f)
Spec == Init /\ [][Next]_vars

TypeOK == q \in 1..MaxQ /\ r \in 1..(MaxQ+1) /\ cnt \in [Fact -> 0..(MaxQ+Extra)]

(* statement, last sentence: with a valid required count (more than half) and no     *)
(* more votes than nodes, at most one fact is a majority                              *)
AtMostOneMajority ==
  (2 * Th(q, r) > q /\ Total(cnt) <= q) => Cardinality(MajSet(q, r, cnt)) <= 1

(* DRAW and MAJORITY are final while votes keep arriving from the remaining nodes *)
Stable == [][ (Total(cnt') <= q) =>
              /\ (Result(q, r, cnt) = "DRAW" => Result(q, r, cnt') = "DRAW")
              /\ (Result(q, r, cnt) = "MAJORITY" /\ 2 * Th(q, r) > q
                    => Result(q, r, cnt') = "MAJORITY" /\ MajSet(q, r, cnt') = MajSet(q, r, cnt)) ]_vars

(* when every node has voted the result is decided *)
DecidedWhenFull == Total(cnt) >= q => Result(q, r, cnt) # "NOT YET"

(* Req is the exact ceiling *)
ReqIsCeiling == t10 # 0 => /\ r * 1000 >= q * t10
                           /\ (r - 1) * 1000 < q * t10
=============================================================================
