SPECIFICATION Spec
CONSTANTS
  MaxH = 3
  MaxR = 2
  MaxCalls = 8
  CacheSize = 8
  WithForce = TRUE
CHECK_DEADLOCK FALSE
