SPECIFICATION Spec
CONSTANTS
  AskSet <- AskCore
  MaxAsk = 3
  MaxToggle = 2
  MaxHold = 1
  MaxY = 1
  ExitOut = {"ok", "error", "ignore", "finish"}
  EnterKinds = {"ok", "error", "ignore", "redirect"}
  Redirects = {"SYNCING", "JOINING", "BROKEN"}
  InitAllowed = {TRUE, FALSE}
  Sched = TRUE
  Record = TRUE
CHECK_DEADLOCK FALSE
