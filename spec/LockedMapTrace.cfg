SPECIFICATION TraceSpec
CONSTANTS
  NK = 3
  MaxVal = 9
  MaxCalls = 24
  LenStrict = FALSE
  TravStrict = TRUE
CONSTRAINT HighWater
POSTCONDITION Accepted
CHECK_DEADLOCK FALSE
