SPECIFICATION FairSpec
CONSTANTS
  L0 <- NilH
  MaxH = 5
  Batch = 2
  AddHeights = {0, 2, 3, 5}
  MaxAdds = 3
  MaxFaults = 0
  MaxRetry = 0
  Repaired = FALSE
  ForkPrev = FALSE
  CanCancel = FALSE
INVARIANTS TypeOK ImportsContiguous FinishedAfterMerged
PROPERTIES NoHeightLost AddLowerIsNoop StoreOnlyGrows
CHECK_DEADLOCK FALSE
