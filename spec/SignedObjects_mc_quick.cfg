SPECIFICATION Spec
INVARIANTS CoverageSufficient
CHECK_DEADLOCK FALSE
