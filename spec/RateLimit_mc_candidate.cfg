SPECIFICATION Spec
CONSTANTS
  Addrs = {"a1"}
  Handlers = {"h1"}
  ClientIds = {"c1", "c2"}
  InitCfgs = {"cids"}
  FullAlphabet = FALSE
  Walk = FALSE
  MaxSteps = 2
INVARIANTS ImplMatchesChoose
CHECK_DEADLOCK FALSE
