SPECIFICATION Spec
CONSTANTS
  Addrs = {"a1"}
  Handlers = {"h1"}
  ClientIds = {"c1", "c2"}
  InitCfgs = {"cids"}
  FullAlphabet = FALSE
  Walk = FALSE
  MaxSteps = 2
  Tight = FALSE
  Warm = FALSE
  Per = 8
  Rebuild = "limit-burst"
INVARIANTS ImplMatchesChoose
CHECK_DEADLOCK FALSE
