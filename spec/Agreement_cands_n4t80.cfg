SPECIFICATION Spec
CONSTANTS
  N = 4
  T10 = 800
  Mode = "cands"
  Fams = {"all", "live", "exact", "short", "self"}
  Muts = {"none", "dup", "unknown-voter", "wrongkey", "badsig", "claim-missing", "expel-unknown-target", "expel-unknown-signer", "expel-wrongkey-signer", "expired", "dup-expel"}
INVARIANTS AcceptedImpliesWellFormed HistoryIndependent AcceptedOnlyGenuine
CHECK_DEADLOCK FALSE
