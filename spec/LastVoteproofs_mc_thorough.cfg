SPECIFICATION Spec
CONSTANTS
  MaxH = 1
  MaxR = 2
  MaxCalls = 5
  CacheSize = 8
  WithForce = FALSE
VIEW View
INVARIANTS TypeOK
PROPERTIES CapBackOnlyWhenTakingSC
CHECK_DEADLOCK FALSE
