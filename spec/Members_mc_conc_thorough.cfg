SPECIFICATION CSpec
CONSTANTS
  Addr = {"a1"}
  Node = {"n1", "n2"}
  Procs = {1, 2, 3}
INVARIANTS TypeOK Partition AnswersAgree
PROPERTIES AnswerAtLin
CHECK_DEADLOCK FALSE
