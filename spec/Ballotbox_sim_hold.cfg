SPECIFICATION Spec
CONSTANTS
  Node0 = {"n0", "n1", "n2"}
  Local0 = "n0"
  T100 = 670
  EmitStep = TRUE
  Heights = {1}
  Rounds = {0, 1}
  Stages = {1, 3}
  Facts = {"A"}
  ExSets = {{}, {"n2"}}
  AllowSC = TRUE
  MaxId = 10
  MaxVotes = 10
  MaxChan = 3
  MaxSet = 2
  StoreSC = "sf-"
  CleanSC = "sf-"
  CountRule = "impl"
  EagerCount = TRUE
  Holds = TRUE
  MaxTick = 3
  TickGuard = "impl"
CHECK_DEADLOCK FALSE
