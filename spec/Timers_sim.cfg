SPECIFICATION Spec
CONSTANTS
  Ids = {"a", "b", "c"}
  MaxInst = 7
  MaxTicks = 6
  MaxStops = 4
  MaxClock = 0
  MaxRm = 2
  Interval = 0
  RegOrder = "locked"
  RemoveBy = "instance"
  Results = {"keep", "stop", "err", "nonext"}
  KeepHist = "last"
CHECK_DEADLOCK FALSE
