---------------------------- MODULE SuffrageChain ----------------------------
(* C13 - suffrage proofs bind the suffrage state to the signed block            *)
(*       (Mode = "prove", first part of the module).                            *)
(* C18 - suffrage history sync (Mode = "build", second part: `Build`).          *)
(*                                                                            *)
(* Models isaacblock.SuffrageProof.IsValid / Prove                              *)
(* (/repo/isaac/block/suffrage.go, /repo/util/fixedtree/proof.go).              *)
(*                                                                            *)
(* Hashes are ideal (collision free by construction): a hash is the identity   *)
(* of the thing hashed. A suffrage state is [bh, sh, prev, id]: block height,   *)
(* suffrage height, hash of the state it follows, own hash. A block map is      *)
(* [bh, root, signed]: height, states-tree root of its manifest, valid node     *)
(* signature. A proof path is [key, root, intact]: it proves `key` up to `root` *)
(* iff its hash chain is intact. A suffrage proof is [map, st, path].            *)
(*                                                                            *)
(* ProofOK(p, prev) is the statement. CodeVerdict(variant, p, prev) transcribes *)
(* the code:  "pinned"  IsValid + Prove as pinned (root of the path never        *)
(*                      compared with the manifest, nil previous dereferenced)   *)
(*            "fixed"   fixes/C13-*.diff                                         *)
(* A behaviour: pick a chain length and a position, take the valid proof and    *)
(* the previous state (Init), apply at most one forgery of the catalogue         *)
(* (Forge...), verify (Verify). Every terminal state is replayed with real       *)
(* objects (harness/internal/c13): real SuffrageNodesStateValue states, a real   *)
(* fixed tree over the block's state hashes (shape = tsize/tpos), a real signed  *)
(* BlockMap whose real manifest carries that tree's root.                        *)
EXTENDS Integers, FiniteSets, Sequences, TLC, Json

CONSTANTS MaxK,       \* chains s_0 .. s_k for k in 0..MaxK
          Gap,        \* block-height distance of consecutive suffrage states
          Sizes,      \* sizes of the block's states tree
          Positions,  \* indices of the suffrage state in that tree (those below the size are used)
          Variants,   \* subset of {"pinned", "fixed"} (build: also "ideal")
          Emit,
          Mode,       \* "prove" (C13) | "build" (C18)
          Limits,     \* build: batch limits
          RespKinds   \* build: kinds of remote behaviour explored

VARIABLES k, i, shape,       \* chain s_0..s_k, position of the proof, tree shape of its block
          proof, prev,       \* the proof handed to the verifier and the previous state (None = nil)
          forged,            \* [kind, j]: the forgery applied ("none" = the valid proof)
          pc,                \* "forge" | "verify" | "done"
          verdict,           \* variant -> "accept" | "reject" | "panic"
          step
pvars == <<i, shape, proof, prev, forged, pc, verdict>>

(* build part (C18) *)
VARIABLES bvariant,   \* variant of the transcription this behaviour follows
          blocal,     \* suffrage height of the local state, -1 = no local state
          blimit,     \* batch limit
          bscen,      \* [kind, a, b]: behaviour of the remote
          bpc,        \* "start" | "pref" | "work" | "done" ("idle" in prove mode)
          bstart,     \* BatchWork: index of the first request of the batch
          slots,      \* `proofs` array of the batch (NilP = nil)
          bprevious,  \* `previous` state of the batch
          bnewprev,   \* candidate for the next batch's `previous`
          bpending,   \* requests (suffrage heights) of the batch not yet answered
          bacc,       \* "ideal" only: proofs of the finished batches
          bret,       \* "running" | "ok" | "err" | "panic"
          bout        \* returned proofs
bvars == <<bvariant, blocal, blimit, bscen, bpc, bstart, slots, bprevious, bnewprev, bpending, bacc, bret, bout>>
vars == <<k, i, shape, proof, prev, forged, pc, verdict, step, bvars>>

Shapes == {sp \in Sizes \X Positions : sp[2] < sp[1]}     \* <<tree size, index of the suffrage state>>
None == [bh |-> -1, sh |-> -1, prev |-> -1, id |-> -1]          \* nil state
S(x) == [bh |-> x * Gap, sh |-> x, prev |-> IF x = 0 THEN -1 ELSE 10 + x - 1, id |-> 10 + x]
F(x) == [S(x) EXCEPT !.id = 50 + x]        \* another suffrage state with the same heights (other nodes)
Map(x) == [bh |-> x * Gap, root |-> 100 + x, signed |-> TRUE]
Path(x) == [key |-> 10 + x, root |-> 100 + x, intact |-> TRUE]
Proof(x) == [map |-> Map(x), st |-> S(x), path |-> Path(x)]
PrevOf(x) == IF x = 0 THEN None ELSE S(x - 1)

-----------------------------------------------------------------------------
(* the statement *)
Committed(p) == /\ p.path.intact /\ p.path.key = p.st.id       \* the path proves the state ...
                /\ p.path.root = p.map.root                    \* ... up to the states-tree root of the block it carries
                /\ p.st.bh = p.map.bh
                /\ p.map.signed
Follows(p, pv) == IF p.map.bh = 0
                    THEN pv = None                              \* genesis: nothing to follow
                    ELSE /\ pv # None
                         /\ p.st.prev = pv.id                   \* directly follows
                         /\ p.st.sh = pv.sh + 1
                         /\ p.st.bh > pv.bh
ProofOK(p, pv) == Committed(p) /\ Follows(p, pv)

(* the code: IsValid(networkID) then Prove(previous) *)
CodeVerdict(v, p, pv) ==
  IF ~p.map.signed \/ p.st.bh # p.map.bh THEN "reject"                     \* IsValid
  ELSE IF p.map.bh = 0 /\ pv # None THEN "reject"
  ELSE IF p.map.bh # 0 /\ pv = None THEN (IF v = "pinned" THEN "panic" ELSE "reject")
  ELSE IF p.map.bh # 0 /\ (p.st.bh <= pv.bh \/ p.st.prev # pv.id \/ p.st.sh # pv.sh + 1) THEN "reject"
  ELSE IF ~(p.path.intact /\ p.path.key = p.st.id) THEN "reject"           \* proof.Prove(key)
  ELSE IF v = "fixed" /\ p.path.root # p.map.root THEN "reject"
  ELSE "accept"

-----------------------------------------------------------------------------
NoForgery == [kind |-> "none", j |-> -1]

Out == ToJson([k |-> k, i |-> i, gap |-> Gap, tsize |-> shape[1], tpos |-> shape[2], forged |-> forged,
               proof |-> proof, prev |-> prev,
               want |-> IF ProofOK(proof, prev) THEN "accept" ELSE "reject",
               impl |-> verdict])

Frame == /\ UNCHANGED <<k, i, shape>> /\ UNCHANGED bvars
         /\ step' = IF Emit /\ pc' = "done" THEN Out' ELSE ""

InitProve == /\ k \in 0..MaxK /\ i \in 0..k /\ shape \in Shapes
        /\ proof = Proof(i) /\ prev = PrevOf(i)
        /\ forged = NoForgery /\ pc = "forge"
        /\ verdict = [v \in Variants \ {"ideal"} |-> "none"] /\ step = ""

Forge(kind, j, p2, pv2) ==
  /\ pc = "forge"
  /\ forged' = [kind |-> kind, j |-> j]
  /\ proof' = p2 /\ prev' = pv2
  /\ pc' = "verify"
  /\ UNCHANGED verdict
  /\ Frame

Keep == Forge("none", -1, proof, prev)
(* the path comes from another tree that contains the state hash as a key *)
ForeignTree == Forge("foreign-tree", -1, [proof EXCEPT !.path.root = 200 + i], prev)
(* the block's states plus extra states: a larger tree, another root *)
ExtendedTree == Forge("extended-tree", -1, [proof EXCEPT !.path.root = 300 + i], prev)
(* the path is cut below the root: it ends at an inner node (needs a tree deeper than the state's node) *)
ReRootCut == shape[2] > 0 /\ Forge("reroot-cut", -1, [proof EXCEPT !.path.root = 400 + i], prev)
(* one hash of the path altered *)
PathTamper == Forge("path-tamper", -1, [proof EXCEPT !.path.intact = FALSE], prev)
(* the state of another position with the original path *)
SwapState(j) == j # i /\ Forge("swap-state", j, [proof EXCEPT !.st = S(j)], prev)
(* another suffrage state for the same heights, original path *)
ForkState == Forge("fork-state", -1, [proof EXCEPT !.st = F(i)], prev)
(* a forged suffrage state with a path from the forger's own tree; the block map is the real one *)
ForgedStateOwnTree == Forge("forged-state-own-tree", -1,
                            [proof EXCEPT !.st = F(i), !.path = [key |-> 50 + i, root |-> 200 + i, intact |-> TRUE]], prev)
PrevGap == i >= 2 /\ Forge("prev-gap", -1, proof, S(i - 2))
PrevFork == i >= 1 /\ Forge("prev-fork", -1, proof, F(i - 1))
PrevStale == Forge("prev-stale", -1, proof, S(i))
PrevFuture == i < k /\ Forge("prev-future", -1, proof, S(i + 1))
PrevNil == i >= 1 /\ Forge("prev-nil", -1, proof, None)
PrevAtGenesis == i = 0 /\ Forge("prev-at-genesis", -1, proof, S(0))
(* the map of another block / of a fork block at the same height / with a bad signature *)
MapOtherHeight(j) == j # i /\ Forge("map-other-height", j, [proof EXCEPT !.map = Map(j)], prev)
MapFork == Forge("map-fork", -1, [proof EXCEPT !.map.root = 500 + i], prev)
MapBadSignature == Forge("map-bad-signature", -1, [proof EXCEPT !.map.signed = FALSE], prev)

Verify == /\ pc = "verify"
          /\ verdict' = [v \in Variants \ {"ideal"} |-> CodeVerdict(v, proof, prev)]
          /\ pc' = "done"
          /\ UNCHANGED <<proof, prev, forged>>
          /\ Frame

NextProve == \/ Keep \/ ForeignTree \/ ExtendedTree \/ ReRootCut \/ PathTamper \/ ForkState \/ ForgedStateOwnTree
        \/ PrevGap \/ PrevFork \/ PrevStale \/ PrevFuture \/ PrevNil \/ PrevAtGenesis
        \/ MapFork \/ MapBadSignature
        \/ (\E j \in 0..k : SwapState(j)) \/ (\E j \in 0..k : MapOtherHeight(j))
        \/ Verify

-----------------------------------------------------------------------------
(* ========================= Build (C18) ================================== *)
(* isaac.SuffrageStateBuilder.Build / buildBatch / prove                     *)
(* (/repo/isaac/suffrage_builder.go). The remote owns the chain s_0..s_k      *)
(* (proofs P(x)), possibly a second chain forked at f (proofs G(f, x)) and a   *)
(* malformed proof Z (suffrage height 0 above the genesis block). The local    *)
(* node has no suffrage state or s_blocal.                                     *)
(* Variants: "pinned"; "fixed" = the tree with fixes/C13-*.diff and            *)
(* fixes/C18-*.diff (lower bound of the index); "ideal" = what a complete      *)
(* repair would do (answer must have the requested height, all batches are     *)
(* returned, the last proof is the one proved for its height).                 *)
NilP == [map |-> [bh |-> -2, root |-> -2, signed |-> FALSE], st |-> None, path |-> [key |-> -2, root |-> -2, intact |-> FALSE]]
GS(f, x) == [bh |-> x * Gap, sh |-> x,
             prev |-> IF x = f THEN (IF f = 0 THEN -1 ELSE 10 + f - 1) ELSE 50 + x - 1, id |-> 50 + x]
G(f, x) == [map |-> [bh |-> x * Gap, root |-> 150 + x, signed |-> TRUE], st |-> GS(f, x),
            path |-> [key |-> 50 + x, root |-> 150 + x, intact |-> TRUE]]
Z == [map |-> [bh |-> Gap, root |-> 190, signed |-> TRUE], st |-> [bh |-> Gap, sh |-> 0, prev |-> -1, id |-> 90],
      path |-> [key |-> 90, root |-> 190, intact |-> TRUE]]
Label(p) == IF p = NilP THEN [c |-> "nil", x |-> -1]
            ELSE [c |-> IF p.st.id = 90 THEN "Z" ELSE IF p.st.id >= 50 THEN "G" ELSE "P", x |-> p.st.sh]

LocalState == IF blocal < 0 THEN None ELSE S(blocal)
FromH == blocal + 1                                      \* fromheight
ForkAt == IF bscen.kind = "fork" THEN bscen.a ELSE -1
Remote(x) == IF ForkAt >= 0 /\ x >= ForkAt THEN G(ForkAt, x) ELSE Proof(x)
LastProof == LET p == IF bscen.kind = "older" THEN Remote(bscen.a) ELSE Remote(k)
             IN IF bscen.kind = "last-invalid" THEN [p EXCEPT !.map.signed = FALSE] ELSE p
NotFound == [NilP EXCEPT !.map.bh = -3]
RespErr == [NilP EXCEPT !.map.bh = -4]
(* the answer of getSuffrageProof(h) *)
Resp(h) ==
  CASE bscen.kind \in {"wrongheight", "swap"} /\ bscen.a = h -> Remote(bscen.b)
    [] bscen.kind = "swap" /\ bscen.b = h -> Remote(bscen.a)
    [] bscen.kind = "missing" /\ bscen.a = h -> NotFound
    [] bscen.kind = "error" /\ bscen.a = h -> RespErr
    [] bscen.kind = "fork-one" /\ bscen.a = h -> G(h, h)
    [] bscen.kind = "nongenesis-zero" /\ h = 0 -> Z
    [] OTHER -> Remote(h)

(* ---- the statement: what a successful Build may return ---- *)
(* The chain a successful Build must return is fixed by the remote's last proof: it is the
   ancestry of that proof (follow the `previous` hashes) down to the height after the local
   state. In this universe (main chain P, chain G forked at ForkAt, the odd proof Z) the
   ancestor at suffrage height x of the last proof is known in closed form; ValidChain then
   checks every link with ProofOK, so a wrong ancestor can only make success impossible. *)
Anc(x) == IF LastProof.st.id >= 50 /\ LastProof.st.id < 90 /\ x >= ForkAt THEN G(ForkAt, x) ELSE Proof(x)
ValidChain(c) == /\ Len(c) > 0
                 /\ c[1].st.sh = FromH
                 /\ ProofOK(c[1], LocalState)
                 /\ \A n \in 2..Len(c) : ProofOK(c[n], c[n-1].st)
NothingNew == blocal >= 0 /\ LastProof.st.bh <= S(blocal).bh /\ LastProof.st.sh <= blocal
Expected == IF NothingNew THEN <<>>
            ELSE IF LastProof.st.sh < FromH THEN <<LastProof>>
            ELSE [n \in 1..(LastProof.st.sh - FromH + 1) |-> Anc(FromH + n - 1)]
SuccessPossibleFor(e) == NothingNew \/ (LastProof.map.signed /\ ValidChain(e))   \* nothing new: the empty list is fine
SuccessPossible == SuccessPossibleFor(Expected)
Dedup(c) == IF Len(c) >= 2 /\ c[Len(c)] = c[Len(c) - 1] THEN SubSeq(c, 1, Len(c) - 1) ELSE c
(* C18: a successful return is the gap-free linked chain from the local state to the remote's last proof *)
ReturnOK(c) == LET e == Expected IN SuccessPossibleFor(e) /\ Dedup(c) = e

(* ---- the code ---- *)
PV == IF bvariant = "pinned" THEN "pinned" ELSE "fixed"          \* variant of SuffrageProof.Prove
ProveV(p, st) == CodeVerdict(PV, p, st)

BScens ==
  [kind : {"consistent", "last-invalid"} \cap RespKinds, a : {0}, b : {0}]
  \cup [kind : {"missing", "error", "fork-one"} \cap RespKinds, a : (blocal + 1)..k, b : {0}]
  \cup {sc \in [kind : {"wrongheight"} \cap RespKinds, a : (blocal + 1)..k, b : 0..k] : sc.a # sc.b}
  \cup {sc \in [kind : {"swap"} \cap RespKinds, a : (blocal + 1)..k, b : (blocal + 1)..k] : sc.a < sc.b}
  \cup [kind : {"fork"} \cap RespKinds, a : 0..k, b : {0}]
  \cup [kind : {"older"} \cap RespKinds, a : 0..k, b : {0}]
  \cup {sc \in [kind : {"nongenesis-zero"} \cap RespKinds, a : {0}, b : {0}] : blocal < 0}

BOut == LET e == Expected IN
        ToJson([k |-> k, gap |-> Gap, local |-> blocal, limit |-> blimit, scen |-> bscen, variant |-> bvariant,
                last |-> Label(LastProof), lastsigned |-> LastProof.map.signed,
                resp |-> [h \in 1..(k + 1) |-> LET r == Resp(h - 1) IN
                                                IF r = NotFound THEN [c |-> "notfound", x |-> -1]
                                                ELSE IF r = RespErr THEN [c |-> "error", x |-> -1]
                                                ELSE Label(r)],
                forkat |-> ForkAt,
                want |-> [possible |-> SuccessPossibleFor(e), chain |-> [n \in 1..Len(e) |-> Label(e[n])]],
                impl |-> [ret |-> bret, out |-> [n \in 1..Len(bout) |-> Label(bout[n])]]])

BFrame == /\ UNCHANGED <<k, pvars, bvariant, blocal, blimit, bscen>>
          /\ step' = IF Emit /\ bpc' = "done" THEN BOut' ELSE ""

InitBuild == /\ k \in 0..MaxK /\ blocal \in -1..k /\ blimit \in Limits /\ bvariant \in Variants
             /\ bscen \in BScens
             /\ bpc = "start" /\ bstart = 0 /\ slots = <<>> /\ bprevious = None /\ bnewprev = None
             /\ bpending = {} /\ bacc = <<>> /\ bret = "running" /\ bout = <<>>
             /\ i = 0 /\ shape = <<1, 0>> /\ proof = Proof(0) /\ prev = None /\ forged = NoForgery /\ pc = "idle"
             /\ verdict = [v \in Variants \ {"ideal"} |-> "none"] /\ step = ""

BSize == LastProof.st.sh - FromH + 1                     \* (lastheight - from) + 1
bbend == IF bstart + blimit < BSize THEN bstart + blimit ELSE BSize

BFinish(r, o) == /\ bret' = r /\ bout' = o /\ bpc' = "done"

(* Build up to the call of buildBatch *)
BStart ==
  /\ bpc = "start"
  /\ IF ~LastProof.map.signed THEN BFinish("err", <<>>)                       \* proof.IsValid
     ELSE IF ~(blocal < 0 \/ LastProof.st.bh > S(blocal).bh \/ LastProof.st.sh > blocal)
       THEN BFinish("ok", <<>>)                                                \* not new
     ELSE IF BSize < 1 THEN BFinish("err", <<>>)                               \* BatchWork: wrong size
     ELSE /\ bpc' = "pref" /\ UNCHANGED <<bret, bout>>
  /\ bnewprev' = LocalState
  /\ UNCHANGED <<bstart, slots, bprevious, bpending, bacc>>
  /\ BFrame

BPref ==
  /\ bpc = "pref"
  /\ bprevious' = bnewprev
  /\ LET r == bbend % blimit
         sz == IF r = 0 THEN blimit ELSE r
     IN slots' = [n \in 1..sz |-> NilP]
  /\ bpending' = {FromH + j : j \in bstart..(bbend - 1)}
  /\ bpc' = "work"
  /\ UNCHANGED <<bstart, bnewprev, bacc, bret, bout>>
  /\ BFrame

(* one job: getSuffrageProof(h), then prove() under provelock and the promotion of the batch's last state *)
BArrive(h) ==
  /\ bpc = "work" /\ h \in bpending
  /\ LET p == Resp(h)
         prevheight == IF bprevious = None THEN -1 ELSE bprevious.sh
         idx == p.st.sh - prevheight - 1
         lastidx == bbend - 1
         fail(r) == /\ BFinish(r, <<>>) /\ UNCHANGED <<slots, bnewprev, bpending>>
     IN IF p = NotFound \/ p = RespErr THEN fail("err")
        ELSE IF bvariant = "ideal" /\ p.st.sh # h THEN fail("err")
        ELSE IF idx >= Len(slots) THEN fail("err")                                         \* "wrong height"
        ELSE IF idx < 0 THEN fail(IF bvariant = "pinned" THEN "panic" ELSE "err")          \* proofs[index], index < 0
        ELSE LET s2 == [slots EXCEPT ![idx + 1] = p]
                 v0 == IF idx = 0 THEN ProveV(p, bprevious) ELSE "accept"
                 vl == IF idx > 0 /\ s2[idx] # NilP THEN ProveV(p, s2[idx].st) ELSE "accept"
                 vr == IF idx + 2 <= Len(s2) /\ s2[idx + 2] # NilP THEN ProveV(s2[idx + 2], p.st) ELSE "accept"
             IN IF "panic" \in {v0, vl, vr} THEN fail("panic")
                ELSE IF "reject" \in {v0, vl, vr} THEN fail("err")
                ELSE /\ slots' = s2
                     /\ bnewprev' = IF p.st.sh - FromH = lastidx THEN p.st ELSE bnewprev
                     /\ bpending' = bpending \ {h}
                     /\ UNCHANGED <<bret, bout, bpc>>
  /\ UNCHANGED <<bstart, bprevious, bacc>>
  /\ BFrame

BEndBatch ==
  /\ bpc = "work" /\ bpending = {}
  /\ IF bbend = BSize
       THEN (* buildBatch returns `proofs`; Build appends the last proof *)
            IF bvariant = "ideal"
              THEN LET all == bacc \o slots IN
                   IF all[Len(all)].st.id # LastProof.st.id THEN BFinish("err", <<>>) ELSE BFinish("ok", all)
              ELSE BFinish("ok", slots \o <<LastProof>>)
       ELSE /\ bpc' = "pref" /\ UNCHANGED <<bret, bout>>
  /\ bstart' = IF bbend = BSize THEN bstart ELSE bstart + blimit
  /\ bacc' = IF bvariant = "ideal" THEN bacc \o slots ELSE bacc
  /\ UNCHANGED <<slots, bprevious, bnewprev, bpending>>
  /\ BFrame

NextBuild == BStart \/ BPref \/ BEndBatch \/ \E h \in bpending : BArrive(h)

Init == IF Mode = "prove" THEN InitProve /\ bvariant = "none" /\ blocal = -1 /\ blimit = 1
                               /\ bscen = [kind |-> "none", a |-> 0, b |-> 0] /\ bpc = "idle" /\ bstart = 0
                               /\ slots = <<>> /\ bprevious = None /\ bnewprev = None /\ bpending = {}
                               /\ bacc = <<>> /\ bret = "idle" /\ bout = <<>>
                          ELSE InitBuild
Next == NextProve \/ NextBuild        \* the actions of the other mode are never enabled (pc / bpc = "idle")

Spec == Init /\ [][Next]_vars /\ WF_vars(Next)

-----------------------------------------------------------------------------
TypeOK == /\ pc \in {"forge", "verify", "done", "idle"}
          /\ \A v \in DOMAIN verdict : verdict[v] \in {"none", "accept", "reject", "panic"}
          /\ bpc \in {"idle", "start", "pref", "work", "done"}
          /\ bret \in {"idle", "running", "ok", "err", "panic"}

(* the catalogue is sound: the untouched proof satisfies the statement, every forgery breaks it *)
AcceptedIffNotForged == pc # "forge" => (ProofOK(proof, prev) <=> forged.kind = "none")

(* C13 on the transcription *)
AcceptOnlyOK == pc = "done" => \A v \in DOMAIN verdict : verdict[v] = "accept" => ProofOK(proof, prev)
ValidAccepted == pc = "done" => \A v \in DOMAIN verdict : ProofOK(proof, prev) => verdict[v] = "accept"
NoPanic == \A v \in DOMAIN verdict : verdict[v] # "panic"

Terminates == <>(pc = "done")

(* C18 on the transcription of Build *)
BNoPanic == bret # "panic"
BReturnedIsChain == bret = "ok" => ReturnOK(bout)
(* weaker facts that hold for the repaired tree although earlier batches are dropped and holes pass *)
BNoHoleInLastBatch == (bret = "ok" /\ bvariant = "ideal") => \A n \in 1..Len(bout) : bout[n] # NilP
BEndsWithLast == (bret = "ok" /\ bout # <<>>) => bout[Len(bout)].st.id = LastProof.st.id
(* stronger reading (model only): a consistent remote is never refused *)
BConsistentSucceeds == (bpc = "done" /\ bscen.kind = "consistent") => bret = "ok"
BTerminates == <>(bpc = "done")
=============================================================================
