SPECIFICATION Spec
CONSTANTS
  L0 = 1
  MaxH = 6
  Batch = 2
  AddHeights = {6}
  MaxAdds = 1
  MaxFaults = 1
  MaxRetry = 1
  Repaired = FALSE
  ForkPrev = FALSE
  CanCancel = FALSE
INVARIANTS TypeOK ImportsContiguous
CHECK_DEADLOCK FALSE
