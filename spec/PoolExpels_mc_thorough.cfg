SPECIFICATION Spec
CONSTANTS
  Node = {"n1", "n2", "n3"}
  MaxH = 5
  MaxOps = 3
  MaxRm = 1
  EarlyStop = FALSE
VIEW View
INVARIANTS TypeOK TraverseRefines LookupRefines RemoveRefines RemoveKeepsLater
CHECK_DEADLOCK FALSE
