--------------------------- MODULE DatabaseTrace ---------------------------
(* Binding B for the last sentence of C19: "concurrent reads during merges  *)
(* never see a state older than one already returned".                      *)
(*                                                                          *)
(* The driver (harness/internal/c19/readers.go) runs a real Center: one     *)
(* goroutine writes blocks, one merges temps into the permanent store       *)
(* (mergePermanent / MergeAllPermanent / cleanRemoved), several readers     *)
(* loop over the reads. One event per completed read:                       *)
(*   [a |-> "R", r |-> reader, k |-> what was read, got |-> height of the   *)
(*    answer (-1 = not found), lo |-> newest height for k whose commit had  *)
(*    RETURNED before the read was called, hi |-> newest height for k whose *)
(*    commit had BEEN CALLED when the read returned]                        *)
(* and [a |-> "W", h, st] per committed block, [a |-> "Reset", pc |-> state   *)
(* cache size of the permanent store] per run.                              *)
(* k is a state key (Center.State), "LBM" (LastBlockMap), "LSP"             *)
(* (LastSuffrageProof), "KNO" (newest block all of whose known operations   *)
(* exist, probed downwards from lo) or "BM" (BlockMap(lo) found).            *)
(*                                                                          *)
(* Database!ReadersMonotone says StateHeight(k) never decreases while the   *)
(* chain only grows; for a concurrent reader this is:                       *)
(*   Monotone   got >= every earlier answer of the same reader for k        *)
(*   NotStale   got >= lo   (a completed commit is visible)                 *)
(*   NotAhead   got <= hi   (nothing is returned that was never written)    *)
(* Every event is deterministic for the spec, so the replies are compared   *)
(* with Expect (all mismatches are printed with their class).               *)
EXTENDS Integers, Sequences, TLC, Json

CONSTANTS Readers, What

Trace == ndJsonDeserialize("trace.ndjson")
VARIABLES l, seen, last
tvars == <<l, seen, last>>
Ev == Trace[l]

Expect(class, ok, got, want) == \/ ok
                                \/ PrintT(<<"MISMATCH", class, l, got, want>>)

Consume == l <= Len(Trace) /\ l' = l + 1
Kind(k) == IF k \in {"LBM", "LSP", "KNO", "BM"} THEN k ELSE "State"
Max2(a, b) == IF a > b THEN a ELSE b

TReset == /\ Consume /\ Ev.a = "Reset"
          /\ seen' = [r \in Readers |-> [k \in What |-> -1]]
          /\ last' = -1

(* a block was committed: heights are consecutive *)
(* (the replies are compared after every primed variable is fixed, so that TLC evaluates *)
(* Expect as a predicate and does not branch on its disjunction)                          *)
TWrite == /\ Consume /\ Ev.a = "W"
          /\ last' = Ev.h
          /\ UNCHANGED seen
          /\ Expect("write-order", Ev.h = last + 1, Ev.h, last + 1)

TRead == /\ Consume /\ Ev.a = "R"
         /\ Ev.r \in Readers /\ Ev.k \in What
         /\ seen' = [seen EXCEPT ![Ev.r][Ev.k] = Max2(@, Ev.got)]
         /\ UNCHANGED last
         /\ Expect("stale-read(" \o Kind(Ev.k) \o ")", Ev.got >= seen[Ev.r][Ev.k], Ev.got, seen[Ev.r][Ev.k])
         /\ Expect("committed-not-visible(" \o Kind(Ev.k) \o ")", Ev.got >= Ev.lo, Ev.got, Ev.lo)
         /\ Expect("never-written(" \o Kind(Ev.k) \o ")", Ev.got <= Ev.hi, Ev.got, Ev.hi)

TraceInit == l = 1 /\ seen = [r \in Readers |-> [k \in What |-> -1]] /\ last = -1
TraceNext == TReset \/ TWrite \/ TRead
TraceSpec == TraceInit /\ [][TraceNext]_tvars

(* what the trace spec maintains is ReadersMonotone per reader *)
SeenBounded == \A r \in Readers : \A k \in What : seen[r][k] >= -1

ASSUME TLCSet(1, 0)
HighWater == TLCSet(1, IF l > TLCGet(1) THEN l ELSE TLCGet(1))
Accepted == \/ TLCGet(1) = Len(Trace) + 1
            \/ PrintT(<<"HW", TLCGet(1), Len(Trace)>>) /\ FALSE
=============================================================================
