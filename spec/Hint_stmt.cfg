SPECIFICATION Spec
CONSTANTS
  TypeMaxLen = 4
  Versions <- VersionsDef
  JunkMaxLen = 0
VIEW view
INVARIANTS StatementOnTranscription
CHECK_DEADLOCK FALSE
