SPECIFICATION Spec
CONSTANTS
  Keys = {"a"}
  MaxLen = 3
  MaxWrites = 3
  MaxSteps = 1000
  MaxPool = 0
  KeepPath = TRUE
  EmitStep = TRUE
  WithReopen = FALSE
  WithCenter = FALSE
  Repaired = TRUE
  Contents <- AllContents
  SizeClasses = {"s"}
  MaxBig = 0
  WriteLimit = 128
  MergeLimit = 333
  CacheChoices = {FALSE}
  ReadOptional = FALSE
  Purge = TRUE
VIEW view
INVARIANTS TypeOK ReadsConsistent ImplAgreesSuffrageProof ImplAgreesProofByBlockHeight ImplStateAgrees CacheFresh BatchesCarryEveryRecord
PROPERTIES ReadersMonotone MemoryInvisible
CHECK_DEADLOCK FALSE
