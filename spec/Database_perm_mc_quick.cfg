SPECIFICATION Spec
CONSTANTS
  Keys = {"a"}
  MaxLen = 3
  MaxWrites = 3
  MaxSteps = 1000
  MaxPool = 0
  KeepPath = TRUE
  EmitStep = TRUE
  WithReopen = FALSE
  WithCenter = FALSE
  Repaired = TRUE
VIEW view
INVARIANTS TypeOK ReadsConsistent ImplAgreesSuffrageProof ImplAgreesProofByBlockHeight
PROPERTIES ReadersMonotone
CHECK_DEADLOCK FALSE
