--------------------------- MODULE SignedObjects ---------------------------
(* C28 - signed protocol objects detect any change to signed content.          *)
(*                                                                           *)
(* Ideal cryptography: a hash is an injective function of the kind of the     *)
(* hashed object and of every field it covers, a signature an injective       *)
(* function of (signer key, network id, node, signed value, signing time).    *)
(* Schema lists, for every kind of signed object the harness builds, every    *)
(* leaf of its encoded form (path in the JSON tree) with                      *)
(*   cls    content: signed content in the sense of the statement (every      *)
(*          field of a fact including its kind, the stored hashes, each       *)
(*          sign's signer, node, signature and signing time, the manifest of  *)
(*          a block map and its items' checksums, an operation's fact and     *)
(*          signs, a state's key, value, height, previous and operations);    *)
(*          weak: signed content only under the stronger reading (the type of *)
(*          a block map item: the code documents that only checksums are      *)
(*          signed); noncontent: container hints and the unsigned envelope of *)
(*          a voteproof carried by a ballot                                    *)
(*   role   field | kind | hash (a stored hash) | sig | signer | node |       *)
(*          signed_at                                                         *)
(*   scope  the kind of the innermost hashed object the leaf belongs to       *)
(*   rel    its path inside that object                                       *)
(*   outer  (stored hashes) is the hash itself covered by a signature or an   *)
(*          enclosing hash                                                    *)
(* The catalogue of mutations (Cases) is what must be rejected: one content   *)
(* leaf replaced by another value of its type, a fact relabelled to another   *)
(* kind, verification under another network id, signs dropped / duplicated /  *)
(* reordered, and twins: two facts of different kinds with equal content must *)
(* not share a hash. Under ideal cryptography every case is rejected          *)
(* (IdealRejects - checked by TLC over the whole catalogue; it fails for a    *)
(* content leaf that no hash and no signature covers). ImplRejects is the     *)
(* transcription of what the code's IsValid / hash functions cover (read from *)
(* base/fact.go, base/base_operation.go, isaac/ballot_fact.go,                *)
(* isaac/suffrage_operation.go, isaac/block.go, isaac/block/map.go,           *)
(* base/base_state.go); the cases where the two differ are the candidates the *)
(* replay on the real objects confirms or refutes.                            *)
(* Binding A: every state of this module is one case; harness/internal/c28    *)
(* builds the real signed object, encodes it with the real JSON encoder,      *)
(* applies the mutation on the decoded tree, decodes with the real encoder    *)
(* and calls IsValid(networkID).                                              *)
EXTENDS Integers, Sequences, FiniteSets, TLC, Json

Schema == <<
  [kind |-> "init-ballot-fact", nsigns |-> 0, signed |-> FALSE, leaves |-> {
      [p |-> <<"_hint">>, cls |-> "content", role |-> "kind", scope |-> "init-ballot-fact", rel |-> "_hint", outer |-> FALSE],
      [p |-> <<"expel_facts", "0">>, cls |-> "content", role |-> "field", scope |-> "init-ballot-fact", rel |-> "expel_facts.0", outer |-> FALSE],
      [p |-> <<"hash">>, cls |-> "content", role |-> "hash", scope |-> "init-ballot-fact", rel |-> "hash", outer |-> FALSE],
      [p |-> <<"point", "height">>, cls |-> "content", role |-> "field", scope |-> "init-ballot-fact", rel |-> "point.height", outer |-> FALSE],
      [p |-> <<"point", "round">>, cls |-> "content", role |-> "field", scope |-> "init-ballot-fact", rel |-> "point.round", outer |-> FALSE],
      [p |-> <<"point", "stage">>, cls |-> "content", role |-> "field", scope |-> "init-ballot-fact", rel |-> "point.stage", outer |-> FALSE],
      [p |-> <<"previous_block">>, cls |-> "content", role |-> "field", scope |-> "init-ballot-fact", rel |-> "previous_block", outer |-> FALSE],
      [p |-> <<"proposal">>, cls |-> "content", role |-> "field", scope |-> "init-ballot-fact", rel |-> "proposal", outer |-> FALSE],
      [p |-> <<"token">>, cls |-> "content", role |-> "field", scope |-> "init-ballot-fact", rel |-> "token", outer |-> FALSE]}],
  [kind |-> "suffrage-confirm-ballot-fact", nsigns |-> 0, signed |-> FALSE, leaves |-> {
      [p |-> <<"_hint">>, cls |-> "content", role |-> "kind", scope |-> "suffrage-confirm-ballot-fact", rel |-> "_hint", outer |-> FALSE],
      [p |-> <<"expel_facts", "0">>, cls |-> "content", role |-> "field", scope |-> "suffrage-confirm-ballot-fact", rel |-> "expel_facts.0", outer |-> FALSE],
      [p |-> <<"hash">>, cls |-> "content", role |-> "hash", scope |-> "suffrage-confirm-ballot-fact", rel |-> "hash", outer |-> FALSE],
      [p |-> <<"point", "height">>, cls |-> "content", role |-> "field", scope |-> "suffrage-confirm-ballot-fact", rel |-> "point.height", outer |-> FALSE],
      [p |-> <<"point", "round">>, cls |-> "content", role |-> "field", scope |-> "suffrage-confirm-ballot-fact", rel |-> "point.round", outer |-> FALSE],
      [p |-> <<"point", "stage">>, cls |-> "content", role |-> "field", scope |-> "suffrage-confirm-ballot-fact", rel |-> "point.stage", outer |-> FALSE],
      [p |-> <<"previous_block">>, cls |-> "content", role |-> "field", scope |-> "suffrage-confirm-ballot-fact", rel |-> "previous_block", outer |-> FALSE],
      [p |-> <<"proposal">>, cls |-> "content", role |-> "field", scope |-> "suffrage-confirm-ballot-fact", rel |-> "proposal", outer |-> FALSE],
      [p |-> <<"token">>, cls |-> "content", role |-> "field", scope |-> "suffrage-confirm-ballot-fact", rel |-> "token", outer |-> FALSE]}],
  [kind |-> "empty-proposal-init-ballot-fact", nsigns |-> 0, signed |-> FALSE, leaves |-> {
      [p |-> <<"_hint">>, cls |-> "content", role |-> "kind", scope |-> "empty-proposal-init-ballot-fact", rel |-> "_hint", outer |-> FALSE],
      [p |-> <<"hash">>, cls |-> "content", role |-> "hash", scope |-> "empty-proposal-init-ballot-fact", rel |-> "hash", outer |-> FALSE],
      [p |-> <<"point", "height">>, cls |-> "content", role |-> "field", scope |-> "empty-proposal-init-ballot-fact", rel |-> "point.height", outer |-> FALSE],
      [p |-> <<"point", "round">>, cls |-> "content", role |-> "field", scope |-> "empty-proposal-init-ballot-fact", rel |-> "point.round", outer |-> FALSE],
      [p |-> <<"point", "stage">>, cls |-> "content", role |-> "field", scope |-> "empty-proposal-init-ballot-fact", rel |-> "point.stage", outer |-> FALSE],
      [p |-> <<"previous_block">>, cls |-> "content", role |-> "field", scope |-> "empty-proposal-init-ballot-fact", rel |-> "previous_block", outer |-> FALSE],
      [p |-> <<"proposal">>, cls |-> "content", role |-> "field", scope |-> "empty-proposal-init-ballot-fact", rel |-> "proposal", outer |-> FALSE],
      [p |-> <<"r">>, cls |-> "content", role |-> "field", scope |-> "empty-proposal-init-ballot-fact", rel |-> "r", outer |-> FALSE],
      [p |-> <<"token">>, cls |-> "content", role |-> "field", scope |-> "empty-proposal-init-ballot-fact", rel |-> "token", outer |-> FALSE]}],
  [kind |-> "accept-ballot-fact", nsigns |-> 0, signed |-> FALSE, leaves |-> {
      [p |-> <<"_hint">>, cls |-> "content", role |-> "kind", scope |-> "accept-ballot-fact", rel |-> "_hint", outer |-> FALSE],
      [p |-> <<"expel_facts", "0">>, cls |-> "content", role |-> "field", scope |-> "accept-ballot-fact", rel |-> "expel_facts.0", outer |-> FALSE],
      [p |-> <<"hash">>, cls |-> "content", role |-> "hash", scope |-> "accept-ballot-fact", rel |-> "hash", outer |-> FALSE],
      [p |-> <<"new_block">>, cls |-> "content", role |-> "field", scope |-> "accept-ballot-fact", rel |-> "new_block", outer |-> FALSE],
      [p |-> <<"point", "height">>, cls |-> "content", role |-> "field", scope |-> "accept-ballot-fact", rel |-> "point.height", outer |-> FALSE],
      [p |-> <<"point", "round">>, cls |-> "content", role |-> "field", scope |-> "accept-ballot-fact", rel |-> "point.round", outer |-> FALSE],
      [p |-> <<"point", "stage">>, cls |-> "content", role |-> "field", scope |-> "accept-ballot-fact", rel |-> "point.stage", outer |-> FALSE],
      [p |-> <<"proposal">>, cls |-> "content", role |-> "field", scope |-> "accept-ballot-fact", rel |-> "proposal", outer |-> FALSE],
      [p |-> <<"token">>, cls |-> "content", role |-> "field", scope |-> "accept-ballot-fact", rel |-> "token", outer |-> FALSE]}],
  [kind |-> "empty-operations-accept-ballot-fact", nsigns |-> 0, signed |-> FALSE, leaves |-> {
      [p |-> <<"_hint">>, cls |-> "content", role |-> "kind", scope |-> "empty-operations-accept-ballot-fact", rel |-> "_hint", outer |-> FALSE],
      [p |-> <<"hash">>, cls |-> "content", role |-> "hash", scope |-> "empty-operations-accept-ballot-fact", rel |-> "hash", outer |-> FALSE],
      [p |-> <<"new_block">>, cls |-> "content", role |-> "field", scope |-> "empty-operations-accept-ballot-fact", rel |-> "new_block", outer |-> FALSE],
      [p |-> <<"point", "height">>, cls |-> "content", role |-> "field", scope |-> "empty-operations-accept-ballot-fact", rel |-> "point.height", outer |-> FALSE],
      [p |-> <<"point", "round">>, cls |-> "content", role |-> "field", scope |-> "empty-operations-accept-ballot-fact", rel |-> "point.round", outer |-> FALSE],
      [p |-> <<"point", "stage">>, cls |-> "content", role |-> "field", scope |-> "empty-operations-accept-ballot-fact", rel |-> "point.stage", outer |-> FALSE],
      [p |-> <<"proposal">>, cls |-> "content", role |-> "field", scope |-> "empty-operations-accept-ballot-fact", rel |-> "proposal", outer |-> FALSE],
      [p |-> <<"token">>, cls |-> "content", role |-> "field", scope |-> "empty-operations-accept-ballot-fact", rel |-> "token", outer |-> FALSE]}],
  [kind |-> "not-processed-accept-ballot-fact", nsigns |-> 0, signed |-> FALSE, leaves |-> {
      [p |-> <<"_hint">>, cls |-> "content", role |-> "kind", scope |-> "not-processed-accept-ballot-fact", rel |-> "_hint", outer |-> FALSE],
      [p |-> <<"hash">>, cls |-> "content", role |-> "hash", scope |-> "not-processed-accept-ballot-fact", rel |-> "hash", outer |-> FALSE],
      [p |-> <<"new_block">>, cls |-> "content", role |-> "field", scope |-> "not-processed-accept-ballot-fact", rel |-> "new_block", outer |-> FALSE],
      [p |-> <<"point", "height">>, cls |-> "content", role |-> "field", scope |-> "not-processed-accept-ballot-fact", rel |-> "point.height", outer |-> FALSE],
      [p |-> <<"point", "round">>, cls |-> "content", role |-> "field", scope |-> "not-processed-accept-ballot-fact", rel |-> "point.round", outer |-> FALSE],
      [p |-> <<"point", "stage">>, cls |-> "content", role |-> "field", scope |-> "not-processed-accept-ballot-fact", rel |-> "point.stage", outer |-> FALSE],
      [p |-> <<"proposal">>, cls |-> "content", role |-> "field", scope |-> "not-processed-accept-ballot-fact", rel |-> "proposal", outer |-> FALSE],
      [p |-> <<"token">>, cls |-> "content", role |-> "field", scope |-> "not-processed-accept-ballot-fact", rel |-> "token", outer |-> FALSE]}],
  [kind |-> "proposal-fact", nsigns |-> 0, signed |-> FALSE, leaves |-> {
      [p |-> <<"_hint">>, cls |-> "content", role |-> "kind", scope |-> "proposal-fact", rel |-> "_hint", outer |-> FALSE],
      [p |-> <<"hash">>, cls |-> "content", role |-> "hash", scope |-> "proposal-fact", rel |-> "hash", outer |-> FALSE],
      [p |-> <<"operations", "0", "0">>, cls |-> "content", role |-> "field", scope |-> "proposal-fact", rel |-> "operations.0.0", outer |-> FALSE],
      [p |-> <<"operations", "0", "1">>, cls |-> "content", role |-> "field", scope |-> "proposal-fact", rel |-> "operations.0.1", outer |-> FALSE],
      [p |-> <<"operations", "1", "0">>, cls |-> "content", role |-> "field", scope |-> "proposal-fact", rel |-> "operations.1.0", outer |-> FALSE],
      [p |-> <<"operations", "1", "1">>, cls |-> "content", role |-> "field", scope |-> "proposal-fact", rel |-> "operations.1.1", outer |-> FALSE],
      [p |-> <<"point", "height">>, cls |-> "content", role |-> "field", scope |-> "proposal-fact", rel |-> "point.height", outer |-> FALSE],
      [p |-> <<"point", "round">>, cls |-> "content", role |-> "field", scope |-> "proposal-fact", rel |-> "point.round", outer |-> FALSE],
      [p |-> <<"previous_block">>, cls |-> "content", role |-> "field", scope |-> "proposal-fact", rel |-> "previous_block", outer |-> FALSE],
      [p |-> <<"proposed_at">>, cls |-> "content", role |-> "field", scope |-> "proposal-fact", rel |-> "proposed_at", outer |-> FALSE],
      [p |-> <<"proposer">>, cls |-> "content", role |-> "field", scope |-> "proposal-fact", rel |-> "proposer", outer |-> FALSE],
      [p |-> <<"token">>, cls |-> "content", role |-> "field", scope |-> "proposal-fact", rel |-> "token", outer |-> FALSE]}],
  [kind |-> "suffrage-expel-fact", nsigns |-> 0, signed |-> FALSE, leaves |-> {
      [p |-> <<"_hint">>, cls |-> "content", role |-> "kind", scope |-> "suffrage-expel-fact", rel |-> "_hint", outer |-> FALSE],
      [p |-> <<"end">>, cls |-> "content", role |-> "field", scope |-> "suffrage-expel-fact", rel |-> "end", outer |-> FALSE],
      [p |-> <<"hash">>, cls |-> "content", role |-> "hash", scope |-> "suffrage-expel-fact", rel |-> "hash", outer |-> FALSE],
      [p |-> <<"node">>, cls |-> "content", role |-> "field", scope |-> "suffrage-expel-fact", rel |-> "node", outer |-> FALSE],
      [p |-> <<"reason">>, cls |-> "content", role |-> "field", scope |-> "suffrage-expel-fact", rel |-> "reason", outer |-> FALSE],
      [p |-> <<"start">>, cls |-> "content", role |-> "field", scope |-> "suffrage-expel-fact", rel |-> "start", outer |-> FALSE],
      [p |-> <<"token">>, cls |-> "content", role |-> "field", scope |-> "suffrage-expel-fact", rel |-> "token", outer |-> FALSE]}],
  [kind |-> "init-ballot-sign-fact", nsigns |-> 0, signed |-> TRUE, leaves |-> {
      [p |-> <<"_hint">>, cls |-> "noncontent", role |-> "field", scope |-> "", rel |-> "_hint", outer |-> FALSE],
      [p |-> <<"fact", "_hint">>, cls |-> "content", role |-> "kind", scope |-> "init-ballot-fact", rel |-> "_hint", outer |-> FALSE],
      [p |-> <<"fact", "expel_facts", "0">>, cls |-> "content", role |-> "field", scope |-> "init-ballot-fact", rel |-> "expel_facts.0", outer |-> FALSE],
      [p |-> <<"fact", "hash">>, cls |-> "content", role |-> "hash", scope |-> "init-ballot-fact", rel |-> "hash", outer |-> TRUE],
      [p |-> <<"fact", "point", "height">>, cls |-> "content", role |-> "field", scope |-> "init-ballot-fact", rel |-> "point.height", outer |-> FALSE],
      [p |-> <<"fact", "point", "round">>, cls |-> "content", role |-> "field", scope |-> "init-ballot-fact", rel |-> "point.round", outer |-> FALSE],
      [p |-> <<"fact", "point", "stage">>, cls |-> "content", role |-> "field", scope |-> "init-ballot-fact", rel |-> "point.stage", outer |-> FALSE],
      [p |-> <<"fact", "previous_block">>, cls |-> "content", role |-> "field", scope |-> "init-ballot-fact", rel |-> "previous_block", outer |-> FALSE],
      [p |-> <<"fact", "proposal">>, cls |-> "content", role |-> "field", scope |-> "init-ballot-fact", rel |-> "proposal", outer |-> FALSE],
      [p |-> <<"fact", "token">>, cls |-> "content", role |-> "field", scope |-> "init-ballot-fact", rel |-> "token", outer |-> FALSE],
      [p |-> <<"sign", "node">>, cls |-> "content", role |-> "node", scope |-> "", rel |-> "sign.node", outer |-> FALSE],
      [p |-> <<"sign", "signature">>, cls |-> "content", role |-> "sig", scope |-> "", rel |-> "sign.signature", outer |-> FALSE],
      [p |-> <<"sign", "signed_at">>, cls |-> "content", role |-> "signed_at", scope |-> "", rel |-> "sign.signed_at", outer |-> FALSE],
      [p |-> <<"sign", "signer">>, cls |-> "content", role |-> "signer", scope |-> "", rel |-> "sign.signer", outer |-> FALSE]}],
  [kind |-> "init-ballot-sign-fact(suffrage-confirm)", nsigns |-> 0, signed |-> TRUE, leaves |-> {
      [p |-> <<"_hint">>, cls |-> "noncontent", role |-> "field", scope |-> "", rel |-> "_hint", outer |-> FALSE],
      [p |-> <<"fact", "_hint">>, cls |-> "content", role |-> "kind", scope |-> "suffrage-confirm-ballot-fact", rel |-> "_hint", outer |-> FALSE],
      [p |-> <<"fact", "expel_facts", "0">>, cls |-> "content", role |-> "field", scope |-> "suffrage-confirm-ballot-fact", rel |-> "expel_facts.0", outer |-> FALSE],
      [p |-> <<"fact", "hash">>, cls |-> "content", role |-> "hash", scope |-> "suffrage-confirm-ballot-fact", rel |-> "hash", outer |-> TRUE],
      [p |-> <<"fact", "point", "height">>, cls |-> "content", role |-> "field", scope |-> "suffrage-confirm-ballot-fact", rel |-> "point.height", outer |-> FALSE],
      [p |-> <<"fact", "point", "round">>, cls |-> "content", role |-> "field", scope |-> "suffrage-confirm-ballot-fact", rel |-> "point.round", outer |-> FALSE],
      [p |-> <<"fact", "point", "stage">>, cls |-> "content", role |-> "field", scope |-> "suffrage-confirm-ballot-fact", rel |-> "point.stage", outer |-> FALSE],
      [p |-> <<"fact", "previous_block">>, cls |-> "content", role |-> "field", scope |-> "suffrage-confirm-ballot-fact", rel |-> "previous_block", outer |-> FALSE],
      [p |-> <<"fact", "proposal">>, cls |-> "content", role |-> "field", scope |-> "suffrage-confirm-ballot-fact", rel |-> "proposal", outer |-> FALSE],
      [p |-> <<"fact", "token">>, cls |-> "content", role |-> "field", scope |-> "suffrage-confirm-ballot-fact", rel |-> "token", outer |-> FALSE],
      [p |-> <<"sign", "node">>, cls |-> "content", role |-> "node", scope |-> "", rel |-> "sign.node", outer |-> FALSE],
      [p |-> <<"sign", "signature">>, cls |-> "content", role |-> "sig", scope |-> "", rel |-> "sign.signature", outer |-> FALSE],
      [p |-> <<"sign", "signed_at">>, cls |-> "content", role |-> "signed_at", scope |-> "", rel |-> "sign.signed_at", outer |-> FALSE],
      [p |-> <<"sign", "signer">>, cls |-> "content", role |-> "signer", scope |-> "", rel |-> "sign.signer", outer |-> FALSE]}],
  [kind |-> "init-ballot-sign-fact(empty-proposal)", nsigns |-> 0, signed |-> TRUE, leaves |-> {
      [p |-> <<"_hint">>, cls |-> "noncontent", role |-> "field", scope |-> "", rel |-> "_hint", outer |-> FALSE],
      [p |-> <<"fact", "_hint">>, cls |-> "content", role |-> "kind", scope |-> "empty-proposal-init-ballot-fact", rel |-> "_hint", outer |-> FALSE],
      [p |-> <<"fact", "hash">>, cls |-> "content", role |-> "hash", scope |-> "empty-proposal-init-ballot-fact", rel |-> "hash", outer |-> TRUE],
      [p |-> <<"fact", "point", "height">>, cls |-> "content", role |-> "field", scope |-> "empty-proposal-init-ballot-fact", rel |-> "point.height", outer |-> FALSE],
      [p |-> <<"fact", "point", "round">>, cls |-> "content", role |-> "field", scope |-> "empty-proposal-init-ballot-fact", rel |-> "point.round", outer |-> FALSE],
      [p |-> <<"fact", "point", "stage">>, cls |-> "content", role |-> "field", scope |-> "empty-proposal-init-ballot-fact", rel |-> "point.stage", outer |-> FALSE],
      [p |-> <<"fact", "previous_block">>, cls |-> "content", role |-> "field", scope |-> "empty-proposal-init-ballot-fact", rel |-> "previous_block", outer |-> FALSE],
      [p |-> <<"fact", "proposal">>, cls |-> "content", role |-> "field", scope |-> "empty-proposal-init-ballot-fact", rel |-> "proposal", outer |-> FALSE],
      [p |-> <<"fact", "r">>, cls |-> "content", role |-> "field", scope |-> "empty-proposal-init-ballot-fact", rel |-> "r", outer |-> FALSE],
      [p |-> <<"fact", "token">>, cls |-> "content", role |-> "field", scope |-> "empty-proposal-init-ballot-fact", rel |-> "token", outer |-> FALSE],
      [p |-> <<"sign", "node">>, cls |-> "content", role |-> "node", scope |-> "", rel |-> "sign.node", outer |-> FALSE],
      [p |-> <<"sign", "signature">>, cls |-> "content", role |-> "sig", scope |-> "", rel |-> "sign.signature", outer |-> FALSE],
      [p |-> <<"sign", "signed_at">>, cls |-> "content", role |-> "signed_at", scope |-> "", rel |-> "sign.signed_at", outer |-> FALSE],
      [p |-> <<"sign", "signer">>, cls |-> "content", role |-> "signer", scope |-> "", rel |-> "sign.signer", outer |-> FALSE]}],
  [kind |-> "accept-ballot-sign-fact", nsigns |-> 0, signed |-> TRUE, leaves |-> {
      [p |-> <<"_hint">>, cls |-> "noncontent", role |-> "field", scope |-> "", rel |-> "_hint", outer |-> FALSE],
      [p |-> <<"fact", "_hint">>, cls |-> "content", role |-> "kind", scope |-> "accept-ballot-fact", rel |-> "_hint", outer |-> FALSE],
      [p |-> <<"fact", "expel_facts", "0">>, cls |-> "content", role |-> "field", scope |-> "accept-ballot-fact", rel |-> "expel_facts.0", outer |-> FALSE],
      [p |-> <<"fact", "hash">>, cls |-> "content", role |-> "hash", scope |-> "accept-ballot-fact", rel |-> "hash", outer |-> TRUE],
      [p |-> <<"fact", "new_block">>, cls |-> "content", role |-> "field", scope |-> "accept-ballot-fact", rel |-> "new_block", outer |-> FALSE],
      [p |-> <<"fact", "point", "height">>, cls |-> "content", role |-> "field", scope |-> "accept-ballot-fact", rel |-> "point.height", outer |-> FALSE],
      [p |-> <<"fact", "point", "round">>, cls |-> "content", role |-> "field", scope |-> "accept-ballot-fact", rel |-> "point.round", outer |-> FALSE],
      [p |-> <<"fact", "point", "stage">>, cls |-> "content", role |-> "field", scope |-> "accept-ballot-fact", rel |-> "point.stage", outer |-> FALSE],
      [p |-> <<"fact", "proposal">>, cls |-> "content", role |-> "field", scope |-> "accept-ballot-fact", rel |-> "proposal", outer |-> FALSE],
      [p |-> <<"fact", "token">>, cls |-> "content", role |-> "field", scope |-> "accept-ballot-fact", rel |-> "token", outer |-> FALSE],
      [p |-> <<"sign", "node">>, cls |-> "content", role |-> "node", scope |-> "", rel |-> "sign.node", outer |-> FALSE],
      [p |-> <<"sign", "signature">>, cls |-> "content", role |-> "sig", scope |-> "", rel |-> "sign.signature", outer |-> FALSE],
      [p |-> <<"sign", "signed_at">>, cls |-> "content", role |-> "signed_at", scope |-> "", rel |-> "sign.signed_at", outer |-> FALSE],
      [p |-> <<"sign", "signer">>, cls |-> "content", role |-> "signer", scope |-> "", rel |-> "sign.signer", outer |-> FALSE]}],
  [kind |-> "accept-ballot-sign-fact(empty-operations)", nsigns |-> 0, signed |-> TRUE, leaves |-> {
      [p |-> <<"_hint">>, cls |-> "noncontent", role |-> "field", scope |-> "", rel |-> "_hint", outer |-> FALSE],
      [p |-> <<"fact", "_hint">>, cls |-> "content", role |-> "kind", scope |-> "empty-operations-accept-ballot-fact", rel |-> "_hint", outer |-> FALSE],
      [p |-> <<"fact", "hash">>, cls |-> "content", role |-> "hash", scope |-> "empty-operations-accept-ballot-fact", rel |-> "hash", outer |-> TRUE],
      [p |-> <<"fact", "new_block">>, cls |-> "content", role |-> "field", scope |-> "empty-operations-accept-ballot-fact", rel |-> "new_block", outer |-> FALSE],
      [p |-> <<"fact", "point", "height">>, cls |-> "content", role |-> "field", scope |-> "empty-operations-accept-ballot-fact", rel |-> "point.height", outer |-> FALSE],
      [p |-> <<"fact", "point", "round">>, cls |-> "content", role |-> "field", scope |-> "empty-operations-accept-ballot-fact", rel |-> "point.round", outer |-> FALSE],
      [p |-> <<"fact", "point", "stage">>, cls |-> "content", role |-> "field", scope |-> "empty-operations-accept-ballot-fact", rel |-> "point.stage", outer |-> FALSE],
      [p |-> <<"fact", "proposal">>, cls |-> "content", role |-> "field", scope |-> "empty-operations-accept-ballot-fact", rel |-> "proposal", outer |-> FALSE],
      [p |-> <<"fact", "token">>, cls |-> "content", role |-> "field", scope |-> "empty-operations-accept-ballot-fact", rel |-> "token", outer |-> FALSE],
      [p |-> <<"sign", "node">>, cls |-> "content", role |-> "node", scope |-> "", rel |-> "sign.node", outer |-> FALSE],
      [p |-> <<"sign", "signature">>, cls |-> "content", role |-> "sig", scope |-> "", rel |-> "sign.signature", outer |-> FALSE],
      [p |-> <<"sign", "signed_at">>, cls |-> "content", role |-> "signed_at", scope |-> "", rel |-> "sign.signed_at", outer |-> FALSE],
      [p |-> <<"sign", "signer">>, cls |-> "content", role |-> "signer", scope |-> "", rel |-> "sign.signer", outer |-> FALSE]}],
  [kind |-> "accept-ballot-sign-fact(not-processed)", nsigns |-> 0, signed |-> TRUE, leaves |-> {
      [p |-> <<"_hint">>, cls |-> "noncontent", role |-> "field", scope |-> "", rel |-> "_hint", outer |-> FALSE],
      [p |-> <<"fact", "_hint">>, cls |-> "content", role |-> "kind", scope |-> "not-processed-accept-ballot-fact", rel |-> "_hint", outer |-> FALSE],
      [p |-> <<"fact", "hash">>, cls |-> "content", role |-> "hash", scope |-> "not-processed-accept-ballot-fact", rel |-> "hash", outer |-> TRUE],
      [p |-> <<"fact", "new_block">>, cls |-> "content", role |-> "field", scope |-> "not-processed-accept-ballot-fact", rel |-> "new_block", outer |-> FALSE],
      [p |-> <<"fact", "point", "height">>, cls |-> "content", role |-> "field", scope |-> "not-processed-accept-ballot-fact", rel |-> "point.height", outer |-> FALSE],
      [p |-> <<"fact", "point", "round">>, cls |-> "content", role |-> "field", scope |-> "not-processed-accept-ballot-fact", rel |-> "point.round", outer |-> FALSE],
      [p |-> <<"fact", "point", "stage">>, cls |-> "content", role |-> "field", scope |-> "not-processed-accept-ballot-fact", rel |-> "point.stage", outer |-> FALSE],
      [p |-> <<"fact", "proposal">>, cls |-> "content", role |-> "field", scope |-> "not-processed-accept-ballot-fact", rel |-> "proposal", outer |-> FALSE],
      [p |-> <<"fact", "token">>, cls |-> "content", role |-> "field", scope |-> "not-processed-accept-ballot-fact", rel |-> "token", outer |-> FALSE],
      [p |-> <<"sign", "node">>, cls |-> "content", role |-> "node", scope |-> "", rel |-> "sign.node", outer |-> FALSE],
      [p |-> <<"sign", "signature">>, cls |-> "content", role |-> "sig", scope |-> "", rel |-> "sign.signature", outer |-> FALSE],
      [p |-> <<"sign", "signed_at">>, cls |-> "content", role |-> "signed_at", scope |-> "", rel |-> "sign.signed_at", outer |-> FALSE],
      [p |-> <<"sign", "signer">>, cls |-> "content", role |-> "signer", scope |-> "", rel |-> "sign.signer", outer |-> FALSE]}],
  [kind |-> "proposal-sign-fact", nsigns |-> 0, signed |-> TRUE, leaves |-> {
      [p |-> <<"_hint">>, cls |-> "noncontent", role |-> "field", scope |-> "", rel |-> "_hint", outer |-> FALSE],
      [p |-> <<"fact", "_hint">>, cls |-> "content", role |-> "kind", scope |-> "proposal-fact", rel |-> "_hint", outer |-> FALSE],
      [p |-> <<"fact", "hash">>, cls |-> "content", role |-> "hash", scope |-> "proposal-fact", rel |-> "hash", outer |-> TRUE],
      [p |-> <<"fact", "operations", "0", "0">>, cls |-> "content", role |-> "field", scope |-> "proposal-fact", rel |-> "operations.0.0", outer |-> FALSE],
      [p |-> <<"fact", "operations", "0", "1">>, cls |-> "content", role |-> "field", scope |-> "proposal-fact", rel |-> "operations.0.1", outer |-> FALSE],
      [p |-> <<"fact", "point", "height">>, cls |-> "content", role |-> "field", scope |-> "proposal-fact", rel |-> "point.height", outer |-> FALSE],
      [p |-> <<"fact", "point", "round">>, cls |-> "content", role |-> "field", scope |-> "proposal-fact", rel |-> "point.round", outer |-> FALSE],
      [p |-> <<"fact", "previous_block">>, cls |-> "content", role |-> "field", scope |-> "proposal-fact", rel |-> "previous_block", outer |-> FALSE],
      [p |-> <<"fact", "proposed_at">>, cls |-> "content", role |-> "field", scope |-> "proposal-fact", rel |-> "proposed_at", outer |-> FALSE],
      [p |-> <<"fact", "proposer">>, cls |-> "content", role |-> "field", scope |-> "proposal-fact", rel |-> "proposer", outer |-> FALSE],
      [p |-> <<"fact", "token">>, cls |-> "content", role |-> "field", scope |-> "proposal-fact", rel |-> "token", outer |-> FALSE],
      [p |-> <<"sign", "signature">>, cls |-> "content", role |-> "sig", scope |-> "", rel |-> "sign.signature", outer |-> FALSE],
      [p |-> <<"sign", "signed_at">>, cls |-> "content", role |-> "signed_at", scope |-> "", rel |-> "sign.signed_at", outer |-> FALSE],
      [p |-> <<"sign", "signer">>, cls |-> "content", role |-> "signer", scope |-> "", rel |-> "sign.signer", outer |-> FALSE]}],
  [kind |-> "init-ballot", nsigns |-> 0, signed |-> TRUE, leaves |-> {
      [p |-> <<"_hint">>, cls |-> "noncontent", role |-> "field", scope |-> "", rel |-> "_hint", outer |-> FALSE],
      [p |-> <<"sign_fact", "_hint">>, cls |-> "noncontent", role |-> "field", scope |-> "", rel |-> "sign_fact._hint", outer |-> FALSE],
      [p |-> <<"sign_fact", "fact", "_hint">>, cls |-> "content", role |-> "kind", scope |-> "init-ballot-fact", rel |-> "_hint", outer |-> FALSE],
      [p |-> <<"sign_fact", "fact", "hash">>, cls |-> "content", role |-> "hash", scope |-> "init-ballot-fact", rel |-> "hash", outer |-> TRUE],
      [p |-> <<"sign_fact", "fact", "point", "height">>, cls |-> "content", role |-> "field", scope |-> "init-ballot-fact", rel |-> "point.height", outer |-> FALSE],
      [p |-> <<"sign_fact", "fact", "point", "round">>, cls |-> "content", role |-> "field", scope |-> "init-ballot-fact", rel |-> "point.round", outer |-> FALSE],
      [p |-> <<"sign_fact", "fact", "point", "stage">>, cls |-> "content", role |-> "field", scope |-> "init-ballot-fact", rel |-> "point.stage", outer |-> FALSE],
      [p |-> <<"sign_fact", "fact", "previous_block">>, cls |-> "content", role |-> "field", scope |-> "init-ballot-fact", rel |-> "previous_block", outer |-> FALSE],
      [p |-> <<"sign_fact", "fact", "proposal">>, cls |-> "content", role |-> "field", scope |-> "init-ballot-fact", rel |-> "proposal", outer |-> FALSE],
      [p |-> <<"sign_fact", "fact", "token">>, cls |-> "content", role |-> "field", scope |-> "init-ballot-fact", rel |-> "token", outer |-> FALSE],
      [p |-> <<"sign_fact", "sign", "node">>, cls |-> "content", role |-> "node", scope |-> "", rel |-> "sign_fact.sign.node", outer |-> FALSE],
      [p |-> <<"sign_fact", "sign", "signature">>, cls |-> "content", role |-> "sig", scope |-> "", rel |-> "sign_fact.sign.signature", outer |-> FALSE],
      [p |-> <<"sign_fact", "sign", "signed_at">>, cls |-> "content", role |-> "signed_at", scope |-> "", rel |-> "sign_fact.sign.signed_at", outer |-> FALSE],
      [p |-> <<"sign_fact", "sign", "signer">>, cls |-> "content", role |-> "signer", scope |-> "", rel |-> "sign_fact.sign.signer", outer |-> FALSE],
      [p |-> <<"voteproof", "_hint">>, cls |-> "noncontent", role |-> "field", scope |-> "", rel |-> "voteproof._hint", outer |-> FALSE],
      [p |-> <<"voteproof", "finished_at">>, cls |-> "noncontent", role |-> "field", scope |-> "", rel |-> "voteproof.finished_at", outer |-> FALSE],
      [p |-> <<"voteproof", "id">>, cls |-> "noncontent", role |-> "field", scope |-> "", rel |-> "voteproof.id", outer |-> FALSE],
      [p |-> <<"voteproof", "majority">>, cls |-> "noncontent", role |-> "field", scope |-> "", rel |-> "voteproof.majority", outer |-> FALSE],
      [p |-> <<"voteproof", "point", "height">>, cls |-> "noncontent", role |-> "field", scope |-> "", rel |-> "voteproof.point.height", outer |-> FALSE],
      [p |-> <<"voteproof", "point", "round">>, cls |-> "noncontent", role |-> "field", scope |-> "", rel |-> "voteproof.point.round", outer |-> FALSE],
      [p |-> <<"voteproof", "point", "stage">>, cls |-> "noncontent", role |-> "field", scope |-> "", rel |-> "voteproof.point.stage", outer |-> FALSE],
      [p |-> <<"voteproof", "sign_facts", "0", "_hint">>, cls |-> "noncontent", role |-> "field", scope |-> "", rel |-> "voteproof.sign_facts.0._hint", outer |-> FALSE],
      [p |-> <<"voteproof", "sign_facts", "0", "fact", "_hint">>, cls |-> "content", role |-> "kind", scope |-> "accept-ballot-fact", rel |-> "_hint", outer |-> FALSE],
      [p |-> <<"voteproof", "sign_facts", "0", "fact", "hash">>, cls |-> "content", role |-> "hash", scope |-> "accept-ballot-fact", rel |-> "hash", outer |-> TRUE],
      [p |-> <<"voteproof", "sign_facts", "0", "fact", "new_block">>, cls |-> "content", role |-> "field", scope |-> "accept-ballot-fact", rel |-> "new_block", outer |-> FALSE],
      [p |-> <<"voteproof", "sign_facts", "0", "fact", "point", "height">>, cls |-> "content", role |-> "field", scope |-> "accept-ballot-fact", rel |-> "point.height", outer |-> FALSE],
      [p |-> <<"voteproof", "sign_facts", "0", "fact", "point", "round">>, cls |-> "content", role |-> "field", scope |-> "accept-ballot-fact", rel |-> "point.round", outer |-> FALSE],
      [p |-> <<"voteproof", "sign_facts", "0", "fact", "point", "stage">>, cls |-> "content", role |-> "field", scope |-> "accept-ballot-fact", rel |-> "point.stage", outer |-> FALSE],
      [p |-> <<"voteproof", "sign_facts", "0", "fact", "proposal">>, cls |-> "content", role |-> "field", scope |-> "accept-ballot-fact", rel |-> "proposal", outer |-> FALSE],
      [p |-> <<"voteproof", "sign_facts", "0", "fact", "token">>, cls |-> "content", role |-> "field", scope |-> "accept-ballot-fact", rel |-> "token", outer |-> FALSE],
      [p |-> <<"voteproof", "sign_facts", "0", "sign", "node">>, cls |-> "content", role |-> "node", scope |-> "", rel |-> "voteproof.sign_facts.0.sign.node", outer |-> FALSE],
      [p |-> <<"voteproof", "sign_facts", "0", "sign", "signature">>, cls |-> "content", role |-> "sig", scope |-> "", rel |-> "voteproof.sign_facts.0.sign.signature", outer |-> FALSE],
      [p |-> <<"voteproof", "sign_facts", "0", "sign", "signed_at">>, cls |-> "content", role |-> "signed_at", scope |-> "", rel |-> "voteproof.sign_facts.0.sign.signed_at", outer |-> FALSE],
      [p |-> <<"voteproof", "sign_facts", "0", "sign", "signer">>, cls |-> "content", role |-> "signer", scope |-> "", rel |-> "voteproof.sign_facts.0.sign.signer", outer |-> FALSE],
      [p |-> <<"voteproof", "sign_facts", "1", "_hint">>, cls |-> "noncontent", role |-> "field", scope |-> "", rel |-> "voteproof.sign_facts.1._hint", outer |-> FALSE],
      [p |-> <<"voteproof", "sign_facts", "1", "fact", "_hint">>, cls |-> "content", role |-> "kind", scope |-> "accept-ballot-fact", rel |-> "_hint", outer |-> FALSE],
      [p |-> <<"voteproof", "sign_facts", "1", "fact", "hash">>, cls |-> "content", role |-> "hash", scope |-> "accept-ballot-fact", rel |-> "hash", outer |-> TRUE],
      [p |-> <<"voteproof", "sign_facts", "1", "fact", "new_block">>, cls |-> "content", role |-> "field", scope |-> "accept-ballot-fact", rel |-> "new_block", outer |-> FALSE],
      [p |-> <<"voteproof", "sign_facts", "1", "fact", "point", "height">>, cls |-> "content", role |-> "field", scope |-> "accept-ballot-fact", rel |-> "point.height", outer |-> FALSE],
      [p |-> <<"voteproof", "sign_facts", "1", "fact", "point", "round">>, cls |-> "content", role |-> "field", scope |-> "accept-ballot-fact", rel |-> "point.round", outer |-> FALSE],
      [p |-> <<"voteproof", "sign_facts", "1", "fact", "point", "stage">>, cls |-> "content", role |-> "field", scope |-> "accept-ballot-fact", rel |-> "point.stage", outer |-> FALSE],
      [p |-> <<"voteproof", "sign_facts", "1", "fact", "proposal">>, cls |-> "content", role |-> "field", scope |-> "accept-ballot-fact", rel |-> "proposal", outer |-> FALSE],
      [p |-> <<"voteproof", "sign_facts", "1", "fact", "token">>, cls |-> "content", role |-> "field", scope |-> "accept-ballot-fact", rel |-> "token", outer |-> FALSE],
      [p |-> <<"voteproof", "sign_facts", "1", "sign", "node">>, cls |-> "content", role |-> "node", scope |-> "", rel |-> "voteproof.sign_facts.1.sign.node", outer |-> FALSE],
      [p |-> <<"voteproof", "sign_facts", "1", "sign", "signature">>, cls |-> "content", role |-> "sig", scope |-> "", rel |-> "voteproof.sign_facts.1.sign.signature", outer |-> FALSE],
      [p |-> <<"voteproof", "sign_facts", "1", "sign", "signed_at">>, cls |-> "content", role |-> "signed_at", scope |-> "", rel |-> "voteproof.sign_facts.1.sign.signed_at", outer |-> FALSE],
      [p |-> <<"voteproof", "sign_facts", "1", "sign", "signer">>, cls |-> "content", role |-> "signer", scope |-> "", rel |-> "voteproof.sign_facts.1.sign.signer", outer |-> FALSE],
      [p |-> <<"voteproof", "sign_facts", "2", "_hint">>, cls |-> "noncontent", role |-> "field", scope |-> "", rel |-> "voteproof.sign_facts.2._hint", outer |-> FALSE],
      [p |-> <<"voteproof", "sign_facts", "2", "fact", "_hint">>, cls |-> "content", role |-> "kind", scope |-> "accept-ballot-fact", rel |-> "_hint", outer |-> FALSE],
      [p |-> <<"voteproof", "sign_facts", "2", "fact", "hash">>, cls |-> "content", role |-> "hash", scope |-> "accept-ballot-fact", rel |-> "hash", outer |-> TRUE],
      [p |-> <<"voteproof", "sign_facts", "2", "fact", "new_block">>, cls |-> "content", role |-> "field", scope |-> "accept-ballot-fact", rel |-> "new_block", outer |-> FALSE],
      [p |-> <<"voteproof", "sign_facts", "2", "fact", "point", "height">>, cls |-> "content", role |-> "field", scope |-> "accept-ballot-fact", rel |-> "point.height", outer |-> FALSE],
      [p |-> <<"voteproof", "sign_facts", "2", "fact", "point", "round">>, cls |-> "content", role |-> "field", scope |-> "accept-ballot-fact", rel |-> "point.round", outer |-> FALSE],
      [p |-> <<"voteproof", "sign_facts", "2", "fact", "point", "stage">>, cls |-> "content", role |-> "field", scope |-> "accept-ballot-fact", rel |-> "point.stage", outer |-> FALSE],
      [p |-> <<"voteproof", "sign_facts", "2", "fact", "proposal">>, cls |-> "content", role |-> "field", scope |-> "accept-ballot-fact", rel |-> "proposal", outer |-> FALSE],
      [p |-> <<"voteproof", "sign_facts", "2", "fact", "token">>, cls |-> "content", role |-> "field", scope |-> "accept-ballot-fact", rel |-> "token", outer |-> FALSE],
      [p |-> <<"voteproof", "sign_facts", "2", "sign", "node">>, cls |-> "content", role |-> "node", scope |-> "", rel |-> "voteproof.sign_facts.2.sign.node", outer |-> FALSE],
      [p |-> <<"voteproof", "sign_facts", "2", "sign", "signature">>, cls |-> "content", role |-> "sig", scope |-> "", rel |-> "voteproof.sign_facts.2.sign.signature", outer |-> FALSE],
      [p |-> <<"voteproof", "sign_facts", "2", "sign", "signed_at">>, cls |-> "content", role |-> "signed_at", scope |-> "", rel |-> "voteproof.sign_facts.2.sign.signed_at", outer |-> FALSE],
      [p |-> <<"voteproof", "sign_facts", "2", "sign", "signer">>, cls |-> "content", role |-> "signer", scope |-> "", rel |-> "voteproof.sign_facts.2.sign.signer", outer |-> FALSE],
      [p |-> <<"voteproof", "threshold">>, cls |-> "noncontent", role |-> "field", scope |-> "", rel |-> "voteproof.threshold", outer |-> FALSE]}],
  [kind |-> "accept-ballot", nsigns |-> 0, signed |-> TRUE, leaves |-> {
      [p |-> <<"_hint">>, cls |-> "noncontent", role |-> "field", scope |-> "", rel |-> "_hint", outer |-> FALSE],
      [p |-> <<"sign_fact", "_hint">>, cls |-> "noncontent", role |-> "field", scope |-> "", rel |-> "sign_fact._hint", outer |-> FALSE],
      [p |-> <<"sign_fact", "fact", "_hint">>, cls |-> "content", role |-> "kind", scope |-> "accept-ballot-fact", rel |-> "_hint", outer |-> FALSE],
      [p |-> <<"sign_fact", "fact", "hash">>, cls |-> "content", role |-> "hash", scope |-> "accept-ballot-fact", rel |-> "hash", outer |-> TRUE],
      [p |-> <<"sign_fact", "fact", "new_block">>, cls |-> "content", role |-> "field", scope |-> "accept-ballot-fact", rel |-> "new_block", outer |-> FALSE],
      [p |-> <<"sign_fact", "fact", "point", "height">>, cls |-> "content", role |-> "field", scope |-> "accept-ballot-fact", rel |-> "point.height", outer |-> FALSE],
      [p |-> <<"sign_fact", "fact", "point", "round">>, cls |-> "content", role |-> "field", scope |-> "accept-ballot-fact", rel |-> "point.round", outer |-> FALSE],
      [p |-> <<"sign_fact", "fact", "point", "stage">>, cls |-> "content", role |-> "field", scope |-> "accept-ballot-fact", rel |-> "point.stage", outer |-> FALSE],
      [p |-> <<"sign_fact", "fact", "proposal">>, cls |-> "content", role |-> "field", scope |-> "accept-ballot-fact", rel |-> "proposal", outer |-> FALSE],
      [p |-> <<"sign_fact", "fact", "token">>, cls |-> "content", role |-> "field", scope |-> "accept-ballot-fact", rel |-> "token", outer |-> FALSE],
      [p |-> <<"sign_fact", "sign", "node">>, cls |-> "content", role |-> "node", scope |-> "", rel |-> "sign_fact.sign.node", outer |-> FALSE],
      [p |-> <<"sign_fact", "sign", "signature">>, cls |-> "content", role |-> "sig", scope |-> "", rel |-> "sign_fact.sign.signature", outer |-> FALSE],
      [p |-> <<"sign_fact", "sign", "signed_at">>, cls |-> "content", role |-> "signed_at", scope |-> "", rel |-> "sign_fact.sign.signed_at", outer |-> FALSE],
      [p |-> <<"sign_fact", "sign", "signer">>, cls |-> "content", role |-> "signer", scope |-> "", rel |-> "sign_fact.sign.signer", outer |-> FALSE],
      [p |-> <<"voteproof", "_hint">>, cls |-> "noncontent", role |-> "field", scope |-> "", rel |-> "voteproof._hint", outer |-> FALSE],
      [p |-> <<"voteproof", "finished_at">>, cls |-> "noncontent", role |-> "field", scope |-> "", rel |-> "voteproof.finished_at", outer |-> FALSE],
      [p |-> <<"voteproof", "id">>, cls |-> "noncontent", role |-> "field", scope |-> "", rel |-> "voteproof.id", outer |-> FALSE],
      [p |-> <<"voteproof", "majority">>, cls |-> "noncontent", role |-> "field", scope |-> "", rel |-> "voteproof.majority", outer |-> FALSE],
      [p |-> <<"voteproof", "point", "height">>, cls |-> "noncontent", role |-> "field", scope |-> "", rel |-> "voteproof.point.height", outer |-> FALSE],
      [p |-> <<"voteproof", "point", "round">>, cls |-> "noncontent", role |-> "field", scope |-> "", rel |-> "voteproof.point.round", outer |-> FALSE],
      [p |-> <<"voteproof", "point", "stage">>, cls |-> "noncontent", role |-> "field", scope |-> "", rel |-> "voteproof.point.stage", outer |-> FALSE],
      [p |-> <<"voteproof", "sign_facts", "0", "_hint">>, cls |-> "noncontent", role |-> "field", scope |-> "", rel |-> "voteproof.sign_facts.0._hint", outer |-> FALSE],
      [p |-> <<"voteproof", "sign_facts", "0", "fact", "_hint">>, cls |-> "content", role |-> "kind", scope |-> "init-ballot-fact", rel |-> "_hint", outer |-> FALSE],
      [p |-> <<"voteproof", "sign_facts", "0", "fact", "hash">>, cls |-> "content", role |-> "hash", scope |-> "init-ballot-fact", rel |-> "hash", outer |-> TRUE],
      [p |-> <<"voteproof", "sign_facts", "0", "fact", "point", "height">>, cls |-> "content", role |-> "field", scope |-> "init-ballot-fact", rel |-> "point.height", outer |-> FALSE],
      [p |-> <<"voteproof", "sign_facts", "0", "fact", "point", "round">>, cls |-> "content", role |-> "field", scope |-> "init-ballot-fact", rel |-> "point.round", outer |-> FALSE],
      [p |-> <<"voteproof", "sign_facts", "0", "fact", "point", "stage">>, cls |-> "content", role |-> "field", scope |-> "init-ballot-fact", rel |-> "point.stage", outer |-> FALSE],
      [p |-> <<"voteproof", "sign_facts", "0", "fact", "previous_block">>, cls |-> "content", role |-> "field", scope |-> "init-ballot-fact", rel |-> "previous_block", outer |-> FALSE],
      [p |-> <<"voteproof", "sign_facts", "0", "fact", "proposal">>, cls |-> "content", role |-> "field", scope |-> "init-ballot-fact", rel |-> "proposal", outer |-> FALSE],
      [p |-> <<"voteproof", "sign_facts", "0", "fact", "token">>, cls |-> "content", role |-> "field", scope |-> "init-ballot-fact", rel |-> "token", outer |-> FALSE],
      [p |-> <<"voteproof", "sign_facts", "0", "sign", "node">>, cls |-> "content", role |-> "node", scope |-> "", rel |-> "voteproof.sign_facts.0.sign.node", outer |-> FALSE],
      [p |-> <<"voteproof", "sign_facts", "0", "sign", "signature">>, cls |-> "content", role |-> "sig", scope |-> "", rel |-> "voteproof.sign_facts.0.sign.signature", outer |-> FALSE],
      [p |-> <<"voteproof", "sign_facts", "0", "sign", "signed_at">>, cls |-> "content", role |-> "signed_at", scope |-> "", rel |-> "voteproof.sign_facts.0.sign.signed_at", outer |-> FALSE],
      [p |-> <<"voteproof", "sign_facts", "0", "sign", "signer">>, cls |-> "content", role |-> "signer", scope |-> "", rel |-> "voteproof.sign_facts.0.sign.signer", outer |-> FALSE],
      [p |-> <<"voteproof", "sign_facts", "1", "_hint">>, cls |-> "noncontent", role |-> "field", scope |-> "", rel |-> "voteproof.sign_facts.1._hint", outer |-> FALSE],
      [p |-> <<"voteproof", "sign_facts", "1", "fact", "_hint">>, cls |-> "content", role |-> "kind", scope |-> "init-ballot-fact", rel |-> "_hint", outer |-> FALSE],
      [p |-> <<"voteproof", "sign_facts", "1", "fact", "hash">>, cls |-> "content", role |-> "hash", scope |-> "init-ballot-fact", rel |-> "hash", outer |-> TRUE],
      [p |-> <<"voteproof", "sign_facts", "1", "fact", "point", "height">>, cls |-> "content", role |-> "field", scope |-> "init-ballot-fact", rel |-> "point.height", outer |-> FALSE],
      [p |-> <<"voteproof", "sign_facts", "1", "fact", "point", "round">>, cls |-> "content", role |-> "field", scope |-> "init-ballot-fact", rel |-> "point.round", outer |-> FALSE],
      [p |-> <<"voteproof", "sign_facts", "1", "fact", "point", "stage">>, cls |-> "content", role |-> "field", scope |-> "init-ballot-fact", rel |-> "point.stage", outer |-> FALSE],
      [p |-> <<"voteproof", "sign_facts", "1", "fact", "previous_block">>, cls |-> "content", role |-> "field", scope |-> "init-ballot-fact", rel |-> "previous_block", outer |-> FALSE],
      [p |-> <<"voteproof", "sign_facts", "1", "fact", "proposal">>, cls |-> "content", role |-> "field", scope |-> "init-ballot-fact", rel |-> "proposal", outer |-> FALSE],
      [p |-> <<"voteproof", "sign_facts", "1", "fact", "token">>, cls |-> "content", role |-> "field", scope |-> "init-ballot-fact", rel |-> "token", outer |-> FALSE],
      [p |-> <<"voteproof", "sign_facts", "1", "sign", "node">>, cls |-> "content", role |-> "node", scope |-> "", rel |-> "voteproof.sign_facts.1.sign.node", outer |-> FALSE],
      [p |-> <<"voteproof", "sign_facts", "1", "sign", "signature">>, cls |-> "content", role |-> "sig", scope |-> "", rel |-> "voteproof.sign_facts.1.sign.signature", outer |-> FALSE],
      [p |-> <<"voteproof", "sign_facts", "1", "sign", "signed_at">>, cls |-> "content", role |-> "signed_at", scope |-> "", rel |-> "voteproof.sign_facts.1.sign.signed_at", outer |-> FALSE],
      [p |-> <<"voteproof", "sign_facts", "1", "sign", "signer">>, cls |-> "content", role |-> "signer", scope |-> "", rel |-> "voteproof.sign_facts.1.sign.signer", outer |-> FALSE],
      [p |-> <<"voteproof", "sign_facts", "2", "_hint">>, cls |-> "noncontent", role |-> "field", scope |-> "", rel |-> "voteproof.sign_facts.2._hint", outer |-> FALSE],
      [p |-> <<"voteproof", "sign_facts", "2", "fact", "_hint">>, cls |-> "content", role |-> "kind", scope |-> "init-ballot-fact", rel |-> "_hint", outer |-> FALSE],
      [p |-> <<"voteproof", "sign_facts", "2", "fact", "hash">>, cls |-> "content", role |-> "hash", scope |-> "init-ballot-fact", rel |-> "hash", outer |-> TRUE],
      [p |-> <<"voteproof", "sign_facts", "2", "fact", "point", "height">>, cls |-> "content", role |-> "field", scope |-> "init-ballot-fact", rel |-> "point.height", outer |-> FALSE],
      [p |-> <<"voteproof", "sign_facts", "2", "fact", "point", "round">>, cls |-> "content", role |-> "field", scope |-> "init-ballot-fact", rel |-> "point.round", outer |-> FALSE],
      [p |-> <<"voteproof", "sign_facts", "2", "fact", "point", "stage">>, cls |-> "content", role |-> "field", scope |-> "init-ballot-fact", rel |-> "point.stage", outer |-> FALSE],
      [p |-> <<"voteproof", "sign_facts", "2", "fact", "previous_block">>, cls |-> "content", role |-> "field", scope |-> "init-ballot-fact", rel |-> "previous_block", outer |-> FALSE],
      [p |-> <<"voteproof", "sign_facts", "2", "fact", "proposal">>, cls |-> "content", role |-> "field", scope |-> "init-ballot-fact", rel |-> "proposal", outer |-> FALSE],
      [p |-> <<"voteproof", "sign_facts", "2", "fact", "token">>, cls |-> "content", role |-> "field", scope |-> "init-ballot-fact", rel |-> "token", outer |-> FALSE],
      [p |-> <<"voteproof", "sign_facts", "2", "sign", "node">>, cls |-> "content", role |-> "node", scope |-> "", rel |-> "voteproof.sign_facts.2.sign.node", outer |-> FALSE],
      [p |-> <<"voteproof", "sign_facts", "2", "sign", "signature">>, cls |-> "content", role |-> "sig", scope |-> "", rel |-> "voteproof.sign_facts.2.sign.signature", outer |-> FALSE],
      [p |-> <<"voteproof", "sign_facts", "2", "sign", "signed_at">>, cls |-> "content", role |-> "signed_at", scope |-> "", rel |-> "voteproof.sign_facts.2.sign.signed_at", outer |-> FALSE],
      [p |-> <<"voteproof", "sign_facts", "2", "sign", "signer">>, cls |-> "content", role |-> "signer", scope |-> "", rel |-> "voteproof.sign_facts.2.sign.signer", outer |-> FALSE],
      [p |-> <<"voteproof", "threshold">>, cls |-> "noncontent", role |-> "field", scope |-> "", rel |-> "voteproof.threshold", outer |-> FALSE]}],
  [kind |-> "suffrage-expel-operation", nsigns |-> 3, signed |-> TRUE, leaves |-> {
      [p |-> <<"_hint">>, cls |-> "noncontent", role |-> "field", scope |-> "suffrage-expel-operation", rel |-> "_hint", outer |-> FALSE],
      [p |-> <<"fact", "_hint">>, cls |-> "content", role |-> "kind", scope |-> "suffrage-expel-fact", rel |-> "_hint", outer |-> FALSE],
      [p |-> <<"fact", "end">>, cls |-> "content", role |-> "field", scope |-> "suffrage-expel-fact", rel |-> "end", outer |-> FALSE],
      [p |-> <<"fact", "hash">>, cls |-> "content", role |-> "hash", scope |-> "suffrage-expel-fact", rel |-> "hash", outer |-> TRUE],
      [p |-> <<"fact", "node">>, cls |-> "content", role |-> "field", scope |-> "suffrage-expel-fact", rel |-> "node", outer |-> FALSE],
      [p |-> <<"fact", "reason">>, cls |-> "content", role |-> "field", scope |-> "suffrage-expel-fact", rel |-> "reason", outer |-> FALSE],
      [p |-> <<"fact", "start">>, cls |-> "content", role |-> "field", scope |-> "suffrage-expel-fact", rel |-> "start", outer |-> FALSE],
      [p |-> <<"fact", "token">>, cls |-> "content", role |-> "field", scope |-> "suffrage-expel-fact", rel |-> "token", outer |-> FALSE],
      [p |-> <<"hash">>, cls |-> "content", role |-> "hash", scope |-> "suffrage-expel-operation", rel |-> "hash", outer |-> FALSE],
      [p |-> <<"signs", "0", "node">>, cls |-> "content", role |-> "node", scope |-> "", rel |-> "signs.0.node", outer |-> FALSE],
      [p |-> <<"signs", "0", "signature">>, cls |-> "content", role |-> "sig", scope |-> "", rel |-> "signs.0.signature", outer |-> FALSE],
      [p |-> <<"signs", "0", "signed_at">>, cls |-> "content", role |-> "signed_at", scope |-> "", rel |-> "signs.0.signed_at", outer |-> FALSE],
      [p |-> <<"signs", "0", "signer">>, cls |-> "content", role |-> "signer", scope |-> "", rel |-> "signs.0.signer", outer |-> FALSE],
      [p |-> <<"signs", "1", "node">>, cls |-> "content", role |-> "node", scope |-> "", rel |-> "signs.1.node", outer |-> FALSE],
      [p |-> <<"signs", "1", "signature">>, cls |-> "content", role |-> "sig", scope |-> "", rel |-> "signs.1.signature", outer |-> FALSE],
      [p |-> <<"signs", "1", "signed_at">>, cls |-> "content", role |-> "signed_at", scope |-> "", rel |-> "signs.1.signed_at", outer |-> FALSE],
      [p |-> <<"signs", "1", "signer">>, cls |-> "content", role |-> "signer", scope |-> "", rel |-> "signs.1.signer", outer |-> FALSE],
      [p |-> <<"signs", "2", "node">>, cls |-> "content", role |-> "node", scope |-> "", rel |-> "signs.2.node", outer |-> FALSE],
      [p |-> <<"signs", "2", "signature">>, cls |-> "content", role |-> "sig", scope |-> "", rel |-> "signs.2.signature", outer |-> FALSE],
      [p |-> <<"signs", "2", "signed_at">>, cls |-> "content", role |-> "signed_at", scope |-> "", rel |-> "signs.2.signed_at", outer |-> FALSE],
      [p |-> <<"signs", "2", "signer">>, cls |-> "content", role |-> "signer", scope |-> "", rel |-> "signs.2.signer", outer |-> FALSE]}],
  [kind |-> "suffrage-join-operation", nsigns |-> 3, signed |-> TRUE, leaves |-> {
      [p |-> <<"_hint">>, cls |-> "noncontent", role |-> "field", scope |-> "suffrage-join-operation", rel |-> "_hint", outer |-> FALSE],
      [p |-> <<"fact", "_hint">>, cls |-> "content", role |-> "kind", scope |-> "suffrage-join-fact", rel |-> "_hint", outer |-> FALSE],
      [p |-> <<"fact", "candidate">>, cls |-> "content", role |-> "field", scope |-> "suffrage-join-fact", rel |-> "candidate", outer |-> FALSE],
      [p |-> <<"fact", "hash">>, cls |-> "content", role |-> "hash", scope |-> "suffrage-join-fact", rel |-> "hash", outer |-> TRUE],
      [p |-> <<"fact", "start_height">>, cls |-> "content", role |-> "field", scope |-> "suffrage-join-fact", rel |-> "start_height", outer |-> FALSE],
      [p |-> <<"fact", "token">>, cls |-> "content", role |-> "field", scope |-> "suffrage-join-fact", rel |-> "token", outer |-> FALSE],
      [p |-> <<"hash">>, cls |-> "content", role |-> "hash", scope |-> "suffrage-join-operation", rel |-> "hash", outer |-> FALSE],
      [p |-> <<"signs", "0", "node">>, cls |-> "content", role |-> "node", scope |-> "", rel |-> "signs.0.node", outer |-> FALSE],
      [p |-> <<"signs", "0", "signature">>, cls |-> "content", role |-> "sig", scope |-> "", rel |-> "signs.0.signature", outer |-> FALSE],
      [p |-> <<"signs", "0", "signed_at">>, cls |-> "content", role |-> "signed_at", scope |-> "", rel |-> "signs.0.signed_at", outer |-> FALSE],
      [p |-> <<"signs", "0", "signer">>, cls |-> "content", role |-> "signer", scope |-> "", rel |-> "signs.0.signer", outer |-> FALSE],
      [p |-> <<"signs", "1", "node">>, cls |-> "content", role |-> "node", scope |-> "", rel |-> "signs.1.node", outer |-> FALSE],
      [p |-> <<"signs", "1", "signature">>, cls |-> "content", role |-> "sig", scope |-> "", rel |-> "signs.1.signature", outer |-> FALSE],
      [p |-> <<"signs", "1", "signed_at">>, cls |-> "content", role |-> "signed_at", scope |-> "", rel |-> "signs.1.signed_at", outer |-> FALSE],
      [p |-> <<"signs", "1", "signer">>, cls |-> "content", role |-> "signer", scope |-> "", rel |-> "signs.1.signer", outer |-> FALSE],
      [p |-> <<"signs", "2", "node">>, cls |-> "content", role |-> "node", scope |-> "", rel |-> "signs.2.node", outer |-> FALSE],
      [p |-> <<"signs", "2", "signature">>, cls |-> "content", role |-> "sig", scope |-> "", rel |-> "signs.2.signature", outer |-> FALSE],
      [p |-> <<"signs", "2", "signed_at">>, cls |-> "content", role |-> "signed_at", scope |-> "", rel |-> "signs.2.signed_at", outer |-> FALSE],
      [p |-> <<"signs", "2", "signer">>, cls |-> "content", role |-> "signer", scope |-> "", rel |-> "signs.2.signer", outer |-> FALSE]}],
  [kind |-> "suffrage-disjoin-operation", nsigns |-> 1, signed |-> TRUE, leaves |-> {
      [p |-> <<"_hint">>, cls |-> "noncontent", role |-> "field", scope |-> "suffrage-disjoin-operation", rel |-> "_hint", outer |-> FALSE],
      [p |-> <<"fact", "_hint">>, cls |-> "content", role |-> "kind", scope |-> "suffrage-disjoin-fact", rel |-> "_hint", outer |-> FALSE],
      [p |-> <<"fact", "hash">>, cls |-> "content", role |-> "hash", scope |-> "suffrage-disjoin-fact", rel |-> "hash", outer |-> TRUE],
      [p |-> <<"fact", "node">>, cls |-> "content", role |-> "field", scope |-> "suffrage-disjoin-fact", rel |-> "node", outer |-> FALSE],
      [p |-> <<"fact", "start">>, cls |-> "content", role |-> "field", scope |-> "suffrage-disjoin-fact", rel |-> "start", outer |-> FALSE],
      [p |-> <<"fact", "token">>, cls |-> "content", role |-> "field", scope |-> "suffrage-disjoin-fact", rel |-> "token", outer |-> FALSE],
      [p |-> <<"hash">>, cls |-> "content", role |-> "hash", scope |-> "suffrage-disjoin-operation", rel |-> "hash", outer |-> FALSE],
      [p |-> <<"signs", "0", "node">>, cls |-> "content", role |-> "node", scope |-> "", rel |-> "signs.0.node", outer |-> FALSE],
      [p |-> <<"signs", "0", "signature">>, cls |-> "content", role |-> "sig", scope |-> "", rel |-> "signs.0.signature", outer |-> FALSE],
      [p |-> <<"signs", "0", "signed_at">>, cls |-> "content", role |-> "signed_at", scope |-> "", rel |-> "signs.0.signed_at", outer |-> FALSE],
      [p |-> <<"signs", "0", "signer">>, cls |-> "content", role |-> "signer", scope |-> "", rel |-> "signs.0.signer", outer |-> FALSE]}],
  [kind |-> "suffrage-candidate-operation", nsigns |-> 1, signed |-> TRUE, leaves |-> {
      [p |-> <<"_hint">>, cls |-> "noncontent", role |-> "field", scope |-> "suffrage-candidate-operation", rel |-> "_hint", outer |-> FALSE],
      [p |-> <<"fact", "_hint">>, cls |-> "content", role |-> "kind", scope |-> "suffrage-candidate-fact", rel |-> "_hint", outer |-> FALSE],
      [p |-> <<"fact", "address">>, cls |-> "content", role |-> "field", scope |-> "suffrage-candidate-fact", rel |-> "address", outer |-> FALSE],
      [p |-> <<"fact", "hash">>, cls |-> "content", role |-> "hash", scope |-> "suffrage-candidate-fact", rel |-> "hash", outer |-> TRUE],
      [p |-> <<"fact", "publickey">>, cls |-> "content", role |-> "field", scope |-> "suffrage-candidate-fact", rel |-> "publickey", outer |-> FALSE],
      [p |-> <<"fact", "token">>, cls |-> "content", role |-> "field", scope |-> "suffrage-candidate-fact", rel |-> "token", outer |-> FALSE],
      [p |-> <<"hash">>, cls |-> "content", role |-> "hash", scope |-> "suffrage-candidate-operation", rel |-> "hash", outer |-> FALSE],
      [p |-> <<"signs", "0", "node">>, cls |-> "content", role |-> "node", scope |-> "", rel |-> "signs.0.node", outer |-> FALSE],
      [p |-> <<"signs", "0", "signature">>, cls |-> "content", role |-> "sig", scope |-> "", rel |-> "signs.0.signature", outer |-> FALSE],
      [p |-> <<"signs", "0", "signed_at">>, cls |-> "content", role |-> "signed_at", scope |-> "", rel |-> "signs.0.signed_at", outer |-> FALSE],
      [p |-> <<"signs", "0", "signer">>, cls |-> "content", role |-> "signer", scope |-> "", rel |-> "signs.0.signer", outer |-> FALSE]}],
  [kind |-> "network-policy-operation", nsigns |-> 3, signed |-> TRUE, leaves |-> {
      [p |-> <<"_hint">>, cls |-> "noncontent", role |-> "field", scope |-> "network-policy-operation", rel |-> "_hint", outer |-> FALSE],
      [p |-> <<"fact", "_hint">>, cls |-> "content", role |-> "kind", scope |-> "network-policy-fact", rel |-> "_hint", outer |-> FALSE],
      [p |-> <<"fact", "hash">>, cls |-> "content", role |-> "hash", scope |-> "network-policy-fact", rel |-> "hash", outer |-> TRUE],
      [p |-> <<"fact", "policy", "_hint">>, cls |-> "noncontent", role |-> "field", scope |-> "network-policy-fact", rel |-> "policy._hint", outer |-> FALSE],
      [p |-> <<"fact", "policy", "empty_proposal_no_block">>, cls |-> "content", role |-> "field", scope |-> "network-policy-fact", rel |-> "policy.empty_proposal_no_block", outer |-> FALSE],
      [p |-> <<"fact", "policy", "max_operations_in_proposal">>, cls |-> "content", role |-> "field", scope |-> "network-policy-fact", rel |-> "policy.max_operations_in_proposal", outer |-> FALSE],
      [p |-> <<"fact", "policy", "max_suffrage_size">>, cls |-> "content", role |-> "field", scope |-> "network-policy-fact", rel |-> "policy.max_suffrage_size", outer |-> FALSE],
      [p |-> <<"fact", "policy", "suffrage_candidate_lifespan">>, cls |-> "content", role |-> "field", scope |-> "network-policy-fact", rel |-> "policy.suffrage_candidate_lifespan", outer |-> FALSE],
      [p |-> <<"fact", "policy", "suffrage_candidate_limiter", "_hint">>, cls |-> "noncontent", role |-> "field", scope |-> "network-policy-fact", rel |-> "policy.suffrage_candidate_limiter._hint", outer |-> FALSE],
      [p |-> <<"fact", "policy", "suffrage_candidate_limiter", "limit">>, cls |-> "content", role |-> "field", scope |-> "network-policy-fact", rel |-> "policy.suffrage_candidate_limiter.limit", outer |-> FALSE],
      [p |-> <<"fact", "policy", "suffrage_expel_lifespan">>, cls |-> "content", role |-> "field", scope |-> "network-policy-fact", rel |-> "policy.suffrage_expel_lifespan", outer |-> FALSE],
      [p |-> <<"fact", "token">>, cls |-> "content", role |-> "field", scope |-> "network-policy-fact", rel |-> "token", outer |-> FALSE],
      [p |-> <<"hash">>, cls |-> "content", role |-> "hash", scope |-> "network-policy-operation", rel |-> "hash", outer |-> FALSE],
      [p |-> <<"signs", "0", "node">>, cls |-> "content", role |-> "node", scope |-> "", rel |-> "signs.0.node", outer |-> FALSE],
      [p |-> <<"signs", "0", "signature">>, cls |-> "content", role |-> "sig", scope |-> "", rel |-> "signs.0.signature", outer |-> FALSE],
      [p |-> <<"signs", "0", "signed_at">>, cls |-> "content", role |-> "signed_at", scope |-> "", rel |-> "signs.0.signed_at", outer |-> FALSE],
      [p |-> <<"signs", "0", "signer">>, cls |-> "content", role |-> "signer", scope |-> "", rel |-> "signs.0.signer", outer |-> FALSE],
      [p |-> <<"signs", "1", "node">>, cls |-> "content", role |-> "node", scope |-> "", rel |-> "signs.1.node", outer |-> FALSE],
      [p |-> <<"signs", "1", "signature">>, cls |-> "content", role |-> "sig", scope |-> "", rel |-> "signs.1.signature", outer |-> FALSE],
      [p |-> <<"signs", "1", "signed_at">>, cls |-> "content", role |-> "signed_at", scope |-> "", rel |-> "signs.1.signed_at", outer |-> FALSE],
      [p |-> <<"signs", "1", "signer">>, cls |-> "content", role |-> "signer", scope |-> "", rel |-> "signs.1.signer", outer |-> FALSE],
      [p |-> <<"signs", "2", "node">>, cls |-> "content", role |-> "node", scope |-> "", rel |-> "signs.2.node", outer |-> FALSE],
      [p |-> <<"signs", "2", "signature">>, cls |-> "content", role |-> "sig", scope |-> "", rel |-> "signs.2.signature", outer |-> FALSE],
      [p |-> <<"signs", "2", "signed_at">>, cls |-> "content", role |-> "signed_at", scope |-> "", rel |-> "signs.2.signed_at", outer |-> FALSE],
      [p |-> <<"signs", "2", "signer">>, cls |-> "content", role |-> "signer", scope |-> "", rel |-> "signs.2.signer", outer |-> FALSE]}],
  [kind |-> "blockmap", nsigns |-> 0, signed |-> TRUE, leaves |-> {
      [p |-> <<"_hint">>, cls |-> "noncontent", role |-> "field", scope |-> "", rel |-> "_hint", outer |-> FALSE],
      [p |-> <<"items", "operations", "checksum">>, cls |-> "content", role |-> "field", scope |-> "blockmap-signature", rel |-> "checksum", outer |-> FALSE],
      [p |-> <<"items", "operations", "type">>, cls |-> "weak", role |-> "field", scope |-> "", rel |-> "items.operations.type", outer |-> FALSE],
      [p |-> <<"items", "operations_tree", "checksum">>, cls |-> "content", role |-> "field", scope |-> "blockmap-signature", rel |-> "checksum", outer |-> FALSE],
      [p |-> <<"items", "operations_tree", "type">>, cls |-> "weak", role |-> "field", scope |-> "", rel |-> "items.operations_tree.type", outer |-> FALSE],
      [p |-> <<"items", "proposal", "checksum">>, cls |-> "content", role |-> "field", scope |-> "blockmap-signature", rel |-> "checksum", outer |-> FALSE],
      [p |-> <<"items", "proposal", "type">>, cls |-> "weak", role |-> "field", scope |-> "", rel |-> "items.proposal.type", outer |-> FALSE],
      [p |-> <<"items", "states", "checksum">>, cls |-> "content", role |-> "field", scope |-> "blockmap-signature", rel |-> "checksum", outer |-> FALSE],
      [p |-> <<"items", "states", "type">>, cls |-> "weak", role |-> "field", scope |-> "", rel |-> "items.states.type", outer |-> FALSE],
      [p |-> <<"items", "states_tree", "checksum">>, cls |-> "content", role |-> "field", scope |-> "blockmap-signature", rel |-> "checksum", outer |-> FALSE],
      [p |-> <<"items", "states_tree", "type">>, cls |-> "weak", role |-> "field", scope |-> "", rel |-> "items.states_tree.type", outer |-> FALSE],
      [p |-> <<"items", "voteproofs", "checksum">>, cls |-> "content", role |-> "field", scope |-> "blockmap-signature", rel |-> "checksum", outer |-> FALSE],
      [p |-> <<"items", "voteproofs", "type">>, cls |-> "weak", role |-> "field", scope |-> "", rel |-> "items.voteproofs.type", outer |-> FALSE],
      [p |-> <<"manifest", "_hint">>, cls |-> "noncontent", role |-> "field", scope |-> "manifest", rel |-> "_hint", outer |-> FALSE],
      [p |-> <<"manifest", "hash">>, cls |-> "content", role |-> "hash", scope |-> "manifest", rel |-> "hash", outer |-> TRUE],
      [p |-> <<"manifest", "height">>, cls |-> "content", role |-> "field", scope |-> "manifest", rel |-> "height", outer |-> FALSE],
      [p |-> <<"manifest", "operations_tree">>, cls |-> "content", role |-> "field", scope |-> "manifest", rel |-> "operations_tree", outer |-> FALSE],
      [p |-> <<"manifest", "previous">>, cls |-> "content", role |-> "field", scope |-> "manifest", rel |-> "previous", outer |-> FALSE],
      [p |-> <<"manifest", "proposal">>, cls |-> "content", role |-> "field", scope |-> "manifest", rel |-> "proposal", outer |-> FALSE],
      [p |-> <<"manifest", "proposed_at">>, cls |-> "content", role |-> "field", scope |-> "manifest", rel |-> "proposed_at", outer |-> FALSE],
      [p |-> <<"manifest", "states_tree">>, cls |-> "content", role |-> "field", scope |-> "manifest", rel |-> "states_tree", outer |-> FALSE],
      [p |-> <<"manifest", "suffrage">>, cls |-> "content", role |-> "field", scope |-> "manifest", rel |-> "suffrage", outer |-> FALSE],
      [p |-> <<"node">>, cls |-> "content", role |-> "node", scope |-> "", rel |-> "node", outer |-> FALSE],
      [p |-> <<"signature">>, cls |-> "content", role |-> "sig", scope |-> "", rel |-> "signature", outer |-> FALSE],
      [p |-> <<"signed_at">>, cls |-> "content", role |-> "signed_at", scope |-> "", rel |-> "signed_at", outer |-> FALSE],
      [p |-> <<"signer">>, cls |-> "content", role |-> "signer", scope |-> "", rel |-> "signer", outer |-> FALSE]}],
  [kind |-> "manifest", nsigns |-> 0, signed |-> FALSE, leaves |-> {
      [p |-> <<"_hint">>, cls |-> "noncontent", role |-> "field", scope |-> "manifest", rel |-> "_hint", outer |-> FALSE],
      [p |-> <<"hash">>, cls |-> "content", role |-> "hash", scope |-> "manifest", rel |-> "hash", outer |-> FALSE],
      [p |-> <<"height">>, cls |-> "content", role |-> "field", scope |-> "manifest", rel |-> "height", outer |-> FALSE],
      [p |-> <<"operations_tree">>, cls |-> "content", role |-> "field", scope |-> "manifest", rel |-> "operations_tree", outer |-> FALSE],
      [p |-> <<"previous">>, cls |-> "content", role |-> "field", scope |-> "manifest", rel |-> "previous", outer |-> FALSE],
      [p |-> <<"proposal">>, cls |-> "content", role |-> "field", scope |-> "manifest", rel |-> "proposal", outer |-> FALSE],
      [p |-> <<"proposed_at">>, cls |-> "content", role |-> "field", scope |-> "manifest", rel |-> "proposed_at", outer |-> FALSE],
      [p |-> <<"states_tree">>, cls |-> "content", role |-> "field", scope |-> "manifest", rel |-> "states_tree", outer |-> FALSE],
      [p |-> <<"suffrage">>, cls |-> "content", role |-> "field", scope |-> "manifest", rel |-> "suffrage", outer |-> FALSE]}],
  [kind |-> "base-state", nsigns |-> 0, signed |-> FALSE, leaves |-> {
      [p |-> <<"_hint">>, cls |-> "noncontent", role |-> "field", scope |-> "base-state", rel |-> "_hint", outer |-> FALSE],
      [p |-> <<"hash">>, cls |-> "content", role |-> "hash", scope |-> "base-state", rel |-> "hash", outer |-> FALSE],
      [p |-> <<"height">>, cls |-> "content", role |-> "field", scope |-> "base-state", rel |-> "height", outer |-> FALSE],
      [p |-> <<"key">>, cls |-> "content", role |-> "field", scope |-> "base-state", rel |-> "key", outer |-> FALSE],
      [p |-> <<"operations", "0">>, cls |-> "content", role |-> "field", scope |-> "base-state", rel |-> "operations.0", outer |-> FALSE],
      [p |-> <<"operations", "1">>, cls |-> "content", role |-> "field", scope |-> "base-state", rel |-> "operations.1", outer |-> FALSE],
      [p |-> <<"previous">>, cls |-> "content", role |-> "field", scope |-> "base-state", rel |-> "previous", outer |-> FALSE],
      [p |-> <<"value", "_hint">>, cls |-> "noncontent", role |-> "field", scope |-> "base-state", rel |-> "value._hint", outer |-> FALSE],
      [p |-> <<"value", "height">>, cls |-> "content", role |-> "field", scope |-> "base-state", rel |-> "value.height", outer |-> FALSE],
      [p |-> <<"value", "nodes", "0", "_hint">>, cls |-> "noncontent", role |-> "field", scope |-> "base-state", rel |-> "value.nodes.0._hint", outer |-> FALSE],
      [p |-> <<"value", "nodes", "0", "address">>, cls |-> "content", role |-> "field", scope |-> "base-state", rel |-> "value.nodes.0.address", outer |-> FALSE],
      [p |-> <<"value", "nodes", "0", "publickey">>, cls |-> "content", role |-> "field", scope |-> "base-state", rel |-> "value.nodes.0.publickey", outer |-> FALSE],
      [p |-> <<"value", "nodes", "0", "start">>, cls |-> "content", role |-> "field", scope |-> "base-state", rel |-> "value.nodes.0.start", outer |-> FALSE],
      [p |-> <<"value", "nodes", "1", "_hint">>, cls |-> "noncontent", role |-> "field", scope |-> "base-state", rel |-> "value.nodes.1._hint", outer |-> FALSE],
      [p |-> <<"value", "nodes", "1", "address">>, cls |-> "content", role |-> "field", scope |-> "base-state", rel |-> "value.nodes.1.address", outer |-> FALSE],
      [p |-> <<"value", "nodes", "1", "publickey">>, cls |-> "content", role |-> "field", scope |-> "base-state", rel |-> "value.nodes.1.publickey", outer |-> FALSE],
      [p |-> <<"value", "nodes", "1", "start">>, cls |-> "content", role |-> "field", scope |-> "base-state", rel |-> "value.nodes.1.start", outer |-> FALSE],
      [p |-> <<"value", "nodes", "2", "_hint">>, cls |-> "noncontent", role |-> "field", scope |-> "base-state", rel |-> "value.nodes.2._hint", outer |-> FALSE],
      [p |-> <<"value", "nodes", "2", "address">>, cls |-> "content", role |-> "field", scope |-> "base-state", rel |-> "value.nodes.2.address", outer |-> FALSE],
      [p |-> <<"value", "nodes", "2", "publickey">>, cls |-> "content", role |-> "field", scope |-> "base-state", rel |-> "value.nodes.2.publickey", outer |-> FALSE],
      [p |-> <<"value", "nodes", "2", "start">>, cls |-> "content", role |-> "field", scope |-> "base-state", rel |-> "value.nodes.2.start", outer |-> FALSE]}]
>>


InitFamily == {"init-ballot-fact", "suffrage-confirm-ballot-fact", "empty-proposal-init-ballot-fact"}
AcceptFamily == {"accept-ballot-fact", "empty-operations-accept-ballot-fact", "not-processed-accept-ballot-fact"}
BallotFactKinds == InitFamily \cup AcceptFamily
(* relabel targets: every other kind of the same shape, and one of the other family *)
Targets(k) == IF k \in InitFamily THEN (InitFamily \ {k}) \cup {"accept-ballot-fact"}
              ELSE IF k \in AcceptFamily THEN (AcceptFamily \ {k}) \cup {"init-ballot-fact"}
              ELSE IF k = "suffrage-disjoin-fact" THEN {"suffrage-join-fact"}
              ELSE {"suffrage-disjoin-fact"}          \* the other facts have no sibling of their shape

K == 1..Len(Schema)
Cases ==
  UNION {
    (* one content leaf replaced by another value of its type *)
    {[kind |-> Schema[i].kind, mut |-> "field", path |-> l.p, role |-> l.role, cls |-> l.cls, scope |-> l.scope,
      rel |-> l.rel, outer |-> l.outer, to |-> ""] : l \in {x \in Schema[i].leaves : x.cls # "noncontent" /\ x.role # "kind"}}
    \cup
    (* a fact relabelled *)
    UNION {{[kind |-> Schema[i].kind, mut |-> "kind", path |-> l.p, role |-> l.role, cls |-> l.cls, scope |-> l.scope,
             rel |-> l.rel, to |-> t,
             (* outer is re-used for relabels: does the fact carry expel facts (a suffrage-confirm fact must) *)
             outer |-> \E x \in Schema[i].leaves : x.p = SubSeq(l.p, 1, Len(l.p) - 1) \o <<"expel_facts", "0">>]
            : t \in Targets(l.scope)} : l \in {x \in Schema[i].leaves : x.role = "kind"}}
    \cup
    (* verification under another network id *)
    (IF Schema[i].signed THEN {[kind |-> Schema[i].kind, mut |-> "netid", path |-> <<>>, role |-> "", cls |-> "content",
                                 scope |-> "", rel |-> "", outer |-> FALSE, to |-> ""]} ELSE {})
    \cup
    (* signs of an operation dropped, duplicated, reordered *)
    {[kind |-> Schema[i].kind, mut |-> m, path |-> <<"signs">>, role |-> "", cls |-> "content", scope |-> "", rel |-> "",
      outer |-> FALSE, to |-> ""] : m \in (IF Schema[i].nsigns >= 1 THEN {"signs-drop-all", "signs-dup"} ELSE {})
                                        \cup (IF Schema[i].nsigns >= 2 THEN {"signs-drop-one", "signs-swap"} ELSE {})}
    \cup
    (* two facts of different kinds with the same content *)
    (IF Schema[i].kind \in BallotFactKinds
     THEN {[kind |-> Schema[i].kind, mut |-> "twin", path |-> <<>>, role |-> "", cls |-> "content", scope |-> Schema[i].kind,
            rel |-> "", outer |-> FALSE, to |-> t] : t \in (IF Schema[i].kind \in InitFamily THEN InitFamily ELSE AcceptFamily) \ {Schema[i].kind}}
     ELSE {})
    : i \in K}

(* ---------------------------------------------------------- ideal coverage *)
(* a field or kind is covered iff it lies inside a hashed object; a stored     *)
(* hash by its own recomputation; sign components by the signature             *)
IdealRejects(c) ==
  CASE c.mut = "field" /\ c.role \in {"field"} -> c.scope # ""
    [] c.mut = "field" /\ c.role = "hash" -> TRUE
    [] c.mut = "field" -> TRUE                    \* sig, signer, node, signed_at
    [] c.mut = "kind" -> c.scope # ""             \* Hash(kind, fields)
    [] c.mut = "twin" -> TRUE
    [] OTHER -> TRUE                              \* netid, signs-*: the operation hash covers the signs in order

(* ------------------------------------------- what the code's checks cover *)
(* hashed objects whose IsValid never compares the stored hash with a recomputed *)
(* one: none in this tree (the pinned tree: empty-proposal-init-ballot-fact and   *)
(* manifest - repaired, fixes/C28-*.diff)                                          *)
ImplUnchecked == {}
(* fields the hash function of the object leaves out *)
ImplUncovered(scope) ==
  IF scope \in BallotFactKinds THEN {"_hint"}                \* baseBallotFact.hashBytes: point, token, expel facts
  ELSE IF scope = "suffrage-expel-fact" THEN {"reason"}      \* SuffrageExpelFact.hash: token, node, start, end
  ELSE IF scope = "base-state" THEN {"height"}               \* BaseState.generateHash: previous, key, value, operations
  ELSE {}
ImplRejects(c) ==
  CASE c.mut = "field" /\ c.role = "field" -> c.scope # "" /\ c.scope \notin ImplUnchecked /\ c.rel \notin ImplUncovered(c.scope)
    [] c.mut = "field" /\ c.role = "hash" -> c.scope \notin ImplUnchecked \/ c.outer
    [] c.mut = "field" -> TRUE
    [] c.mut = "kind" -> /\ c.scope \in InitFamily =>
                               \/ c.scope = "empty-proposal-init-ballot-fact"       \* its hash covers r
                               \/ c.to \notin {"init-ballot-fact", "suffrage-confirm-ballot-fact"}
                               \/ c.to = "suffrage-confirm-ballot-fact" /\ ~c.outer    \* "empty expel facts"
                         /\ c.scope \in AcceptFamily => c.to \notin AcceptFamily
    [] c.mut = "twin" -> c.scope = "empty-proposal-init-ballot-fact" \/ c.to = "empty-proposal-init-ballot-fact"
    [] OTHER -> TRUE

(* ------------------------------------------------------ validation history *)
(* The catalogue above treats Valid(object, network id) as a function that is  *)
(* evaluated once per mutated object. A node validates with ONE long-lived      *)
(* process, and that process may carry state from one validation to the next    *)
(* (this tree: base.DecodeAddress / DecodePublickey remember every decoded      *)
(* string and its error in the package-wide objcache; a remembered "this sign   *)
(* was verified" is the obvious next one). The statement leaves no room for     *)
(* that state to show: the verdict on an object under a network id must not     *)
(* depend on what was validated before.                                          *)
(* A history is a sequence of validations by one process, each asking for the   *)
(* genuine object G under its own network id or for the mutated one M of a      *)
(* catalogue case (M = G under the other network id for the netid case), on a   *)
(* freshly decoded copy or on the instance decoded earlier from the same bytes. *)
(* The validator is a parameter: what it remembers (nothing; accepted requests; *)
(* rejected requests; both; "early" = remembered before the check was made),    *)
(* under which key (a set of components of the request) and where (process-wide *)
(* or inside the decoded instance). TLC explores every validator against every  *)
(* class of catalogue case and shows                                             *)
(*   HistorySound      a verdict deviates from the isolated one only if the key  *)
(*                     lacks the component the case changes (or the memo is      *)
(*                     written before the check),                                *)
(*   RepoIndependent   the validators of this tree (no memo of verdicts; decode  *)
(*                     memo keyed on the whole string) are history independent,  *)
(*   FamilySharp       (ASSUME) whatever any history of MaxHist validations      *)
(*                     exposes, a history of the replayed family exposes too.    *)
(* The histories of the reference validator are emitted (step) and replayed by   *)
(* harness/internal/c28 for EVERY catalogue case in ONE process: per step a      *)
(* fresh decode (or the earlier instance) + IsValid(network id); the genuine     *)
(* object must pass at every position, the mutated one must get its isolated     *)
(* verdict at every position.                                                    *)
CONSTANTS MaxHist,      \* validations per history
          Repeat        \* may a history ask twice in a row for the same thing (FALSE: G and M alternate)

AllComp == {"fact", "kind", "sig", "signer", "node", "signed_at", "signs", "netid"}
(* the component of a request in which the mutated object of a case differs from the genuine one *)
CompOf(c) ==
  CASE c.mut = "netid" -> "netid"
    [] c.mut = "kind" -> "kind"
    [] c.mut \in {"signs-drop-all", "signs-drop-one", "signs-dup", "signs-swap"} -> "signs"
    [] c.mut = "field" /\ c.role \in {"field", "hash"} -> "fact"
    [] c.mut = "field" -> c.role                 \* sig, signer, node, signed_at
    [] OTHER -> "none"                           \* twin: two hashes are compared, nothing is validated
(* class of a case as far as histories go: the changed component and the isolated verdict on M *)
HistClass(c) == [comp |-> CompOf(c), rej |-> ImplRejects(c)]
HistClasses == {HistClass(c) : c \in {x \in Cases : x.mut # "twin"}}

Req == [r : {"G", "M"}, copy : {"fresh", "same"}]
(* the bytes a request is decoded from: the netid case validates the genuine bytes under another id *)
Bytes(cl, r) == IF r = "G" \/ cl.comp = "netid" THEN "g" ELSE "m"
Feasible(cl, h) == \A i \in 1..Len(h) : h[i].copy = "same" => \E j \in 1..(i - 1) : Bytes(cl, h[j].r) = Bytes(cl, h[i].r)
Alternates(h) == \A i \in 1..(Len(h) - 1) : h[i].r # h[i + 1].r
AllHist(cl) == {h \in [1..MaxHist -> Req] : Feasible(cl, h)}
(* the replayed family; both conditions are closed under prefixes and every prefix can be extended *)
InFamily(cl, h) == Feasible(cl, h) /\ (Repeat \/ Alternates(h))
Family(cl) == {h \in [1..MaxHist -> Req] : InFamily(cl, h)}

(* isolated verdict (TRUE = accepted): what the first validation of a fresh process answers *)
Iso(cl, r) == r = "G" \/ ~cl.rej

KeyChoices == {AllComp} \cup {AllComp \ {x} : x \in AllComp}
Validators == {[kind |-> "none", key |-> AllComp, scope |-> "process"]}
              \cup [kind : {"pos", "neg", "both", "early"}, key : KeyChoices, scope : {"process", "instance"}]
(* the validators of this tree: signatures and hashes are recomputed at every call; decoded address and key *)
(* strings are remembered (value or error) under the whole string                                            *)
RepoValidator(v) == v.kind = "none" \/ (v.kind = "both" /\ v.key = AllComp /\ v.scope = "process")

S0 == [memo |-> {}, inst |-> [b \in {"g", "m"} |-> 0], n |-> 0, ok |-> TRUE]
(* one validation by validator v in state st *)
StepV(v, cl, st, q) ==
  LET b   == Bytes(cl, q.r)
      id  == IF q.copy = "same" THEN st.inst[b] ELSE st.n + 1
      k   == [c |-> {<<x, IF q.r = "M" /\ x = cl.comp THEN "m" ELSE "g">> : x \in v.key},
              i |-> IF v.scope = "instance" THEN id ELSE 0]
      ok  == IF v.kind \in {"pos", "both", "early"} /\ <<k, TRUE>> \in st.memo THEN TRUE
             ELSE IF v.kind \in {"neg", "both"} /\ <<k, FALSE>> \in st.memo THEN FALSE
             ELSE Iso(cl, q.r)
      add == CASE v.kind = "pos" -> IF ok THEN {<<k, TRUE>>} ELSE {}
               [] v.kind = "neg" -> IF ok THEN {} ELSE {<<k, FALSE>>}
               [] v.kind = "both" -> {<<k, ok>>}
               [] v.kind = "early" -> {<<k, TRUE>>}
               [] OTHER -> {}
  IN [memo |-> st.memo \cup add, inst |-> [st.inst EXCEPT ![b] = id],
      n |-> IF q.copy = "same" THEN st.n ELSE st.n + 1, ok |-> ok]

(* does history h make validator v answer something else than the isolated verdict *)
Exposes(v, cl, h) ==
  LET run[i \in 0..Len(h)] == IF i = 0 THEN S0 ELSE LET s == run[i - 1] IN StepV(v, cl, s, h[i])
  IN \E i \in 1..Len(h) : run[i].ok # Iso(cl, h[i].r)
FamilySharp ==
  \A cl \in HistClasses : \A v \in {x \in Validators : x.key \in {AllComp, AllComp \ {cl.comp}}} :
     (\E h \in AllHist(cl) : Exposes(v, cl, h)) => (\E h \in Family(cl) : Exposes(v, cl, h))
ASSUME FamilySharp

VARIABLES mode,   \* "case": one state per catalogue case; "hist": a validating process
          case, step,
          hc,     \* class of the case the history is about
          val,    \* the validator
          vst,    \* its state
          hist    \* the validations so far: [r, copy, ok]
vars == <<mode, case, step, hc, val, vst, hist>>
Out(c) == ToJson([kind |-> c.kind, mut |-> c.mut, path |-> c.path, role |-> c.role, cls |-> c.cls, scope |-> c.scope,
                  rel |-> c.rel, to |-> c.to, ideal |-> IdealRejects(c), impl |-> ImplRejects(c), comp |-> CompOf(c)])
NoCase == [kind |-> "", mut |-> "history", path |-> <<>>, role |-> "", cls |-> "history", scope |-> "", rel |-> "",
           outer |-> FALSE, to |-> ""]
NoClass == [comp |-> "none", rej |-> TRUE]
InitCase == /\ mode = "case" /\ case \in Cases /\ step = Out(case)
            /\ hc = NoClass /\ val = [kind |-> "none", key |-> AllComp, scope |-> "process"] /\ vst = S0 /\ hist = <<>>
InitHist == /\ mode = "hist" /\ case = NoCase /\ step = ""
            /\ hc \in HistClasses /\ val \in Validators /\ vst = S0 /\ hist = <<>>
Init == InitCase \/ InitHist

ReqOf(e) == [r |-> e.r, copy |-> e.copy]
(* the process validates once more; the histories are the prefixes of the family *)
Validate(q) ==
  /\ mode = "hist"
  /\ Len(hist) < MaxHist
  /\ InFamily(hc, Append([i \in 1..Len(hist) |-> ReqOf(hist[i])], q))
  /\ LET s == StepV(val, hc, vst, q)
         nh == Append(hist, [r |-> q.r, copy |-> q.copy, ok |-> s.ok])
     IN /\ vst' = s
        /\ hist' = nh
        /\ step' = IF Len(nh) = MaxHist /\ val.kind = "none"
                   THEN ToJson([hist |-> nh, comp |-> hc.comp, rej |-> hc.rej]) ELSE ""
  /\ UNCHANGED <<mode, case, hc, val>>
Next == \E q \in Req : Validate(q)
Spec == Init /\ [][Next]_vars

(* the declared coverage is sufficient: under ideal cryptography every case of  *)
(* the catalogue over content (not the weak class) is rejected                  *)
CoverageSufficient == case.cls = "content" => IdealRejects(case)
(* the catalogue is not empty for any kind and covers every content leaf        *)
CatalogueComplete ==
  \A i \in K : \A l \in Schema[i].leaves :
     l.cls = "content" => \E c \in Cases : c.kind = Schema[i].kind /\ c.path = l.p
ASSUME CatalogueComplete
(* candidates: where the transcription of the code admits what the ideal rejects *)
ImplAgrees == mode = "case" => ImplRejects(case) = IdealRejects(case)

(* ---- history properties *)
Deviates == \E i \in 1..Len(hist) : hist[i].ok # Iso(hc, hist[i].r)
KeyedOnTooLittle == val.kind # "none" /\ hc.comp \notin val.key
(* the statement: the verdict on an object does not depend on what was validated before. It holds for *)
(* the validators of this tree, and for every memo whose key covers the whole request                 *)
RepoIndependent == RepoValidator(val) => ~Deviates
HistorySound == Deviates => (KeyedOnTooLittle \/ val.kind = "early")
(* not an invariant of the validator space: SignedObjects_hist_cand.cfg expects a counterexample (a memo *)
(* keyed without one component)                                                                        *)
HistoryIndependent == ~Deviates
(* a memo inside the instance is harmless for every component the bytes carry: only the network id is  *)
(* not part of the instance                                                                            *)
InstanceMemoOnlyNetid == (Deviates /\ val.scope = "instance" /\ val.kind # "early") => hc.comp = "netid"
=============================================================================
