SPECIFICATION Spec
CONSTANTS
  K = 1
  Gap = 2
  ForkAt = 1
  CandHs = {}
  MaxSteps = 4
  Sim = FALSE
VIEW view
INVARIANTS TypeOK HeldIsKnown UpdatedIsLast
PROPERTIES Monotone
CHECK_DEADLOCK FALSE
