SPECIFICATION Spec
CONSTANTS
  AskSet <- AskCore
  MaxAsk = 2
  MaxToggle = 2
  MaxHold = 0
  MaxY = 1
  ExitOut = {"ok", "error", "ignore", "finish"}
  EnterKinds = {"ok", "error", "ignore", "redirect"}
  Redirects = {"SYNCING"}
  InitAllowed = {TRUE, FALSE}
  Sched = FALSE
  Record = FALSE
VIEW view
INVARIANTS TypeOK StoppedEdges StaleRequestNoEffect ToSyncing ReportMatches NotAllowedAtCheck
CHECK_DEADLOCK FALSE
