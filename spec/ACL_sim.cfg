SPECIFICATION Spec
CONSTANTS
  Users = {"u", "v", "w"}
  Scopes = {"a", "b", "c"}
  Perms = {1, 2, 3, 4, 7, 40, 78, 79}
  Required = {2, 3, 41, 79}
  Super = "super"
  Nobody = "nobody"
  Other = "other"
  Walk = TRUE
CHECK_DEADLOCK FALSE
