SPECIFICATION Spec
CONSTANTS
  TypeNames = {"ta", "tb"}
  Vers <- VersQuick
  MaxOps = 3
  EmitAll = FALSE
INVARIANTS TypeOK TableIsHighest RepliesFromTable
CHECK_DEADLOCK FALSE
