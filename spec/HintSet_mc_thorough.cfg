SPECIFICATION Spec
CONSTANTS
  TypeNames = {"ta", "tb"}
  Vers <- VersTiny
  MaxOps = 3
  EmitAll = FALSE
INVARIANTS TypeOK TableIsHighest RepliesFromTable
CHECK_DEADLOCK FALSE
