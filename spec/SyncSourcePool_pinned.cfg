SPECIFICATION Spec
CONSTANTS
  Sources <- Src4
  MaxFixed = 2
  MaxAdd = 2
  MaxN = 3
  Impl = "pinned"
INVARIANTS TypeOK NoBad Disjoint DistinctFixed LenIsSum
PROPERTIES ReportFrame
CHECK_DEADLOCK FALSE
