---------------------------- MODULE BlockMapChain ----------------------------
(* C14 - block-map chain validation in batches.                                *)
(*                                                                            *)
(* Models base.BatchIsValidMaps / base.IsValidMaps (/repo/base/block.go) on    *)
(* top of util.BatchWork (/repo/util/worker.go).                               *)
(*                                                                            *)
(* Hashes are ideal: a block map is [h, id, prev] - own height, own manifest   *)
(* hash, the hash its manifest points to. The environment answers request i    *)
(* (height prevheight+i) according to a scenario: the valid chain, one wrong   *)
(* `previous`, one altered hash, a map of another height, two answers swapped,  *)
(* a fetch error.                                                              *)
(*                                                                            *)
(* Abstract level (the statement): ChainOK - every height of (prev, to] was    *)
(* answered by exactly one map of that height and every map points to the hash *)
(* of the map one below (the given previous map for the first, nothing at      *)
(* genesis). It is a function of the answers only: batch limit and arrival     *)
(* order do not occur in it.                                                    *)
(*                                                                            *)
(* Implementation level: one action per step of the code - preparation of a    *)
(* batch (Pref: lastprev := newprev, fresh `maps` array sized by (last+1) %      *)
(* limit), arrival of one answer under validateLock (Arrive: place by the map's *)
(* own height, compare with the neighbours that are already there, promote the *)
(* batch's last map to newprev, callback), end of batch. Arrivals inside a      *)
(* batch happen in every order. Variants:                                       *)
(*    "pinned"  the tree as pinned                                              *)
(*    "fixed"   fixes/C14-*.diff: an answer whose height is not the requested  *)
(*              one is rejected                                                 *)
(* Binding A: every terminal state (case + arrival order + demanded verdict +  *)
(* the transcription's prediction) is replayed into the real                    *)
(* base.BatchIsValidMaps with the arrival order forced (harness/internal/c14).  *)
EXTENDS Integers, FiniteSets, Sequences, TLC, Json

CONSTANTS Lens,        \* set of chain lengths n = to - prevheight
          Limits,      \* set of batch limits
          PrevKinds,   \* subset of {"nil", "map"}: validation starts at genesis / after a given map
          PrevH,       \* height of the given previous map when PrevKind = "map"
          ScenKinds,   \* subset of {"valid","wrongprev","altered","wrongheight","swap","error"}
          ScenPos,     \* positions (request indices; 0 and n+1 = just outside) a scenario may name
          Variants,    \* subset of {"pinned","fixed"}
          Interleave,  \* TRUE: answers of a batch arrive in any order; FALSE: a random-free ascending order
          Emit         \* "done": terminal states carry the JSON case in `step`; "init": initial states
                       \* do (case enumeration only, with NEXT Halt); "none"

VARIABLES n, limit, pk, scen, variant,     \* the case
          pc,        \* "pref" | "work" | "done"
          bstart,    \* BatchWork: index (0-based) of the first request of the batch
          maps,      \* the batch's array (sequence; NoMap = nil slot)
          lastprev,  \* previous map the batch is validated against
          newprev,   \* candidate for the next batch's lastprev
          pending,   \* requests of the batch not yet answered
          order,     \* history: requests in arrival order (hidden by VIEW in exhaustive runs)
          called,    \* history: requests whose map was handed to callback
          ret,       \* "running" | "ok" | "err" | "panic"
          step
vars == <<n, limit, pk, scen, variant, pc, bstart, maps, lastprev, newprev, pending, order, called, ret, step>>
view == <<n, limit, pk, scen, variant, pc, bstart, maps, lastprev, newprev, pending, ret>>

NoMap == [h |-> -100, id |-> -100, prev |-> -100]
Err == [h |-> -101, id |-> -101, prev |-> -101]
Bogus == -99
None == -98                         \* genesis manifest: no previous
Min2(a, b) == IF a < b THEN a ELSE b
MinOf(S) == CHOOSE x \in S : \A y \in S : x <= y

prevheight == IF pk = "nil" THEN -1 ELSE PrevH
H(i) == prevheight + i               \* height asked by request i (1-based), H(0) = prevheight
Heights == {H(i) : i \in 1..n}
Valid(j) == [h |-> H(j), id |-> H(j), prev |-> IF H(j) = 0 THEN None ELSE H(j) - 1]
PrevMap == IF pk = "nil" THEN NoMap ELSE Valid(0)

(* the answer to request i *)
Fetch(i) ==
  CASE scen.kind = "wrongprev" /\ scen.i = i -> [Valid(i) EXCEPT !.prev = Bogus]
    [] scen.kind = "altered" /\ scen.i = i -> [Valid(i) EXCEPT !.id = 1000 + H(i)]
    [] scen.kind = "wrongheight" /\ scen.i = i -> Valid(scen.j)
    [] scen.kind = "swap" /\ scen.i = i -> Valid(scen.j)
    [] scen.kind = "swap" /\ scen.j = i -> Valid(scen.i)
    [] scen.kind = "error" /\ scen.i = i -> Err
    [] OTHER -> Valid(i)

-----------------------------------------------------------------------------
(* the statement *)
Answers == {Fetch(i) : i \in 1..n}
ChainOK ==
  LET A == Answers                                   \* evaluated once
      Slot(h) == {m \in A : m.h = h}
      Below(h) == IF h - 1 = prevheight THEN (IF pk = "nil" THEN {} ELSE {PrevMap}) ELSE Slot(h - 1)
  IN /\ Err \notin A
     /\ \A h \in Heights :
          LET S == Slot(h) IN
          /\ Cardinality(S) = 1
          /\ \A m \in S : h = 0 \/ (\E b \in Below(h) : m.prev = b.id)
WellFormed == \A i \in 1..n : Fetch(i) # Err => Fetch(i).h = H(i)   \* every answer has the requested height

-----------------------------------------------------------------------------
Scens(len) ==
  LET P == ScenPos \cap (1..len)
      Q == ScenPos \cap (0..(len + 1))
  IN [kind : {"valid"} \cap ScenKinds, i : {0}, j : {0}]
     \cup [kind : {"wrongprev", "altered", "error"} \cap ScenKinds, i : P, j : {0}]
     \cup {s \in [kind : {"wrongheight"} \cap ScenKinds, i : P, j : Q] : s.i # s.j}
     \cup {s \in [kind : {"swap"} \cap ScenKinds, i : P, j : P] : s.i < s.j}

bend == Min2(bstart + limit, n)      \* BatchWork: end (exclusive, 0-based)

Out == ToJson([n |-> n, limit |-> limit, pk |-> pk, prevh |-> prevheight, scen |-> scen, variant |-> variant,
               order |-> order,
               dev |-> {[i |-> i, m |-> Fetch(i)] : i \in ({scen.i, scen.j} \cap (1..n))},  \* all other answers are Valid(i)
               want |-> [chainok |-> ChainOK, wellformed |-> WellFormed],
               impl |-> [ret |-> ret, called |-> called]])

Init == /\ n \in Lens /\ limit \in Limits /\ pk \in PrevKinds /\ variant \in Variants
        /\ scen \in Scens(n)
        /\ pc = "pref" /\ bstart = 0 /\ maps = <<>> /\ lastprev = NoMap /\ newprev = PrevMap
        /\ pending = {} /\ order = <<>> /\ called = <<>> /\ ret = "running"
        /\ step = IF Emit = "init" THEN Out ELSE ""

Frame == /\ UNCHANGED <<n, limit, pk, scen, variant>>
         /\ step' = IF Emit = "done" /\ pc' = "done" THEN Out' ELSE ""

(* BatchWork's preparation step: lastprev = newprev; maps = make(r == 0 ? limit : r), r = (last+1) % limit *)
Pref ==
  /\ pc = "pref"
  /\ lastprev' = newprev
  /\ LET r == bend % limit
         sz == IF r = 0 THEN limit ELSE r
     IN maps' = [k \in 1..sz |-> NoMap]
  /\ pending' = (bstart + 1)..bend
  /\ pc' = "work"
  /\ UNCHANGED <<bstart, newprev, order, called, ret>>
  /\ Frame

(* IsValidMaps(m, maps, lastprev) followed by the promotion of the batch's last map *)
Arrive(i) ==
  /\ pc = "work" /\ i \in pending
  /\ order' = Append(order, i)
  /\ LET m == Fetch(i)
         ph == IF lastprev = NoMap THEN -1 ELSE lastprev.h
         idx == m.h - ph - 1                    \* 0-based index into maps
         lastheight == prevheight + bend         \* prevheight + last + 1
         fail(r) == /\ ret' = r /\ pc' = "done"
                    /\ UNCHANGED <<maps, newprev, pending, called>>
     IN IF m = Err THEN fail("err")
        ELSE IF variant = "fixed" /\ m.h # H(i) THEN fail("err")
        ELSE IF idx < 0 \/ idx >= Len(maps) THEN fail("err")        \* "wrong index"
        ELSE LET maps2 == [maps EXCEPT ![idx + 1] = m]
                 nilprev == idx = 0 /\ m.h # 0 /\ lastprev = NoMap   \* previous.Manifest() on nil
                 leftOK == IF idx = 0
                             THEN m.h = 0 \/ m.prev = lastprev.id
                             ELSE maps2[idx] = NoMap \/ m.prev = maps2[idx].id
                 rightOK == \/ idx + 2 > Len(maps)
                            \/ maps2[idx + 2] = NoMap
                            \/ maps2[idx + 2].prev = m.id
             IN IF nilprev THEN fail("panic")
                ELSE IF leftOK /\ rightOK
                  THEN /\ maps' = maps2
                       /\ newprev' = IF m.h = lastheight THEN m ELSE newprev
                       /\ called' = Append(called, i)
                       /\ pending' = pending \ {i}
                       /\ UNCHANGED <<ret, pc>>
                  ELSE fail("err")
  /\ UNCHANGED <<bstart, lastprev>>
  /\ Frame

EndBatch ==
  /\ pc = "work" /\ pending = {}
  /\ IF bend = n THEN pc' = "done" /\ ret' = "ok" /\ bstart' = bstart
                 ELSE pc' = "pref" /\ ret' = ret /\ bstart' = bstart + limit
  /\ UNCHANGED <<maps, lastprev, newprev, pending, order, called>>
  /\ Frame

Runnable == IF pending = {} THEN {} ELSE IF Interleave THEN pending ELSE {MinOf(pending)}

Next == Pref \/ EndBatch \/ \E i \in Runnable : Arrive(i)
Halt == FALSE /\ UNCHANGED vars         \* case enumeration: initial states only

Spec == Init /\ [][Next]_vars /\ WF_vars(Next)

-----------------------------------------------------------------------------
TypeOK == /\ pc \in {"pref", "work", "done"} /\ ret \in {"running", "ok", "err", "panic"}
          /\ (pc = "done") = (ret # "running")
          /\ pending \subseteq 1..n

(* C14, the statement: success exactly when the chain is linked *)
AcceptOnlyLinked == ret = "ok" => ChainOK
ValidAccepted == (pc = "done" /\ ChainOK /\ WellFormed) => ret = "ok"
NoPanic == ret # "panic"
(* stronger reading (model only): also a linked chain whose answers came back under the
   wrong requests is accepted *)
ExactlyWhen == pc = "done" => ((ret = "ok") = ChainOK)

(* structure *)
FilledWhenAccepted == (pc = "done" /\ ret = "ok" /\ variant = "fixed") => \A k \in 1..Len(maps) : maps[k] # NoMap
CalledAreArrived == Len(called) <= Len(order)
Terminates == <>(pc = "done")
=============================================================================
