---------------------------- MODULE HandoverLock ----------------------------
(* HANDOVER - lock order of HandoverXBroker.successcount (util.Locked =        *)
(* sync.RWMutex + value), /repo/isaac/states/handover_x.go.                    *)
(*                                                                            *)
(* Thread H is the consensus handler of X in sendVoteproof(INIT voteproof):   *)
(*   isReadyToFinish: successcount.Get(f)  -> RLock                           *)
(*       f (readyEnd >= 1): isReady() -> successcount.Value() -> RLock again  *)
(*   sendVoteproofErr: successcount.Get   -> RLock                            *)
(* Thread R is the network handler of X in Receive: successcount.Set -> Lock. *)
(* sync.RWMutex: a Lock() that waits blocks every later RLock() (writer       *)
(* preference); Lock() waits until no read lock is held.                      *)
(*                                                                            *)
(* Nested = TRUE is the code; Nested = FALSE the repaired order (f uses the   *)
(* value Get passes in). The invariant NotStuck fails in the state in which H      *)
(* waits for its second RLock behind R's waiting Lock, which waits for H's    *)
(* first RLock. harness/internal/handover/stress.go looks for exactly this    *)
(* pair of blocked goroutines on the real broker.                             *)
EXTENDS Integers

CONSTANTS Nested, Rounds

VARIABLES rd,   \* read locks held
          wr,   \* "none" | "waiting" | "held"
          hpc,  \* H: "get" | "nested" | "unnest" | "unget" | "err" | "unerr" | "done"
          rpc,  \* R: "lock" | "wait" | "unlock" | "done"
          hn, rn

vars == <<rd, wr, hpc, rpc, hn, rn>>

Init == rd = 0 /\ wr = "none" /\ hpc = "get" /\ rpc = "lock" /\ hn = 0 /\ rn = 0

RLock   == wr = "none" /\ rd' = rd + 1 /\ UNCHANGED wr
RUnlock == rd' = rd - 1 /\ UNCHANGED wr

H == /\ CASE hpc = "get"    -> RLock /\ hpc' = IF Nested THEN "nested" ELSE "unget"
          [] hpc = "nested" -> RLock /\ hpc' = "unnest"
          [] hpc = "unnest" -> RUnlock /\ hpc' = "unget"
          [] hpc = "unget"  -> RUnlock /\ hpc' = "err"
          [] hpc = "err"    -> RLock /\ hpc' = "unerr"
          [] hpc = "unerr"  -> RUnlock /\ hpc' = IF hn + 1 < Rounds THEN "get" ELSE "done"
          [] OTHER -> FALSE
     /\ hn' = IF hpc = "unerr" THEN hn + 1 ELSE hn
     /\ UNCHANGED <<rpc, rn>>

R == /\ CASE rpc = "lock"   -> wr = "none" /\ wr' = "waiting" /\ rpc' = "wait" /\ UNCHANGED rd
          [] rpc = "wait"   -> rd = 0 /\ wr' = "held" /\ rpc' = "unlock" /\ UNCHANGED rd
          [] rpc = "unlock" -> wr' = "none" /\ rpc' = (IF rn + 1 < Rounds THEN "lock" ELSE "done") /\ UNCHANGED rd
          [] OTHER -> FALSE
     /\ rn' = IF rpc = "unlock" THEN rn + 1 ELSE rn
     /\ UNCHANGED <<hpc, hn>>

Done == hpc = "done" /\ rpc = "done" /\ UNCHANGED vars

Next == H \/ R \/ Done
Spec == Init /\ [][Next]_vars

TypeOK == rd \in 0..2 /\ wr \in {"none", "waiting", "held"}
Exclusive == wr = "held" => rd = 0
(* deadlock freedom as an invariant (so that TLC reports it as a violation) *)
NotStuck == (hpc # "done" \/ rpc # "done") => ENABLED (H \/ R)
=============================================================================
