SPECIFICATION Spec
CONSTANTS
  Writers = {"w1", "w2", "w3"}
  Heights = {1, 2, 3}
  Shapes = {"full", "bare"}
  MaxCrash = 1
  Concurrent = FALSE
  Uploads = TRUE
  CheckAFixed = TRUE
  SaveRmForeign = FALSE
  SameHeight = FALSE
VIEW view
CHECK_DEADLOCK FALSE
INVARIANTS TypeOK CrashAtomic ReadMatchesMap FirstSurvives SaveComplete PresentedComplete
PROPERTIES FirstFilesSurvive CleanupSafe CleanupLeavesTemp
