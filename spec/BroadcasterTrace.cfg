SPECIFICATION TraceSpec
CONSTANTS
  Deliv = {"d1", "d2", "d3", "d4"}
  Handler = {"h1", "h2"}
  SP = {"i", "a", "s"}
  Fact = {"A", "B"}
  MaxAgain = 1000
  SendKept = TRUE
  Record = FALSE
CONSTRAINT HighWater
INVARIANTS TypeOK
POSTCONDITION Accepted
CHECK_DEADLOCK FALSE
