SPECIFICATION Spec
CONSTANTS
  Ids = {"a", "b"}
  MaxInst = 3
  MaxTicks = 2
  MaxStops = 2
  MaxClock = 1
  MaxRm = 1
  Interval = 1
  RegOrder = "locked"
  RemoveBy = "instance"
  Results = {"keep", "stop"}
  KeepHist = "off"
VIEW view
INVARIANTS TypeOK RemoveOnlySelf NotEarly NoStartIfStoppedBeforeCheck RegisteredAlive
CHECK_DEADLOCK FALSE
