---------------------------- MODULE BlockCommit ----------------------------
(* C21: block commit is atomic across crashes.                               *)
(*                                                                          *)
(* Implementation level: the storage writes that committing one block X     *)
(* (height H) and merging it into the permanent store consist of, in the    *)
(* order and with the batch arithmetic of the code:                         *)
(*   block_write.go   LeveldbBlockWrite: states / in-state operations /      *)
(*                    known operations go into a batch that is written       *)
(*                    whenever it holds BWLimit (128) keys (x-flush);        *)
(*                    SetBlockMap = Put (x-bm); SetSuffrageProof = two Puts  *)
(*                    (x-proof, x-proofh); Write = the rest of the batch     *)
(*                    (x-final)                                              *)
(*   temp_leveldb.go  TempLeveldb.Merge: Put of the merged marker (x-marker) *)
(*   ... the next block Y is written the same way (the newest temp is never  *)
(*       merged, so X is merged only when Y exists) ...                      *)
(*   perm_leveldb.go  mergeTempDatabaseFromLeveldb: every key of the temp,   *)
(*                    in descending key order, in batches of PermLimit (333)  *)
(*                    handed to                                              *)
(*                    a worker pool: the batches are written IN PARALLEL     *)
(*                    (any subset may have landed when the process stops);   *)
(*                    first the older temp P (one batch, perm-prev)          *)
(*   center.go        cleanRemoved: one delete batch per merged temp         *)
(* A storage Put / Batch is atomic and durable (goleveldb is trusted).       *)
(* Crash may follow any write; Recover is what a start does:                 *)
(*   LeveldbPermanent.loadLastBlockMap (newest block map key), Center.load / *)
(*   loadTemps (consecutive temps above the permanent last that have a block *)
(*   map and the merged marker; everything else is removed).                 *)
(*                                                                          *)
(* The property, from the statement: after Recover block X is either fully  *)
(* visible (its map, every state, operation record and proof) or not        *)
(* visible at all with the last height below it.                            *)
(*                                                                          *)
(* Binding A: every distinct crash configuration (number of sequential      *)
(* writes landed, set of X's permanent batches landed, number of removals)  *)
(* is forced on the real code through the verif write hook of               *)
(* storage/leveldb (harness/internal/c21); after the restart every read is  *)
(* compared with `Reads` of Database.tla for the chain up to the height the *)
(* database reports. Binding B: the write log of a fault-free run is        *)
(* validated against this protocol (BlockCommitTrace.tla).                   *)
EXTENDS Integers, Sequences, FiniteSets, TLC, Json

CONSTANTS NKeysX,        \* keys of X that go through the block write batch (states + in-state ops + known ops)
          SufX,          \* X changes the suffrage (two more Puts, two more keys)
          NKeysY,        \* the same for the next block Y (small)
          NKeysP,        \* all keys of the temp of the previous block P (merged first, one batch)
          BWLimit,       \* 128
          PermLimit,     \* 333
          BlockMapLast,  \* FALSE: the code (parallel batches); TRUE: the batch with the block map is written after the others
          Keys, MaxLen   \* for Database!Reads

H == 2                  \* heights: 0 in the permanent store, P = 1, X = 2, Y = 3

(* the chain of the scenario, as Database.tla sees it *)
Chain == << [st |-> {"a", "SUF", "POL"}, g |-> 1],
            [st |-> {"b"}, g |-> 1],
            [st |-> IF SufX THEN {"a", "b", "SUF", "POL"} ELSE {"a", "b", "POL"}, g |-> 1],
            [st |-> {"a"}, g |-> 1] >>

DB(c) == INSTANCE Database WITH chain <- c, tempsFrom <- 1, gens <- [h \in 0..(MaxLen - 1) |-> 1], nwrites <- 0,
                                pool <- {}, pending <- FALSE, nsteps <- 0, lastact <- <<>>, path <- <<>>, step <- "",
                                MaxWrites <- 0, MaxSteps <- 0, MaxPool <- 0, KeepPath <- FALSE, EmitStep <- FALSE,
                                WithReopen <- FALSE, WithCenter <- TRUE, Repaired <- TRUE,
                                \* (Database.tla v2: block size classes and memory - not used by Reads)
                                Contents <- {}, SizeClasses <- {"s"}, MaxBig <- 0, WriteLimit <- BWLimit,
                                MergeLimit <- PermLimit, CacheChoices <- {FALSE}, ReadOptional <- FALSE, Purge <- TRUE,
                                nbig <- 0, fills <- {}, tcache <- {}, pcache <- <<>>, eff <- <<>>
ReadsOf(len) == DB(SubSeq(Chain, 1, len))!Reads

-----------------------------------------------------------------------------
(* batch arithmetic *)
Flushes(n) == n \div BWLimit
Rem(n) == n % BWLimit
Ceil(a, b) == (a + b - 1) \div b

Rep(s, n) == [i \in 1..n |-> s]
BlockSeq(tag, n, suf) ==
  Rep(tag \o "-flush", Flushes(n)) \o <<tag \o "-bm">> \o
  (IF suf THEN <<tag \o "-proof", tag \o "-proofh">> ELSE <<>>) \o
  (IF Rem(n) > 0 THEN <<tag \o "-final">> ELSE <<>>) \o <<tag \o "-marker">>

(* the sequential writes: X, Y, then the merge of the previous temp P *)
Prog == BlockSeq("x", NKeysX, SufX) \o BlockSeq("y", NKeysY, FALSE) \o <<"perm-prev">>
NSeq == Len(Prog)
IndexOf(w) == CHOOSE i \in 1..NSeq : Prog[i] = w

PermKeysX == NKeysX + 1 + (IF SufX THEN 2 ELSE 0) + 1      \* + block map, proof keys, merged marker
NP == Ceil(PermKeysX, PermLimit)
Batches == 1..NP
BatchSize(i) == IF i < NP THEN PermLimit ELSE PermKeysX - (NP - 1) * PermLimit
(* The temp is iterated in DESCENDING key order (Iter(nil, ..., false)): the first batch handed to the worker  *)
(* pool holds the merged marker, the proof keys, the block map key and the highest operation / state keys; the *)
(* last, short batch holds the lowest state keys. Batches are numbered in the order they are issued.           *)
BMBatch == 1

VARIABLES seqdone,   \* how many of Prog have landed
          perm,      \* which of X's permanent batches have landed
          removed,   \* 0..2 delete batches of cleanRemoved (P's temp, then X's temp)
          phase,     \* "run" | "crashed" | "recovered"
          step
vars == <<seqdone, perm, removed, phase, step>>
view == <<seqdone, perm, removed, phase>>

Init == seqdone = 0 /\ perm = {} /\ removed = 0 /\ phase = "run" /\ step = ""

SeqWrite == /\ phase = "run" /\ seqdone < NSeq
            /\ seqdone' = seqdone + 1
            /\ UNCHANGED <<perm, removed, phase, step>>

PermBatch(i) == /\ phase = "run" /\ seqdone = NSeq /\ i \notin perm
                /\ BlockMapLast /\ i = BMBatch => perm = Batches \ {i}
                /\ perm' = perm \cup {i}
                /\ UNCHANGED <<seqdone, removed, phase, step>>

RemoveTemp == /\ phase = "run" /\ perm = Batches /\ removed < 2
              /\ removed' = removed + 1
              /\ UNCHANGED <<seqdone, perm, phase, step>>

Crash == /\ phase = "run"
         /\ phase' = "crashed"
         /\ UNCHANGED <<seqdone, perm, removed, step>>

-----------------------------------------------------------------------------
(* what a start finds *)
XComplete == seqdone >= IndexOf("x-marker") /\ removed < 2     \* block map and marker there, temp not deleted
YComplete == seqdone >= IndexOf("y-marker")
PermHasX == BMBatch \in perm                                     \* the permanent store's newest block map is X's
PermHasP == seqdone = NSeq

(* loadTemps starts above the permanent last and takes consecutive complete temps *)
Last == IF PermHasX THEN (IF YComplete THEN H + 1 ELSE H)
        ELSE IF PermHasP THEN (IF XComplete THEN (IF YComplete THEN H + 1 ELSE H) ELSE H - 1)
        ELSE \* P is still a temp (its marker was written before the scenario started)
             IF XComplete THEN (IF YComplete THEN H + 1 ELSE H) ELSE H - 1

(* which of X's data a reader gets: through the temp everything, else what landed in the permanent store *)
XThroughTemp == ~PermHasX /\ XComplete
XReadable == IF XThroughTemp THEN "all"
             ELSE IF PermHasX THEN (IF perm = Batches THEN "all" ELSE "partial")
             ELSE "none"

Recover == /\ phase = "crashed"
           /\ phase' = "recovered"
           /\ step' = ToJson([seq |-> seqdone, perm |-> perm, rm |-> removed, last |-> Last, x |-> XReadable,
                              ok |-> (Last < H /\ XReadable = "none") \/ (Last >= H /\ XReadable = "all"),
                              nseq |-> NSeq, np |-> NP, bmbatch |-> BMBatch, seqnames |-> Prog,
                              sizes |-> [i \in Batches |-> BatchSize(i)],
                              reads |-> [len \in 1..Len(Chain) |-> ReadsOf(len)]])
           /\ UNCHANGED <<seqdone, perm, removed>>

Next == SeqWrite \/ (\E i \in Batches : PermBatch(i)) \/ RemoveTemp \/ Crash \/ Recover
Spec == Init /\ [][Next]_vars

-----------------------------------------------------------------------------
TypeOK == seqdone \in 0..NSeq /\ perm \subseteq Batches /\ removed \in 0..2

(* the statement *)
AllOrNothing == phase = "recovered" => \/ Last < H /\ XReadable = "none"
                                       \/ Last >= H /\ XReadable = "all"

(* a completed commit stays: once the marker of X is written X is visible after any crash *)
Durable == phase = "recovered" /\ seqdone >= IndexOf("x-marker") => Last >= H
=============================================================================
