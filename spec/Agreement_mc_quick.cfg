SPECIFICATION Spec
CONSTANTS
  N = 4
  T10 = 670
  Mode = "agree"
  Fams = {"all", "live", "exact", "short"}
  Muts = {"none", "dup", "unknown-voter", "wrongkey", "badsig", "claim-missing", "expel-unknown-target", "expel-unknown-signer", "expel-wrongkey-signer", "expired", "dup-expel"}
INVARIANTS AgreePlainPlain AgreeExpelWithinF ClosedMatchesExplicit OrbitRepresents OrbitOverlapMinimal
CHECK_DEADLOCK FALSE
