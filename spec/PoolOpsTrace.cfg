SPECIFICATION TraceSpec
CONSTANTS
  Fact = {"A", "B", "C", "D"}
  Signer = {1, 2, 3}
  MaxAdd = 100
  MaxReSet = 100
  MaxCalls = 100
  Limits = {1}
  MaxRej = 0
  Impl = "fixed"
  Sym = FALSE
  NCallers = 4
  Removal = "skip"
  MaxTwice = 0
  SetRace = "unlocked"
  Pick = 0
  Emit = "none"
CONSTRAINT HighWater
POSTCONDITION Accepted
CHECK_DEADLOCK FALSE
