SPECIFICATION Spec
CONSTANTS
  Readers = {"r1"}
  MaxMerges = 2
  Purge = FALSE
  TempCaches = {TRUE, FALSE}
  WithReopen = TRUE
VIEW view
INVARIANTS SequentialFresh
CHECK_DEADLOCK FALSE
