SPECIFICATION Spec
CONSTANTS
  Keys = {"a", "b"}
  MaxLen = 10
  MaxWrites = 10
  MaxSteps = 1000
  MaxPool = 0
  KeepPath = FALSE
  EmitStep = TRUE
  WithReopen = TRUE
  WithCenter = FALSE
  Repaired = TRUE
  Contents <- AllContents
  SizeClasses = {"s"}
  MaxBig = 0
  WriteLimit = 128
  MergeLimit = 333
  CacheChoices = {FALSE}
  ReadOptional = FALSE
  Purge = TRUE
CHECK_DEADLOCK FALSE
