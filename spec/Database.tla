------------------------------ MODULE Database ------------------------------
(* The block database of a node: isaac/database/center.go (Center),          *)
(* temp_leveldb.go (one TempLeveldb per not-yet-merged block),                *)
(* perm_leveldb.go / perm_base.go / perm_redis.go (permanent store),          *)
(* block_write.go (LeveldbBlockWrite), pool.go (TempPool, for Reopen).        *)
(*                                                                            *)
(* C19  every read answers the same as a model that simply keeps all          *)
(*      committed blocks (the variable `chain`); merges into the permanent    *)
(*      store are invisible; concurrent readers are monotone.                 *)
(* C20  Reopen (close everything, open again) is a stuttering step of every   *)
(*      read, object and raw bytes.                                           *)
(* C26  the same behaviours, restricted to the permanent store, on the Redis  *)
(*      back-end.                                                             *)
(*                                                                            *)
(* The abstract part (chain, reads R...) is written from the property          *)
(* statements. Next to it stands an implementation-level transcription of the *)
(* two read paths of center.go whose algorithm is not a plain lookup          *)
(* (suffrageProofInTemps, SuffrageProofByBlockHeight); TLC compares them       *)
(* (ImplAgrees...), a difference is a candidate defect which the check then    *)
(* has to meet on the real code before it says anything.                       *)
(*                                                                            *)
(* Binding A: the output variable `step` carries the action, its arguments    *)
(* and the answer of every read after it; behaviours (-simulate) and the      *)
(* shortest path to every distinct state (exhaustive run, `path`) are         *)
(* replayed on a real Center + LeveldbPermanent + LeveldbBlockWrite over one  *)
(* leveldb storage with real states, signed block maps and suffrage proofs.   *)
(* Binding B (readers): DatabaseTrace.tla.                                    *)
EXTENDS Integers, Sequences, FiniteSets, TLC, Json

CONSTANTS Keys,        \* ordinary state keys, e.g. {"a", "b"}
          MaxLen,      \* longest chain (number of blocks)
          MaxWrites,   \* total number of WriteBlock actions (removed blocks are re-written)
          MaxSteps,    \* length of a behaviour
          MaxPool,     \* number of pool items (C20)
          KeepPath,    \* TRUE: `step` carries the whole path (exhaustive runs)
          EmitStep,    \* FALSE: `step` is not computed (runs that only check the model)
          WithReopen,  \* TRUE: the Reopen action is enabled (C20, C26)
          WithCenter,  \* FALSE: only the permanent store is driven (C26): no RemoveBlocks
          Repaired     \* FALSE: the two searching reads are transcribed as the pinned tree has them;
                       \* TRUE: as fixes/C19-*.diff leaves them

SUF == "SUF"     \* the suffrage state (isaac.SuffrageStateKey); a block that writes it carries a suffrage proof
POL == "POL"     \* the network policy state (isaac.NetworkPolicyStateKey)
AllKeys == Keys \cup {SUF, POL}
PoolKinds == {"proposal", "operation", "expel", "ballot"}

VARIABLES chain,      \* sequence of committed blocks [st: SUBSET AllKeys, g: generation]; height of chain[i] is i-1
          tempsFrom,  \* chain[tempsFrom..] are temp databases, chain[1..tempsFrom-1] is in the permanent store
          gens,       \* height -> how many times a block of that height has been written
          nwrites,
          pool,       \* set of <<kind, n>> put into the pool database (C20)
          pending,    \* TRUE: an action has been taken and ReadAll (a read of every kind) comes next
          nsteps,
          lastact,    \* output only
          path,       \* output only
          step        \* output only
avars == <<chain, tempsFrom, gens, nwrites, pool>>
vars == <<chain, tempsFrom, gens, nwrites, pool, pending, nsteps, lastact, path, step>>
view == <<avars, pending>>

Max(S) == CHOOSE x \in S : \A y \in S : y <= x
Last == Len(chain) - 1                      \* last height, -1 when nothing is committed
NTemps == Len(chain) - tempsFrom + 1
PermLast == tempsFrom - 2                    \* last height of the permanent store, -1 when empty

-----------------------------------------------------------------------------
(* What the statement says every read answers: a function of `chain` alone.  *)
(* A found object is <<height, generation>> of the block that holds it,      *)
(* <<>> is "not found".                                                      *)
Ref(i) == IF i = 0 THEN <<>> ELSE <<i - 1, chain[i].g>>
HasKey(i, k) == k \in chain[i].st
NewestWith(k, upto) == LET S == {i \in 1..upto : HasKey(i, k)} IN IF S = {} THEN 0 ELSE Max(S)
SufIdx == {i \in 1..Len(chain) : HasKey(i, SUF)}
SufHeightOf(i) == Cardinality({j \in SufIdx : j < i})     \* suffrage heights count suffrage changes from 0

RState(k) == Ref(NewestWith(k, Len(chain)))
RBlockMap(h) == IF h \in 0..Last THEN Ref(h + 1) ELSE <<>>
RLastBlockMap == Ref(Len(chain))
RSuffrageProof(sh) == LET S == {i \in SufIdx : SufHeightOf(i) = sh}
                      IN IF S = {} THEN <<>> ELSE Ref(CHOOSE i \in S : TRUE)
RProofByBlockHeight(h) == IF h \in 0..Last THEN Ref(NewestWith(SUF, h + 1)) ELSE <<>>
RLastSuffrageProof == Ref(NewestWith(SUF, Len(chain)))
RPolicy == Ref(NewestWith(POL, Len(chain)))
InStateOps == UNION {{<<i - 1, chain[i].g, k>> : k \in chain[i].st} : i \in 1..Len(chain)}
KnownOps == {<<i - 1, chain[i].g>> : i \in 1..Len(chain)}

Reads == [st   |-> [k \in AllKeys |-> RState(k)],
          bm   |-> [i \in 1..(MaxLen + 1) |-> RBlockMap(i - 1)],
          lbm  |-> RLastBlockMap,
          sp   |-> [i \in 1..(MaxLen + 2) |-> RSuffrageProof(i - 1)],
          sph  |-> [i \in 1..(MaxLen + 1) |-> RProofByBlockHeight(i - 1)],
          lsp  |-> RLastSuffrageProof,
          pol  |-> RPolicy,
          iso  |-> InStateOps,
          kno  |-> KnownOps,
          pool |-> pool]

-----------------------------------------------------------------------------
(* Implementation level: how center.go answers the two searching reads from  *)
(* its list of temps (newest first) and the permanent store.                 *)
TempIdx == tempsFrom..Len(chain)
PermIdx == 1..(tempsFrom - 1)

(* LeveldbPermanent.SuffrageProof: the last proof if it has that height, else the key *)
PermSuffrageProof(sh) == LET S == {i \in PermIdx : HasKey(i, SUF) /\ SufHeightOf(i) = sh}
                         IN IF S = {} THEN <<>> ELSE Ref(CHOOSE i \in S : TRUE)
(* LeveldbPermanent.SuffrageProofByBlockHeight(h): nothing above the last block map; the  *)
(* last proof if h is at or above its block; else the newest by-block-height key <= h     *)
PermProofByBlockHeight(h) ==
  IF PermIdx = {} \/ h > PermLast THEN <<>>
  ELSE LET S == {i \in PermIdx : HasKey(i, SUF) /\ i - 1 <= h} IN IF S = {} THEN <<>> ELSE Ref(Max(S))

(* Center.suffrageProofInTemps + SuffrageProof. Pinned tree: the first temp, newest first,  *)
(* that has a suffrage state whose height is NOT GREATER than the one asked for (deviation:  *)
(* a height that does not exist yet is answered with an older proof). Repaired: the temp     *)
(* whose suffrage height IS the one asked for.                                               *)
ImplSuffrageProof(sh) ==
  LET T == {i \in TempIdx : HasKey(i, SUF) /\ IF Repaired THEN SufHeightOf(i) = sh ELSE ~(SufHeightOf(i) > sh)}
  IN IF T # {} THEN Ref(Max(T)) ELSE PermSuffrageProof(sh)

(* Center.SuffrageProofByBlockHeight. Pinned tree: whenever temps exist and none of them     *)
(* answers, the permanent store is asked for `oldest temp - 1` (deviation: also when h is     *)
(* below the temps). Repaired: for h below the temps the permanent store is asked for h.      *)
ImplProofByBlockHeight(h) ==
  IF NTemps > 0
  THEN IF h > Last THEN <<>>
       ELSE LET T == {i \in TempIdx : HasKey(i, SUF) /\ i - 1 <= h}
            IN IF h >= tempsFrom - 1 /\ T # {}          \* findTemp(h) # nil and a temp at or below h has a proof
               THEN Ref(Max(T))
               ELSE IF Repaired /\ h < tempsFrom - 1
                    THEN PermProofByBlockHeight(h)
                    ELSE PermProofByBlockHeight((tempsFrom - 1) - 1)   \* lastheight = oldest temp - 1
  ELSE PermProofByBlockHeight(h)

(* Center.LastSuffrageProofBytes: the height returned next to the bytes is the height of *)
(* the part (temp / permanent store) in which the proof was found                        *)
ImplLastProofLastHeight ==
  LET T == {i \in TempIdx : HasKey(i, SUF)}
  IN IF T # {} THEN Max(T) - 1
     ELSE IF {i \in PermIdx : HasKey(i, SUF)} # {} THEN PermLast ELSE -1

ImplAgreesSuffrageProof == \A sh \in 0..(MaxLen + 1) : ImplSuffrageProof(sh) = RSuffrageProof(sh)
ImplAgreesProofByBlockHeight == \A h \in 0..MaxLen : ImplProofByBlockHeight(h) = RProofByBlockHeight(h)
(* the stronger reading of LastSuffrageProofBytes (reported, never an alarm) *)
ImplLastHeightIsLast == RLastSuffrageProof # <<>> => ImplLastProofLastHeight = Last

-----------------------------------------------------------------------------
(* Every action is followed by ReadAll: the binding performs every read after every step. *)
(* (`step` is computed there, once per step, not once per candidate successor.)           *)
Record(act) == /\ ~pending
               /\ nsteps < MaxSteps
               /\ nsteps' = nsteps + 1
               /\ pending' = TRUE
               /\ lastact' = act
               /\ path' = IF KeepPath THEN Append(path, act) ELSE path
               /\ step' = ""

ReadAll == /\ pending
           /\ pending' = FALSE
           /\ step' = IF ~EmitStep THEN "-" ELSE
                      ToJson([a |-> lastact, n |-> nsteps, len |-> Len(chain), tf |-> tempsFrom,
                              r |-> Reads, ilh |-> ImplLastProofLastHeight, path |-> path])
           /\ UNCHANGED <<avars, nsteps, lastact, path>>

Init == /\ chain = <<>>
        /\ tempsFrom = 1
        /\ gens = [h \in 0..(MaxLen - 1) |-> 0]
        /\ nwrites = 0
        /\ pool = {}
        /\ pending = FALSE
        /\ nsteps = 0
        /\ lastact = [name |-> "Init"]
        /\ path = <<>>
        /\ step = ""

(* NewLeveldbBlockWrite(h) -> SetStates/SetOperations/SetBlockMap/SetSuffrageProof -> Write -> *)
(* Center.MergeBlockWriteDatabase. A block that writes SUF carries the proof of the next       *)
(* suffrage height.                                                                             *)
WriteBlock(s) ==
  /\ Len(chain) < MaxLen
  /\ nwrites < MaxWrites
  /\ LET h == Len(chain)
         g == gens[h] + 1
     IN /\ gens' = [gens EXCEPT ![h] = g]
        /\ chain' = Append(chain, [st |-> s, g |-> g])
        /\ nwrites' = nwrites + 1
        /\ UNCHANGED <<tempsFrom, pool>>
        /\ Record([name |-> "Write", h |-> h, g |-> g, st |-> s,
                   sh |-> IF SUF \in s THEN Cardinality(SufIdx) ELSE -1])

(* Center.mergePermanent: the oldest temp goes to the permanent store while two remain *)
MergeOne ==
  /\ NTemps >= 2
  /\ tempsFrom' = tempsFrom + 1
  /\ UNCHANGED <<chain, gens, nwrites, pool>>
  /\ Record([name |-> "MergeOne"])

(* Center.MergeAllPermanent: all but the newest *)
MergeAll ==
  /\ NTemps >= 2
  /\ tempsFrom' = Len(chain)
  /\ UNCHANGED <<chain, gens, nwrites, pool>>
  /\ Record([name |-> "MergeAll"])

(* Center.RemoveBlocks(h): only blocks that are still temps can be removed *)
RemoveBlocks(h) ==
  /\ WithCenter
  /\ h <= Last + 1           \* (one height beyond the chain is enough to see the refusal)
  /\ LET ok == NTemps > 0 /\ h >= tempsFrom - 1 /\ h <= Last
     IN /\ chain' = IF ok THEN SubSeq(chain, 1, h) ELSE chain
        /\ UNCHANGED <<tempsFrom, gens, nwrites, pool>>
        /\ Record([name |-> "Remove", h |-> h, ok |-> ok])

(* C26: the permanent store alone - MergeTempDatabase of the next block *)
PermMerge(s) ==
  /\ ~WithCenter
  /\ Len(chain) < MaxLen
  /\ LET h == Len(chain)
     IN /\ gens' = [gens EXCEPT ![h] = 1]
        /\ chain' = Append(chain, [st |-> s, g |-> 1])
        /\ tempsFrom' = Len(chain) + 2
        /\ nwrites' = nwrites + 1
        /\ UNCHANGED pool
        /\ Record([name |-> "PermMerge", h |-> h, g |-> 1, st |-> s,
                   sh |-> IF SUF \in s THEN Cardinality(SufIdx) ELSE -1])

(* C20: pool database contents *)
PoolPut(kind) ==
  /\ WithReopen /\ WithCenter
  /\ Cardinality(pool) < MaxPool
  /\ LET n == Cardinality({x \in pool : x[1] = kind}) + 1
     IN /\ pool' = pool \cup {<<kind, n>>}
        /\ UNCHANGED <<chain, tempsFrom, gens, nwrites>>
        /\ Record([name |-> "PoolPut", kind |-> kind, n |-> n])

(* C20: close storage, permanent store, pool and Center; open them again *)
Reopen ==
  /\ WithReopen
  /\ UNCHANGED avars
  /\ Record([name |-> "Reopen"])

Next == \/ WithCenter /\ \E s \in SUBSET AllKeys : WriteBlock(s)
        \/ WithCenter /\ MergeOne
        \/ WithCenter /\ MergeAll
        \/ \E h \in 0..(MaxLen - 1) : RemoveBlocks(h)
        \/ \E s \in SUBSET AllKeys : PermMerge(s)
        \/ \E kind \in PoolKinds : PoolPut(kind)
        \/ Reopen
        \/ ReadAll
Spec == Init /\ [][Next]_vars

-----------------------------------------------------------------------------
TypeOK == /\ tempsFrom \in 1..(Len(chain) + 1)
          /\ Len(chain) <= MaxLen
          /\ \A i \in 1..Len(chain) : chain[i].st \subseteq AllKeys /\ chain[i].g \in 1..gens[i - 1]

(* consequences of the statement that every back-end has to share *)
ReadsConsistent ==
  /\ RBlockMap(Last) = RLastBlockMap
  /\ RState(SUF) = RLastSuffrageProof
  /\ RState(POL) = RPolicy
  /\ Last >= 0 => RProofByBlockHeight(Last) = RLastSuffrageProof
  /\ \A sh \in 0..(MaxLen + 1) : RSuffrageProof(sh) # <<>> <=> sh < Cardinality(SufIdx)
  /\ \A sh \in 0..MaxLen : RSuffrageProof(sh) # <<>> /\ RSuffrageProof(sh + 1) # <<>>
                             => RSuffrageProof(sh)[1] < RSuffrageProof(sh + 1)[1]

(* C19: merging into the permanent store, and C20: reopening, change no read *)
MergeAndReopenInvisible == [][chain' = chain /\ pool' = pool => Reads' = Reads]_vars

(* C19, last sentence: while blocks are only written and merged the height of the state *)
(* returned for a key never decreases                                                    *)
StateHeight(k) == IF RState(k) = <<>> THEN -1 ELSE RState(k)[1]
ReadersMonotone ==
  [][Len(chain') >= Len(chain) /\ SubSeq(chain', 1, Len(chain)) = chain
        => \A k \in AllKeys : StateHeight(k)' >= StateHeight(k)]_vars
=============================================================================
