------------------------------ MODULE Database ------------------------------
(* The block database of a node: isaac/database/center.go (Center),          *)
(* temp_leveldb.go (one TempLeveldb per not-yet-merged block),                *)
(* perm_leveldb.go / perm_base.go / perm_redis.go (permanent store),          *)
(* block_write.go (LeveldbBlockWrite), pool.go (TempPool, for Reopen).        *)
(*                                                                            *)
(* C19  every read answers the same as a model that simply keeps all          *)
(*      committed blocks (the variable `chain`); merges into the permanent    *)
(*      store are invisible; concurrent readers are monotone.                 *)
(* C20  Reopen (close everything, open again) is a stuttering step of every   *)
(*      read, object and raw bytes.                                           *)
(* C26  the same behaviours, restricted to the permanent store, on the Redis  *)
(*      back-end.                                                             *)
(*                                                                            *)
(* The abstract part (chain, reads R...) is written from the property          *)
(* statements. Next to it stands an implementation-level transcription of the *)
(* two read paths of center.go whose algorithm is not a plain lookup          *)
(* (suffrageProofInTemps, SuffrageProofByBlockHeight); TLC compares them       *)
(* (ImplAgrees...), a difference is a candidate defect which the check then    *)
(* has to meet on the real code before it says anything.                       *)
(*                                                                            *)
(* Block size (v2). A block is not only a set of keys: it has a NUMBER OF      *)
(* RECORDS, and the code moves records in batches - the block write database  *)
(* flushes every WriteLimit (128) batched records, the permanent merge hands   *)
(* over batches of MergeLimit (333) records of the temp database. The size     *)
(* classes (SizeClasses) place that number below / exactly at / just above one *)
(* limit and at several batches; `Reads.fl` says that EVERY filler record of a *)
(* committed block is readable (and none of a removed block), and the batch    *)
(* arithmetic of both loops is transcribed (WriteBatchSizes, MergeBatchSizes)  *)
(* and compared with "every record is carried by exactly one batch".           *)
(*                                                                            *)
(* Memory (v2). What a node keeps in memory only is part of the implementation *)
(* level state: `pcache` (the permanent store's state cache, filled by READS   *)
(* that fall through to the permanent store and by mergeTempCaches, purged by  *)
(* a merge of the key, emptied by Reopen) and `tcache` (which temps carry the  *)
(* state cache of their block write database; a temp reloaded after Reopen has *)
(* none). Reading is a first-class step (ReadAll / NoRead): a behaviour says   *)
(* where reads happen, and ImplState(k) - what Center.State answers from       *)
(* temps, cache and storage - is compared with RState(k) (ImplStateAgrees) and *)
(* across Reopen and merges (MemoryInvisible). `eff` (what the last action did  *)
(* to the memory) is part of the view, so that the exhaustive runs keep one    *)
(* path per distinct EFFECT on the memory (a merge that had to invalidate a    *)
(* cached key is a different state from one that had nothing to invalidate),   *)
(* not only per distinct result.                                               *)
(*                                                                            *)
(* Binding A: the output variable `step` carries the action, its arguments    *)
(* and the answer of every read after it; behaviours (-simulate) and the      *)
(* shortest path to every distinct state (exhaustive run, `path`) are         *)
(* replayed on a real Center + LeveldbPermanent + LeveldbBlockWrite over one  *)
(* leveldb storage with real states, signed block maps and suffrage proofs.   *)
(* Binding B (readers): DatabaseTrace.tla.                                    *)
EXTENDS Integers, Sequences, FiniteSets, TLC, Json

CONSTANTS Keys,        \* ordinary state keys, e.g. {"a", "b"}
          MaxLen,      \* longest chain (number of blocks)
          MaxWrites,   \* total number of WriteBlock actions (removed blocks are re-written)
          MaxSteps,    \* length of a behaviour
          MaxPool,     \* number of pool items (C20)
          KeepPath,    \* TRUE: `step` carries the whole path (exhaustive runs)
          EmitStep,    \* FALSE: `step` is not computed (runs that only check the model)
          WithReopen,  \* TRUE: the Reopen action is enabled (C20, C26)
          WithCenter,  \* FALSE: only the permanent store is driven (C26): no RemoveBlocks
          Repaired,    \* FALSE: the two searching reads are transcribed as the pinned tree has them;
                       \* TRUE: as fixes/C19-*.diff leaves them
          Contents,    \* the key sets a block may write (a subset of SUBSET AllKeys)
          SizeClasses, \* size classes a WriteBlock may choose from, "s" = no filler (see ClassTarget)
          MaxBig,      \* how many blocks of a behaviour may have a class other than "s"
          WriteLimit,  \* batch size of the block write database (block_write.go: 1<<7)
          MergeLimit,  \* batch size of the permanent merge (perm_leveldb.go: batchlimit 333)
          CacheChoices,\* subset of BOOLEAN: may the block write database have a state cache (SetStateCache)
          ReadOptional,\* TRUE: after an action the reads may also be left out (NoRead)
          Purge        \* TRUE: a merge removes the merged keys from the permanent store's state cache (the tree);
                       \* FALSE: it relies on mergeTempCaches alone (the sibling that C26's repair removed)

SUF == "SUF"     \* the suffrage state (isaac.SuffrageStateKey); a block that writes it carries a suffrage proof
POL == "POL"     \* the network policy state (isaac.NetworkPolicyStateKey)
AllKeys == Keys \cup {SUF, POL}
PoolKinds == {"proposal", "operation", "expel", "ballot"}
AllContents == SUBSET AllKeys            \* cfg: Contents <- AllContents

VARIABLES chain,      \* sequence of committed blocks [st: SUBSET AllKeys, g: generation, f, x: filler states and
                      \* extra known operations (block size), wc: written with a state cache]; height of chain[i] is i-1
          tempsFrom,  \* chain[tempsFrom..] are temp databases, chain[1..tempsFrom-1] is in the permanent store
          gens,       \* height -> how many times a block of that height has been written
          nwrites,
          pool,       \* set of <<kind, n>> put into the pool database (C20)
          nbig,       \* number of blocks written with a size class other than "s"
          fills,      \* <<h, g, f>> of every block with filler states ever written (removed ones included)
          tcache,     \* memory: heights of the temps that carry a state cache
          pcache,     \* memory: key -> the state (Ref) held by the permanent store's state cache, <<>> = none
          eff,        \* what the last action did to the memory: [drop: keys whose cache entry it invalidated,
                      \* tc: a temp with a state cache was merged or forgotten]
          pending,    \* TRUE: an action has been taken and ReadAll (a read of every kind) or NoRead comes next
          nsteps,
          lastact,    \* output only
          path,       \* output only
          step        \* output only
avars == <<chain, tempsFrom, gens, nwrites, pool, nbig, fills>>
mvars == <<tcache, pcache, eff>>
vars == <<chain, tempsFrom, gens, nwrites, pool, nbig, fills, tcache, pcache, eff, pending, nsteps, lastact, path, step>>
view == <<avars, mvars, pending>>

Max(S) == CHOOSE x \in S : \A y \in S : y <= x
Last == Len(chain) - 1                      \* last height, -1 when nothing is committed
NTemps == Len(chain) - tempsFrom + 1
PermLast == tempsFrom - 2                    \* last height of the permanent store, -1 when empty

-----------------------------------------------------------------------------
(* What the statement says every read answers: a function of `chain` alone.  *)
(* A found object is <<height, generation>> of the block that holds it,      *)
(* <<>> is "not found".                                                      *)
Ref(i) == IF i = 0 THEN <<>> ELSE <<i - 1, chain[i].g>>
HasKey(i, k) == k \in chain[i].st
NewestWith(k, upto) == LET S == {i \in 1..upto : HasKey(i, k)} IN IF S = {} THEN 0 ELSE Max(S)
SufIdx == {i \in 1..Len(chain) : HasKey(i, SUF)}
SufHeightOf(i) == Cardinality({j \in SufIdx : j < i})     \* suffrage heights count suffrage changes from 0

RState(k) == Ref(NewestWith(k, Len(chain)))
RBlockMap(h) == IF h \in 0..Last THEN Ref(h + 1) ELSE <<>>
RLastBlockMap == Ref(Len(chain))
RSuffrageProof(sh) == LET S == {i \in SufIdx : SufHeightOf(i) = sh}
                      IN IF S = {} THEN <<>> ELSE Ref(CHOOSE i \in S : TRUE)
RProofByBlockHeight(h) == IF h \in 0..Last THEN Ref(NewestWith(SUF, h + 1)) ELSE <<>>
RLastSuffrageProof == Ref(NewestWith(SUF, Len(chain)))
RPolicy == Ref(NewestWith(POL, Len(chain)))
InStateOps == UNION {{<<i - 1, chain[i].g, k>> : k \in chain[i].st} : i \in 1..Len(chain)}
KnownOps == {<<i - 1, chain[i].g>> : i \in 1..Len(chain)}

(* block size: every filler state of a committed block is readable (State, StateBytes, its in-state *)
(* operation), none of a block that was removed; <<height, generation, readable filler states>>    *)
InChain(h, g) == h \in 0..Last /\ chain[h + 1].g = g
Fillers == {<<x[1], x[2], IF InChain(x[1], x[2]) THEN x[3] ELSE 0>> : x \in fills}

Reads == [st   |-> [k \in AllKeys |-> RState(k)],
          bm   |-> [i \in 1..(MaxLen + 1) |-> RBlockMap(i - 1)],
          lbm  |-> RLastBlockMap,
          sp   |-> [i \in 1..(MaxLen + 2) |-> RSuffrageProof(i - 1)],
          sph  |-> [i \in 1..(MaxLen + 1) |-> RProofByBlockHeight(i - 1)],
          lsp  |-> RLastSuffrageProof,
          pol  |-> RPolicy,
          iso  |-> InStateOps,
          kno  |-> KnownOps,
          fl   |-> Fillers,
          pool |-> pool]

-----------------------------------------------------------------------------
(* Block size. Records of a block as the generator of the binding builds it: a keyed state is one  *)
(* state record and two in-state operation records, a filler state one state record and one        *)
(* in-state operation record, 2 + x known operation records; these go through the block write      *)
(* database's batch (Batched). Block map, the two suffrage proof keys and the merged marker are     *)
(* put one by one; together they are what the permanent merge iterates (TempRecords).               *)
Batched(s, f, x) == 3 * Cardinality(s) + 2 * f + 2 + x
Fixed(s) == 2 + (IF SUF \in s THEN 2 ELSE 0)
TempRecords(s, f, x) == Batched(s, f, x) + Fixed(s)

(* a size class names a number of records relative to one of the two limits *)
ClassTarget(c) ==
  CASE c = "w-"  -> [lim |-> "w", n |-> WriteLimit - 1]
    [] c = "w="  -> [lim |-> "w", n |-> WriteLimit]
    [] c = "w+"  -> [lim |-> "w", n |-> WriteLimit + 1]
    [] c = "ww=" -> [lim |-> "w", n |-> 2 * WriteLimit]
    [] c = "w3"  -> [lim |-> "w", n |-> 3 * WriteLimit + 5]
    [] c = "m-"  -> [lim |-> "m", n |-> MergeLimit - 1]
    [] c = "m="  -> [lim |-> "m", n |-> MergeLimit]
    [] c = "m+"  -> [lim |-> "m", n |-> MergeLimit + 1]
    [] c = "mm=" -> [lim |-> "m", n |-> 2 * MergeLimit]
    [] c = "mm+" -> [lim |-> "m", n |-> 2 * MergeLimit + 1]
    [] c = "m3"  -> [lim |-> "m", n |-> 3 * MergeLimit + 7]
AllClasses == {"s", "w-", "w=", "w+", "ww=", "w3", "m-", "m=", "m+", "mm=", "mm+", "m3"}
ASSUME SizeClasses \subseteq AllClasses

(* filler states and extra known operations that bring a block with keys s to its class *)
Room(s, c) == LET t == ClassTarget(c)
              IN t.n - Batched(s, 0, 0) - (IF t.lim = "m" THEN Fixed(s) ELSE 0)
FillOf(s, c) == IF c = "s" THEN 0 ELSE Room(s, c) \div 3
XopsOf(s, c) == IF c = "s" THEN 0 ELSE Room(s, c) - 2 * FillOf(s, c)

(* Transcription of the two batch loops: the sizes of the batches handed to the storage.            *)
(* storage/leveldb/db.go batchAddFunc + batchDoneFunc: put, then hand the batch over when it holds  *)
(* `limit` records; what is left goes with Write().                                                  *)
WriteBatchSizes(n) ==
  LET full == n \div WriteLimit
      rest == n % WriteLimit
  IN [i \in 1..(full + (IF rest > 0 THEN 1 ELSE 0)) |-> IF i <= full THEN WriteLimit ELSE rest]
(* perm_leveldb.go mergeTempDatabaseFromLeveldb: BEFORE a record is put a batch that holds `limit`   *)
(* records is handed to a worker and a new one started; what is left is handed over after the loop.  *)
MergeBatchSizes(n) ==
  IF n = 0 THEN <<>>
  ELSE LET full == (n - 1) \div MergeLimit
       IN [i \in 1..(full + 1) |-> IF i <= full THEN MergeLimit ELSE n - full * MergeLimit]
RECURSIVE SumSeq(_)
SumSeq(q) == IF q = <<>> THEN 0 ELSE Head(q) + SumSeq(Tail(q))
(* every record is carried by exactly one batch, no batch is empty or above its limit *)
BatchesCarryEveryRecord ==
  \A i \in 1..Len(chain) :
     LET b == chain[i]
         wb == WriteBatchSizes(Batched(b.st, b.f, b.x))
         mb == MergeBatchSizes(TempRecords(b.st, b.f, b.x))
     IN /\ SumSeq(wb) = Batched(b.st, b.f, b.x)
        /\ SumSeq(mb) = TempRecords(b.st, b.f, b.x)
        /\ \A j \in 1..Len(wb) : wb[j] \in 1..WriteLimit
        /\ \A j \in 1..Len(mb) : mb[j] \in 1..MergeLimit

-----------------------------------------------------------------------------
(* Implementation level: how center.go answers the two searching reads from  *)
(* its list of temps (newest first) and the permanent store.                 *)
TempIdx == tempsFrom..Len(chain)
PermIdx == 1..(tempsFrom - 1)

(* LeveldbPermanent.SuffrageProof: the last proof if it has that height, else the key *)
PermSuffrageProof(sh) == LET S == {i \in PermIdx : HasKey(i, SUF) /\ SufHeightOf(i) = sh}
                         IN IF S = {} THEN <<>> ELSE Ref(CHOOSE i \in S : TRUE)
(* LeveldbPermanent.SuffrageProofByBlockHeight(h): nothing above the last block map; the  *)
(* last proof if h is at or above its block; else the newest by-block-height key <= h     *)
PermProofByBlockHeight(h) ==
  IF PermIdx = {} \/ h > PermLast THEN <<>>
  ELSE LET S == {i \in PermIdx : HasKey(i, SUF) /\ i - 1 <= h} IN IF S = {} THEN <<>> ELSE Ref(Max(S))

(* Center.suffrageProofInTemps + SuffrageProof. Pinned tree: the first temp, newest first,  *)
(* that has a suffrage state whose height is NOT GREATER than the one asked for (deviation:  *)
(* a height that does not exist yet is answered with an older proof). Repaired: the temp     *)
(* whose suffrage height IS the one asked for.                                               *)
ImplSuffrageProof(sh) ==
  LET T == {i \in TempIdx : HasKey(i, SUF) /\ IF Repaired THEN SufHeightOf(i) = sh ELSE ~(SufHeightOf(i) > sh)}
  IN IF T # {} THEN Ref(Max(T)) ELSE PermSuffrageProof(sh)

(* Center.SuffrageProofByBlockHeight. Pinned tree: whenever temps exist and none of them     *)
(* answers, the permanent store is asked for `oldest temp - 1` (deviation: also when h is     *)
(* below the temps). Repaired: for h below the temps the permanent store is asked for h.      *)
ImplProofByBlockHeight(h) ==
  IF NTemps > 0
  THEN IF h > Last THEN <<>>
       ELSE LET T == {i \in TempIdx : HasKey(i, SUF) /\ i - 1 <= h}
            IN IF h >= tempsFrom - 1 /\ T # {}          \* findTemp(h) # nil and a temp at or below h has a proof
               THEN Ref(Max(T))
               ELSE IF Repaired /\ h < tempsFrom - 1
                    THEN PermProofByBlockHeight(h)
                    ELSE PermProofByBlockHeight((tempsFrom - 1) - 1)   \* lastheight = oldest temp - 1
  ELSE PermProofByBlockHeight(h)

(* Center.LastSuffrageProofBytes: the height returned next to the bytes is the height of *)
(* the part (temp / permanent store) in which the proof was found                        *)
ImplLastProofLastHeight ==
  LET T == {i \in TempIdx : HasKey(i, SUF)}
  IN IF T # {} THEN Max(T) - 1
     ELSE IF {i \in PermIdx : HasKey(i, SUF)} # {} THEN PermLast ELSE -1

ImplAgreesSuffrageProof == \A sh \in 0..(MaxLen + 1) : ImplSuffrageProof(sh) = RSuffrageProof(sh)
ImplAgreesProofByBlockHeight == \A h \in 0..MaxLen : ImplProofByBlockHeight(h) = RProofByBlockHeight(h)
(* the stronger reading of LastSuffrageProofBytes (reported, never an alarm) *)
ImplLastHeightIsLast == RLastSuffrageProof # <<>> => ImplLastProofLastHeight = Last

-----------------------------------------------------------------------------
(* Implementation level: Center.State(k). The newest temp that has the key answers; else the      *)
(* permanent store: its state cache if it holds the key (perm_base.go stateFromCache), else the    *)
(* storage, and what was loaded is put into the cache (setStateToCache).                            *)
NoCache == [k \in AllKeys |-> <<>>]
NoEff == [drop |-> {}, tc |-> FALSE]
TempNewest(k) == LET S == {i \in TempIdx : HasKey(i, k)} IN IF S = {} THEN 0 ELSE Max(S)
PermNewest(k) == NewestWith(k, tempsFrom - 1)
ImplState(k) == IF TempNewest(k) # 0 THEN Ref(TempNewest(k))
                ELSE IF pcache[k] # <<>> THEN pcache[k] ELSE Ref(PermNewest(k))
(* the cache after Center.State has been called for every key *)
CacheAfterReads == [k \in AllKeys |-> IF TempNewest(k) = 0 /\ pcache[k] = <<>> THEN Ref(PermNewest(k)) ELSE pcache[k]]

(* the cache after chain[from..to] have been merged one after the other (MergeTempDatabase):       *)
(* mergeTempCaches puts the states of a temp that carries a state cache (newer wins), then - Purge *)
(* - every state key of the merged temp is removed from the cache                                   *)
CacheAfterMerge(from, to) ==
  [k \in AllKeys |->
     LET M == {i \in from..to : HasKey(i, k)}
         C == {i \in M : (i - 1) \in tcache}
     IN IF M = {} THEN pcache[k]
        ELSE IF Purge THEN <<>>
        ELSE IF C # {} THEN Ref(Max(C)) ELSE pcache[k]]
MergeEff(from, to) == [drop |-> {k \in AllKeys : pcache[k] # <<>> /\ \E i \in from..to : HasKey(i, k)},
                       tc   |-> \E i \in from..to : (i - 1) \in tcache]

(* C19 at the implementation level: what Center.State answers is the newest committed state *)
ImplStateAgrees == \A k \in AllKeys : ImplState(k) = RState(k)
(* a cached state is the stored one *)
CacheFresh == \A k \in AllKeys : pcache[k] \in {<<>>, Ref(PermNewest(k))}

-----------------------------------------------------------------------------
(* An action is followed by ReadAll (the binding performs every read and compares it) or, with  *)
(* ReadOptional, by NoRead (nothing is read: the memory stays as the action left it).            *)
(* (`step` is computed there, once per step, not once per candidate successor.)                  *)
Record(act) == /\ ~pending
               /\ nsteps < MaxSteps
               /\ nsteps' = nsteps + 1
               /\ pending' = TRUE
               /\ lastact' = act
               /\ path' = IF KeepPath THEN Append(path, act) ELSE path
               /\ step' = ""

Emit(rd) == IF ~EmitStep THEN "-" ELSE
            ToJson([a |-> lastact, n |-> nsteps, len |-> Len(chain), tf |-> tempsFrom, rd |-> rd,
                    r |-> Reads, ilh |-> ImplLastProofLastHeight,
                    mem |-> [pc |-> {k \in AllKeys : pcache[k] # <<>>}, tc |-> tcache, eff |-> eff],
                    path |-> IF rd /\ KeepPath THEN Append(path, [name |-> "Read"]) ELSE path])

ReadAll == /\ pending
           /\ pending' = FALSE
           /\ step' = Emit(TRUE)
           /\ pcache' = CacheAfterReads
           /\ path' = IF KeepPath THEN Append(path, [name |-> "Read"]) ELSE path
           /\ UNCHANGED <<avars, tcache, eff, nsteps, lastact>>

NoRead == /\ ReadOptional
          /\ pending
          /\ pending' = FALSE
          /\ step' = Emit(FALSE)
          /\ UNCHANGED <<avars, mvars, nsteps, lastact, path>>

Init == /\ chain = <<>>
        /\ tempsFrom = 1
        /\ gens = [h \in 0..(MaxLen - 1) |-> 0]
        /\ nwrites = 0
        /\ pool = {}
        /\ nbig = 0
        /\ fills = {}
        /\ tcache = {}
        /\ pcache = NoCache
        /\ eff = NoEff
        /\ pending = FALSE
        /\ nsteps = 0
        /\ lastact = [name |-> "Init"]
        /\ path = <<>>
        /\ step = ""

BlockAct(name, h, g, s, c, wc) ==
  [name |-> name, h |-> h, g |-> g, st |-> s,
   sh |-> IF SUF \in s THEN Cardinality(SufIdx) ELSE -1,
   cls |-> c, f |-> FillOf(s, c), x |-> XopsOf(s, c), wc |-> wc,
   nb |-> Batched(s, FillOf(s, c), XopsOf(s, c)), nt |-> TempRecords(s, FillOf(s, c), XopsOf(s, c)),
   wb |-> Len(WriteBatchSizes(Batched(s, FillOf(s, c), XopsOf(s, c)))),
   mb |-> Len(MergeBatchSizes(TempRecords(s, FillOf(s, c), XopsOf(s, c))))]

(* NewLeveldbBlockWrite(h) -> [SetStateCache] -> SetStates/SetOperations/SetBlockMap/SetSuffrageProof *)
(* -> Write -> Center.MergeBlockWriteDatabase. A block that writes SUF carries the proof of the next   *)
(* suffrage height. c is the block's size class, wc whether the block write database has a state cache. *)
WriteBlock(s, c, wc) ==
  /\ Len(chain) < MaxLen
  /\ nwrites < MaxWrites
  /\ c # "s" => nbig < MaxBig
  /\ LET h == Len(chain)
         g == gens[h] + 1
         f == FillOf(s, c)
     IN /\ gens' = [gens EXCEPT ![h] = g]
        /\ chain' = Append(chain, [st |-> s, g |-> g, f |-> f, x |-> XopsOf(s, c), wc |-> wc])
        /\ nwrites' = nwrites + 1
        /\ nbig' = IF c = "s" THEN nbig ELSE nbig + 1
        /\ fills' = IF f > 0 THEN fills \cup {<<h, g, f>>} ELSE fills
        /\ tcache' = IF wc THEN tcache \cup {h} ELSE tcache \ {h}
        /\ eff' = NoEff
        /\ UNCHANGED <<tempsFrom, pool, pcache>>
        /\ Record(BlockAct("Write", h, g, s, c, wc))

(* Center.mergePermanent: the oldest temp goes to the permanent store while two remain *)
MergeOne ==
  /\ NTemps >= 2
  /\ tempsFrom' = tempsFrom + 1
  /\ pcache' = CacheAfterMerge(tempsFrom, tempsFrom)
  /\ eff' = MergeEff(tempsFrom, tempsFrom)
  /\ tcache' = tcache \ {tempsFrom - 1}
  /\ UNCHANGED <<chain, gens, nwrites, pool, nbig, fills>>
  /\ Record([name |-> "MergeOne"])

(* Center.MergeAllPermanent: all but the newest *)
MergeAll ==
  /\ NTemps >= 2
  /\ tempsFrom' = Len(chain)
  /\ pcache' = CacheAfterMerge(tempsFrom, Len(chain) - 1)
  /\ eff' = MergeEff(tempsFrom, Len(chain) - 1)
  /\ tcache' = tcache \cap {Len(chain) - 1}
  /\ UNCHANGED <<chain, gens, nwrites, pool, nbig, fills>>
  /\ Record([name |-> "MergeAll"])

(* Center.RemoveBlocks(h): only blocks that are still temps can be removed *)
RemoveBlocks(h) ==
  /\ WithCenter
  /\ h <= Last + 1           \* (one height beyond the chain is enough to see the refusal)
  /\ LET ok == NTemps > 0 /\ h >= tempsFrom - 1 /\ h <= Last
     IN /\ chain' = IF ok THEN SubSeq(chain, 1, h) ELSE chain
        /\ tcache' = IF ok THEN tcache \cap (0..(h - 1)) ELSE tcache
        /\ eff' = [drop |-> {}, tc |-> ok /\ (tcache \cap (h..Last)) # {}]
        /\ UNCHANGED <<tempsFrom, gens, nwrites, pool, nbig, fills, pcache>>
        /\ Record([name |-> "Remove", h |-> h, ok |-> ok])

(* C26: the permanent store alone - MergeTempDatabase of the next block *)
PermMerge(s, c, wc) ==
  /\ ~WithCenter
  /\ Len(chain) < MaxLen
  /\ c # "s" => nbig < MaxBig
  /\ LET h == Len(chain)
         f == FillOf(s, c)
     IN /\ gens' = [gens EXCEPT ![h] = 1]
        /\ chain' = Append(chain, [st |-> s, g |-> 1, f |-> f, x |-> XopsOf(s, c), wc |-> wc])
        /\ tempsFrom' = Len(chain) + 2
        /\ nwrites' = nwrites + 1
        /\ nbig' = IF c = "s" THEN nbig ELSE nbig + 1
        /\ fills' = IF f > 0 THEN fills \cup {<<h, 1, f>>} ELSE fills
        /\ pcache' = [k \in AllKeys |-> IF k \notin s THEN pcache[k]
                                        ELSE IF Purge THEN <<>>
                                        ELSE IF wc THEN <<h, 1>> ELSE pcache[k]]
        /\ eff' = [drop |-> {k \in s : pcache[k] # <<>>}, tc |-> wc]
        /\ UNCHANGED <<pool, tcache>>
        /\ Record(BlockAct("PermMerge", h, 1, s, c, wc))

(* C20: pool database contents *)
PoolPut(kind) ==
  /\ WithReopen /\ WithCenter
  /\ Cardinality(pool) < MaxPool
  /\ LET n == Cardinality({x \in pool : x[1] = kind}) + 1
     IN /\ pool' = pool \cup {<<kind, n>>}
        /\ eff' = NoEff
        /\ UNCHANGED <<chain, tempsFrom, gens, nwrites, nbig, fills, tcache, pcache>>
        /\ Record([name |-> "PoolPut", kind |-> kind, n |-> n])

(* C20: close storage, permanent store, pool and Center; open them again: nothing that lives in *)
(* memory only survives (the state cache is empty, reloaded temps carry no state cache)          *)
Reopen ==
  /\ WithReopen
  /\ tcache' = {}
  /\ pcache' = NoCache
  /\ eff' = [drop |-> {k \in AllKeys : pcache[k] # <<>>}, tc |-> tcache # {}]
  /\ UNCHANGED avars
  /\ Record([name |-> "Reopen"])

Next == \/ WithCenter /\ \E s \in Contents, c \in SizeClasses, wc \in CacheChoices : WriteBlock(s, c, wc)
        \/ WithCenter /\ MergeOne
        \/ WithCenter /\ MergeAll
        \/ \E h \in 0..(MaxLen - 1) : RemoveBlocks(h)
        \/ \E s \in Contents, c \in SizeClasses, wc \in CacheChoices : PermMerge(s, c, wc)
        \/ \E kind \in PoolKinds : PoolPut(kind)
        \/ Reopen
        \/ ReadAll
        \/ NoRead
Spec == Init /\ [][Next]_vars

-----------------------------------------------------------------------------
TypeOK == /\ tempsFrom \in 1..(Len(chain) + 1)
          /\ Len(chain) <= MaxLen
          /\ \A i \in 1..Len(chain) : chain[i].st \subseteq AllKeys /\ chain[i].g \in 1..gens[i - 1]
          /\ tcache \subseteq {i - 1 : i \in TempIdx}
          /\ nbig <= MaxBig

(* CONSTRAINT of the instances that are about the memory, not about removal *)
NoRemove == lastact.name # "Remove"

(* consequences of the statement that every back-end has to share *)
ReadsConsistent ==
  /\ RBlockMap(Last) = RLastBlockMap
  /\ RState(SUF) = RLastSuffrageProof
  /\ RState(POL) = RPolicy
  /\ Last >= 0 => RProofByBlockHeight(Last) = RLastSuffrageProof
  /\ \A sh \in 0..(MaxLen + 1) : RSuffrageProof(sh) # <<>> <=> sh < Cardinality(SufIdx)
  /\ \A sh \in 0..MaxLen : RSuffrageProof(sh) # <<>> /\ RSuffrageProof(sh + 1) # <<>>
                             => RSuffrageProof(sh)[1] < RSuffrageProof(sh + 1)[1]

(* C19: merging into the permanent store, and C20: reopening, change no read *)
MergeAndReopenInvisible == [][chain' = chain /\ pool' = pool => Reads' = Reads]_vars

(* the same at the implementation level: merges, reads and a reopen change what lives in memory, *)
(* never what Center.State answers                                                                *)
ImplStates == [k \in AllKeys |-> ImplState(k)]
MemoryInvisible == [][chain' = chain => ImplStates' = ImplStates]_vars

(* C19, last sentence: while blocks are only written and merged the height of the state *)
(* returned for a key never decreases                                                    *)
StateHeight(k) == IF RState(k) = <<>> THEN -1 ELSE RState(k)[1]
ReadersMonotone ==
  [][Len(chain') >= Len(chain) /\ SubSeq(chain', 1, Len(chain)) = chain
        => \A k \in AllKeys : StateHeight(k)' >= StateHeight(k)]_vars
=============================================================================
