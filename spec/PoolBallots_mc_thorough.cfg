SPECIFICATION Spec
CONSTANTS
  MaxH = 4
  Rounds = {0}
  Kinds = {"I-"}
  NVar = 2
  Proposers = {"p1"}
  Prevs = {"b1"}
  Depth = 3
  MaxSteps = 5
VIEW View
INVARIANTS TypeOK ByPointSame ByPointWithin
PROPERTIES BallotKept ProposalKept
CHECK_DEADLOCK FALSE
