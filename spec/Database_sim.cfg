SPECIFICATION Spec
CONSTANTS
  Keys = {"a", "b"}
  MaxLen = 8
  MaxWrites = 20
  MaxSteps = 1000
  MaxPool = 0
  KeepPath = FALSE
  EmitStep = TRUE
  WithReopen = FALSE
  WithCenter = TRUE
  Repaired = FALSE
  Contents <- AllContents
  SizeClasses = {"s", "w=", "w+", "m-", "m=", "m+", "mm+"}
  MaxBig = 1
  WriteLimit = 128
  MergeLimit = 333
  CacheChoices = {TRUE, FALSE}
  ReadOptional = TRUE
  Purge = TRUE
CHECK_DEADLOCK FALSE
