SPECIFICATION Spec
CONSTANTS
  Keys = {"a", "b"}
  MaxLen = 8
  MaxWrites = 20
  MaxSteps = 1000
  MaxPool = 0
  KeepPath = FALSE
  EmitStep = TRUE
  WithReopen = FALSE
  WithCenter = TRUE
  Repaired = FALSE
CHECK_DEADLOCK FALSE
