SPECIFICATION Spec
CONSTANTS
  N = 9
  T10 = 670
  Mode = "orbits"
  Fams = {"all", "live", "exact", "short", "self"}
  Muts = {"none", "dup", "unknown-voter", "wrongkey", "badsig", "claim-missing", "expel-unknown-target", "expel-unknown-signer", "expel-wrongkey-signer", "expired", "dup-expel"}
INVARIANTS AcceptedImpliesWellFormed HistoryIndependent AcceptedOnlyGenuine
CHECK_DEADLOCK FALSE
