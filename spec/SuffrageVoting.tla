--------------------------- MODULE SuffrageVoting ---------------------------
(***************************************************************************)
(* SUFVOTE - collecting the votes that expel a member of the suffrage.     *)
(*                                                                         *)
(* Models isaac.SuffrageVoting (isaac/suffrage_voting.go) over the expel   *)
(* operation pool of isaacdatabase.TempPool (isaac/database/pool.go:       *)
(* SuffrageExpelOperation, SetSuffrageExpelOperation, Traverse..., Remove  *)
(* ...ByFact, ...ByHeight) and the threshold rule of NewSuffrageWithExpels *)
(* (isaac/suffrage.go).  ISAAC.tla and Agreement.tla take the suffrage and *)
(* the expels a voteproof carries as given; this module is where they come *)
(* from: members sign expel facts, Vote(op) collects the signatures, and   *)
(* Find(height, suffrage) hands the INIT ballot the expel operations that  *)
(* have enough of them (base_ballot_handler.go).                           *)
(*                                                                         *)
(* An expel fact is identified by (node, start, end) - the token of        *)
(* SuffrageExpelFact is node+start+end and the reason is not hashed - so a *)
(* fact is the tuple <<node, start, end>> here.  An operation is a fact    *)
(* with a set of signers; the signature of the expelled node itself never  *)
(* counts (SuffrageExpelOperation.NodeSigns filters it).                   *)
(*                                                                         *)
(* Two levels, kept next to each other:                                    *)
(*  - the contract (pool, have): signatures are collected PER FACT; Vote   *)
(*    answers whether it learnt anything; Find may return any combination  *)
(*    R of live operations with distinct member targets in which every     *)
(*    operation has at least SignTh(|R|) signatures of members that are    *)
(*    not themselves targets of R, and must not return less than the       *)
(*    biggest such combination (MaxK).                                     *)
(*  - the transcription of the code (ipool, ihave; Level = "impl"): the    *)
(*    pool lookup by (height, node) in descending (end, fact hash) order,  *)
(*    the merge of NodeSigns into whatever operation that lookup found,    *)
(*    the traversal that stops at the first operation whose target is not  *)
(*    a member, the combination search (big first) and its uint threshold  *)
(*    arithmetic.  Impl* invariants compare the two; what TLC finds there  *)
(*    is a candidate that check/props/sufvote.py must reproduce on the     *)
(*    real objects before it counts.                                       *)
(*                                                                         *)
(* Binding A: with Level = "abstract" every call sequence of length        *)
(* MaxCalls over OpSet / Heights is printed ("CASE" line: the calls with   *)
(* the answers the contract demands and the contract's pool at every Find) *)
(* and replayed into a real isaac.SuffrageVoting over a real TempPool      *)
(* (leveldb mem storage) with really signed SuffrageExpelOperations        *)
(* (harness/internal/sufvote).  -simulate on the N=7 / N=10 worlds gives   *)
(* the seeded larger cases.                                                *)
(***************************************************************************)
EXTENDS Integers, FiniteSets, Sequences, TLC

CONSTANTS Member,     \* the suffrage Find is called with
          Outsider,   \* nodes that are not members (unknown targets, foreign signers)
          Local,      \* the local node, a member
          T10,        \* threshold * 10 (DefaultThreshold = 67 -> 670)
          OpSet,      \* the operations that may arrive: <<fact, signers>>
          InState,    \* facts whose operation is already in the state (existsInState)
          Heights,    \* heights Find is called with
          MaxCalls, MaxFinds,
          Sim,        \* TRUE: one random call per step (for -simulate)
          Level       \* "abstract": contract + CASE lines;  "impl": contract and transcription, no history

VARIABLES pool, have,           \* contract: fact -> signers collected, facts known
          ipool, ihave,         \* transcription: fact -> signatures <<signer, fact signed>>, facts stored
          last,                 \* what the last call answered: contract and transcription
          hist, ncalls, nfinds, done

vars == <<pool, have, ipool, ihave, last, hist, ncalls, nfinds, done>>
view == <<pool, have, ipool, ihave, last, ncalls, nfinds, done, IF Level = "abstract" THEN hist ELSE <<>> >>

Node == Member \cup Outsider
FactSet == {o[1] : o \in OpSet}
FN(f) == f[1]
FS(f) == f[2]
FE(f) == f[3]

N == Cardinality(Member)
Req(n, tt) == (n * tt + 999) \div 1000          \* base.Threshold.Threshold
Th == Req(N, T10)
(* NewSuffrageWithExpels: signatures every one of k expel operations needs *)
SignTh(k) == IF k > N - Th THEN N - k ELSE Th

MaxOf(S) == CHOOSE k \in S : \A j \in S : j <= k

-----------------------------------------------------------------------------
(* worlds (cfg files cannot hold tuples): OpSet <- Ops..., InState <- InState... *)
fA == <<"n2", 1, 2>>      \* expel n2, heights 1..2
fB == <<"n2", 2, 3>>      \* expel n2, heights 2..3: another fact of the same node, overlapping fA
fC == <<"n3", 1, 2>>
fD == <<"n4", 2, 2>>
fE == <<"n3", 3, 3>>      \* in the state already (thorough world)
fU == <<"x", 1, 3>>       \* target is not a member; greatest end: first in the pool's order
fL == <<"n1", 1, 2>>      \* target is the local node

NoFacts == {}
(* N = 4: Th = 3, SignTh(1) = 3, SignTh(2) = 2, SignTh(3) = 1 *)
OpsQuick == { <<fA, {"n1", "n4"}>>, <<fA, {"n3"}>>, <<fA, {"n2", "n3"}>>, <<fB, {"n3", "n4"}>>,
              <<fC, {"n1", "n4"}>>, <<fC, {"n2"}>>, <<fC, {"x"}>>, <<fU, {"n1"}>>, <<fL, {"n3"}>> }
OpsThorough == { <<fA, {"n1", "n4"}>>, <<fA, {"n3"}>>, <<fB, {"n3", "n4"}>>, <<fB, {"n1"}>>,
                 <<fC, {"n1", "n4"}>>, <<fC, {"n2"}>>, <<fD, {"n1", "n3"}>>, <<fU, {"n1"}>>,
                 <<fE, {"n1", "n2", "n4"}>>, <<fL, {"n3", "n4"}>> }
InStateThorough == {fE}

(* N = 7: Th = 5, N - Th = 2: one or two expels need 5 signatures each, so that {fP} and {fQ} can both
   be valid while {fP, fQ} is not (each counted the other's signature): two biggest combinations *)
fP == <<"n2", 1, 2>>
fQ == <<"n3", 1, 2>>
OpsTie == { <<fP, {"n1", "n4", "n5", "n6"}>>, <<fP, {"n3"}>>, <<fP, {"n7"}>>,
            <<fQ, {"n1", "n4", "n5", "n6"}>>, <<fQ, {"n2"}>> }

(* seeded larger worlds for -simulate. N = 7: signer sets of 1, 3, 5 or 6 members, or the outsider alone;
   two overlapping facts of n2, a non-member target, the local node as target *)
SimFacts == { <<"n2", 1, 3>>, <<"n3", 1, 3>>, <<"n2", 2, 4>>, <<"n4", 2, 3>>, <<"n5", 3, 4>>, <<"x", 1, 4>>, <<"n1", 1, 4>> }
OpsSim == { o \in { <<f, S>> : f \in SimFacts, S \in {S2 \in SUBSET Member : Cardinality(S2) \in {1, 3, 5, 6}} \cup {{"x"}} } :
                o[2] \ {o[1][1]} # {} }
(* N = 10: Th = 7, N - Th = 3 (the repository's own test size); one fact per node, members only: nothing of
   the pinned tree's recorded defects can touch these sequences *)
SimFacts10 == { <<"n2", 1, 3>>, <<"n3", 1, 3>>, <<"n4", 2, 4>>, <<"n5", 2, 3>>, <<"n6", 3, 4>> }
OpsSim10 == { o \in { <<f, S>> : f \in SimFacts10, S \in {S2 \in SUBSET Member : Cardinality(S2) \in {1, 4, 6, 7, 8}} } :
                  o[2] \ {o[1][1]} # {} }

-----------------------------------------------------------------------------
(* the contract *)
Eff(f, S) == S \ {FN(f)}
VoteLearns(f, S) == /\ FN(f) # Local
                    /\ f \notin InState
                    /\ (f \notin have \/ Eff(f, S) \ pool[f] # {})

Live(hv, h) == {f \in hv : FS(f) <= h /\ h <= FE(f)}
Targets(R) == {FN(f) : f \in R}
Counted(pl, f, R) == (pl[f] \cap Member) \ Targets(R)
ValidCombo(pl, R) ==
    /\ R # {}
    /\ \A f \in R : FN(f) \in Member /\ FN(f) # Local
    /\ \A f, g \in R : f # g => FN(f) # FN(g)
    /\ \A f \in R : Cardinality(Counted(pl, f, R)) >= SignTh(Cardinality(R))
MaxK(pl, C) == LET V == {R \in SUBSET C : ValidCombo(pl, R)}
               IN  IF V = {} THEN 0 ELSE MaxOf({Cardinality(R) : R \in V})
NBest(pl, C) == LET V == {R \in SUBSET C : ValidCombo(pl, R)}
                IN  Cardinality({R \in V : Cardinality(R) = MaxK(pl, C)})
CleanOps(pl, C) == {f \in C : pl[f] \subseteq Member}

-----------------------------------------------------------------------------
(* the transcription of the code *)
ISigners(f) == {sg[1] : sg \in ipool[f]}

(* TempPool.SuffrageExpelOperation(height, node): iterate by descending (end, fact hash); other
   nodes are skipped, `end < height` stops, `start > height` is skipped: the first operation of
   the node whose range covers height. The order of fact hashes is arbitrary: every operation
   with the greatest end may be the one. *)
ILookup(node, ht) ==
    LET C == {g \in ihave : FN(g) = node /\ FS(g) <= ht /\ ht <= FE(g)}
    IN  {g \in C : \A g2 \in C : FE(g2) <= FE(g)}

(* Vote: local target / in state -> false; lookup by (fact.start, fact.node); not found: store the
   operation; found (whatever its fact): AddNodeSigns of the new operation's NodeSigns to the found
   operation, signers already there are dropped; nothing new -> false *)
IVote(f, S) ==
    IF FN(f) = Local \/ f \in InState
    THEN /\ UNCHANGED <<ipool, ihave>>
         /\ last' = [call |-> "vote", a |-> VoteLearns(f, S), i |-> FALSE, k |-> 0, r |-> {}]
    ELSE LET T == ILookup(FN(f), FS(f)) IN
         IF T = {}
         THEN /\ ipool' = [ipool EXCEPT ![f] = {<<s, f>> : s \in Eff(f, S)}]
              /\ ihave' = ihave \cup {f}
              /\ last' = [call |-> "vote", a |-> VoteLearns(f, S), i |-> TRUE, k |-> 0, r |-> {}]
         ELSE \E g \in T :
              LET new == Eff(f, S) \ ISigners(g) IN
              /\ ipool' = [ipool EXCEPT ![g] = @ \cup {<<s, f>> : s \in new}]
              /\ ihave' = ihave
              /\ last' = [call |-> "vote", a |-> VoteLearns(f, S), i |-> new # {}, k |-> 0, r |-> {}]

(* findExpelCombinations: uint arithmetic, `uint(suf.Len()) - uint(i)` wraps when more operations
   than members are collected (two facts of one node) *)
INewTh(k) == IF k > N THEN 1000000 ELSE IF k > N - Th THEN N - k ELSE Th
IComboOK(R) ==
    LET k == Cardinality(R) IN
    /\ \A f \in R : ISigners(f) \subseteq Member /\ Cardinality(ISigners(f)) >= INewTh(k)
    /\ \A f \in R : Cardinality(ISigners(f) \ Targets(R)) >= INewTh(k)

(* Find: traverse the operations covering h in descending (end, fact hash) order; the callback
   returns keep=false at the first operation whose target is not a member (and only that one is
   removed afterwards); the biggest combination that passes is returned with the signatures of the
   targets filtered out; operations with end < h are removed *)
IFind(h) ==
    LET live == Live(ihave, h)
        unk  == {f \in live : FN(f) \notin Member}
        top  == {u \in unk : \A u2 \in unk : FE(u2) <= FE(u)}
    IN  \E tie \in BOOLEAN : \E u \in (IF top = {} THEN {<<>>} ELSE top) :
        LET coll == IF top = {} THEN live
                    ELSE {f \in live \ unk : FE(f) > FE(u) \/ (FE(f) = FE(u) /\ tie)}
            V    == {R \in SUBSET coll : R # {} /\ IComboOK(R)}
            best == IF V = {} THEN {{}}
                    ELSE LET m == MaxOf({Cardinality(R) : R \in V}) IN {R \in V : Cardinality(R) = m}
            gone == {f \in ihave : FE(f) < h} \cup (IF top = {} THEN {} ELSE {u})
        IN  \E R \in best :
            /\ ihave' = ihave \ gone
            /\ ipool' = [f \in FactSet |-> IF f \in gone THEN {} ELSE ipool[f]]
            /\ last' = [call |-> "find", a |-> FALSE, i |-> FALSE,
                        k |-> MaxK(pool, CleanOps(pool, Live(have, h))),
                        r |-> {<<f, {sg \in ipool[f] : sg[1] \notin Targets(R)}>> : f \in R}]

-----------------------------------------------------------------------------
Init == /\ pool = [f \in FactSet |-> {}]
        /\ have = {}
        /\ ipool = [f \in FactSet |-> {}]
        /\ ihave = {}
        /\ last = [call |-> "none", a |-> FALSE, i |-> FALSE, k |-> 0, r |-> {}]
        /\ hist = <<>>
        /\ ncalls = 0
        /\ nfinds = 0
        /\ done = FALSE

Vote(f, S) ==
    /\ ncalls < MaxCalls
    /\ LET v == VoteLearns(f, S) IN
       /\ pool' = IF v THEN [pool EXCEPT ![f] = @ \cup Eff(f, S)] ELSE pool
       /\ have' = IF v THEN have \cup {f} ELSE have
       /\ hist' = IF Level = "abstract"
                  THEN Append(hist, <<"v", f, S, v, IF v THEN pool[f] \cup Eff(f, S) ELSE pool[f]>>)
                  ELSE hist
    /\ IF Level = "impl" THEN IVote(f, S) ELSE UNCHANGED <<ipool, ihave, last>>
    /\ ncalls' = ncalls + 1
    /\ UNCHANGED <<nfinds, done>>

Find(h) ==
    /\ ncalls < MaxCalls
    /\ nfinds < MaxFinds
    /\ LET live == Live(have, h) IN
       hist' = IF Level = "abstract"
               THEN Append(hist, <<"f", h, MaxK(pool, CleanOps(pool, live)), MaxK(pool, live),
                                   {<<g, pool[g]>> : g \in have}, NBest(pool, CleanOps(pool, live))>>)
               ELSE hist
    /\ have' = {f \in have : FE(f) >= h}
    /\ pool' = [f \in FactSet |-> IF FE(f) >= h THEN pool[f] ELSE {}]
    /\ IF Level = "impl" THEN IFind(h) ELSE UNCHANGED <<ipool, ihave, last>>
    /\ ncalls' = ncalls + 1
    /\ nfinds' = nfinds + 1
    /\ UNCHANGED done

Emit == /\ Level = "abstract"
        /\ ncalls = MaxCalls
        /\ ~done
        /\ PrintT("CASE " \o ToString(hist))
        /\ done' = TRUE
        /\ UNCHANGED <<pool, have, ipool, ihave, last, hist, ncalls, nfinds>>

(* the world, once, for the driver *)
ASSUME PrintT("WORLD " \o ToString(<<Member, Outsider, Local, InState, [k \in 1..N |-> SignTh(k)]>>))

(* the reference to a variable keeps TLC from evaluating the random draw once, as a constant *)
Pick(S) == IF Sim THEN {RandomElement(IF ncalls >= 0 THEN S ELSE {})} ELSE S

Next == \/ \E o \in Pick(OpSet) : Vote(o[1], o[2])
        \/ \E h \in Pick(Heights) : Find(h)
        \/ Emit

Spec == Init /\ [][Next]_vars

-----------------------------------------------------------------------------
(* properties of the contract *)
TypeOK == /\ have \subseteq FactSet
          /\ \A f \in FactSet : pool[f] \subseteq Node /\ (f \notin have => pool[f] = {})
          /\ ncalls \in 0..MaxCalls /\ nfinds \in 0..MaxFinds

(* a node never collects (hence never finds) an expel of itself; nothing that is in the state *)
NeverLocal == \A f \in have : FN(f) # Local /\ f \notin InState
(* the target's own signature is never collected *)
NoSelfSignature == \A f \in have : FN(f) \notin pool[f]

(* order independence: what is collected for a fact is the union of what arrived for it since the
   fact was last forgotten - whatever the order and the batching (history only at Level abstract) *)
ArrivedSince(f) ==
    LET idx == {j \in 1..Len(hist) : hist[j][1] = "f" /\ FE(f) < hist[j][2]}
        from == IF idx = {} THEN 0 ELSE MaxOf(idx)
    IN  UNION {Eff(f, hist[j][3]) : j \in {j2 \in (from + 1)..Len(hist) : hist[j2][1] = "v" /\ hist[j2][2] = f}}
PoolIsUnionOfVotes ==
    Level = "abstract" => \A f \in FactSet :
        pool[f] = IF FN(f) = Local \/ f \in InState THEN {} ELSE ArrivedSince(f)

(* every combination the contract allows is one NewSuffrageWithExpels accepts (same threshold, counted
   over members that stay) and leaves a suffrage that still contains the local node *)
ConsensusAccepts ==
    \A h \in Heights : \A R \in SUBSET Live(have, h) :
        ValidCombo(pool, R) =>
            /\ Cardinality(R) < N
            /\ Local \in Member \ Targets(R)
            /\ \A f \in R : Cardinality(Counted(pool, f, R)) >= SignTh(Cardinality(Targets(R)))
                            /\ Counted(pool, f, R) \subseteq Member \ Targets(R)
(* Vote of something already known learns nothing (idempotence) *)
Idempotent == \A o \in OpSet : VoteLearns(o[1], o[2]) => (o[1] \notin have \/ ~(Eff(o[1], o[2]) \subseteq pool[o[1]]))

-----------------------------------------------------------------------------
(* the transcription against the contract (Level = "impl"); each is checked on its own *)
ImplVoteAgrees == last.call = "vote" => last.i = last.a
(* signatures are merged per fact: a stored operation holds signatures of its own fact only *)
ImplPerFact == \A f \in ihave : \A sg \in ipool[f] : sg[2] = f
(* nothing that arrived for a live member fact is lost *)
ImplNothingLost == \A f \in have : FN(f) \in Member =>
                       /\ f \in ihave
                       /\ pool[f] \subseteq {sg[1] : sg \in {s2 \in ipool[f] : s2[2] = f}}
(* what Find returns is a combination the contract allows, counting genuine signatures only *)
ImplFindSound ==
    last.call = "find" /\ last.r # {} =>
        LET R == {e[1] : e \in last.r}
            genuine(e) == {sg[1] : sg \in {s2 \in e[2] : s2[2] = e[1]}} \cap (Member \ Targets(R))
        IN  /\ \A e1, e2 \in last.r : e1[1] # e2[1] => FN(e1[1]) # FN(e2[1])
            /\ \A e \in last.r : FN(e[1]) \in Member /\ FN(e[1]) # Local
            /\ \A e \in last.r : Cardinality(genuine(e)) >= SignTh(Cardinality(Targets(R)))
            /\ \A e \in last.r : {sg[1] : sg \in e[2]} \subseteq Member \ Targets(R)
ImplFindComplete == last.call = "find" => Cardinality(last.r) >= last.k
ImplAgrees == ImplVoteAgrees /\ ImplPerFact /\ ImplNothingLost /\ ImplFindSound /\ ImplFindComplete
=============================================================================
