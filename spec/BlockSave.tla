------------------------------ MODULE BlockSave ------------------------------
(* C11 - a block is saved only for the agreed manifest, once per height.       *)
(* (The `Save` part DESIGN.md plans inside BlockProcess.tla; BlockProcess.tla   *)
(* is the module of C10, so this part is a module of its own.)                  *)
(*                                                                             *)
(* Implementation-level model of isaac.ProposalProcessors (proposal_processors *)
(* .go) holding at most one DefaultProposalProcessor (proposal_processor.go):  *)
(* Process / Save / Cancel are serialised by ProposalProcessors.l (Process      *)
(* keeps it until the processor has run), so each call is one atomic action    *)
(* at its linearization point:                                                 *)
(*   Process(p)    same fact as the current processor -> nothing; else the     *)
(*                 current one is cancelled, the proposal fetched, a new       *)
(*                 processor made and run (outcome = behaviour of proposal p:  *)
(*                 "ok" manifest, "err" error -> cancelled, "ign" ignorable    *)
(*                 error -> kept, unprocessed, "nofact" proposal not found)    *)
(*   Save(f, avp)  height <= previousSaved -> already saved; no processor or   *)
(*                 other fact -> not processed; previousSaved := height; the   *)
(*                 processor saves iff it is not saved, not cancelled and its  *)
(*                 manifest equals avp's new block -> BlockWriter.Save;        *)
(*                 the processor is dropped whatever happened                  *)
(*   Cancel        the processor is cancelled and dropped                      *)
(* A proposal p is a record [f, h, beh]; its manifest is Man(p) = p.f (the     *)
(* stub block writer derives the manifest from the proposal); an ACCEPT        *)
(* voteproof is [h, nb]: height and new-block hash (nb = fact name of the      *)
(* proposal whose manifest it is, or "x" for a hash of no proposal).           *)
(*                                                                             *)
(* Properties (from the statement), over the log of BlockWriter.Save calls:    *)
(*   AgreedOnly    every save was for Save(f, avp) with avp.nb = Man(f's       *)
(*                 proposal) and by the processor of proposal f                *)
(*   OncePerHeight heights of saved blocks strictly increase                   *)
(* Binding B: BlockSaveTrace.tla validates call/return/writer-save events of   *)
(* the real ProposalProcessors + DefaultProposalProcessor driven from several  *)
(* goroutines (linearization point per call).                                  *)
EXTENDS Integers, Sequences, FiniteSets, TLC

CONSTANTS Props,     \* proposals: set of [f, h, beh]
          Avps,      \* ACCEPT voteproofs: set of [h, nb]
          MaxOps

None == [f |-> "-", h |-> 0, st |-> "-"]

VARIABLES cur,        \* the processor held: None or [f, h, st]; st = "processed" | "failed" (cancelled) | "unprocessed"
          prevSaved,  \* ProposalProcessors.previousSaved
          wsaves,     \* log of BlockWriter.Save: sequence of [h, m, f, nb]  (block height, manifest, processor's proposal, avp new block)
          nops,
          res         \* result of the last call (output only)
vars == <<cur, prevSaved, wsaves, nops, res>>

Man(f) == f     \* manifest of proposal f
ProposalOf(f) == CHOOSE p \in Props : p.f = f

(* ---- the calls, as functions of the arguments (shared with the trace spec) ---- *)
DoProcess(p) ==
  IF cur.f = p.f THEN /\ res' = "nil" /\ UNCHANGED cur                        \* "proposal already processed"
  ELSE IF p.beh = "nofact" THEN /\ res' = "notprocessed" /\ UNCHANGED cur     \* old one cancelled, not replaced
  ELSE /\ cur' = [f |-> p.f, h |-> p.h,
                  st |-> CASE p.beh = "ok" -> "processed" [] p.beh = "err" -> "failed" [] OTHER -> "unprocessed"]
       /\ res' = CASE p.beh = "ok" -> "manifest" [] p.beh = "err" -> "error" [] OTHER -> "nil"

(* the old processor is cancelled before the fetch; a cancelled processor that is kept cannot save *)
CancelledOld(p) == cur.f # "-" /\ cur.f # p.f /\ p.beh = "nofact"

(* pv = the value of previousSaved the height check is made against: the current one when the check *)
(* is made under the lock (DoSave); BlockSaveLock.tla also describes a check made before the lock   *)
DoSaveWith(pv, f, avp) ==
  IF avp.h <= pv THEN /\ res' = "alreadysaved" /\ UNCHANGED <<prevSaved, wsaves>> /\ cur' = None   \* any error drops the processor
  ELSE IF cur.f = "-" \/ cur.f # f THEN /\ res' = "notprocessed" /\ UNCHANGED <<prevSaved, wsaves>> /\ cur' = None
  ELSE /\ prevSaved' = avp.h
       /\ cur' = None
       /\ IF cur.st = "failed" THEN res' = "error" /\ UNCHANGED wsaves            \* "already canceled"
          ELSE IF cur.st = "processed" /\ Man(cur.f) = avp.nb
               THEN /\ wsaves' = Append(wsaves, [h |-> cur.h, m |-> Man(cur.f), f |-> cur.f, nb |-> avp.nb, sf |-> f])
                    /\ res' = "saved"
               ELSE res' = "notprocessed" /\ UNCHANGED wsaves                      \* "different manifest hash with majority"

DoSave(f, avp) == DoSaveWith(prevSaved, f, avp)

ProcessStep(p) == /\ IF CancelledOld(p) THEN cur' = [cur EXCEPT !.st = "failed"] /\ res' = "notprocessed"
                     ELSE DoProcess(p)
                  /\ UNCHANGED <<prevSaved, wsaves>>
CancelStep == cur' = None /\ res' = "ok" /\ UNCHANGED <<prevSaved, wsaves>>
Process(p) == /\ nops < MaxOps /\ nops' = nops + 1 /\ ProcessStep(p)
Save(f, avp) == /\ nops < MaxOps /\ nops' = nops + 1 /\ DoSave(f, avp)
Cancel == /\ nops < MaxOps /\ nops' = nops + 1 /\ CancelStep

Init == cur = None /\ prevSaved = -1 /\ wsaves = <<>> /\ nops = 0 /\ res = ""
(* inputs: an ACCEPT voteproof whose new block is the manifest of a proposal is of that proposal's height *)
GoodAvp(a) == \A p \in Props : a.nb = Man(p.f) => a.h = p.h
Next == \/ \E p \in Props : Process(p)
        \/ \E p \in Props, a \in Avps : GoodAvp(a) /\ Save(p.f, a)
        \/ Cancel
Spec == Init /\ [][Next]_vars

TypeOK == /\ cur.st \in {"-", "processed", "failed", "unprocessed"}
          /\ prevSaved \in Int
(* ---- the statement ---- *)
AgreedOnly == \A i \in 1..Len(wsaves) :
                /\ wsaves[i].nb = wsaves[i].m            \* majority's new block = the manifest computed
                /\ wsaves[i].m = Man(wsaves[i].f)        \* ... for that proposal
                /\ wsaves[i].sf = wsaves[i].f            \* ... which is the one Save named
OncePerHeight == \A i, j \in 1..Len(wsaves) : i < j => wsaves[i].h < wsaves[j].h

(* alphabets *)
PropsA == {[f |-> "P1", h |-> 1, beh |-> "ok"], [f |-> "P2", h |-> 1, beh |-> "ok"],
           [f |-> "P3", h |-> 2, beh |-> "ok"], [f |-> "P4", h |-> 2, beh |-> "err"],
           [f |-> "P5", h |-> 2, beh |-> "ign"], [f |-> "P6", h |-> 3, beh |-> "nofact"],
           [f |-> "P7", h |-> 3, beh |-> "ok"]}
AvpsA == {[h |-> 1, nb |-> "P1"], [h |-> 1, nb |-> "P2"], [h |-> 2, nb |-> "P3"], [h |-> 2, nb |-> "P4"],
          [h |-> 2, nb |-> "P5"], [h |-> 3, nb |-> "P7"], [h |-> 1, nb |-> "x"], [h |-> 2, nb |-> "x"],
          [h |-> 3, nb |-> "x"], [h |-> 0, nb |-> "x"]}
=============================================================================
