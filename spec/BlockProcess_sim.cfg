SPECIFICATION Spec
CONSTANTS
  World = "A"
  MaxOps = 5
  Workers = {2, 3, 64}
  CatIds = {}
INVARIANTS Confluent ResultsOnce WorkerBound WorldOK
CHECK_DEADLOCK FALSE
