SPECIFICATION Spec
CONSTANTS
  Shapes = {"full", "rejected"}
  MaxTampers = 1
  TamperSet = {"ops_drop", "ops_dup", "ops_alter", "ops_extra", "ops_foreign_tree", "ops_item_dropped", "sts_missing", "sts_extra", "sts_alter", "sts_foreign_tree", "sts_height", "proposal_other", "proposal_height", "vps_other_block", "vps_other_round", "ivp_prev", "ivp_next", "ivp_round", "avp_prev", "avp_next", "avp_other_newblock", "avp_draw", "checksum", "map_unsigned"}
  AllOrders = FALSE
  OrderSet <- OrdersQuick
INVARIANTS StoredOnlyIfStorable StoredOnlyIfValidatorAccepts
VIEW View
CHECK_DEADLOCK FALSE
