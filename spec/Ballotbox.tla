----------------------------- MODULE Ballotbox -----------------------------
(* The ballot box of isaac/states/ballotbox.go (properties C04 and C05).       *)
(*                                                                           *)
(* What is modelled. The box keeps one *record object* per (stage point,      *)
(* suffrage-confirm flag) under a string key (recs), the last point (last,    *)
(* isaac/lastpoint.go), a list of records waiting to be recycled (removed)    *)
(* and hands finished record objects back to a recycle pool (pool, puts).     *)
(*   Vote(b)       Ballotbox.Vote: checkBallot, isNewBallot, newVoterecords    *)
(*                 (get-or-create; a new record object is taken from the pool  *)
(*                 or is fresh), voterecords.vote                              *)
(*   Count(id)     countVoterecords of one record (the goroutine Vote spawns,  *)
(*                 Ballotbox.Count, MissingNodes): emits a voteproof, finishes *)
(*                 the record, advances the last point; holds the count lock   *)
(*                 until Clean has run                                         *)
(*   Clean         Ballotbox.clean: previous `removed` -> pool, records whose   *)
(*                 stage point lies before the last point -> `removed` and out *)
(*                 of recs                                                     *)
(*   SetLastPoint  Ballotbox.SetLastPoint (advance without a clean cycle)      *)
(*   Tick(id)      the ticker of the box (Ballotbox.start -> countHoldeds ->   *)
(*                 voterecords.countHolded): a record whose count was *held*   *)
(*                 back (INIT stage, draw while expels are not yet agreed;     *)
(*                 voterecords.countAfter) is counted once the hold has        *)
(*                 expired - without the count lock, without moving the last   *)
(*                 point and without a clean cycle                             *)
(*   Read          a voteproof is read from Ballotbox.Voteproof()              *)
(* Two levels. What a count may emit is stated abstractly (Sound, from the    *)
(* statement of C04: own stage point, distinct suffrage nodes, accepted        *)
(* ballots, result = fresh recount, recount over the reduced suffrage at 100% *)
(* when the voteproof carries expels - the rule every other node validates    *)
(* with). ImplCandidates transcribes what voterecords.countFromVoted /        *)
(* countWithExpels do; ImplEmitsSound compares the two. Clean is the          *)
(* transcription of Ballotbox.clean (removal key computed from the *record*,  *)
(* prefix CleanSC); CleanReleases compares it with the abstract release.      *)
(* Tick is stated abstractly (TickGuard = "sound": only for a stage point     *)
(* the box is still voting on) and transcribed ("impl": the filter of          *)
(* unfinishedVoterecords plus the check voterecords.count makes itself;        *)
(* "coarse": the filter of the caller alone); EmitNew compares them.           *)
(* The properties are written from the statements of C04/C05.                 *)
(*                                                                           *)
(* Binding B: BallotboxTrace.tla validates executions recorded from a real    *)
(* isaacstates.Ballotbox (harness/internal/c04); behaviours of this module    *)
(* (-simulate, counterexamples of the implementation-level configs) are the   *)
(* input scripts of those executions.                                         *)
EXTENDS Integers, FiniteSets, Sequences, TLC, Json

CONSTANTS
  Node0,     \* the suffrage (model node names; the harness maps them to real nodes with keys)
  Local0,    \* the node owning the box
  T100,      \* threshold in tenths of a percent (670 = 67.0)
  EmitStep,  \* fill the output variable `step` (behaviour export) or leave it empty (exhaustive runs)
  Heights, Rounds, Stages, Facts,
  ExSets,    \* the sets of expelled nodes a ballot may carry (contains {})
  AllowSC,   \* suffrage-confirm ballots in the closed model?
  MaxId,     \* record objects 1..MaxId
  MaxVotes,  \* bound on Vote steps
  MaxChan,   \* bound on unread voteproofs
  MaxSet,    \* bound on SetLastPoint steps
  StoreSC,   \* key prefix under which suffrage-confirm records are stored ("sf-")
  CleanSC,   \* key prefix clean() computes for them ("sf-" by design; the pinned tree used "sign-")
  CountRule, \* "sound": a count emits any sound candidate; "impl": what countFromVoted does
  EagerCount,\* TRUE: a pending count runs before the next Vote (a sequential caller that lets the box come to rest)
  Holds,     \* TRUE: a count may hold a record back (voterecords.countAfter) for the ticker
  MaxTick,   \* bound on Tick steps that emit
  TickGuard  \* "sound": the ticker counts a held record only while the box votes on its stage point;
             \* "impl": what countHoldeds / countHolded / count check; "coarse": what countHoldeds checks itself

(* the suffrage, its owner and the threshold are state (constant in this module:   *)
(* Init takes them from Node0/Local0/T100; the trace module sets them per history)  *)
VARIABLES Node, Local, T10
cvars == <<Node, Local, T10>>

INIT == 1
ACCEPT == 3          \* base/stage.go statesmap

(* ------------------------------------------------------------------ points *)
ZeroSP == [h |-> -1, r |-> 0, s |-> 0]
SPs == [h : Heights, r : Rounds, s : {INIT, ACCEPT}]

SPCmp(a, b) ==
  IF a.h # b.h THEN (IF a.h > b.h THEN 1 ELSE -1)
  ELSE IF a.r # b.r THEN (IF a.r > b.r THEN 1 ELSE -1)
  ELSE IF a.s # b.s THEN (IF a.s > b.s THEN 1 ELSE -1)
  ELSE 0

ZeroLP == [h |-> -1, r |-> 0, s |-> 0, maj |-> FALSE, sc |-> FALSE]
SPOf(x) == [h |-> x.h, r |-> x.r, s |-> x.s]
IsZeroLP(l) == l.h < 0 \/ l.s \notin {INIT, ACCEPT}

(* isaac/lastpoint.go: is (p, sc) still "new" with respect to the last point l *)
BeforeSame(l, p, sc) ==
  IF sc THEN ~l.sc
  ELSE IF ~l.maj THEN FALSE
  ELSE p.s # l.s
BeforeNotSame(l, p, sc) ==
  IF l.maj /\ p.s < l.s THEN FALSE
  ELSE IF SPCmp(p, SPOf(l)) > 0 THEN TRUE
  ELSE sc /\ ~l.maj
Before(l, p, sc) ==
  IF IsZeroLP(l) THEN TRUE
  ELSE IF p.h # l.h THEN p.h > l.h
  ELSE IF p.r = l.r /\ p.s >= l.s THEN BeforeSame(l, p, sc)
  ELSE BeforeNotSame(l, p, sc)
IsNewVP(l, p, maj, sc) ==
  \/ Before(l, p, sc)
  \/ ~l.maj /\ maj /\ p.h = l.h /\ p.r = l.r /\ p.s >= l.s
(* filter of countVoterecords: isNewVoteproofWithSuffrageConfirmFunc *)
IsNewVPForRecord(isc, l, p, maj, sc) == IsNewVP(l, p, maj, sc) \/ (isc /\ ~l.maj)

(* the box has moved past stage point p *)
Passed(l, p) == ~IsZeroLP(l) /\ SPCmp(p, SPOf(l)) < 0

(* ------------------------------------------------------------------- tally *)
(* as Tally.tla (C01/C02), over a set of votes [node, f, ex]; a fact is       *)
(* identified by (f, ex): the expel facts are part of the ballot fact's hash  *)
Req(n, tt) == (n * tt + 999) \div 1000
FK(v) == <<v.f, v.ex>>
FKs(V) == {FK(v) : v \in V}
Cnt(V, k) == Cardinality({v \in V : FK(v) = k})
Min2(a, b) == IF a < b THEN a ELSE b
Tally(q, rq, V) ==          \* [res, maj]
  LET th == Min2(rq, q)
      tot == Cardinality(V)
      miss == IF tot >= q THEN 0 ELSE q - tot
      M == {k \in FKs(V) : Cnt(V, k) >= th}
  IN IF M # {} THEN [res |-> "MAJORITY", maj |-> M]
     ELSE IF tot > 0 /\ miss < th /\ \A k \in FKs(V) : Cnt(V, k) + miss < th
          THEN [res |-> "DRAW", maj |-> {}]
          ELSE [res |-> "NOT YET", maj |-> {}]

Voters(V) == {v.node : v \in V}
NoFK == <<"", {}>>

(* a voteproof: stage point, is its majority a suffrage-confirm fact, result,  *)
(* majority fact, the sign facts it contains, the expelled nodes it carries    *)
VP(p, sc, res, mk, V, X) == [h |-> p.h, r |-> p.r, s |-> p.s, sc |-> sc, res |-> res, mk |-> mk, sfs |-> V, ex |-> X]

(* C04 (ii)-(iv): vp is a sound voteproof over the accepted ballots A of one   *)
(* (stage point, flag); n = suffrage size                                       *)
RecountT(vp, tt) ==
  LET n == Cardinality(Node) IN
  IF vp.ex = {} THEN Tally(n, Req(n, tt), vp.sfs)
  ELSE Tally(n - Cardinality(vp.ex), n - Cardinality(vp.ex), vp.sfs)
Sound(vp, A) ==
  /\ vp.sfs \subseteq A /\ vp.sfs # {}
  /\ Voters(vp.sfs) \subseteq Node
  /\ Cardinality(Voters(vp.sfs)) = Cardinality(vp.sfs)          \* pairwise distinct nodes
  /\ Voters(vp.sfs) \cap vp.ex = {}                               \* an expelled node does not vote
  /\ vp.ex \subseteq Node
  /\ LET t == RecountT(vp, T10) IN
       /\ vp.res = t.res
       /\ vp.res # "NOT YET"
       /\ vp.res = "MAJORITY" => vp.mk \in t.maj
       /\ vp.res = "DRAW" => vp.mk = NoFK
  /\ (vp.ex # {} /\ vp.res = "MAJORITY" /\ vp.mk[2] # {}) => vp.mk[2] = vp.ex

(* every sound voteproof a record with votes V (flag isc) can be finished with *)
SoundCandidates(p, isc, V) ==
  LET cand(X) ==
        LET S == {v \in V : v.node \notin X}
            t == IF X = {} THEN Tally(Cardinality(Node), Req(Cardinality(Node), T10), S)
                 ELSE Tally(Cardinality(Node) - Cardinality(X), Cardinality(Node) - Cardinality(X), S)
        IN IF S = {} \/ t.res = "NOT YET" THEN {}
           ELSE IF t.res = "DRAW" THEN {VP(p, FALSE, "DRAW", NoFK, S, X)}
           ELSE {VP(p, isc, "MAJORITY", k, S, X) : k \in {kk \in t.maj : X = {} \/ kk[2] = {} \/ kk[2] = X}}
  IN UNION {cand(X) : X \in {{}} \cup {v.ex : v \in V}}

(* transcription of voterecords.countFromVoted / countWithExpels /            *)
(* sortBallotSignFactsByExpels: every distinct expel set X carried by a vote   *)
(* (not naming the local node) is an entry; entries are tried largest first    *)
(* (the order among equals is a map's): the votes of the nodes X does not      *)
(* expel are tallied with threshold T over the full suffrage - unless more     *)
(* than n - Req(n, 67%) nodes are expelled, then at 100% over n - |X|. The     *)
(* first entry that is decided stops the search: MAJORITY => an expel          *)
(* voteproof with threshold T; DRAW => as if nothing was found. Otherwise the  *)
(* plain tally of all votes (a DRAW with pending INIT expels is held back for  *)
(* a while before it is emitted).                                              *)
ImplCandidates(p, isc, V) ==
  LET n == Cardinality(Node)
      XS == {v.ex : v \in {w \in V : w.ex # {} /\ Local \notin w.ex}}
      S(X) == {v \in V : v.node \notin X}
      big(X) == Cardinality(X) > n - Req(n, 670)
      q(X) == IF big(X) THEN n - Cardinality(X) ELSE n
      rq(X) == IF big(X) THEN q(X) ELSE Req(n, T10)
      t(X) == Tally(q(X), rq(X), S(X))
      decided(X) == Cardinality(S(X)) >= Min2(rq(X), q(X)) /\ t(X).res # "NOT YET"
      first == {X \in XS : decided(X) /\ \A Y \in XS : Cardinality(Y) > Cardinality(X) => ~decided(Y)}
      plain == LET tp == Tally(n, Req(n, T10), V) IN
               IF tp.res = "NOT YET" THEN {}
               ELSE IF tp.res = "DRAW" THEN {VP(p, FALSE, "DRAW", NoFK, V, {})}
               ELSE {VP(p, isc, "MAJORITY", k, V, {}) : k \in tp.maj}
  IN UNION {IF t(X).res = "MAJORITY" THEN {VP(p, isc, "MAJORITY", k, S(X), X) : k \in t(X).maj} ELSE plain : X \in first}
     \cup (IF first = {} THEN plain ELSE {})

(* the hold of countFromVoted: an INIT record whose votes carry expels no entry  *)
(* of which is decided with a majority ("expels not yet"), and whose plain tally *)
(* is a draw, is not finished at once: voterecords.countAfter is set and the     *)
(* draw is emitted by a later count or by the ticker once the hold has expired   *)
ImplHoldable(p, isc, V) ==
  LET n == Cardinality(Node)
      XS == {v.ex : v \in {w \in V : w.ex # {} /\ Local \notin w.ex}}
      S(X) == {v \in V : v.node \notin X}
      big(X) == Cardinality(X) > n - Req(n, 670)
      q(X) == IF big(X) THEN n - Cardinality(X) ELSE n
      rq(X) == IF big(X) THEN q(X) ELSE Req(n, T10)
      t(X) == Tally(q(X), rq(X), S(X))
      decided(X) == Cardinality(S(X)) >= Min2(rq(X), q(X)) /\ t(X).res # "NOT YET"
      first == {X \in XS : decided(X) /\ \A Y \in XS : Cardinality(Y) > Cardinality(X) => ~decided(Y)}
  IN /\ Holds /\ p.s = INIT /\ ~isc /\ V # {}
     /\ XS # {}
     /\ first = {} \/ \E X \in first : t(X).res # "MAJORITY"
     /\ Tally(n, Req(n, T10), V).res = "DRAW"

(* -------------------------------------------------------------------- state *)
VARIABLES
  last,      \* last point
  recs,      \* key -> record object id          (Ballotbox.vrs)
  robj,      \* id -> [sp, isc, votes, fin, held] the record objects' fields (held: countAfter is set)
  removed,   \* set of ids                       (Ballotbox.removed)
  pool,      \* id -> how often it is in the recycle pool
  puts,      \* id -> how often it has been handed back to the pool
  gen,       \* id -> how often it has been handed out (uses)
  mat,       \* key -> accepted ballots (history of Vote results; ghost)
  chan,      \* emitted, unread voteproofs
  cleaning,  \* the count lock is held: a count has emitted and clean() is about to run
  nvotes, nset, nticks,
  step       \* output only
vars == <<Node, Local, T10, last, recs, robj, removed, pool, puts, gen, mat, chan, cleaning, nvotes, nset, nticks, step>>
view == <<last, recs, robj, removed, pool, puts, gen, mat, chan, cleaning, nvotes, nset, nticks>>

J(x) == IF EmitStep THEN ToJson(x) ELSE ""
Get(f, k) == IF k \in DOMAIN f THEN f[k] ELSE 0
Inc(f, k) == [j \in DOMAIN f \cup {k} |-> Get(f, j) + IF j = k THEN 1 ELSE 0]
Dec(f, k) == [j \in DOMAIN f |-> IF j = k /\ f[j] > 0 THEN f[j] - 1 ELSE f[j]]
Restrict(f, D) == [k \in D |-> f[k]]
Range(f) == {f[k] : k \in DOMAIN f}

KeyOf(p, isc, scprefix) == [p |-> IF isc THEN scprefix ELSE "", sp |-> p]
StoreKey(p, isc) == KeyOf(p, isc, StoreSC)
KeyIsSC(k) == k.p # ""

Ballots == {b \in [node : Node0, h : Heights, r : Rounds, s : Stages, sc : BOOLEAN, f : Facts, ex : ExSets] :
              /\ b.sc => (AllowSC /\ b.s = INIT /\ b.ex # {})
              /\ b.node \notin b.ex}
VoteOf(b) == [node |-> b.node, f |-> b.f, ex |-> b.ex]

Init ==
  /\ Node = Node0 /\ Local = Local0 /\ T10 = T100
  /\ last = ZeroLP
  /\ recs = <<>> /\ robj = <<>> /\ removed = {}
  /\ pool = <<>> /\ puts = <<>> /\ gen = <<>>
  /\ mat = <<>>
  /\ chan = <<>> /\ cleaning = FALSE /\ nvotes = 0 /\ nset = 0 /\ nticks = 0
  /\ step = ""

(* checkBallot + isNewBallot of Ballotbox.Vote/vote *)
(* a suffrage-confirm ballot takes its expels from the voteproof it carries *)
Admissible(b, evpex) == b.node \in Node /\ Local \notin evpex /\ (b.sc \/ Local \notin b.ex)
IsNewBallot(b) == Before(last, SPOf(b), b.sc)

(* the record object's own admission (voterecords.vote) *)
RecordAccepts(o, b) ==
  /\ o.sp # ZeroSP
  /\ Before(last, o.sp, o.isc)
  /\ ~o.fin
  /\ b.node \notin Voters(o.votes)

FreshIds == LET U == {i \in 1..MaxId : Get(gen, i) = 0} IN
            IF U = {} THEN {} ELSE {CHOOSE i \in U : \A j \in U : i <= j}
AvailIds == {i \in DOMAIN pool : pool[i] > 0} \cup FreshIds

(* result of Vote(b) and its effect on recs/robj/pool/gen/mat when the new    *)
(* record object (if one is needed) is `id`                                    *)
VoteEffect(b, evpex, id, voted) ==
  LET k == StoreKey(SPOf(b), b.sc) IN
  IF ~Admissible(b, evpex) \/ ~IsNewBallot(b)
  THEN /\ voted = FALSE
       /\ UNCHANGED <<recs, robj, pool, gen, mat>>
  ELSE IF k \notin DOMAIN recs
  THEN /\ voted = TRUE
       /\ recs' = (k :> id) @@ recs
       /\ robj' = (id :> [sp |-> SPOf(b), isc |-> b.sc, votes |-> {VoteOf(b)}, fin |-> FALSE,
                          held |-> IF id \in DOMAIN robj THEN robj[id].held ELSE FALSE]) @@ robj
       /\ gen' = Inc(gen, id)
       /\ pool' = Dec(pool, id)
       /\ mat' = (k :> {VoteOf(b)}) @@ mat
  ELSE LET o == robj[recs[k]] IN
       /\ voted = RecordAccepts(o, b)
       /\ UNCHANGED <<recs, pool, gen>>
       /\ IF voted
          THEN /\ robj' = [robj EXCEPT ![recs[k]].votes = @ \cup {VoteOf(b)}]
               /\ mat' = [mat EXCEPT ![k] = @ \cup {VoteOf(b)}]
          ELSE UNCHANGED <<robj, mat>>

Candidates(o) == IF CountRule = "impl" THEN ImplCandidates(o.sp, o.isc, o.votes)
                 ELSE SoundCandidates(o.sp, o.isc, o.votes)
Holdable(o) == ImplHoldable(o.sp, o.isc, o.votes)
(* a held record is at rest: the next count holds it again until the hold expires *)
CountReady(id) ==
  LET o == robj[id] IN
  /\ o.sp # ZeroSP /\ Before(last, o.sp, o.isc) /\ ~o.fin /\ o.votes # {} /\ Candidates(o) # {}
  /\ ~(Holdable(o) /\ o.held)
Vote(b) ==
  /\ nvotes < MaxVotes
  /\ EagerCount => ~cleaning /\ \A id \in Range(recs) : ~CountReady(id)
  /\ nvotes' = nvotes + 1
  /\ \E id \in (IF StoreKey(SPOf(b), b.sc) \in DOMAIN recs THEN {0} ELSE AvailIds), voted \in BOOLEAN :
       /\ VoteEffect(b, {}, id, voted)
       /\ step' = J([a |-> "Vote", node |-> b.node, h |-> b.h, r |-> b.r, s |-> b.s, sc |-> b.sc,
                          f |-> b.f, ex |-> b.ex, voted |-> voted])
  /\ UNCHANGED <<last, removed, puts, chan, cleaning, nset, nticks, Node, Local, T10>>

(* SetLastPointFromVoteproof *)
NewLast(vp) == [h |-> vp.h, r |-> vp.r, s |-> vp.s, maj |-> vp.res = "MAJORITY", sc |-> vp.sc]
Advance(l, nl) == IF Before(l, SPOf(nl), nl.sc) THEN nl ELSE l


(* countVoterecords of the record object id *)
Count(id) ==
  /\ ~cleaning
  /\ id \in Range(recs)
  /\ Len(chan) < MaxChan
  /\ LET o == robj[id] IN
     /\ o.sp # ZeroSP /\ Before(last, o.sp, o.isc) /\ ~o.fin /\ o.votes # {}
     /\ \/ /\ CountRule = "impl" => (~Holdable(o) \/ o.held)     \* the first count of a holdable record holds it
           /\ \E vp \in Candidates(o) :
                /\ robj' = [robj EXCEPT ![id].fin = TRUE, ![id].held = FALSE]
                /\ IF IsNewVPForRecord(o.isc, last, SPOf(vp), vp.res = "MAJORITY", vp.sc)
                   THEN /\ last' = Advance(last, NewLast(vp))
                        /\ chan' = Append(chan, vp)
                        /\ cleaning' = TRUE
                   ELSE UNCHANGED <<last, chan, cleaning>>
        \/ /\ Holdable(o) /\ ~o.held                              \* hold: countAfter is set, nothing is emitted
           /\ robj' = [robj EXCEPT ![id].held = TRUE]
           /\ UNCHANGED <<last, chan, cleaning>>
     /\ step' = J([a |-> "Count", h |-> o.sp.h, r |-> o.sp.r, s |-> o.sp.s, sc |-> o.isc])
  /\ UNCHANGED <<recs, removed, pool, puts, gen, mat, nvotes, nset, nticks, Node, Local, T10>>

(* countHoldeds / countHolded of the held record object id, the hold having    *)
(* expired. What the statement allows: the record is counted like any other,   *)
(* but only while the box is voting on its stage point.                        *)
TickFilter(o) ==      \* unfinishedVoterecords: not finished, not at or behind the last stage point, no removed twin
  /\ ~o.fin
  /\ IsZeroLP(last) \/ SPCmp(o.sp, SPOf(last)) > 0
  /\ \A j \in removed : robj[j].sp # o.sp
TickAdmits(o) ==
  CASE TickGuard = "sound"  -> Before(last, o.sp, o.isc)
    [] TickGuard = "impl"   -> TickFilter(o) /\ Before(last, o.sp, o.isc)
    [] TickGuard = "coarse" -> TickFilter(o)
Tick(id) ==
  /\ nticks < MaxTick /\ nticks' = nticks + 1
  /\ id \in Range(recs)
  /\ Len(chan) < MaxChan
  /\ LET o == robj[id] IN
     /\ o.held /\ o.sp # ZeroSP /\ ~o.fin /\ o.votes # {}
     /\ TickAdmits(o)
     /\ \E vp \in Candidates(o) :
          /\ robj' = [robj EXCEPT ![id].fin = TRUE, ![id].held = FALSE]
          /\ chan' = Append(chan, vp)
     /\ step' = J([a |-> "Tick", h |-> o.sp.h, r |-> o.sp.r, s |-> o.sp.s, sc |-> o.isc])
  /\ UNCHANGED <<last, recs, removed, pool, puts, gen, mat, cleaning, nvotes, nset, Node, Local, T10>>

(* what the statement of C05 asks of a clean cycle: every record whose stage   *)
(* point the box has moved past leaves recs                                    *)
ReleasedKeys(rc, l) == {k \in DOMAIN rc : Passed(l, k.sp)}

(* transcription of Ballotbox.clean *)
Clean ==
  /\ cleaning
  /\ cleaning' = FALSE
  /\ LET robj1 == [i \in DOMAIN robj |-> IF i \in removed THEN [robj[i] EXCEPT !.sp = ZeroSP, !.votes = {}] ELSE robj[i]]
         pool1 == [i \in DOMAIN pool \cup removed |-> Get(pool, i) + IF i \in removed THEN 1 ELSE 0]
         puts1 == [i \in DOMAIN puts \cup removed |-> Get(puts, i) + IF i \in removed THEN 1 ELSE 0]
         coll  == IF IsZeroLP(last) THEN {} ELSE {i \in Range(recs) : SPCmp(robj1[i].sp, SPOf(last)) < 0}
         gone  == {KeyOf(robj1[i].sp, robj1[i].isc, CleanSC) : i \in coll}
     IN /\ robj' = robj1 /\ pool' = pool1 /\ puts' = puts1
        /\ removed' = coll
        /\ recs' = Restrict(recs, DOMAIN recs \ gone)
        /\ mat' = Restrict(mat, DOMAIN mat \ ReleasedKeys(recs, last))
  /\ step' = J([a |-> "Clean"])
  /\ UNCHANGED <<last, gen, chan, nvotes, nset, nticks, Node, Local, T10>>

LPs == [h : Heights, r : Rounds, s : {INIT, ACCEPT}, maj : BOOLEAN, sc : {FALSE}]
SetLastPoint(p) ==
  /\ nset < MaxSet /\ nset' = nset + 1
  /\ Before(last, SPOf(p), p.sc)
  /\ last' = p
  /\ step' = J([a |-> "SetLast", h |-> p.h, r |-> p.r, s |-> p.s, maj |-> p.maj, sc |-> p.sc])
  /\ UNCHANGED <<recs, robj, removed, pool, puts, gen, mat, chan, cleaning, nvotes, nticks, Node, Local, T10>>

Read ==
  /\ chan # <<>>
  /\ chan' = Tail(chan)
  /\ step' = ""
  /\ UNCHANGED <<last, recs, robj, removed, pool, puts, gen, mat, cleaning, nvotes, nset, nticks, Node, Local, T10>>

Next ==
  \/ \E b \in Ballots : Vote(b)
  \/ \E id \in 1..MaxId : Count(id)
  \/ \E id \in 1..MaxId : Tick(id)
  \/ Clean
  \/ \E p \in LPs : SetLastPoint(p)
  \/ Read
Spec == Init /\ [][Next]_vars

(* --------------------------------------------------------------- properties *)
(* C05, read operations (Ballotbox.Voted / MissingNodes consult the plain      *)
(* record of the stage point only)                                             *)
VotedOf(p, nodes) ==
  LET k == StoreKey(p, FALSE) IN
  IF k \in DOMAIN recs THEN {v \in robj[recs[k]].votes : v.node \in nodes} ELSE {}
MissingOf(p) ==
  LET k == StoreKey(p, FALSE) IN
  IF k \notin DOMAIN recs \/ robj[recs[k]].fin THEN {}
  ELSE (Node \ {Local}) \ Voters(robj[recs[k]].votes)

TypeOK ==
  /\ \A k \in DOMAIN recs : k.sp \in SPs /\ recs[k] \in 1..MaxId
  /\ removed \subseteq 1..MaxId
  /\ cleaning \in BOOLEAN

(* C05 a: what a stage point's record holds is exactly what was accepted for   *)
(* that (stage point, flag) - so Voted, MissingNodes and any voteproof counted  *)
(* from it depend on nothing else                                               *)
ReadsIsolated ==
  /\ DOMAIN mat = DOMAIN recs
  /\ \A k \in DOMAIN recs : robj[recs[k]].votes = mat[k]
  /\ \A p \in SPs : /\ VotedOf(p, Node) = (IF StoreKey(p, FALSE) \in DOMAIN mat THEN mat[StoreKey(p, FALSE)] ELSE {})
                    /\ MissingOf(p) \cap Voters(VotedOf(p, Node)) = {}
KeyMatchesRecord ==
  \A k \in DOMAIN recs : robj[recs[k]].sp = k.sp /\ robj[recs[k]].isc = KeyIsSC(k) /\ k.p \in {"", StoreSC}

(* C05 b: a record object is reachable under at most one key, and never while  *)
(* it waits for, or is in, the recycle pool                                     *)
NoAliasing ==
  /\ \A k1, k2 \in DOMAIN recs : recs[k1] = recs[k2] => k1 = k2
  /\ Range(recs) \cap removed = {}
  /\ \A i \in DOMAIN pool : pool[i] > 0 => i \notin Range(recs) /\ i \notin removed
  /\ \A i \in DOMAIN pool : pool[i] <= 1
InUse(i) == IF i \in Range(recs) \/ i \in removed THEN 1 ELSE 0
(* ... and is handed back exactly once per use *)
PutOncePerUse == \A i \in DOMAIN gen : Get(puts, i) <= gen[i]
PutExactlyOncePerUse == \A i \in DOMAIN gen : Get(puts, i) = gen[i] - InUse(i)

(* after a clean cycle no record of a passed stage point - plain or            *)
(* suffrage-confirm - is reachable                                              *)
CleanReleases ==
  [][cleaning /\ ~cleaning' => DOMAIN recs' = DOMAIN recs \ ReleasedKeys(recs, last)]_vars
NothingPassedAfterClean ==
  [][cleaning /\ ~cleaning' => ReleasedKeys(recs', last') = {}]_vars
(* released records are not consulted: no read returns anything for a passed    *)
(* point once a clean cycle has run                                             *)
NotConsulted ==
  [][cleaning /\ ~cleaning' => \A p \in SPs : Passed(last', p) => VotedOf(p, Node)' = {} /\ MissingOf(p)' = {}]_vars

(* C04: whatever is emitted is sound over the ballots accepted for its own     *)
(* stage point and flag (checked when it is emitted: mat is pruned by Clean)    *)
RecFlagOf(vp) == IF vp.res = "MAJORITY" THEN vp.sc ELSE FALSE
EmitSound ==
  [][\A i \in DOMAIN robj :
        (i \in DOMAIN robj' /\ ~robj[i].fin /\ robj'[i].fin /\ Len(chan') > Len(chan)) =>
           LET vp == chan'[Len(chan')]
               k  == StoreKey(SPOf(vp), robj[i].isc)
           IN /\ SPOf(vp) = robj[i].sp
              /\ k \in DOMAIN mat
              /\ Sound(vp, mat[k])]_vars
(* C04: ... and is for a stage point the box is voting on: one it would still  *)
(* accept a ballot for (new with respect to its last point) at that moment      *)
VotingOn(l, p, isc) == Before(l, p, isc)
EmitNew ==
  [][\A i \in DOMAIN robj :
        (i \in DOMAIN robj' /\ ~robj[i].fin /\ robj'[i].fin /\ Len(chan') > Len(chan)) =>
           VotingOn(last, robj[i].sp, robj[i].isc)]_vars
(* the implementation-level count emits nothing the statement does not allow   *)
ImplEmitsSound ==
  \A k \in DOMAIN recs :
     LET o == robj[recs[k]] IN
     (~o.fin /\ o.sp # ZeroSP) =>
        \A vp \in ImplCandidates(o.sp, o.isc, o.votes) : Sound(vp, mat[k])

(* ... in particular the expels an emitted voteproof carries are those its      *)
(* majority fact names (Voteproof.IsValid compares them)                        *)
ImplExpelsMatchMajority ==
  \A k \in DOMAIN recs :
     LET o == robj[recs[k]] IN
     (~o.fin /\ o.sp # ZeroSP) =>
        \A vp \in ImplCandidates(o.sp, o.isc, o.votes) :
           (vp.ex # {} /\ vp.res = "MAJORITY" /\ vp.mk[2] # {}) => vp.mk[2] = vp.ex

(* reachability witnesses (negations are checked to fail in development)       *)
NoSCRelease == [][~(cleaning /\ ~cleaning' /\ \E k \in ReleasedKeys(recs, last) : KeyIsSC(k))]_vars
NoHold == \A i \in DOMAIN robj : ~robj[i].held
NoTickEmit == [][nticks' = nticks]_vars
(* a held record whose stage point the box has stopped voting on although it lies behind no later stage point *)
NoClosedHeld == \A k \in DOMAIN recs : LET o == robj[recs[k]] IN
                  ~(o.held /\ ~o.fin /\ TickFilter(o) /\ ~Before(last, o.sp, o.isc))
=============================================================================
