SPECIFICATION ShardSpec
CONSTANTS
  NK = 2
  MaxVal = 9
  NG = 3
  NSlots = 2
  MaxOps = 1
  Modes = {"locked"}
  Forced = FALSE
  OpSet = {"SetValue", "GetOrCreate", "Value", "RemoveValue"}
INVARIANTS ShardTypeOK Refines ContentAgrees OrphanEmpty LenAtRest
PROPERTY SlotStable
CHECK_DEADLOCK FALSE
