SPECIFICATION Spec
CONSTANTS
  Counts = {1, 2, 3, 4, 5, 6, 7, 8, 9, 10}
  Limits = {1, 2, 3, 4, 5, 6, 7, 8, 9, 10, 11}
  Froms = {0, 5}
  FaultKinds = {"map-notfound", "map-error", "new-importer", "save", "deferred", "merge"}
  Variants = {"fixed"}
  Interleave = TRUE
  Emit = FALSE
INVARIANTS TypeOK SuccessMeansStored LastMergedIsB FaultMeansError NoPanic
  NoFaultMeansOk SavedOnce MergedInOrder SavedIsPrefix PermSubsetMergedSubsetSaved SlotsAreBatchHeights
PROPERTIES NothingLost Terminates
CHECK_DEADLOCK FALSE
