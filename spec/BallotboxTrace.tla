-------------------------- MODULE BallotboxTrace --------------------------
(* Binding B for C04 and C05: executions recorded from a real                 *)
(* isaacstates.Ballotbox (harness/internal/c04) are validated against         *)
(* Ballotbox.tla.                                                             *)
(*                                                                           *)
(* One event per call; every event carries what the box exposes after the     *)
(* call has come to rest (the goroutine Vote spawns has finished): the        *)
(* voteproofs read from Ballotbox.Voteproof(), Ballotbox.LastPoint(), the     *)
(* verif accessor's view of the records (key, object identity, the object's   *)
(* own stage point and flag, its votes, finished), the `removed` list and the *)
(* pool-put counter's increments. The sequential part of a history is         *)
(* deterministic given the identities the pool hands out and the voteproofs   *)
(* the counts emit; both are taken from the event (what may be emitted and    *)
(* which object may be handed out is *checked*, C04 soundness / pool          *)
(* identity), everything else is computed with the operators of Ballotbox:    *)
(* admission of a ballot (Admissible, IsNewBallot, RecordAccepts), the        *)
(* release a clean cycle owes (ReleasedKeys), the pool and put counters, the  *)
(* reads (VotedOf, MissingOf). Each observation is compared with the spec's   *)
(* state by class; a difference is printed (<<"MISMATCH", class, line, info>>) *)
(* and the observed state is adopted so that validation goes on. Concurrent   *)
(* parts (Call/Ret events of several goroutines, one observation at rest) are *)
(* judged by schedule-independent facts only.                                 *)
(* A Tick event is one run of the box's own ticker (Ballotbox.Start with a    *)
(* short interval, the holds expired, Stop): held records are counted by      *)
(* countHoldeds. Whether a record is held is not observable, so a Tick - like  *)
(* every other call - is judged by what it emitted: sound (CheckVP) and, for   *)
(* every call kind, for a stage point the box was voting on when the voteproof *)
(* was emitted (CheckNew: new with respect to the last point as it stood       *)
(* before the call or after an earlier voteproof of the same call).            *)
EXTENDS Ballotbox

Trace == ndJsonDeserialize("trace.ndjson")
VARIABLES l,        \* index of the next event
          handed,   \* names of the voteproofs embedded in ballots handed to Vote
          dead,     \* record objects abandoned with an earlier ballot box
          acc,      \* concurrent part: key -> ballots whose Vote returned true
          calls,    \* concurrent part: call id -> its Call event
          setlast,  \* concurrent part: some thread called SetLastPoint
          sufk      \* the box knows the suffrage of the heights <= sufk only (a lagging node)
tvars == <<vars, l, handed, dead, acc, calls, setlast, sufk>>
Ev == Trace[l]

SetOf(s) == {s[i] : i \in 1..Len(s)}
Expect(class, ok, info) == IF ok THEN TRUE ELSE PrintT(<<"MISMATCH", class, l, info>>)
Consume == l <= Len(Trace) /\ l' = l + 1

(* ------------------------------------------------------- the observation *)
LPOf(e) == IF e.s \notin {INIT, ACCEPT} THEN ZeroLP ELSE [h |-> e.h, r |-> e.r, s |-> e.s, maj |-> e.maj, sc |-> e.sc]
OKey(e) == [p |-> e.kp, sp |-> [h |-> e.kh, r |-> e.kr, s |-> e.ks]]
VotesOf(vs) == {[node |-> vs[i].n, f |-> vs[i].f, ex |-> SetOf(vs[i].ex)] : i \in 1..Len(vs)}
(* everything read from the event once: keys, key -> object id, id -> object fields, removed ids, put increments *)
Obs ==
  LET R == Ev.recs
      I == 1..Len(R)
      K == {OKey(R[i]) : i \in I}
      D == {R[i].id : i \in I}
  IN [keys |-> K,
      recs |-> [k \in K |-> R[CHOOSE i \in I : OKey(R[i]) = k].id],
      ids  |-> D,
      obj  |-> [id \in D |-> LET e == R[CHOOSE i \in I : R[i].id = id] IN
                             [sp |-> [h |-> e.h, r |-> e.r, s |-> e.s], isc |-> e.sc, votes |-> VotesOf(e.votes), fin |-> e.fin,
                              held |-> FALSE]],
      removed |-> {Ev.removed[i].id : i \in 1..Len(Ev.removed)},
      pd |-> [id \in {Ev.pd[i][1] : i \in 1..Len(Ev.pd)} |-> Ev.pd[CHOOSE i \in 1..Len(Ev.pd) : Ev.pd[i][1] = id][2]]]
ObsIdOf(O, k) ==    \* the object the box holds (or has just released) for key k; unknown: a unique negative number
  IF k \in O.keys THEN O.recs[k]
  ELSE LET C == {i \in 1..Len(Ev.removed) : /\ [h |-> Ev.removed[i].h, r |-> Ev.removed[i].r, s |-> Ev.removed[i].s] = k.sp
                                             /\ Ev.removed[i].sc = KeyIsSC(k)}
       IN IF C # {} THEN Ev.removed[CHOOSE i \in C : TRUE].id ELSE 0 - l

(* --------------------------------------------------- C04: emitted voteproofs *)
VPRec(v) == VP([h |-> v.h, r |-> v.r, s |-> v.s], v.sc, v.res,
               IF v.res = "MAJORITY" THEN <<v.mf, SetOf(v.mex)>> ELSE NoFK,
               VotesOf(v.sfs), {v.ex[i].n : i \in 1..Len(v.ex)})
SfsOwnPoint(v, flag) == \A i \in 1..Len(v.sfs) : /\ v.sfs[i].h = v.h /\ v.sfs[i].r = v.r /\ v.sfs[i].s = v.s
                                                  /\ v.sfs[i].sc = flag
SfsDistinct(v) == Cardinality({v.sfs[i].n : i \in 1..Len(v.sfs)}) = Len(v.sfs)
SfsInSuffrage(v) == {v.sfs[i].n : i \in 1..Len(v.sfs)} \subseteq Node
RecountOK(v) ==
  LET vp == VPRec(v)  t == RecountT(vp, v.th10) IN
  /\ vp.sfs # {}
  /\ vp.res = t.res
  /\ vp.res = "MAJORITY" => vp.mk \in t.maj
(* m: the accepted ballots per key at the time of the count; hd: handed names *)
(* A forwarded voteproof (taken out of a ballot) is data chosen by the ballot's sender: ID, stage point,   *)
(* claimed result and threshold prove nothing - also when they repeat those of a voteproof the box has    *)
(* emitted before. It is judged by its content alone: the very voteproof some handed ballot embedded       *)
(* (v.fwd names it by content; "?..": the ID of an embedded voteproof with another content) and a sound    *)
(* voteproof of the suffrage (both validators, signers, recount).                                          *)
FwdValid(v, flag) ==
  /\ SfsOwnPoint(v, flag) /\ SfsDistinct(v) /\ SfsInSuffrage(v)
  /\ v.v1 = "" /\ v.v2 = ""
  /\ RecountOK(v)
  /\ v.res \in {"MAJORITY", "DRAW"}
  /\ v.res = "MAJORITY" => v.sc = flag
CheckVP(v, m, hd) ==
  LET info == <<v.h, v.r, v.s>>
      (* the flag of the record a counted voteproof comes from is that of the sign facts it contains *)
      flag == IF Len(v.sfs) > 0 THEN v.sfs[1].sc ELSE FALSE
      k == StoreKey([h |-> v.h, r |-> v.r, s |-> v.s], flag)
  IN
  IF v.fwd # ""
  THEN /\ Expect("C04-forwarded-unknown", v.fwd \in hd, info)
       /\ Expect("C04-invalid-forwarded", FwdValid(v, flag), info)
  ELSE
  /\ Expect("C04-point-not-voted", k \in DOMAIN m, info)
  /\ Expect("C04-sfs-not-accepted", k \in DOMAIN m => VotesOf(v.sfs) \subseteq m[k], info)
  /\ Expect("C04-sfs-foreign-point", SfsOwnPoint(v, flag), info)
  /\ Expect("C04-majority-flag", v.res = "MAJORITY" => v.sc = flag, info)
  /\ Expect("C04-sfs-duplicate-node", SfsDistinct(v), info)
  /\ Expect("C04-sfs-outside-suffrage", SfsInSuffrage(v), info)
  /\ Expect("C04-invalid", v.v1 = "", info)
  /\ Expect("C04-invalid-with-suffrage", v.v2 = "", info)
  /\ Expect("C04-recount", RecountOK(v), info)
  /\ Expect("C04-result-not-final", v.res \in {"MAJORITY", "DRAW"}, info)

(* C04 (i), "a stage point it was voting on": a counted voteproof is for a stage  *)
(* point (and flag) that is new with respect to the last point of the box at the  *)
(* moment it is emitted. L: the last points the box can have had at that moment.  *)
(* Alarm: the weaker reading (new as a ballot or new as a voteproof of that       *)
(* record); the stronger one (the box would still accept a ballot for the point)  *)
(* and the newness of forwarded voteproofs are reported only (X-).                *)
LastOfVP(v) == [h |-> v.h, r |-> v.r, s |-> v.s, maj |-> v.res = "MAJORITY", sc |-> v.sc]
VPFlag(v) == IF Len(v.sfs) > 0 THEN v.sfs[1].sc ELSE FALSE
NewFor(L, v, flag) == \/ VotingOn(L, [h |-> v.h, r |-> v.r, s |-> v.s], flag)
                      \/ IsNewVPForRecord(flag, L, [h |-> v.h, r |-> v.r, s |-> v.s], v.res = "MAJORITY", v.sc)
CheckNew(v, Ls) ==
  LET info == <<v.h, v.r, v.s>> IN
  IF v.fwd = ""
  THEN /\ Expect("C04-point-not-new", \E L \in Ls : NewFor(L, v, VPFlag(v)), info)
       /\ Expect("X-point-not-voting-on", \E L \in Ls : VotingOn(L, [h |-> v.h, r |-> v.r, s |-> v.s], VPFlag(v)), info)
  ELSE Expect("X-forwarded-not-new", \E L \in Ls : \E flag \in BOOLEAN : NewFor(L, v, flag), info)

(* ------------------------------------------------ the step every call shares *)
(* S: the box after the call itself (before the count it triggers):            *)
(*    [recs, robj, pool, gen, mat]; cleans: did a clean cycle run - it does    *)
(*    when countVoterecords emitted something; a ballot the record refused     *)
(*    only has its embedded voteproof forwarded, without a clean cycle         *)
SP3(e) == [h |-> e.h, r |-> e.r, s |-> e.s]
Settle(O, S, hd, cleans) ==
  LET last2 == LPOf(Ev.last)
      OKeys == O.keys  ORecs == O.recs  OIds == O.ids  OObj == O.obj  ORemoved == O.removed  OPD == O.pd
      gone == IF cleans THEN ReleasedKeys(S.recs, last2) ELSE {}
      erecs == Restrict(S.recs, DOMAIN S.recs \ gone)
      eremoved == IF cleans THEN {S.recs[k] : k \in gone} ELSE removed
      eput == IF cleans THEN removed ELSE {}
      epool == [i \in DOMAIN S.pool \cup eput |-> Get(S.pool, i) + IF i \in eput THEN 1 ELSE 0]
      emat == Restrict(S.mat, DOMAIN S.mat \ gone)
      puts2 == [i \in DOMAIN puts \cup DOMAIN OPD |-> Get(puts, i) + Get(OPD, i)]
      extra == OKeys \ DOMAIN erecs
      live == OIds \cup ORemoved
  IN
  (* C04: every voteproof read from the channel *)
  /\ \A i \in 1..Len(Ev.vps) : CheckVP(Ev.vps[i], S.mat, hd)
  /\ \A i \in 1..Len(Ev.vps) :
        CheckNew(Ev.vps[i], {last} \cup {LastOfVP(Ev.vps[j]) : j \in 1..(i - 1)}
                                   \cup (IF Ev.a = "SetLast" /\ Ev.ret THEN {LPOf(Ev)} ELSE {}))
  /\ Expect("C04-last-not-from-voteproof",
            last2 = last \/ (Ev.a = "SetLast" /\ Ev.ret) \/
            \E i \in 1..Len(Ev.vps) : LET v == Ev.vps[i] IN SPOf(last2) = SP3(v) /\ last2.maj = (v.res = "MAJORITY"),
            <<last2.h, last2.r, last2.s>>)
  (* C05 b: release *)
  /\ Expect("C05-sf-record-not-removed", ~\E k \in extra : KeyIsSC(k) /\ Passed(last2, k.sp),
            LET k == CHOOSE k \in extra : KeyIsSC(k) /\ Passed(last2, k.sp) IN <<k.sp.h, k.sp.r, k.sp.s>>)
  /\ Expect("C05-record-not-removed", ~\E k \in extra : ~KeyIsSC(k) /\ Passed(last2, k.sp),
            LET k == CHOOSE k \in extra : ~KeyIsSC(k) /\ Passed(last2, k.sp) IN <<k.sp.h, k.sp.r, k.sp.s>>)
  /\ Expect("C05-record-unexpected", ~\E k \in extra : ~Passed(last2, k.sp), Cardinality(extra))
  /\ Expect("C05-record-missing", DOMAIN erecs \subseteq OKeys, Cardinality(DOMAIN erecs \ OKeys))
  /\ Expect("C05-record-identity", \A k \in DOMAIN erecs \cap OKeys : erecs[k] = ORecs[k] \/ erecs[k] < 0, 0)
  /\ Expect("C05-removed-differ", ORemoved = eremoved \/ \E i \in eremoved : i < 0, <<Cardinality(ORemoved), Cardinality(eremoved)>>)
  (* C05 a/b on the observation alone *)
  /\ Expect("C05-key-record-mismatch",
            \A k \in OKeys : /\ OObj[ORecs[k]].sp = k.sp /\ OObj[ORecs[k]].isc = KeyIsSC(k) /\ k.p \in {"", StoreSC},
            LET k == CHOOSE k \in OKeys : ~(OObj[ORecs[k]].sp = k.sp /\ OObj[ORecs[k]].isc = KeyIsSC(k) /\ k.p \in {"", StoreSC})
            IN <<k.p, k.sp.h, k.sp.r, k.sp.s, OObj[ORecs[k]].sp.h>>)
  /\ Expect("C05-aliased-keys", Cardinality(OIds) = Cardinality(OKeys), <<Cardinality(OIds), Cardinality(OKeys)>>)
  /\ Expect("C05-live-and-removed", OIds \cap ORemoved = {}, OIds \cap ORemoved)
  /\ Expect("C05-live-and-pooled", \A i \in live : Get(epool, i) = 0, {i \in live : Get(epool, i) > 0})
  /\ Expect("C05-votes-differ", \A k \in DOMAIN emat \cap OKeys : OObj[ORecs[k]].votes = emat[k],
            LET k == CHOOSE k \in DOMAIN emat \cap OKeys : OObj[ORecs[k]].votes # emat[k] IN <<k.p, k.sp.h, k.sp.r, k.sp.s>>)
  (* C05 b: handed back exactly once per use *)
  /\ Expect("C05-puts-differ", \A i \in DOMAIN OPD \cup eput : i < 0 \/ Get(OPD, i) = (IF i \in eput THEN 1 ELSE 0),
            <<DOMAIN OPD, eput>>)
  /\ Expect("C05-double-put", \A i \in DOMAIN puts2 : puts2[i] <= Get(S.gen, i), {i \in DOMAIN puts2 : puts2[i] > Get(S.gen, i)})
  /\ Expect("C05-put-count",
            \A i \in DOMAIN S.gen : i < 0 \/ Get(puts2, i) = S.gen[i] - (IF i \in live \/ i \in dead THEN 1 ELSE 0),
            {i \in DOMAIN S.gen : i >= 0 /\ Get(puts2, i) # S.gen[i] - (IF i \in live \/ i \in dead THEN 1 ELSE 0)})
  (* adopt the observation *)
  /\ last' = last2
  /\ recs' = ORecs
  /\ robj' = OObj
  /\ removed' = ORemoved
  /\ pool' = epool
  /\ puts' = puts2
  /\ gen' = S.gen
  /\ mat' = [k \in OKeys |-> IF k \in DOMAIN emat THEN emat[k] ELSE OObj[ORecs[k]].votes]

Unch == UNCHANGED <<Node, Local, T10, chan, cleaning, nvotes, nset, nticks, step, dead, acc, calls, setlast, sufk>>
Pre == [recs |-> recs, robj |-> robj, pool |-> pool, gen |-> gen, mat |-> mat]

(* the effect of Vote(b) itself on the records, the result taken from the log  *)
VoteState(O, S, b, voted, needNew) ==
  LET k == StoreKey(SPOf(b), b.sc)
      id == ObsIdOf(O, k)
      v == VoteOf(b)
  IN IF needNew
     THEN [recs |-> (k :> id) @@ S.recs,
           robj |-> (id :> [sp |-> SPOf(b), isc |-> b.sc, votes |-> IF voted THEN {v} ELSE {}, fin |-> FALSE, held |-> FALSE]) @@ S.robj,
           pool |-> Dec(S.pool, id), gen |-> Inc(S.gen, id),
           mat |-> (k :> IF voted THEN {v} ELSE {}) @@ S.mat]
     ELSE IF voted /\ k \in DOMAIN S.recs
     THEN [S EXCEPT !.robj = [S.robj EXCEPT ![S.recs[k]].votes = @ \cup {v}], !.mat = [S.mat EXCEPT ![k] = @ \cup {v}]]
     ELSE S
BallotOf(e) == [node |-> e.node, h |-> e.h, r |-> e.r, s |-> e.s, sc |-> e.sc, f |-> e.f, ex |-> SetOf(e.ex)]

TVote ==
  /\ Consume /\ Ev.a = "Vote"
  /\ LET O == Obs
         b == BallotOf(Ev)
         k == StoreKey(SPOf(b), b.sc)
         adm == Admissible(b, SetOf(Ev.evp.ex)) /\ IsNewBallot(b)
         want == IF ~adm THEN FALSE ELSE IF k \notin DOMAIN recs THEN TRUE ELSE RecordAccepts(robj[recs[k]], b)
         needNew == (adm \/ Ev.voted) /\ k \notin DOMAIN recs
         id == ObsIdOf(O, k)
         hd == IF Ev.evp.name = "" THEN handed ELSE handed \cup {Ev.evp.name}
     IN /\ Expect("C05-vote-passed-point", ~(Ev.voted /\ ~want /\ Passed(last, SPOf(b))), <<b.node, b.h, b.r, b.s>>)
        /\ Expect("X-vote-result", Ev.voted = want \/ (Ev.voted /\ Passed(last, SPOf(b))), <<b.node, b.h, b.r, b.s, Ev.voted>>)
        /\ Expect("X-vote-error", Ev.err = "" /\ Ev.panic = "", <<b.node, b.h, b.r, b.s>>)
        /\ Expect("C05-pool-identity", needNew => (id < 0 \/ id \notin DOMAIN gen \/ Get(pool, id) > 0), id)
        /\ handed' = hd
        (* a lagging node (suffrage of the ballot's height not known yet): the ballot is kept, only the voteproof *)
        (* it embeds can be forwarded - without a count, a move of the last point and a clean cycle              *)
        /\ Settle(O, VoteState(O, Pre, b, Ev.voted, needNew), hd, Ev.voted /\ Len(Ev.vps) > 0 /\ Ev.h - 1 <= sufk)
  /\ Unch

TCount ==
  /\ Consume /\ Ev.a = "Count"
  /\ Expect("X-count-result", Ev.ret = (Len(Ev.vps) > 0), Ev.ret)
  /\ LET O == Obs IN Settle(O, Pre, handed, Len(Ev.vps) > 0)
  /\ UNCHANGED handed /\ Unch

TSetLast ==
  /\ Consume /\ Ev.a = "SetLast"
  /\ Expect("X-setlast-result", Ev.ret = Before(last, SP3(Ev), Ev.sc), Ev.ret)
  /\ LET O == Obs IN Settle(O, Pre, handed, Len(Ev.vps) > 0)
  /\ UNCHANGED handed /\ Unch

(* the ticker ran (countHoldeds): no clean cycle, the last point does not move  *)
TTick ==
  /\ Consume /\ Ev.a = "Tick"
  /\ LET O == Obs IN Settle(O, Pre, handed, FALSE)
  /\ UNCHANGED handed /\ Unch

(* C05 a: the reads depend on the ballots accepted for the stage point only    *)
TVoted ==
  /\ Consume /\ Ev.a = "Voted"
  /\ LET k == StoreKey(SP3(Ev), FALSE)
         want == IF k \in DOMAIN mat THEN {v \in mat[k] : v.node \in SetOf(Ev.nodes)} ELSE {}
     IN /\ Expect("C05-voted-read", VotesOf(Ev.ret) = want, <<Ev.h, Ev.r, Ev.s, Cardinality(VotesOf(Ev.ret)), Cardinality(want)>>)
        /\ Expect("C05-voted-read-foreign", \A i \in 1..Len(Ev.ret) : SP3(Ev.ret[i]) = SP3(Ev) /\ ~Ev.ret[i].sc, <<Ev.h, Ev.r, Ev.s>>)
  /\ LET O == Obs IN Settle(O, Pre, handed, Len(Ev.vps) > 0)
  /\ UNCHANGED handed /\ Unch

TMissing ==
  /\ Consume /\ Ev.a = "Missing"
  /\ LET O == Obs
         k == StoreKey(SP3(Ev), FALSE)
         fin == IF k \in O.keys THEN O.obj[O.recs[k]].fin ELSE TRUE
         want == IF k \notin DOMAIN mat \/ fin THEN {} ELSE (Node \ {Local}) \ Voters(mat[k])
     IN /\ Expect("C05-missing-read", SetOf(Ev.ret) = want, <<Ev.h, Ev.r, Ev.s, Len(Ev.ret), Cardinality(want)>>)
        /\ Expect("X-missing-found", Ev.found = (k \in DOMAIN mat), <<Ev.h, Ev.r, Ev.s>>)
        /\ Settle(O, Pre, handed, Len(Ev.vps) > 0)
  /\ UNCHANGED handed /\ Unch

(* a new ballot box; the recycle pool and its counters belong to the process   *)
TReset ==
  /\ Consume /\ Ev.a = "Reset"
  /\ Node' = SetOf(Ev.nodes) /\ Local' = Ev.local /\ T10' = Ev.t10
  /\ last' = ZeroLP /\ recs' = <<>> /\ robj' = <<>> /\ removed' = {} /\ mat' = <<>>
  /\ handed' = {} /\ acc' = <<>> /\ calls' = <<>> /\ setlast' = FALSE /\ sufk' = Ev.sufupto
  (* the objects of the old box are abandoned (the harness keeps them alive, so they never   *)
  (* come back); only objects in the pool can be seen again                                   *)
  /\ LET keep == IF Ev.newproc THEN {}     \* recording of another process: its own pool, its own object numbering
                 ELSE {i \in DOMAIN pool : pool[i] > 0} \ (Range(recs) \cup removed) IN
       /\ pool' = Restrict(pool, keep)
       /\ puts' = Restrict(puts, keep \cap DOMAIN puts)
       /\ gen' = Restrict(gen, keep \cap DOMAIN gen)
  /\ dead' = {}
  /\ UNCHANGED <<chan, cleaning, nvotes, nset, nticks, step>>

(* ----------------------------------------------------------- concurrent part *)
TCall ==
  /\ Consume /\ Ev.a = "Call"
  /\ calls' = (Ev.c :> Ev) @@ calls
  /\ handed' = IF Ev.op = "Vote" /\ Ev.evp.name # "" THEN handed \cup {Ev.evp.name} ELSE handed
  /\ setlast' = (setlast \/ Ev.op = "SetLast")
  /\ UNCHANGED <<vars, dead, acc, sufk>>
CallLasts == {LPOf(calls[c]) : c \in {d \in DOMAIN calls : calls[d].op = "SetLast"}}
TRet ==
  /\ Consume /\ Ev.a = "Ret"
  /\ Expect("X-call-error", Ev.err = "" /\ Ev.panic = "", Ev.c)
  /\ IF Ev.op = "Vote" /\ Ev.voted /\ Ev.c \in DOMAIN calls
     THEN LET b == BallotOf(calls[Ev.c])  k == StoreKey(SPOf(b), b.sc) IN
          acc' = [j \in DOMAIN acc \cup {k} |-> (IF j \in DOMAIN acc THEN acc[j] ELSE {}) \cup (IF j = k THEN {VoteOf(b)} ELSE {})]
     ELSE UNCHANGED acc
  /\ UNCHANGED <<vars, handed, dead, calls, setlast, sufk>>
(* everything has come to rest. Facts that hold for every schedule: a live      *)
(* record holds only ballots accepted for its own key; a record of a passed     *)
(* point that is still reachable was created after the last clean cycle and is  *)
(* empty (unless a thread moved the last point itself); the object invariants;  *)
(* C04 for every voteproof emitted meanwhile.                                    *)
AccAll(k) == (IF k \in DOMAIN mat THEN mat[k] ELSE {}) \cup (IF k \in DOMAIN acc THEN acc[k] ELSE {})
TQuiet ==
  /\ Consume /\ Ev.a = "Quiet"
  /\ LET O == Obs
         OKeys == O.keys  ORecs == O.recs  OIds == O.ids  OObj == O.obj  ORemoved == O.removed  OPD == O.pd
         last2 == LPOf(Ev.last)
         m == [k \in DOMAIN mat \cup DOMAIN acc |-> AccAll(k)]
         puts2 == [i \in DOMAIN puts \cup DOMAIN OPD |-> Get(puts, i) + Get(OPD, i)]
         fresh == OIds \ (DOMAIN gen)
         stale(k) == Passed(last2, k.sp) /\ OObj[ORecs[k]].votes # {} /\ ~setlast /\ Len(Ev.vps) > 0
     IN /\ \A i \in 1..Len(Ev.vps) : CheckVP(Ev.vps[i], m, handed)
        (* whatever the schedule was, the last point was the one before the concurrent part, that of a voteproof *)
        (* emitted meanwhile or one a thread set                                                              *)
        /\ \A i \in 1..Len(Ev.vps) :
              CheckNew(Ev.vps[i], {last} \cup {LastOfVP(Ev.vps[j]) : j \in 1..Len(Ev.vps)} \cup CallLasts)
        /\ Expect("C05-votes-differ", \A k \in OKeys : OObj[ORecs[k]].votes \subseteq AccAll(k),
                  LET k == CHOOSE k \in OKeys : ~(OObj[ORecs[k]].votes \subseteq AccAll(k)) IN <<k.p, k.sp.h, k.sp.r, k.sp.s>>)
        /\ Expect("C05-sf-record-not-removed", ~\E k \in OKeys : KeyIsSC(k) /\ stale(k),
                  LET k == CHOOSE k \in OKeys : KeyIsSC(k) /\ stale(k) IN <<k.sp.h, k.sp.r, k.sp.s>>)
        /\ Expect("C05-record-not-removed", ~\E k \in OKeys : ~KeyIsSC(k) /\ stale(k),
                  LET k == CHOOSE k \in OKeys : ~KeyIsSC(k) /\ stale(k) IN <<k.sp.h, k.sp.r, k.sp.s>>)
        /\ Expect("C05-key-record-mismatch",
                  \A k \in OKeys : /\ OObj[ORecs[k]].sp = k.sp /\ OObj[ORecs[k]].isc = KeyIsSC(k) /\ k.p \in {"", StoreSC},
                  LET k == CHOOSE k \in OKeys : ~(OObj[ORecs[k]].sp = k.sp /\ OObj[ORecs[k]].isc = KeyIsSC(k) /\ k.p \in {"", StoreSC})
                  IN <<k.p, k.sp.h, k.sp.r, k.sp.s, OObj[ORecs[k]].sp.h>>)
        /\ Expect("C05-aliased-keys", Cardinality(OIds) = Cardinality(OKeys), <<Cardinality(OIds), Cardinality(OKeys)>>)
        /\ Expect("C05-live-and-removed", OIds \cap ORemoved = {}, OIds \cap ORemoved)
        (* an object is handed back at most once more than it had been before, per use *)
        /\ Expect("C05-double-put", \A i \in DOMAIN OPD : i \in fresh \/ OPD[i] <= Cardinality(OKeys) + Len(Ev.vps) + 1, DOMAIN OPD)
        /\ last' = last2 /\ recs' = ORecs /\ robj' = OObj /\ removed' = ORemoved
        /\ puts' = puts2
        (* the concurrent part may have used objects several times: uses are not observable; re-base *)
        /\ gen' = [i \in DOMAIN gen \cup DOMAIN puts2 \cup OIds \cup ORemoved |->
                     Get(puts2, i) + IF i \in OIds \cup ORemoved \/ i \in dead THEN 1 ELSE 0]
        /\ pool' = [i \in DOMAIN puts2 |-> IF i \in OIds \cup ORemoved \/ i \in dead THEN 0 ELSE 1]
        /\ mat' = [k \in OKeys |-> OObj[ORecs[k]].votes]
  /\ UNCHANGED <<Node, Local, T10, chan, cleaning, nvotes, nset, nticks, step, handed, dead, acc, calls, setlast, sufk>>

TraceInit ==
  /\ Init
  /\ l = 1 /\ handed = {} /\ dead = {} /\ acc = <<>> /\ calls = <<>> /\ setlast = FALSE /\ sufk = 1048576
TraceNext == TReset \/ TVote \/ TCount \/ TSetLast \/ TTick \/ TVoted \/ TMissing \/ TCall \/ TRet \/ TQuiet
TraceSpec == TraceInit /\ [][TraceNext]_tvars

ASSUME TLCSet(1, 0)
HighWater == TLCSet(1, IF l > TLCGet(1) THEN l ELSE TLCGet(1))
Accepted == \/ TLCGet(1) = Len(Trace) + 1
            \/ PrintT(<<"HW", TLCGet(1), Len(Trace)>>) /\ FALSE
=============================================================================
