SPECIFICATION Spec
CONSTANTS
  Users = {"u"}
  Scopes = {"a", "b"}
  Perms = {1, 2, 3, 79}
  Required = {2, 3, 4, 79}
  Super = "super"
  Nobody = "nobody"
  Other = "other"
  Walk = FALSE
VIEW View
INVARIANTS TypeOK Refines SuperAllowed ProhibitDenies NoEntryDenied Precedence
PROPERTIES Isolation
CHECK_DEADLOCK FALSE
