SPECIFICATION Spec
CONSTANTS
  Ids = {"a"}
  MaxInst = 2
  MaxTicks = 2
  MaxStops = 1
  MaxClock = 2
  MaxRm = 1
  Interval = 2
  RegOrder = "visible-first"
  RemoveBy = "instance"
  Results = {"keep", "stop"}
  KeepHist = "last"
VIEW view
INVARIANTS NotEarly
CHECK_DEADLOCK FALSE
