SPECIFICATION Spec
CONSTANTS
  Writers = {"w1", "w2"}
  Heights = {1, 2}
  Shapes = {"full"}
  MaxCrash = 1
  Concurrent = FALSE
  Uploads = TRUE
  CheckAFixed = TRUE
  SaveRmForeign = FALSE
  SameHeight = FALSE
VIEW view
CHECK_DEADLOCK FALSE
INVARIANTS TypeOK CrashAtomic ReadMatchesMap FirstSurvives SaveComplete PresentedComplete
PROPERTIES FirstFilesSurvive CleanupSafe CleanupLeavesTemp
