INIT Init
NEXT Next
CONSTANTS
  MaxK = 3
  Gap = 3
  Sizes = {1, 2, 5, 8}
  Positions = {0, 1, 3, 4, 7}
  Variants = {"pinned", "fixed"}
  Emit = TRUE
  Mode = "prove"
  Limits = {1}
  RespKinds = {}
CHECK_DEADLOCK FALSE
