----------------------------- MODULE StatesTrace -----------------------------
(* Binding B for C09: event logs recorded from the real isaacstates.States     *)
(* (forced schedules and free-running concurrent drivers, stub handlers with   *)
(* scripted outcomes) are validated against States.tla.                        *)
(*                                                                             *)
(* Events (one ndjson line each, logged in real-time order):                   *)
(*   Reset{al}                          a new States, AllowConsensus = al      *)
(*   AskC{id,f,n,int} / AskR{id}        AskMoveState call / return             *)
(*   TogC{id,b} / TogR{id,set}          SetAllowConsensus call / return(isset) *)
(*   Notify{st,b}                       handler.whenSetAllowConsensus          *)
(*   HoldC{id} / HoldR{id}              Hold call / return                     *)
(*   Begin{t,f,n}                       gate switch:begin (before st.current())*)
(*   Checked{t,f,n}                     gate switch:checked (check passed)     *)
(*   Exit{t,st,n,o}                     current.exit under the state lock      *)
(*   Enter{t,st,from,sf,prev,al,o,rd}   next.enter under the state lock        *)
(*   Switched{t,n,cur}                  WhenStateSwitchedFunc + Current()      *)
(*   NewY{ok} / AskY{ok}                handover-y broker created / asked      *)
(* Unlogged steps are silent actions: the linearization points of the calls,   *)
(* the reads st.current() and checkStateSwitchContext between Begin and        *)
(* Checked, the broker's own AskMoveState, States.start()'s final stop.        *)
(* The replies the code gives (check result, handler called, previous state,   *)
(* allow flag seen under the lock, isset) are guards: a log the model cannot   *)
(* produce is rejected at its first unexplained line. The statement's          *)
(* properties are evaluated on the logged values and printed as MISMATCH.      *)
EXTENDS States

Trace == ndJsonDeserialize("trace.ndjson")
VARIABLES l,      \* next trace line
          calls,  \* calls in flight: set of [id, op, f, n, b, int, done, set]
          ann     \* Thread -> "none" | "begun" | "confirmed": gate events seen in this switchState call
tvars == <<vars, l, calls, ann>>
Ev == Trace[l]

Expect(class, ok, got) == IF ok THEN TRUE ELSE PrintT(<<"MISMATCH", class, l, got>>)

More == l <= Len(Trace)
Consume == More /\ l' = l + 1
Silent == More /\ UNCHANGED l

(* a thread that left its switchState call has no announcements *)
AnnAfter == [t \in Thread |-> IF th'[t] # th[t] /\ th'[t].pc \in {"begin", "idle", "off", "dead", "stopping"}
                             THEN "none" ELSE ann[t]]

Call(op, f, n, b, int) == [id |-> Ev.id, op |-> op, f |-> f, n |-> n, b |-> b, int |-> int, done |-> FALSE, set |-> FALSE]

TReset == /\ Consume /\ Ev.a = "Reset" /\ Start(Ev.al)
          /\ calls' = {} /\ ann' = [t \in Thread |-> "none"]

TAskC == /\ Consume /\ Ev.a = "AskC"
         /\ calls' = calls \cup {Call("ask", Ev.f, Ev.n, FALSE, Ev.int)}
         /\ UNCHANGED <<vars, ann>>
LinAsk == /\ Silent
          /\ \E c \in calls :
               /\ c.op = "ask" /\ ~c.done
               /\ IF c.int THEN \E r \in iasks : r.k = "notify" /\ r.f = c.f /\ r.n = c.n /\ IAsk(r)
                           ELSE Ask(c.f, c.n)
               /\ calls' = (calls \ {c}) \cup {[c EXCEPT !.done = TRUE]}
          /\ UNCHANGED ann
TAskR == /\ Consume /\ Ev.a = "AskR"
         /\ \E c \in calls : c.id = Ev.id /\ c.done /\ calls' = calls \ {c}
         /\ UNCHANGED <<vars, ann>>

TTogC == /\ Consume /\ Ev.a = "TogC"
         /\ calls' = calls \cup {Call("tog", "", "", Ev.b, FALSE)}
         /\ UNCHANGED <<vars, ann>>
LinTog == /\ Silent
          /\ \E c \in calls :
               /\ c.op = "tog" /\ ~c.done
               /\ Toggle(c.b)
               /\ calls' = (calls \ {c}) \cup {[c EXCEPT !.done = TRUE, !.set = (allowed # c.b)]}
          /\ UNCHANGED ann
TNotify == /\ Consume /\ Ev.a = "Notify"
           /\ cur = Ev.st /\ allowed = Ev.b /\ cur \in {JO, CO}
           /\ UNCHANGED <<vars, calls, ann>>
TTogR == /\ Consume /\ Ev.a = "TogR"
         /\ \E c \in calls : c.id = Ev.id /\ c.done /\ c.set = Ev.set /\ calls' = calls \ {c}
         /\ UNCHANGED <<vars, ann>>

THoldC == /\ Consume /\ Ev.a = "HoldC"
          /\ calls' = calls \cup {Call("hold", "", "", FALSE, FALSE)}
          /\ UNCHANGED <<vars, ann>>
LinHold == /\ Silent
           /\ \E c \in calls :
                /\ c.op = "hold" /\ ~c.done
                /\ Hold
                /\ calls' = (calls \ {c}) \cup {[c EXCEPT !.done = TRUE]}
           /\ UNCHANGED ann
THoldR == /\ Consume /\ Ev.a = "HoldR"
          /\ th["hold"].pc = "off"
          /\ \E c \in calls : c.id = Ev.id /\ c.done /\ calls' = calls \ {c}
          /\ UNCHANGED <<vars, ann>>

(* the broker's own AskMoveState after a cancel *)
SIAsk == /\ Silent /\ \E r \in iasks : r.k = "cancel" /\ IAsk(r)
         /\ UNCHANGED <<calls, ann>>
SFinalStop == Silent /\ FinalStop /\ UNCHANGED <<calls, ann>>

TBegin == /\ Consume /\ Ev.a = "Begin"
          /\ LET t == Ev.t IN
             \/ /\ t = "loop" /\ th[t].pc = "idle"
                /\ \E r \in pending : r.f = Ev.f /\ r.n = Ev.n /\ Take(r)
                /\ ann' = [ann EXCEPT ![t] = "begun"]
             \/ /\ th[t].pc = "begin" /\ ann[t] = "none"
                /\ th[t].f = Ev.f /\ th[t].n = Ev.n
                /\ UNCHANGED vars
                /\ ann' = [ann EXCEPT ![t] = "begun"]
          /\ UNCHANGED calls
SSnap == /\ Silent /\ \E t \in Thread : ann[t] = "begun" /\ Snap(t)
         /\ UNCHANGED <<calls, ann>>
SCheck == /\ Silent /\ \E t \in Thread : ann[t] = "begun" /\ Check(t)
          /\ ann' = AnnAfter
          /\ UNCHANGED calls
TChecked == /\ Consume /\ Ev.a = "Checked"
            /\ LET t == Ev.t IN
               /\ th[t].pc = "checked" /\ ann[t] = "begun"
               /\ th[t].f = Ev.f /\ th[t].n = Ev.n
               /\ ann' = [ann EXCEPT ![t] = "confirmed"]
               /\ Expect("ToSyncing", ToSyncing, <<chk.snap, chk.rn, chk.on>>)
            /\ UNCHANGED <<vars, calls>>
TExit == /\ Consume /\ Ev.a = "Exit"
         /\ LET t == Ev.t IN
            /\ ann[t] = "confirmed"
            /\ Ev.st = th[t].snap /\ Ev.n = th[t].n
            /\ DoExit(t, Ev.o)
         /\ ann' = AnnAfter
         /\ UNCHANGED calls
TEnter == /\ Consume /\ Ev.a = "Enter"
          /\ LET t == Ev.t
                 commit == Ev.o \in {"ok", "redirect"} IN
             /\ Ev.st = th[t].n /\ Ev.from = th[t].snap /\ Ev.sf = th[t].f
             /\ Ev.prev = cur /\ Ev.al = allowed
             /\ DoEnter(t, Ev.o, Ev.rd)
             /\ Expect("StoppedEdges", (commit /\ Ev.prev = ST) => Ev.st \in {BO, BR}, <<Ev.prev, Ev.st>>)
             /\ Expect("StaleRequestNoEffect", commit => Ev.sf = Ev.prev, <<Ev.sf, Ev.prev, Ev.st>>)
             /\ Expect("NotAllowedNeverEnters", (commit /\ Ev.st \in {JO, CO} /\ Ev.prev # HA) => Ev.al, <<Ev.prev, Ev.st>>)
          /\ ann' = AnnAfter
          /\ UNCHANGED calls
TSwitched == /\ Consume /\ Ev.a = "Switched"
             /\ Ev.n = th[Ev.t].n
             /\ Report(Ev.t)
             /\ Expect("ReportMatches", Ev.cur = Ev.n, <<Ev.n, Ev.cur>>)
             /\ ann' = AnnAfter
             /\ UNCHANGED calls

TNewY == /\ Consume /\ Ev.a = "NewY"
         /\ IF Ev.ok THEN NewY ELSE UNCHANGED vars
         /\ UNCHANGED <<calls, ann>>
TAskY == /\ Consume /\ Ev.a = "AskY"
         /\ IF Ev.ok THEN AskY ELSE UNCHANGED vars
         /\ UNCHANGED <<calls, ann>>

TraceInit == Init /\ l = 1 /\ calls = {} /\ ann = [t \in Thread |-> "none"]
TraceNext == \/ TReset \/ TAskC \/ LinAsk \/ TAskR \/ TTogC \/ LinTog \/ TNotify \/ TTogR
             \/ THoldC \/ LinHold \/ THoldR \/ SIAsk \/ SFinalStop
             \/ TBegin \/ SSnap \/ SCheck \/ TChecked \/ TExit \/ TEnter \/ TSwitched
             \/ TNewY \/ TAskY
TraceSpec == TraceInit /\ [][TraceNext]_tvars

ASSUME TLCSet(1, 0)
HighWater == TLCSet(1, IF l > TLCGet(1) THEN l ELSE TLCGet(1))
Accepted == \/ TLCGet(1) = Len(Trace) + 1
            \/ PrintT(<<"HW", TLCGet(1), Len(Trace)>>) /\ FALSE
=============================================================================
