SPECIFICATION Spec
CONSTANTS
  MaxC = 1
  MaxH = 1
  Sizes = {0, 3}
  Tamper = TRUE
  LenVals = {"zero", "dec", "inc", "i31", "i63", "max"}
  CutOffsets = {1, 3}
  CutWindow = 2
VIEW view
INVARIANTS TypeOK ReadBackIdentically ResponseWhereBodyExpected NoAdversaryNoStop GrammarRoundTrip
CHECK_DEADLOCK FALSE
