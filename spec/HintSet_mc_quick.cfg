SPECIFICATION Spec
CONSTANTS
  TypeNames = {"ta"}
  Vers <- VersTiny
  MaxOps = 3
  EmitAll = FALSE
INVARIANTS TypeOK TableIsHighest RepliesFromTable
CHECK_DEADLOCK FALSE
