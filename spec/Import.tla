------------------------------- MODULE Import -------------------------------
(* C15 - importing a block range stores every block.                          *)
(*                                                                            *)
(* Models isaacblock.ImportBlocks (/repo/isaac/block/import_block.go) on top  *)
(* of util.BatchWork (/repo/util/worker.go):                                   *)
(*   - the property, written from the statement: a call that reports success  *)
(*     has stored and merged every height of A..B, the last merged one is B    *)
(*     (SuccessMeansStored, LastMergedIsB, FaultMeansError);                   *)
(*   - next to it an implementation-level transcription of the batch          *)
(*     arithmetic: one action per step of the code - the preparation step of  *)
(*     a batch saves the *previous* batch (SavePrevBatch) and allocates the    *)
(*     importer array sized by (last+1) % limit (AllocBatch), the jobs of a     *)
(*     batch run concurrently and put their importer into slot                 *)
(*     (height-from) % limit (Work), the save after the loop (FinalSave) is    *)
(*     guarded differently in the two Variants:                                *)
(*        "pinned"  if len(ims) < batchlimit   (the tree as pinned)            *)
(*        "fixed"   if len(ims) > 0            (fixes/C15-*.diff)              *)
(* TLC checks the transcription against the property; the terminal states     *)
(* (case, what the statement demands, what the transcription predicts) are    *)
(* exported through `step` and replayed into the real ImportBlocks with        *)
(* recording importers (binding A, harness/internal/c15).                      *)
(*                                                                            *)
(* Faults: one call of the environment fails for one height (block map not     *)
(* found / error, importer constructor, item, Save, the deferred merge of the  *)
(* block write database, the merge of all batches); the height is then not     *)
(* stored, so by the statement the import must not report success.             *)
EXTENDS Integers, FiniteSets, Sequences, TLC, Json

CONSTANTS Counts,      \* set of range sizes (number of blocks B-A+1)
          Limits,      \* set of batch limits
          Froms,       \* set of first heights A
          FaultKinds,  \* subset of {"map-notfound","map-error","new-importer","save","deferred","merge"}
          Variants,    \* subset of {"pinned","fixed"}
          Interleave,  \* TRUE: jobs of a batch finish in any order; FALSE: ascending only
          Emit         \* TRUE: terminal states carry the JSON case in `step` (case generation)

VARIABLES from, count, limit, fault, variant,    \* the case (constant during a behaviour)
          pc,         \* "pref" | "alloc" | "work" | "final" | "done"
          bstart,     \* BatchWork: i, index of the first job of the current batch
          ims,        \* importer array of the current batch (sequence; slot k+1 = Go slot k; Nil = empty slot)
          pending,    \* heights of the current batch whose job has not finished
          saved,      \* heights whose importer's Save returned nil
          morder,     \* heights in the order their deferred merge (block write database -> center) returned nil
          perm,       \* heights covered by a successful merge-all call
          cancelled,  \* heights whose importer got CancelImport
          twice,      \* heights saved more than once (stronger reading only)
          ret,        \* "running" | "ok" | "err" | "panic"
          step        \* output only
vars == <<from, count, limit, fault, variant, pc, bstart, ims, pending, saved, morder, perm,
          cancelled, twice, ret, step>>

Nil == -1
NoFault == [kind |-> "none", at |-> Nil]
Range == from..(from + count - 1)
B == from + count - 1
Min2(a, b) == IF a < b THEN a ELSE b
MinOf(S) == CHOOSE x \in S : \A y \in S : x <= y
Slots(s) == {s[k] : k \in 1..Len(s)}
Merged == {morder[k] : k \in 1..Len(morder)}
Stored == saved \ cancelled
bend == Min2(bstart + limit, count)          \* BatchWork: end

-----------------------------------------------------------------------------
(* saveImporters(ims): Save of every importer (concurrently), then the        *)
(* deferred merges one by one in slot order, then the merge-all function;     *)
(* any error cancels every importer of the batch. The batch is saved in one    *)
(* action: nothing else of ImportBlocks runs while saveImporters runs.         *)
SaveOutcome(s) ==
  LET hs == Slots(s)
      base == [ret |-> "ok", saved |-> saved, morder |-> morder, perm |-> perm,
               cancelled |-> cancelled, twice |-> twice]
  IN  IF Len(s) < 1 THEN [base EXCEPT !.ret = "err"]                  \* "empty BlockImporters"
      ELSE IF Nil \in hs THEN [base EXCEPT !.ret = "panic"]             \* Save on a nil importer
      ELSE IF fault.kind = "save" /\ fault.at \in hs
        THEN [base EXCEPT !.ret = "err", !.cancelled = cancelled \cup hs,
                          !.saved = saved \cup (hs \ {fault.at})]
      ELSE IF fault.kind = "deferred" /\ fault.at \in hs
        THEN LET k == CHOOSE j \in 1..Len(s) : s[j] = fault.at IN      \* deferreds run in slot order
             [base EXCEPT !.ret = "err", !.cancelled = cancelled \cup hs, !.saved = saved \cup hs,
                          !.morder = morder \o SubSeq(s, 1, k - 1)]
      ELSE IF fault.kind = "merge" /\ fault.at \in hs
        THEN [base EXCEPT !.ret = "err", !.cancelled = cancelled \cup hs, !.saved = saved \cup hs,
                          !.morder = morder \o s]
      ELSE [base EXCEPT !.saved = saved \cup hs, !.morder = morder \o s, !.perm = perm \cup hs,
                        !.twice = twice \cup (saved \cap hs)]

ApplySave(o) == /\ saved' = o.saved /\ morder' = o.morder /\ perm' = o.perm
                /\ cancelled' = o.cancelled /\ twice' = o.twice

-----------------------------------------------------------------------------
Faults(f, c) == {NoFault} \cup {[kind |-> k, at |-> h] : k \in FaultKinds, h \in f..(f + c - 1)}

Init == /\ from \in Froms /\ count \in Counts /\ limit \in Limits
        /\ fault \in Faults(from, count)
        /\ variant \in Variants
        /\ pc = "pref" /\ bstart = 0 /\ ims = <<>> /\ pending = {}
        /\ saved = {} /\ morder = <<>> /\ perm = {} /\ cancelled = {} /\ twice = {}
        /\ ret = "running" /\ step = ""

(* what the statement demands for this case and what the transcription predicts
   (sets are printed as JSON arrays in no particular order) *)
Out == ToJson([from |-> from, count |-> count, limit |-> limit, fault |-> fault, variant |-> variant,
               want |-> [ok |-> fault = NoFault, stored |-> [k \in 1..count |-> from + k - 1], last |-> B],
               impl |-> [ret |-> ret, stored |-> Stored, merged |-> morder,
                         perm |-> perm, cancelled |-> cancelled]])

(* the case never changes; a terminal state carries the JSON case (evaluated last: all
   other primed variables are assigned by then) *)
Frame == /\ UNCHANGED <<from, count, limit, fault, variant>>
         /\ step' = IF Emit /\ pc' = "done" THEN Out' ELSE ""

(* pref, first half: `if ims != nil { saveImporters(ims) }` *)
SavePrevBatch ==
  /\ pc = "pref"
  /\ IF ims = <<>>
       THEN /\ pc' = "alloc"
            /\ UNCHANGED <<saved, morder, perm, cancelled, twice, ret>>
       ELSE LET o == SaveOutcome(ims) IN
            /\ ApplySave(o)
            /\ IF o.ret = "ok" THEN pc' = "alloc" /\ ret' = ret
                               ELSE pc' = "done" /\ ret' = o.ret
  /\ UNCHANGED <<bstart, ims, pending>>
  /\ Frame

(* pref, second half: r = (last+1) % batchlimit with last = end-1; make(r == 0 ? batchlimit : r) *)
AllocBatch ==
  /\ pc = "alloc"
  /\ LET r == bend % limit
         n == IF r = 0 THEN limit ELSE r
     IN ims' = [k \in 1..n |-> Nil]
  /\ pending' = {from + j : j \in bstart..(bend - 1)}
  /\ pc' = "work"
  /\ UNCHANGED <<bstart, saved, morder, perm, cancelled, twice, ret>>
  /\ Frame

(* the jobs of a batch run concurrently (util.RunJobWorker); Interleave = FALSE keeps only
   the ascending order (used for case generation, where the order does not matter) *)
Runnable == IF pending = {} THEN {} ELSE IF Interleave THEN pending ELSE {MinOf(pending)}

(* one job of the batch: block map, new importer, items, ims[(height-from) % batchlimit] = im *)
Work(h) ==
  /\ pc = "work" /\ h \in pending
  /\ IF fault.at = h /\ fault.kind \in {"map-notfound", "map-error", "new-importer"}
       THEN /\ ret' = "err" /\ pc' = "done"          \* BatchWork returns the job's error
            /\ UNCHANGED <<ims, pending>>
       ELSE LET slot == ((h - from) % limit) + 1 IN
            IF slot > Len(ims)
              THEN /\ ret' = "panic" /\ pc' = "done"  \* index out of range
                   /\ UNCHANGED <<ims, pending>>
              ELSE /\ ims' = [ims EXCEPT ![slot] = h]
                   /\ pending' = pending \ {h}
                   /\ UNCHANGED <<ret, pc>>
  /\ UNCHANGED <<bstart, saved, morder, perm, cancelled, twice>>
  /\ Frame

(* BatchWork: all jobs of the batch returned; `if end == size break; i += limit` *)
EndBatch ==
  /\ pc = "work" /\ pending = {}
  /\ IF bend = count THEN pc' = "final" /\ bstart' = bstart
                     ELSE pc' = "pref" /\ bstart' = bstart + limit
  /\ UNCHANGED <<ims, pending, saved, morder, perm, cancelled, twice, ret>>
  /\ Frame

(* after BatchWork: the save of the last batch, then success *)
FinalGuard == IF variant = "pinned" THEN Len(ims) < limit ELSE Len(ims) > 0

FinalSave ==
  /\ pc = "final"
  /\ IF FinalGuard
       THEN LET o == SaveOutcome(ims) IN
            /\ ApplySave(o)
            /\ ret' = o.ret
       ELSE /\ ret' = "ok"
            /\ UNCHANGED <<saved, morder, perm, cancelled, twice>>
  /\ pc' = "done"
  /\ UNCHANGED <<bstart, ims, pending>>
  /\ Frame

Next == \/ SavePrevBatch \/ AllocBatch \/ EndBatch \/ FinalSave
        \/ \E h \in Runnable : Work(h)

Spec == Init /\ [][Next]_vars /\ WF_vars(Next)

-----------------------------------------------------------------------------
(* The abstract ImportBlocks(A, B, L): the outcomes the statement allows. *)
AbstractOutcomeOK ==
  ret = "ok" => /\ Stored = Range
                /\ Merged = Range
                /\ perm = Range

TypeOK == /\ pc \in {"pref", "alloc", "work", "final", "done"}
          /\ ret \in {"running", "ok", "err", "panic"}
          /\ saved \subseteq Range /\ perm \subseteq Range /\ cancelled \subseteq Range
          /\ Merged \subseteq Range /\ pending \subseteq Range
          /\ (pc = "done") = (ret # "running")

(* C15, the statement *)
SuccessMeansStored == AbstractOutcomeOK
LastMergedIsB == ret = "ok" => Len(morder) > 0 /\ morder[Len(morder)] = B
FaultMeansError == (pc = "done" /\ fault # NoFault) => ret # "ok"
NoPanic == ret # "panic"

(* structure of the algorithm (stronger than the statement; model only) *)
NoFaultMeansOk == (pc = "done" /\ fault = NoFault) => ret = "ok"
SavedOnce == twice = {}
MergedInOrder == \A a, b \in 1..Len(morder) : a < b => morder[a] < morder[b]
SavedIsPrefix == \A h \in saved : \A g \in from..h : g \in saved \/ (fault.kind = "save" /\ g = fault.at)
PermSubsetMergedSubsetSaved == perm \subseteq Merged /\ Merged \subseteq saved
SlotsAreBatchHeights == pc \in {"work", "final"} =>
                          \A k \in 1..Len(ims) : ims[k] # Nil => ims[k] = from + bstart + k - 1
NothingLost == [][saved \subseteq saved' /\ perm \subseteq perm' /\ Len(morder) <= Len(morder')]_vars

Terminates == <>(pc = "done")
=============================================================================
