INIT Init
NEXT Next
CONSTANTS
  MaxK = 7
  Gap = 3
  Sizes = {1}
  Positions = {0}
  Variants = {"pinned", "fixed", "ideal"}
  Emit = TRUE
  Mode = "build"
  Limits = {1, 2, 3, 4}
  RespKinds = {"consistent", "last-invalid", "missing", "error", "fork-one", "wrongheight", "swap", "fork", "older", "nongenesis-zero"}
CHECK_DEADLOCK FALSE
