SPECIFICATION LSpec
CONSTANTS
  Props <- PropsA
  Avps <- AvpsA
  MaxOps = 0
  Calls <- CallsThorough
  MaxCalls = 6
  CheckUnderLock = TRUE
  Forced = FALSE
INVARIANTS LTypeOK LockOK RunningHeld AgreedOnly OncePerHeight
CHECK_DEADLOCK FALSE
