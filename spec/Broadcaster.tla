----------------------------- MODULE Broadcaster -----------------------------
(* C08 - the local node never equivocates.                                     *)
(*                                                                             *)
(* Implementation-level model of every way a ballot signed by the local node   *)
(* leaves it: States.mimicBallotFunc (isaac/states/states.go: pool check, sign *)
(* under the mimic mutex, broadcast), the consensus handlers' make*Ballot      *)
(* (base_ballot_handler.go: pool check, build, broadcast, re-broadcast by the  *)
(* ballot timers) and the single exit DefaultBallotBroadcaster.Broadcast       *)
(* (isaac/states/ballot.go: set = TempPool.SetBallot, first writer wins, under *)
(* the broadcaster's mutex; then the broadcast function).                      *)
(*                                                                             *)
(* Callers: deliveries d (a ballot of a sync source for stage point dsp[d]     *)
(* with fact df[d], handed to the mimic function by the ballot box while the   *)
(* node is SYNCING) and handler calls h (the local handler wants to vote       *)
(* df[h] at dsp[h]). One action per critical section:                          *)
(*   Check(c)  pool lookup           (mimic: gate mimic:checked when not found)*)
(*   Sign(c)   sign own ballot       (mimic: gate mimic:signed)                *)
(*   Set(c)    Broadcast, first half (mimic: gate mimic:broadcast before it)   *)
(*   Send(c)   Broadcast, second half: the broadcast function gets a ballot    *)
(*   Again(h)  the ballot timer broadcasts the handler's ballot once more      *)
(*                                                                             *)
(* SendKept = FALSE is the pinned tree: Broadcast hands its argument to the    *)
(* broadcast function whatever the pool kept. SendKept = TRUE is the repaired  *)
(* Broadcast: it sends what the pool kept.                                     *)
(*                                                                             *)
(* Property (from the statement): NoEquivocation - for each stage point (the   *)
(* suffrage-confirm flag is part of the stage point here) at most one fact is  *)
(* broadcast. SignsOnce is the stronger reading (at most one signed fact),     *)
(* reported only.                                                              *)
(* Binding G: maximal behaviours (Record = TRUE) are forced on the real mimic  *)
(* function / broadcaster / TempPool through the gates. Binding B:             *)
(* BroadcasterTrace.tla validates the event logs.                              *)
EXTENDS Integers, Sequences, FiniteSets, TLC, Json

CONSTANTS Deliv,      \* mimic deliveries, e.g. {"d1","d2","d3"}
          Handler,    \* handler calls,    e.g. {"h1"}
          SP,         \* stage points (incl. suffrage-confirm flag), e.g. {"i","a","s"}
          Fact,       \* {"A","B"}
          MaxAgain,   \* re-broadcasts per handler call
          SendKept,   \* TRUE: Broadcast sends what the pool kept
          Record

None == "-"
Caller == Deliv \cup Handler

VARIABLES dsp, df,    \* Caller -> SP, Caller -> Fact: what each caller is about
          pc,         \* Caller -> "new" | "checked" | "signed" | "set" | "done"
          bl,         \* Caller -> the fact of the ballot the caller holds (None before it has one)
          out,        \* Caller -> the fact Broadcast is going to hand to the broadcast function
          pool,       \* SP -> Fact \cup {None}: TempPool ballots of the local node
          sent,       \* set of <<sp, fact>> handed to the broadcast function
          signed,     \* set of <<sp, fact>> signed by the local node
          again,      \* Handler -> re-broadcasts done
          hist, step
vars == <<dsp, df, pc, bl, out, pool, sent, signed, again, hist, step>>
view == <<dsp, df, pc, bl, out, pool, sent, signed, again>>

NoEquivocation == \A s \in SP : Cardinality({f \in Fact : <<s, f>> \in sent}) <= 1
SignsOnce      == \A s \in SP : Cardinality({f \in Fact : <<s, f>> \in signed}) <= 1
(* what the pool guarantees whatever the callers do *)
PoolStable     == [][\A s \in SP : pool[s] # None => pool'[s] = pool[s]]_vars
SentWasSigned  == sent \subseteq signed

Log(e) == /\ hist' = IF Record THEN Append(hist, e) ELSE hist
          /\ step' = IF Record THEN ToJson([h |-> hist', bad |-> ~NoEquivocation', twice |-> ~SignsOnce']) ELSE step

Init ==
  /\ dsp \in [Caller -> SP]
  /\ df \in [Caller -> Fact]
  /\ pc = [c \in Caller |-> "new"]
  /\ bl = [c \in Caller |-> None]
  /\ out = [c \in Caller |-> None]
  /\ pool = [s \in SP |-> None]
  /\ sent = {} /\ signed = {}
  /\ again = [h \in Handler |-> 0]
  /\ hist = IF Record THEN <<[a |-> "Init", dsp |-> dsp, df |-> df]>> ELSE <<>>
  /\ step = ""

(* pool lookup. mimic: a stored ballot ends the delivery (the stored ballot is the local   *)
(* node's, the delivered one is not). handler: a stored ballot is taken instead of a new one *)
Check(c) ==
  /\ pc[c] = "new"
  /\ LET found == pool[dsp[c]] # None IN
     /\ pc' = [pc EXCEPT ![c] = IF found THEN (IF c \in Deliv THEN "done" ELSE "signed") ELSE "checked"]
     /\ bl' = [bl EXCEPT ![c] = IF found /\ c \in Handler THEN pool[dsp[c]] ELSE bl[c]]
     /\ UNCHANGED <<dsp, df, out, pool, sent, signed, again>>
     /\ Log([a |-> "Check", c |-> c, found |-> found])

Sign(c) ==
  /\ pc[c] = "checked"
  /\ pc' = [pc EXCEPT ![c] = "signed"]
  /\ bl' = [bl EXCEPT ![c] = df[c]]
  /\ signed' = signed \cup {<<dsp[c], df[c]>>}
  /\ UNCHANGED <<dsp, df, out, pool, sent, again>>
  /\ Log([a |-> "Sign", c |-> c])

(* DefaultBallotBroadcaster.set under its mutex: TempPool.SetBallot, first writer wins *)
Set(c) ==
  /\ pc[c] = "signed"
  /\ LET s == dsp[c]
         kept == IF pool[s] = None THEN bl[c] ELSE pool[s] IN
     /\ pool' = [pool EXCEPT ![s] = kept]
     /\ out' = [out EXCEPT ![c] = IF SendKept THEN kept ELSE bl[c]]
  /\ pc' = [pc EXCEPT ![c] = "set"]
  /\ UNCHANGED <<dsp, df, bl, sent, signed, again>>
  /\ Log([a |-> "Set", c |-> c])

Send(c) ==
  /\ pc[c] = "set"
  /\ sent' = sent \cup {<<dsp[c], out[c]>>}
  /\ pc' = [pc EXCEPT ![c] = "done"]
  /\ UNCHANGED <<dsp, df, bl, out, pool, signed, again>>
  /\ Log([a |-> "Send", c |-> c, s |-> dsp[c], f |-> out[c]])

(* the ballot timer of the handler fires again with the ballot the handler made *)
Again(h) ==
  /\ h \in Handler /\ pc[h] = "done" /\ again[h] < MaxAgain
  /\ again' = [again EXCEPT ![h] = @ + 1]
  /\ pc' = [pc EXCEPT ![h] = "signed"]
  /\ UNCHANGED <<dsp, df, bl, out, pool, sent, signed>>
  /\ Log([a |-> "Again", c |-> h])

Next == \E c \in Caller : Check(c) \/ Sign(c) \/ Set(c) \/ Send(c) \/ Again(c)
Spec == Init /\ [][Next]_vars

TypeOK == /\ pc \in [Caller -> {"new", "checked", "signed", "set", "done"}]
          /\ pool \in [SP -> Fact \cup {None}]
          /\ sent \subseteq SP \X Fact

(* schedule export: every maximal behaviour once *)
Terminal == \A c \in Caller : pc[c] = "done" /\ (c \in Handler => again[c] = MaxAgain)
Emit == Terminal => PrintT(<<"SCHED", step>>)

(* trace validation: a new execution *)
Start(sp, f) ==
  /\ dsp' = sp /\ df' = f
  /\ pc' = [c \in Caller |-> "new"]
  /\ bl' = [c \in Caller |-> None]
  /\ out' = [c \in Caller |-> None]
  /\ pool' = [s \in SP |-> None]
  /\ sent' = {} /\ signed' = {}
  /\ again' = [h \in Handler |-> 0]
  /\ UNCHANGED <<hist, step>>
=============================================================================
