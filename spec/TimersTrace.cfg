SPECIFICATION TraceSpec
CONSTANTS
  Ids = {"a", "b", "c"}
  MaxInst = 24
  MaxTicks = 0
  MaxStops = 0
  MaxClock = 0
  MaxRm = 0
  Interval = 0
  RegOrder = "locked"
  RemoveBy = "instance"
  Results = {"keep", "stop", "err", "nonext"}
  KeepHist = "off"
CONSTRAINT HighWater
POSTCONDITION Accepted
CHECK_DEADLOCK FALSE
