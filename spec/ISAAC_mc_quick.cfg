SPECIFICATION Spec
CONSTANTS
  Node = {"n1", "n2"}
  Byz = {}
  T10 = 670
  MaxHeight = 2
  MaxRound = 0
INVARIANTS TypeOK NoHonestEquivocation VoteproofAgreement ChainAgreement SavedOnlyAgreed ChainLinked OneProposalPerPoint
PROPERTIES LastMonotone BoxLastMonotone
CHECK_DEADLOCK FALSE
