SPECIFICATION Spec
CONSTANTS
  Fact = {"A", "B"}
  Signer = {1, 2}
  MaxAdd = 3
  MaxReSet = 0
  MaxCalls = 3
  Limits = {5}
  MaxRej = 2
  Impl = "fixed"
  Sym = TRUE
  NCallers = 2
  Removal = "skip"
  MaxTwice = 0
  SetRace = "locked"
  Pick = 0
  Emit = "terminal"
INVARIANTS TypeOK Gone R0ok R1ok R2ok R3ok R4ok R6ok
CHECK_DEADLOCK FALSE
