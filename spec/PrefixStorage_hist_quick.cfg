SPECIFICATION Spec
CONSTANTS
  Alphabet = {0, 1, 255}
  Stores <- StoresSmall
  InitKeyLen = 3
  MaxInitKeys = 0
  UKLen = 1
  BoundLen = 1
  Limits = {333}
  Stops = {0}
  Mode = "hist"
  L = 333
  Sizes = {"L-1", "L", "L+1", "2L+1"}
  HistStores <- HistStoresQuick
  HistKinds = {"L-1", "L", "L+1", "2L+1", "Rm", "RmFresh", "Put0", "Put255", "Iter"}
  HistFillFirst = TRUE
  MaxSteps = 4
INVARIANTS TypeOK HistAgrees HistRounds
CHECK_DEADLOCK FALSE
