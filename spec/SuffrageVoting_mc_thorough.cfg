SPECIFICATION Spec
CONSTANTS
  Member = {"n1", "n2", "n3", "n4"}
  Outsider = {"x"}
  Local = "n1"
  T10 = 670
  OpSet <- OpsThorough
  InState <- InStateThorough
  Heights = {2, 3}
  MaxCalls = 5
  MaxFinds = 2
  Sim = FALSE
  Level = "abstract"
VIEW view
INVARIANTS TypeOK NeverLocal NoSelfSignature PoolIsUnionOfVotes ConsensusAccepts Idempotent
CHECK_DEADLOCK FALSE
