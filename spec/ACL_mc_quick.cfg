SPECIFICATION Spec
CONSTANTS
  Users = {"u", "v"}
  Scopes = {"a"}
  Perms = {1, 3}
  Required = {2, 3, 4}
  Super = "super"
  Nobody = "nobody"
  Other = "other"
  Walk = FALSE
VIEW View
INVARIANTS TypeOK Refines SuperAllowed ProhibitDenies NoEntryDenied Precedence
PROPERTIES Isolation
CHECK_DEADLOCK FALSE
