---------------------------- MODULE BlockSaveTrace ----------------------------
(* Binding B for C11: call / return / writer-save events recorded from the real *)
(* isaac.ProposalProcessors + DefaultProposalProcessor (stub BlockWriter whose   *)
(* manifest is derived from the proposal), driven sequentially and from several  *)
(* goroutines, are validated against BlockSave.tla.                              *)
(*   Reset                                                                       *)
(*   Call{id, op = "Process", f, h, beh} | Call{id, op = "Save", f, ah, nb}      *)
(*   | Call{id, op = "Cancel"}                                                   *)
(*   WSave{h, m, f, ah, nb}   BlockWriter.Save was called (inside a Save call)   *)
(*   Ret{id, res}             result class of the call                           *)
(* Every call takes effect atomically at a linearization point between its Call  *)
(* and Ret (ProposalProcessors.l serialises them): silent Lin(c); a Save that    *)
(* saves linearizes at its WSave event. Results are guards.                      *)
EXTENDS BlockSave, Json

Trace == ndJsonDeserialize("trace.ndjson")
VARIABLES l, calls
tvars == <<vars, l, calls>>
Ev == Trace[l]

More == l <= Len(Trace)
Consume == More /\ l' = l + 1
Silent == More /\ UNCHANGED l
Done(c) == calls' = (calls \ {c}) \cup {[c EXCEPT !.done = TRUE, !.res = res']}

TReset == /\ Consume /\ Ev.a = "Reset"
          /\ cur' = None /\ prevSaved' = -1 /\ wsaves' = <<>> /\ res' = "" /\ UNCHANGED nops
          /\ calls' = {}
TCall == /\ Consume /\ Ev.a = "Call"
         /\ calls' = calls \cup {[id |-> Ev.id, op |-> Ev.op, f |-> Ev.f, h |-> Ev.h, beh |-> Ev.beh,
                                  ah |-> Ev.ah, nb |-> Ev.nb, done |-> FALSE, res |-> ""]}
         /\ UNCHANGED vars
Lin == /\ Silent
       /\ \E c \in calls :
            /\ ~c.done
            /\ CASE c.op = "Process" -> ProcessStep([f |-> c.f, h |-> c.h, beh |-> c.beh])
                 [] c.op = "Cancel" -> CancelStep
                 [] OTHER -> DoSave(c.f, [h |-> c.ah, nb |-> c.nb]) /\ res' # "saved"
            /\ Done(c)
       /\ UNCHANGED nops
TWSave == /\ Consume /\ Ev.a = "WSave"
          /\ \E c \in calls :
               /\ ~c.done /\ c.op = "Save"
               /\ DoSave(c.f, [h |-> c.ah, nb |-> c.nb]) /\ res' = "saved"
               /\ LET w == wsaves'[Len(wsaves')] IN w.h = Ev.h /\ w.m = Ev.m /\ w.f = Ev.f /\ w.nb = Ev.nb
               /\ c.ah = Ev.ah
               /\ Done(c)
          /\ UNCHANGED nops
TRet == /\ Consume /\ Ev.a = "Ret"
        /\ \E c \in calls : c.id = Ev.id /\ c.done /\ c.res = Ev.res /\ calls' = calls \ {c}
        /\ UNCHANGED vars

TraceInit == Init /\ l = 1 /\ calls = {}
TraceNext == TReset \/ TCall \/ Lin \/ TWSave \/ TRet
TraceSpec == TraceInit /\ [][TraceNext]_tvars

ASSUME TLCSet(1, 0)
HighWater == TLCSet(1, IF l > TLCGet(1) THEN l ELSE TLCGet(1))
Accepted == \/ TLCGet(1) = Len(Trace) + 1
            \/ PrintT(<<"HW", TLCGet(1), Len(Trace)>>) /\ FALSE
=============================================================================
