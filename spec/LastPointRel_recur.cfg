SPECIFICATION SpecWalk
CONSTANTS
  MaxH = 9
  MaxR = 9
  MaxSteps = 6
INVARIANT NoRecur
CHECK_DEADLOCK FALSE
