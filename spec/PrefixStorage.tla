--------------------------- MODULE PrefixStorage ---------------------------
(* C25 - prefix storages over one shared key-value store.                   *)
(* storage/leveldb/prefix.go (PrefixStorage, PrefixStorageBatch,            *)
(* RemoveByPrefix) and storage/leveldb/db.go (Storage.Iter, BatchRemove).   *)
(*                                                                          *)
(* The store is a map  kv : byte string -> value. A prefix storage P sees   *)
(* and changes only the keys that start with P, addressed by the rest of    *)
(* the key. `Abs*` is written from the property statement (a map model);    *)
(* `Impl*` transcribes the code: key() = prefix ++ key, the range rewrite   *)
(* of Iter over leveldbutil.BytesPrefix (carry over trailing 0xff, nil      *)
(* limit for an all-0xff prefix), origkey() = key[len(prefix):], the        *)
(* delete loop of BatchRemove with its batch limit and restart key, and     *)
(* what the code does on a closed storage. TLC compares Abs and Impl for    *)
(* every operation in every initial state (ImplAgrees): a difference is a   *)
(* candidate defect, to be reproduced on the real code.                     *)
(*                                                                          *)
(* v2 - two more dimensions.                                                *)
(* OBJECTS. A prefix storage is an object that lives on between calls. The  *)
(* map model of the statement has no memory: the reply and the effect of a  *)
(* call are a function of (prefix, open/closed, store) only. Every          *)
(* operation therefore names the object it goes through: the long-lived     *)
(* one of its prefix ("kept": made once, used for the whole behaviour) or a *)
(* "fresh" one made for this call. `obj[p]` is what the kept object of p    *)
(* has been through (calls made, the largest removal it did); in Mode       *)
(* "hist" the whole sequence `path` of calls is part of the state, so that  *)
(* TLC enumerates every HISTORY of MaxSteps operations on one object,       *)
(* not every store.                                                         *)
(* SIZES. The removers work in rounds of at most L keys (BatchRemove; the   *)
(* callers in isaac/database pass L = 333). Fill(p, c) writes SizeOf(c)     *)
(* filler keys  p ++ <<FB, hi, lo>>  through the object in one batch; the   *)
(* size classes stand below / at / above / at a multiple of / several       *)
(* rounds above L. FB is a byte outside Alphabet: every other key of the    *)
(* model is over Alphabet, hence all fillers of one prefix lie on the same  *)
(* side of every bound and under the same prefixes (FillersUniform) and the *)
(* model keeps them as ONE key Fat(p) = p ++ <<FB>> with the multiplicity   *)
(* bulk[p]; replies and stores name them as a run <<key, value, from, to>>. *)
(*                                                                          *)
(* Binding A. Mode "cases": every initial store (<= MaxInitKeys keys) x     *)
(* every operation = one state of depth 1 whose `step` carries the          *)
(* pre-store, the operation, the expected reply and the expected store.     *)
(* Mode "hist": every sequence of MaxSteps operations of HistKinds through  *)
(* the kept object of one prefix (and a fresh one, for Remove), from a      *)
(* store with keys under and around the prefix. Mode "walk" (-simulate):    *)
(* seeded walks of MaxSteps operations on one store. Replayed on            *)
(* leveldbstorage.Storage over goleveldb memory storage; after every step   *)
(* the raw store is dumped and compared with kv.                            *)
EXTENDS Integers, Sequences, FiniteSets, TLC, Json

CONSTANTS Alphabet,     \* bytes keys are made of, e.g. {0, 1, 255}
          Stores,       \* the prefixes of the prefix storages (byte sequences)
          InitKeyLen,   \* initial full keys have length 1..InitKeyLen
          MaxInitKeys,  \* initial stores hold at most this many keys (<= 3)
          UKLen,        \* user keys of point operations have length 1..UKLen
          BoundLen,     \* range bounds have length 1..BoundLen (or are nil)
          Limits,       \* batch limits of BatchRemove
          Stops,        \* Iter: stop after this many callbacks (0 = never)
          Mode,         \* "cases" | "walk" | "hist"
          MaxSteps,
          L,            \* the batch limit of the repository's removers (333); sizes are relative to it
          Sizes,        \* size classes Fill may use (names, see SizeOf)
          HistStores,   \* hist: prefixes whose kept object is put through every history
          HistKinds,    \* hist: the calls a history is made of (names, see HistOp; a size class = Fill)
          HistFillFirst \* hist: TRUE = a history starts with a Fill (histories on small stores are the walks' part)

Nil == <<-1>>            \* a nil []byte (no bound)
FB  == 2                 \* the byte after the prefix in a filler key
ASSUME FB \notin Alphabet

\* values for Stores (a cfg file cannot write tuples): nested, sibling and all-0xff prefixes
StoresSmall == {<<1>>, <<1, 0>>, <<1, 255>>, <<255>>, <<255, 255>>}
StoresLarge == StoresSmall \cup {<<0>>, <<0, 1>>}
HistStoresQuick == {<<1>>, <<255, 255>>}
HistStoresThorough == {<<1>>, <<1, 0>>, <<255, 255>>}
Values == {1, 2}

SizeOf(c) == CASE c = "3" -> 3 [] c = "L-1" -> L - 1 [] c = "L" -> L [] c = "L+1" -> L + 1
               [] c = "2L" -> 2 * L [] c = "2L+1" -> 2 * L + 1 [] c = "3L+2" -> 3 * L + 2
AllSizes == {"3", "L-1", "L", "L+1", "2L", "2L+1", "3L+2"}
ASSUME Sizes \subseteq AllSizes

Seqs(n) == UNION {[1..i -> Alphabet] : i \in 1..n}
UKeys  == Seqs(UKLen)
Bounds == Seqs(BoundLen) \cup {Nil}
RPrefixes == Seqs(2) \cup {<<>>}      \* arguments of the package-level RemoveByPrefix

VARIABLES kv,       \* the shared store: a function from a finite set of byte sequences to Values
          bulk,     \* bulk[p] = number of filler keys under Fat(p) (0: none; > 0 iff Fat(p) \in DOMAIN kv)
          closed,   \* prefixes on whose kept object Close() was called
          obj,      \* obj[p] = what the kept object of p has been through: calls, largest removal (-1: none)
          path,     \* hist: <<prefix under test>> \o the names of the calls made (step.path: this call included);
                    \* walk: <<the prefix half of the calls go to>>
          n,        \* operations done
          step      \* output only
vars == <<kv, bulk, closed, obj, path, n, step>>

---------------------------------------------------------------------------
(* byte strings *)

RECURSIVE Less(_, _)
Less(a, b) == IF b = <<>> THEN FALSE
              ELSE IF a = <<>> THEN TRUE
              ELSE IF a[1] < b[1] THEN TRUE
              ELSE IF a[1] > b[1] THEN FALSE
              ELSE Less(Tail(a), Tail(b))
Leq(a, b) == a = b \/ Less(a, b)

RECURSIVE Sorted(_)
Sorted(S) == IF S = {} THEN <<>>
             ELSE LET m == CHOOSE x \in S : \A y \in S : Leq(x, y)
                  IN <<m>> \o Sorted(S \ {m})

Reverse(s) == [i \in 1..Len(s) |-> s[Len(s) + 1 - i]]
Take(s, k) == IF k = 0 \/ k >= Len(s) THEN s ELSE SubSeq(s, 1, k)
Max(a, b) == IF a >= b THEN a ELSE b

StartsWith(k, p) == Len(k) >= Len(p) /\ SubSeq(k, 1, Len(p)) = p
Rest(k, p) == SubSeq(k, Len(p) + 1, Len(k))

\* a half-open range <<start, limit>> of byte strings, Nil = unbounded
InRange(k, s, l) == (s = Nil \/ Leq(s, k)) /\ (l = Nil \/ Less(k, l))

Without(m, D) == [k \in DOMAIN m \ D |-> m[k]]
With(m, key, v) == [k \in DOMAIN m \cup {key} |-> IF k = key THEN v ELSE m[k]]

---------------------------------------------------------------------------
(* filler runs *)

Fat(p)   == p \o <<FB>>
IsFat(k) == k # <<>> /\ k[Len(k)] = FB
Owner(k) == SubSeq(k, 1, Len(k) - 1)                 \* the prefix a fat key belongs to
Mult(bk, k) == IF IsFat(k) THEN bk[Owner(k)] ELSE 1  \* how many real keys the model key k stands for
NoBulk == [p \in Stores |-> 0]
Norm(m, bk) == [p \in Stores |-> IF Fat(p) \in DOMAIN m THEN bk[p] ELSE 0]

RECURSIVE SumMult(_, _)
SumMult(bk, D) == IF D = {} THEN 0
                  ELSE LET k == CHOOSE x \in D : TRUE IN Mult(bk, k) + SumMult(bk, D \ {k})

(* every filler p ++ <<FB, hi, lo>> compares with every bound the model can form (full keys over
   Alphabet of length <= 4: prefix ++ user bound) as Fat(p) does, and lies under the same prefixes *)
FillersUniform ==
  \A p \in Stores, hi \in {0, 1, 255}, lo \in {0, 77, 255} :
    LET f == p \o <<FB, hi, lo>>
    IN /\ \A b \in Seqs(4) : (Less(b, f) <=> Less(b, Fat(p))) /\ (Less(f, b) <=> Less(Fat(p), b))
       /\ \A q \in Stores \cup RPrefixes : StartsWith(f, q) <=> StartsWith(Fat(p), q)
ASSUME FillersUniform

---------------------------------------------------------------------------
(* The statement: a map model. Every operation yields <<reply, store', bulk'>>.    *)

Under(m, p) == {k \in DOMAIN m : StartsWith(k, p)}

AbsGet(m, p, u)    == IF p \o u \in DOMAIN m THEN <<1, m[p \o u]>> ELSE <<0, 0>>
AbsExists(m, p, u) == IF p \o u \in DOMAIN m THEN 1 ELSE 0

\* the first `left` (> 0) callbacks of a sequence of <<key, keys behind it>>
RECURSIVE Cut(_, _)
Cut(es, left) == IF es = <<>> \/ left = 0 THEN <<>>
                 ELSE IF Head(es)[2] >= left THEN << <<Head(es)[1], left>> >>
                 ELSE <<Head(es)>> \o Cut(Tail(es), left - Head(es)[2])

\* what the callback of an iteration over the model keys `ord` (in this order) is handed, cut after
\* `stop` callbacks: <<user key, value>>, a run of fillers as <<user key of Fat, value, from, to>>
Visits(m, bk, p, ord, asc, stop) ==
  LET es == [i \in 1..Len(ord) |-> <<ord[i], Mult(bk, ord[i])>>]
      ct == IF stop = 0 THEN es ELSE Cut(es, stop)
  IN [i \in 1..Len(ct) |->
        LET k == ct[i][1] c == ct[i][2]
        IN IF IsFat(k)
           THEN IF asc THEN <<Rest(k, p), m[k], 0, c - 1>> ELSE <<Rest(k, p), m[k], bk[Owner(k)] - 1, bk[Owner(k)] - c>>
           ELSE <<Rest(k, p), m[k]>>]

\* the entries of P in the range of *user* keys, in order, cut after `stop` callbacks
AbsIter(m, bk, p, s, l, asc, stop) ==
  LET ks == Sorted({k \in Under(m, p) : InRange(Rest(k, p), s, l)})
  IN Visits(m, bk, p, IF asc THEN ks ELSE Reverse(ks), asc, stop)

RECURSIVE ApplyBatch(_, _, _)
ApplyBatch(m, p, b) ==
  IF b = <<>> THEN m
  ELSE LET o == Head(b)
       IN ApplyBatch(IF o[1] = "put" THEN With(m, p \o o[2], o[3]) ELSE Without(m, {p \o o[2]}), p, Tail(b))

\* "removing a prefix deletes exactly the keys under it"
AbsRemove(m, p) == Without(m, Under(m, p))

\* "batch range removal deletes exactly the keys in the range" (and reports how many)
AbsBatchRemove(m, bk, s, l) ==
  LET D == {k \in DOMAIN m : InRange(k, s, l)} IN <<SumMult(bk, D), Without(m, D)>>

---------------------------------------------------------------------------
(* The code *)

\* leveldbutil.BytesPrefix: [prefix, prefix with its last non-0xff byte incremented), nil limit if none
RECURSIVE PrefixLimit(_)
PrefixLimit(p) == IF p = <<>> THEN Nil
                  ELSE IF p[Len(p)] < 255 THEN [p EXCEPT ![Len(p)] = @ + 1]
                  ELSE PrefixLimit(SubSeq(p, 1, Len(p) - 1))
BytesPrefix(p) == <<p, PrefixLimit(p)>>

\* Storage.Iter over the raw store (model keys; a run is one of them)
RawIter(m, s, l, asc) ==
  LET ks == Sorted({k \in DOMAIN m : InRange(k, s, l)})
  IN IF asc THEN ks ELSE Reverse(ks)

\* PrefixStorage.Iter: range rewrite + origkey
ImplIter(m, bk, p, s, l, asc, stop) ==
  LET nr  == BytesPrefix(p)
      st  == IF s # Nil THEN p \o s ELSE nr[1]
      lm  == IF l # Nil THEN p \o l ELSE nr[2]
  IN Visits(m, bk, p, RawIter(m, st, lm, asc), asc, stop)

\* RemoveByPrefix: one batch of deletes of everything Iter(BytesPrefix(prefix)) visits
ImplRemoveByPrefix(m, p) ==
  LET nr == BytesPrefix(p) IN Without(m, {k \in DOMAIN m : InRange(k, nr[1], nr[2])})

\* BatchRemove: rounds of at most `lim` deletes; a round that fills the batch remembers the key it
\* stopped at (not deleted) and the next round starts there; ends with the first round that deletes
\* nothing. The fillers of a run are deleted one by one: `skip` = how many of the first visited
\* run are gone already (the restart key lies inside that run).
RECURSIVE Eat(_, _, _)
Eat(ws, i, left) == IF i > Len(ws) THEN <<i, 0>>                       \* everything visited went into the batch
                    ELSE IF ws[i] <= left THEN Eat(ws, i + 1, left - ws[i])
                    ELSE <<i, left>>                                     \* batch full at key number left+1 of entry i

RECURSIVE ImplBatchRemove(_, _, _, _, _, _, _)
ImplBatchRemove(m, bk, s, l, lim, removed, skip) ==
  LET inr  == RawIter(m, s, l, TRUE)
      ws   == [i \in 1..Len(inr) |-> Mult(bk, inr[i]) - (IF i = 1 THEN skip ELSE 0)]
      e    == Eat(ws, 1, lim)
      gone == {inr[i] : i \in 1..(e[1] - 1)}                              \* deleted to the last key
      all  == IF inr = <<>> THEN 0 ELSE SumMult(bk, {inr[i] : i \in 1..Len(inr)}) - skip
      took == IF e[1] > Len(inr) THEN all ELSE lim                        \* a batch that stopped is full
  IN IF took = 0 THEN <<removed, m>>
     ELSE IF e[1] > Len(inr)
          THEN ImplBatchRemove(Without(m, gone), bk, s, l, lim, removed + took, 0)
          ELSE ImplBatchRemove(Without(m, gone), bk, inr[e[1]], l, lim, removed + took,
                               (IF e[1] = 1 THEN skip ELSE 0) + e[2])

---------------------------------------------------------------------------
(* Operations. An operation is a record; Abs(m, bk, c, op) / Impl(m, bk, c, op) = <<reply, store', bulk'>>. *)

BatchOps == {<<"put", u, 2>> : u \in UKeys} \cup {<<"del", u, 0>> : u \in UKeys}

Point(kind) == {[a |-> kind, p |-> p, o |-> "kept", k |-> u] : p \in Stores, u \in UKeys}

OpsOfKind == [
  Put      |-> {[a |-> "Put", p |-> p, o |-> "kept", k |-> u, v |-> v] : p \in Stores, u \in UKeys, v \in Values},
  Get      |-> Point("Get"),
  Exists   |-> Point("Exists"),
  Delete   |-> Point("Delete"),
  Iter     |-> {[a |-> "Iter", p |-> p, o |-> "kept", s |-> s, l |-> l, asc |-> asc, stop |-> stop] :
                   p \in Stores, s \in Bounds, l \in Bounds, asc \in BOOLEAN, stop \in Stops},
  Batch    |-> {[a |-> "Batch", p |-> p, o |-> "kept", b |-> b] : p \in Stores, b \in (BatchOps \X BatchOps) \cup {<<o>> : o \in BatchOps}},
  Fill     |-> {[a |-> "Fill", p |-> p, o |-> "kept", c |-> c, n |-> SizeOf(c)] : p \in Stores, c \in Sizes},
  Remove   |-> {[a |-> "Remove", p |-> p, o |-> "kept"] : p \in Stores},
  Close    |-> {[a |-> "Close", p |-> p, o |-> "kept"] : p \in Stores},
  RawPut   |-> {[a |-> "RawPut", k |-> k, v |-> v] : k \in Seqs(InitKeyLen), v \in Values},
  RemoveByPrefix |-> {[a |-> "RemoveByPrefix", p |-> p] : p \in RPrefixes},
  BatchRemove    |-> {[a |-> "BatchRemove", s |-> s, l |-> l, lim |-> lim] : s \in Bounds, l \in Bounds, lim \in Limits}
]
Kinds == DOMAIN OpsOfKind
Ops == UNION {OpsOfKind[kd] : kd \in Kinds}
OnStore(op) == op.a \in {"Put", "Get", "Exists", "Delete", "Iter", "Batch", "Fill", "Remove", "Close"}
\* the call goes through an object on which Close() was called (a fresh object is open)
OnClosed(c, op) == OnStore(op) /\ op.o = "kept" /\ op.p \in c

\* a closed prefix storage answers "closed", observes nothing and changes nothing
Abs(m, bk, c, op) ==
  LET r == IF OnClosed(c, op) THEN <<IF op.a = "Close" THEN "ok" ELSE "closed", m>>
           ELSE CASE op.a = "Put"    -> <<"ok", With(m, op.p \o op.k, op.v)>>
                  [] op.a = "Get"    -> <<AbsGet(m, op.p, op.k), m>>
                  [] op.a = "Exists" -> <<AbsExists(m, op.p, op.k), m>>
                  [] op.a = "Delete" -> <<"ok", Without(m, {op.p \o op.k})>>
                  [] op.a = "Iter"   -> <<AbsIter(m, bk, op.p, op.s, op.l, op.asc, op.stop), m>>
                  [] op.a = "Batch"  -> <<"ok", ApplyBatch(m, op.p, op.b)>>
                  [] op.a = "Fill"   -> <<"ok", With(m, Fat(op.p), 1)>>
                  [] op.a = "Remove" -> <<"ok", AbsRemove(m, op.p)>>
                  [] op.a = "Close"  -> <<"ok", m>>
                  [] op.a = "RawPut" -> <<"ok", With(m, op.k, op.v)>>
                  [] op.a = "RemoveByPrefix" -> <<"ok", AbsRemove(m, op.p)>>
                  [] op.a = "BatchRemove"    -> AbsBatchRemove(m, bk, op.s, op.l)
      b == IF op.a = "Fill" /\ ~OnClosed(c, op) THEN [bk EXCEPT ![op.p] = Max(@, op.n)] ELSE bk
  IN <<r[1], r[2], Norm(r[2], b)>>

\* the code on a closed storage: Close() sets prefix = nil; key() then returns nil => ErrClosed for the
\* point operations, for Batch and for Iter with a bound; Iter without bounds and Remove use the nil
\* prefix as it is: BytesPrefix(nil) is the whole store
Impl(m, bk, c, op) ==
  LET r == IF OnClosed(c, op)
           THEN CASE op.a = "Close"  -> <<"ok", m>>
                  [] op.a = "Iter" /\ op.s = Nil /\ op.l = Nil -> <<ImplIter(m, bk, <<>>, Nil, Nil, op.asc, op.stop), m>>
                  [] op.a = "Remove" -> <<"ok", ImplRemoveByPrefix(m, <<>>)>>
                  [] OTHER -> <<"closed", m>>
           ELSE CASE op.a = "Iter"   -> <<ImplIter(m, bk, op.p, op.s, op.l, op.asc, op.stop), m>>
                  [] op.a = "Remove" -> <<"ok", ImplRemoveByPrefix(m, op.p)>>
                  [] op.a = "RemoveByPrefix" -> <<"ok", ImplRemoveByPrefix(m, op.p)>>
                  [] op.a = "BatchRemove"    -> ImplBatchRemove(m, bk, op.s, op.l, op.lim, 0, 0)
                  [] OTHER -> LET a == Abs(m, bk, c, op) IN <<a[1], a[2]>>   \* point operations and Fill: key() = prefix ++ key
      b == IF op.a = "Fill" /\ ~OnClosed(c, op) THEN [bk EXCEPT ![op.p] = Max(@, op.n)] ELSE bk
  IN <<r[1], r[2], Norm(r[2], b)>>

---------------------------------------------------------------------------
(* histories on one object *)

HistOp(P, t) ==
  CASE t \in AllSizes  -> [a |-> "Fill", p |-> P, o |-> "kept", c |-> t, n |-> SizeOf(t)]
    [] t = "Rm"        -> [a |-> "Remove", p |-> P, o |-> "kept"]
    [] t = "RmFresh"   -> [a |-> "Remove", p |-> P, o |-> "fresh"]
    [] t = "Put0"      -> [a |-> "Put", p |-> P, o |-> "kept", k |-> <<0>>, v |-> 2]       \* sorts before the fillers
    [] t = "Put255"    -> [a |-> "Put", p |-> P, o |-> "kept", k |-> <<255>>, v |-> 2]     \* sorts after the fillers
    [] t = "Del0"      -> [a |-> "Delete", p |-> P, o |-> "kept", k |-> <<0>>]
    [] t = "Iter"      -> [a |-> "Iter", p |-> P, o |-> "kept", s |-> Nil, l |-> Nil, asc |-> TRUE, stop |-> 0]
    [] t = "IterDesc"  -> [a |-> "Iter", p |-> P, o |-> "kept", s |-> Nil, l |-> Nil, asc |-> FALSE, stop |-> 0]
    [] t = "IterFrom1" -> [a |-> "Iter", p |-> P, o |-> "kept", s |-> <<1>>, l |-> Nil, asc |-> TRUE, stop |-> 0]
    [] t = "IterFresh" -> [a |-> "Iter", p |-> P, o |-> "fresh", s |-> Nil, l |-> Nil, asc |-> TRUE, stop |-> 0]
    [] t = "BRAll"     -> [a |-> "BatchRemove", s |-> Nil, l |-> Nil, lim |-> L]            \* package level, the removers' limit
AllHistKinds == AllSizes \cup {"Rm", "RmFresh", "Put0", "Put255", "Del0", "Iter", "IterDesc", "IterFrom1", "IterFresh", "BRAll"}
ASSUME HistKinds \subseteq AllHistKinds

\* the store a history starts from: keys under every prefix of StoresSmall, before, between and after them
HistKV == [k \in {<<0, 255>>, <<1>>, <<1, 0, 1>>, <<1, 1>>, <<1, 255>>, <<255>>, <<255, 0>>, <<255, 255>>, <<255, 255, 255>>} |-> 1]

Fills(pt) == Cardinality({i \in 2..Len(pt) : pt[i] \in AllSizes})

---------------------------------------------------------------------------
Pairs(m, bk) == {IF IsFat(k) THEN <<k, m[k], 0, bk[Owner(k)] - 1>> ELSE <<k, m[k]>> : k \in DOMAIN m}

\* what the replay needs: the operation, the store before and after, the reply, and what the object the
\* call goes through has been through before (rm = -1: no Remove yet, or a fresh object)
Rec(m, bk, c, ob, op, r, pt) ==
  [op |-> op, pre |-> Pairs(m, bk), closed |-> c, res |-> r[1], kv |-> Pairs(r[2], r[3]), L |-> L,
   rm |-> IF OnStore(op) /\ op.o = "kept" THEN ob[op.p].rm ELSE -1,
   calls |-> IF OnStore(op) /\ op.o = "kept" THEN ob[op.p].calls ELSE 0,
   path |-> pt]

EmptyKV == [k \in {} |-> 0]

KeySets(K, sz) == {{}} \cup (IF sz = 0 THEN {} ELSE {{t[i] : i \in 1..sz} : t \in [1..sz -> K]})

NewObj == [p \in Stores |-> [calls |-> 0, rm |-> -1]]

Init == /\ CASE Mode = "walk"  -> kv = EmptyKV /\ closed = {} /\ path \in {<<p>> : p \in Stores}
             [] Mode = "hist"  -> kv = HistKV /\ closed = {} /\ path \in {<<p>> : p \in HistStores}
             [] Mode = "cases" -> /\ kv \in {[k \in S |-> 1] : S \in KeySets(Seqs(InitKeyLen), MaxInitKeys)}
                                  /\ closed \in {{}} \cup {{p} : p \in Stores}
                                  /\ path = <<>>
        /\ bulk = NoBulk
        /\ obj = NewObj
        /\ n = 0
        /\ step = ""

Do(op) == /\ n < MaxSteps
          /\ (Mode = "cases" /\ closed # {}) => (OnStore(op) /\ op.p \in closed)   \* exhaustive: a closed store is only asked itself
          /\ LET r == Abs(kv, bulk, closed, op)
                 removed == SumMult(bulk, DOMAIN kv) - SumMult(r[3], DOMAIN r[2])
             IN /\ kv' = r[2]
                /\ bulk' = r[3]
                /\ step' = IF Mode = "hist" THEN ToString(Rec(kv, bulk, closed, obj, op, r, path'))
                                            ELSE ToJson(Rec(kv, bulk, closed, obj, op, r, path'))
                /\ obj' = IF OnStore(op) /\ op.o = "kept"
                          THEN [obj EXCEPT ![op.p] = [calls |-> @.calls + 1,
                                                      rm |-> IF op.a = "Remove" /\ ~OnClosed(closed, op) THEN Max(@.rm, removed) ELSE @.rm]]
                          ELSE obj
          /\ closed' = IF op.a = "Close" /\ op.o = "kept" THEN closed \cup {op.p} ELSE closed
          /\ n' = n + 1

\* -simulate builds every successor before it picks one: a walk draws its operation itself
\* (RandomElement follows -seed), the kind first so that the many Iter variants do not crowd out the
\* writes, then every parameter from its own small set (an element of OpsOfKind[kind], through the
\* kept object of the prefix three times out of four)
R(S) == RandomElement(S)
Which == <<"kept", "kept", "kept", "fresh">>
RO(d) == Which[R(1..4)]
\* half of the calls of a walk go to one prefix (path[1], drawn with the initial state): its kept object
\* gets a history of a dozen calls; a bound is nil one time out of three (no range at all: one Iter out of nine)
RP(d) == IF R(1..2) = 1 THEN path[1] ELSE R(Stores)
RB(d) == IF R(1..3) = 1 THEN Nil ELSE R(Seqs(BoundLen))
RandomOp(kd) ==
  CASE kd = "Put"    -> [a |-> "Put", p |-> RP(0), o |-> RO(0), k |-> R(UKeys), v |-> R(Values)]
    [] kd \in {"Get", "Exists", "Delete"} -> [a |-> kd, p |-> RP(0), o |-> RO(0), k |-> R(UKeys)]
    [] kd = "Iter"   -> [a |-> "Iter", p |-> RP(0), o |-> RO(0), s |-> RB(0), l |-> RB(0), asc |-> R(BOOLEAN), stop |-> R(Stops)]
    [] kd = "Batch"  -> [a |-> "Batch", p |-> RP(0), o |-> RO(0), b |-> IF R(BOOLEAN) THEN <<R(BatchOps)>> ELSE <<R(BatchOps), R(BatchOps)>>]
    [] kd = "Fill"   -> LET c == R(Sizes) IN [a |-> "Fill", p |-> RP(0), o |-> RO(0), c |-> c, n |-> SizeOf(c)]
    [] kd \in {"Remove", "Close"} -> [a |-> kd, p |-> RP(0), o |-> RO(0)]
    [] kd = "RawPut" -> [a |-> "RawPut", k |-> R(Seqs(InitKeyLen)), v |-> R(Values)]
    [] kd = "RemoveByPrefix" -> [a |-> "RemoveByPrefix", p |-> R(RPrefixes)]
    [] kd = "BatchRemove"    -> [a |-> "BatchRemove", s |-> RB(0), l |-> RB(0), lim |-> R(Limits)]

\* writes are drawn more often than the rest, Close rarely
WalkKinds == <<"Put", "Put", "Put", "RawPut", "RawPut", "Batch", "Get", "Exists", "Delete", "Iter", "Iter", "Iter",
               "Remove", "RemoveByPrefix", "BatchRemove", "BatchRemove", "Put", "RawPut", "Iter", "Close",
               "Fill", "Fill", "Remove">>

\* a history: any call of HistKinds after any other, but not the same call twice in a row (except a
\* second Remove) and at most two Fills (the first call, if HistFillFirst)
HistNext == \E t \in HistKinds :
              /\ (Len(path) > 1 /\ t = path[Len(path)]) => t = "Rm"
              /\ (t \in AllSizes) => Fills(path) < 2
              /\ (HistFillFirst /\ Len(path) = 1) => t \in AllSizes
              /\ path' = Append(path, t)
              /\ Do(HistOp(path[1], t))

WalkNext  == Mode = "walk"  /\ UNCHANGED path /\ \E op \in {RandomOp(WalkKinds[R(1..Len(WalkKinds))])} : Do(op)
CasesNext == Mode = "cases" /\ UNCHANGED path /\ \E op \in Ops : Do(op)

Next == n < MaxSteps /\ (CasesNext \/ (Mode = "hist" /\ HistNext) \/ WalkNext)

Spec == Init /\ [][Next]_vars

---------------------------------------------------------------------------
IsKey(k, len) == Len(k) \in 1..len /\ \A i \in 1..Len(k) : k[i] \in Alphabet    \* k \in Seqs(len), without building Seqs(len)
TypeOK == /\ \A k \in DOMAIN kv : IF IsFat(k) THEN Owner(k) \in Stores ELSE IsKey(k, InitKeyLen + 2 + UKLen)
          /\ \A p \in Stores : bulk[p] \in 0..(3 * L + 2) /\ (bulk[p] > 0 <=> Fat(p) \in DOMAIN kv)
          /\ closed \subseteq Stores
          /\ n \in 0..MaxSteps
          /\ \A p \in Stores : obj[p].calls \in 0..MaxSteps /\ obj[p].rm \in -1..(10 * (3 * L + 2))

(* the code agrees with the map model, for every operation, in every initial store *)
ImplAgrees == n = 0 => \A op \in Ops : Impl(kv, bulk, closed, op) = Abs(kv, bulk, closed, op)

(* the same restricted to open storages and batch limits >= 1 (the statement is read for these) *)
Lim0(op) == op.a = "BatchRemove" /\ op.lim = 0
ImplAgreesOpen == (n = 0 /\ closed = {}) => \A op \in Ops : ~Lim0(op) => Impl(kv, bulk, closed, op) = Abs(kv, bulk, closed, op)

(* BytesPrefix(p) is exactly "starts with p" *)
ASSUME \A p \in Stores \cup RPrefixes, k \in Seqs(4) :
         InRange(k, BytesPrefix(p)[1], BytesPrefix(p)[2]) <=> StartsWith(k, p)

(* isolation, from the statement, on the map model itself: an operation through P leaves every key
   that does not start with P as it was, and replies with keys of P only *)
Foreign(m, p) == [k \in DOMAIN m \ Under(m, p) |-> m[k]]
IsolatedOp(op) ==
  LET r == Abs(kv, bulk, closed, op)
  IN /\ Foreign(r[2], op.p) = Foreign(kv, op.p)
     /\ \A q \in Stores : ~StartsWith(Fat(q), op.p) => r[3][q] = bulk[q]
     /\ (op.a = "Iter" /\ ~OnClosed(closed, op)) => \A i \in 1..Len(r[1]) : op.p \o r[1][i][1] \in Under(kv, op.p)
Isolated == n = 0 => \A op \in Ops : OnStore(op) => IsolatedOp(op)

(* hist: in every state a history reaches (stores with runs below, at and above L keys), for every call
   a history may go on with: the code's arithmetic (range rewrite, rounds of L with restart key) agrees
   with the map model, and the call is isolated *)
HistAgrees == Mode = "hist" =>
  \A t \in HistKinds \cup {"BRAll"} :
    LET op == HistOp(path[1], t)
    IN /\ Impl(kv, bulk, closed, op) = Abs(kv, bulk, closed, op)
       /\ OnStore(op) => IsolatedOp(op)
(* ... and so does a removal of the prefix's range in rounds of L, of 1 and of L - 1 keys *)
HistRounds == Mode = "hist" =>
  \A lim \in {L - 1, L} :
    LET nr == BytesPrefix(path[1])
        r  == ImplBatchRemove(kv, bulk, nr[1], nr[2], lim, 0, 0)
    IN r[2] = AbsRemove(kv, path[1]) /\ r[1] = SumMult(bulk, Under(kv, path[1]))
=============================================================================
