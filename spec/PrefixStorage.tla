--------------------------- MODULE PrefixStorage ---------------------------
(* C25 - prefix storages over one shared key-value store.                   *)
(* storage/leveldb/prefix.go (PrefixStorage, PrefixStorageBatch,            *)
(* RemoveByPrefix) and storage/leveldb/db.go (Storage.Iter, BatchRemove).   *)
(*                                                                          *)
(* The store is a map  kv : byte string -> value. A prefix storage P sees   *)
(* and changes only the keys that start with P, addressed by the rest of    *)
(* the key. `Abs*` is written from the property statement (a map model);    *)
(* `Impl*` transcribes the code: key() = prefix ++ key, the range rewrite   *)
(* of Iter over leveldbutil.BytesPrefix (carry over trailing 0xff, nil      *)
(* limit for an all-0xff prefix), origkey() = key[len(prefix):], the        *)
(* delete loop of BatchRemove with its batch limit and restart key, and     *)
(* what the code does on a closed storage. TLC compares Abs and Impl for    *)
(* every operation in every initial state (ImplAgrees): a difference is a   *)
(* candidate defect, to be reproduced on the real code.                     *)
(*                                                                          *)
(* Binding A. Exhaustive configs: every initial store (<= MaxInitKeys keys) *)
(* x every operation = one state of depth 1 whose `step` carries the        *)
(* pre-store, the operation, the expected reply and the expected store.     *)
(* -simulate (Walk): seeded walks of MaxSteps operations on one store.      *)
(* Replayed on leveldbstorage.Storage over goleveldb memory storage; after  *)
(* every step the raw store is dumped and compared with kv.                 *)
EXTENDS Integers, Sequences, FiniteSets, TLC, Json

CONSTANTS Alphabet,     \* bytes keys are made of, e.g. {0, 1, 255}
          Stores,       \* the prefixes of the prefix storages (byte sequences)
          InitKeyLen,   \* initial full keys have length 1..InitKeyLen
          MaxInitKeys,  \* initial stores hold at most this many keys (<= 3)
          UKLen,        \* user keys of point operations have length 1..UKLen
          BoundLen,     \* range bounds have length 1..BoundLen (or are nil)
          Limits,       \* batch limits of BatchRemove
          Stops,        \* Iter: stop after this many callbacks (0 = never)
          Walk,         \* TRUE: -simulate walks from the empty store
          MaxSteps

Nil == <<-1>>            \* a nil []byte (no bound)

\* values for Stores (a cfg file cannot write tuples): nested, sibling and all-0xff prefixes
StoresSmall == {<<1>>, <<1, 0>>, <<1, 255>>, <<255>>, <<255, 255>>}
StoresLarge == StoresSmall \cup {<<0>>, <<0, 1>>}
Values == {1, 2}

Seqs(n) == UNION {[1..i -> Alphabet] : i \in 1..n}
UKeys  == Seqs(UKLen)
Bounds == Seqs(BoundLen) \cup {Nil}
RPrefixes == Seqs(2) \cup {<<>>}      \* arguments of the package-level RemoveByPrefix

VARIABLES kv,       \* the shared store: a function from a finite set of byte sequences to Values
          closed,   \* prefix storages on which Close() was called
          n,        \* operations done
          step      \* output only
vars == <<kv, closed, n, step>>

---------------------------------------------------------------------------
(* byte strings *)

RECURSIVE Less(_, _)
Less(a, b) == IF b = <<>> THEN FALSE
              ELSE IF a = <<>> THEN TRUE
              ELSE IF a[1] < b[1] THEN TRUE
              ELSE IF a[1] > b[1] THEN FALSE
              ELSE Less(Tail(a), Tail(b))
Leq(a, b) == a = b \/ Less(a, b)

RECURSIVE Sorted(_)
Sorted(S) == IF S = {} THEN <<>>
             ELSE LET m == CHOOSE x \in S : \A y \in S : Leq(x, y)
                  IN <<m>> \o Sorted(S \ {m})

Reverse(s) == [i \in 1..Len(s) |-> s[Len(s) + 1 - i]]
Take(s, k) == IF k = 0 \/ k >= Len(s) THEN s ELSE SubSeq(s, 1, k)

StartsWith(k, p) == Len(k) >= Len(p) /\ SubSeq(k, 1, Len(p)) = p
Rest(k, p) == SubSeq(k, Len(p) + 1, Len(k))

\* a half-open range <<start, limit>> of byte strings, Nil = unbounded
InRange(k, s, l) == (s = Nil \/ Leq(s, k)) /\ (l = Nil \/ Less(k, l))

Without(m, D) == [k \in DOMAIN m \ D |-> m[k]]
With(m, key, v) == [k \in DOMAIN m \cup {key} |-> IF k = key THEN v ELSE m[k]]

---------------------------------------------------------------------------
(* The statement: a map model. Every operation yields <<reply, store'>>.    *)

Under(m, p) == {k \in DOMAIN m : StartsWith(k, p)}

AbsGet(m, p, u)    == IF p \o u \in DOMAIN m THEN <<1, m[p \o u]>> ELSE <<0, 0>>
AbsExists(m, p, u) == IF p \o u \in DOMAIN m THEN 1 ELSE 0

\* the entries of P in the range of *user* keys, in order, cut after `stop` callbacks
AbsIter(m, p, s, l, asc, stop) ==
  LET ks  == Sorted({k \in Under(m, p) : InRange(Rest(k, p), s, l)})
      ord == Take(IF asc THEN ks ELSE Reverse(ks), stop)
  IN [i \in 1..Len(ord) |-> <<Rest(ord[i], p), m[ord[i]]>>]

RECURSIVE ApplyBatch(_, _, _)
ApplyBatch(m, p, b) ==
  IF b = <<>> THEN m
  ELSE LET o == Head(b)
       IN ApplyBatch(IF o[1] = "put" THEN With(m, p \o o[2], o[3]) ELSE Without(m, {p \o o[2]}), p, Tail(b))

\* "removing a prefix deletes exactly the keys under it"
AbsRemove(m, p) == Without(m, Under(m, p))

\* "batch range removal deletes exactly the keys in the range" (and reports how many)
AbsBatchRemove(m, s, l) ==
  LET D == {k \in DOMAIN m : InRange(k, s, l)} IN <<Cardinality(D), Without(m, D)>>

---------------------------------------------------------------------------
(* The code *)

\* leveldbutil.BytesPrefix: [prefix, prefix with its last non-0xff byte incremented), nil limit if none
RECURSIVE PrefixLimit(_)
PrefixLimit(p) == IF p = <<>> THEN Nil
                  ELSE IF p[Len(p)] < 255 THEN [p EXCEPT ![Len(p)] = @ + 1]
                  ELSE PrefixLimit(SubSeq(p, 1, Len(p) - 1))
BytesPrefix(p) == <<p, PrefixLimit(p)>>

\* Storage.Iter over the raw store
RawIter(m, s, l, asc, stop) ==
  LET ks == Sorted({k \in DOMAIN m : InRange(k, s, l)})
  IN Take(IF asc THEN ks ELSE Reverse(ks), stop)

\* PrefixStorage.Iter: range rewrite + origkey
ImplIter(m, p, s, l, asc, stop) ==
  LET nr  == BytesPrefix(p)
      st  == IF s # Nil THEN p \o s ELSE nr[1]
      lm  == IF l # Nil THEN p \o l ELSE nr[2]
      ord == RawIter(m, st, lm, asc, stop)
  IN [i \in 1..Len(ord) |-> <<Rest(ord[i], p), m[ord[i]]>>]

\* RemoveByPrefix: one batch of deletes of everything Iter(BytesPrefix(prefix)) visits
ImplRemoveByPrefix(m, p) ==
  LET nr == BytesPrefix(p) IN Without(m, {k \in DOMAIN m : InRange(k, nr[1], nr[2])})

\* BatchRemove: rounds of at most `lim` deletes; a round that fills the batch remembers the key it
\* stopped at and the next round starts there; ends with the first round that deletes nothing
RECURSIVE ImplBatchRemove(_, _, _, _, _)
ImplBatchRemove(m, s, l, lim, removed) ==
  LET inr   == RawIter(m, s, l, TRUE, 0)
      taken == IF Len(inr) > lim THEN SubSeq(inr, 1, lim) ELSE inr
      next  == IF Len(inr) > lim THEN inr[lim + 1] ELSE s
  IN IF taken = <<>> THEN <<removed, m>>
     ELSE ImplBatchRemove(Without(m, {taken[i] : i \in 1..Len(taken)}), next, l, lim, removed + Len(taken))

---------------------------------------------------------------------------
(* Operations. An operation is a record; Abs(m, c, op) / Impl(m, c, op) = <<reply, store'>>. *)

BatchOps == {<<"put", u, 2>> : u \in UKeys} \cup {<<"del", u, 0>> : u \in UKeys}

Point(kind) == {[a |-> kind, p |-> p, k |-> u] : p \in Stores, u \in UKeys}

OpsOfKind == [
  Put      |-> {[a |-> "Put", p |-> p, k |-> u, v |-> v] : p \in Stores, u \in UKeys, v \in Values},
  Get      |-> Point("Get"),
  Exists   |-> Point("Exists"),
  Delete   |-> Point("Delete"),
  Iter     |-> {[a |-> "Iter", p |-> p, s |-> s, l |-> l, asc |-> asc, stop |-> stop] :
                   p \in Stores, s \in Bounds, l \in Bounds, asc \in BOOLEAN, stop \in Stops},
  Batch    |-> {[a |-> "Batch", p |-> p, b |-> b] : p \in Stores, b \in (BatchOps \X BatchOps) \cup {<<o>> : o \in BatchOps}},
  Remove   |-> {[a |-> "Remove", p |-> p] : p \in Stores},
  Close    |-> {[a |-> "Close", p |-> p] : p \in Stores},
  RawPut   |-> {[a |-> "RawPut", k |-> k, v |-> v] : k \in Seqs(InitKeyLen), v \in Values},
  RemoveByPrefix |-> {[a |-> "RemoveByPrefix", p |-> p] : p \in RPrefixes},
  BatchRemove    |-> {[a |-> "BatchRemove", s |-> s, l |-> l, lim |-> lim] : s \in Bounds, l \in Bounds, lim \in Limits}
]
Kinds == DOMAIN OpsOfKind
Ops == UNION {OpsOfKind[kd] : kd \in Kinds}
OnStore(op) == op.a \in {"Put", "Get", "Exists", "Delete", "Iter", "Batch", "Remove", "Close"}

\* a closed prefix storage answers "closed", observes nothing and changes nothing
Abs(m, c, op) ==
  IF OnStore(op) /\ op.p \in c THEN <<IF op.a = "Close" THEN "ok" ELSE "closed", m>>
  ELSE CASE op.a = "Put"    -> <<"ok", With(m, op.p \o op.k, op.v)>>
         [] op.a = "Get"    -> <<AbsGet(m, op.p, op.k), m>>
         [] op.a = "Exists" -> <<AbsExists(m, op.p, op.k), m>>
         [] op.a = "Delete" -> <<"ok", Without(m, {op.p \o op.k})>>
         [] op.a = "Iter"   -> <<AbsIter(m, op.p, op.s, op.l, op.asc, op.stop), m>>
         [] op.a = "Batch"  -> <<"ok", ApplyBatch(m, op.p, op.b)>>
         [] op.a = "Remove" -> <<"ok", AbsRemove(m, op.p)>>
         [] op.a = "Close"  -> <<"ok", m>>
         [] op.a = "RawPut" -> <<"ok", With(m, op.k, op.v)>>
         [] op.a = "RemoveByPrefix" -> <<"ok", AbsRemove(m, op.p)>>
         [] op.a = "BatchRemove"    -> AbsBatchRemove(m, op.s, op.l)

\* the code on a closed storage: Close() sets prefix = nil; key() then returns nil => ErrClosed for the
\* point operations, for Batch and for Iter with a bound; Iter without bounds and Remove use the nil
\* prefix as it is: BytesPrefix(nil) is the whole store
Impl(m, c, op) ==
  IF OnStore(op) /\ op.p \in c
  THEN CASE op.a = "Close"  -> <<"ok", m>>
         [] op.a = "Iter" /\ op.s = Nil /\ op.l = Nil -> <<ImplIter(m, <<>>, Nil, Nil, op.asc, op.stop), m>>
         [] op.a = "Remove" -> <<"ok", ImplRemoveByPrefix(m, <<>>)>>
         [] OTHER -> <<"closed", m>>
  ELSE CASE op.a = "Iter"   -> <<ImplIter(m, op.p, op.s, op.l, op.asc, op.stop), m>>
         [] op.a = "Remove" -> <<"ok", ImplRemoveByPrefix(m, op.p)>>
         [] op.a = "RemoveByPrefix" -> <<"ok", ImplRemoveByPrefix(m, op.p)>>
         [] op.a = "BatchRemove"    -> ImplBatchRemove(m, op.s, op.l, op.lim, 0)
         [] OTHER -> Abs(m, c, op)      \* point operations: key() = prefix ++ key, nothing more to transcribe

---------------------------------------------------------------------------
Pairs(m) == {<<k, m[k]>> : k \in DOMAIN m}

Out(m, c, op, r) == ToJson([op |-> op, pre |-> Pairs(m), closed |-> c, res |-> r[1], kv |-> Pairs(r[2])])

EmptyKV == [k \in {} |-> 0]

KeySets(K, sz) == {{}} \cup (IF sz = 0 THEN {} ELSE {{t[i] : i \in 1..sz} : t \in [1..sz -> K]})

Init == /\ IF Walk
           THEN kv = EmptyKV /\ closed = {}
           ELSE /\ kv \in {[k \in S |-> 1] : S \in KeySets(Seqs(InitKeyLen), MaxInitKeys)}
                /\ closed \in {{}} \cup {{p} : p \in Stores}
        /\ n = 0
        /\ step = ""

Do(op) == /\ n < MaxSteps
          /\ (~Walk /\ closed # {}) => (OnStore(op) /\ op.p \in closed)   \* exhaustive: a closed store is only asked itself
          /\ LET r == Abs(kv, closed, op)
             IN /\ kv' = r[2]
                /\ step' = Out(kv, closed, op, r)
          /\ closed' = IF op.a = "Close" THEN closed \cup {op.p} ELSE closed
          /\ n' = n + 1

\* -simulate builds every successor before it picks one: a walk draws its operation itself
\* (RandomElement follows -seed), the kind first so that the many Iter variants do not crowd out the
\* writes, then every parameter from its own small set (an element of OpsOfKind[kind])
R(S) == RandomElement(S)
RandomOp(kd) ==
  CASE kd = "Put"    -> [a |-> "Put", p |-> R(Stores), k |-> R(UKeys), v |-> R(Values)]
    [] kd \in {"Get", "Exists", "Delete"} -> [a |-> kd, p |-> R(Stores), k |-> R(UKeys)]
    [] kd = "Iter"   -> [a |-> "Iter", p |-> R(Stores), s |-> R(Bounds), l |-> R(Bounds), asc |-> R(BOOLEAN), stop |-> R(Stops)]
    [] kd = "Batch"  -> [a |-> "Batch", p |-> R(Stores), b |-> IF R(BOOLEAN) THEN <<R(BatchOps)>> ELSE <<R(BatchOps), R(BatchOps)>>]
    [] kd \in {"Remove", "Close"} -> [a |-> kd, p |-> R(Stores)]
    [] kd = "RawPut" -> [a |-> "RawPut", k |-> R(Seqs(InitKeyLen)), v |-> R(Values)]
    [] kd = "RemoveByPrefix" -> [a |-> "RemoveByPrefix", p |-> R(RPrefixes)]
    [] kd = "BatchRemove"    -> [a |-> "BatchRemove", s |-> R(Bounds), l |-> R(Bounds), lim |-> R(Limits)]

\* writes are drawn more often than the rest, Close rarely
WalkKinds == <<"Put", "Put", "Put", "RawPut", "RawPut", "Batch", "Get", "Exists", "Delete", "Iter", "Iter", "Iter",
               "Remove", "RemoveByPrefix", "BatchRemove", "BatchRemove", "Put", "RawPut", "Iter", "Close">>

Next == /\ n < MaxSteps
        /\ IF Walk
           THEN LET op == RandomOp(WalkKinds[R(1..Len(WalkKinds))]) IN Do(op)
           ELSE \E op \in Ops : Do(op)

Spec == Init /\ [][Next]_vars

---------------------------------------------------------------------------
TypeOK == /\ DOMAIN kv \subseteq Seqs(InitKeyLen + 2 + UKLen)
          /\ closed \subseteq Stores
          /\ n \in 0..MaxSteps

(* the code agrees with the map model, for every operation, in every initial store *)
ImplAgrees == n = 0 => \A op \in Ops : Impl(kv, closed, op) = Abs(kv, closed, op)

(* the same restricted to open storages and batch limits >= 1 (the statement is read for these) *)
Lim0(op) == op.a = "BatchRemove" /\ op.lim = 0
ImplAgreesOpen == (n = 0 /\ closed = {}) => \A op \in Ops : ~Lim0(op) => Impl(kv, closed, op) = Abs(kv, closed, op)

(* BytesPrefix(p) is exactly "starts with p" *)
ASSUME \A p \in Stores \cup RPrefixes, k \in Seqs(4) :
         InRange(k, BytesPrefix(p)[1], BytesPrefix(p)[2]) <=> StartsWith(k, p)

(* isolation, from the statement, on the map model itself: an operation through P leaves every key
   that does not start with P as it was, and replies with keys of P only *)
Foreign(m, p) == [k \in DOMAIN m \ Under(m, p) |-> m[k]]
Isolated == n = 0 => \A op \in Ops : OnStore(op) =>
              LET r == Abs(kv, closed, op)
              IN /\ Foreign(r[2], op.p) = Foreign(kv, op.p)
                 /\ (op.a = "Iter" /\ op.p \notin closed) => \A i \in 1..Len(r[1]) : op.p \o r[1][i][1] \in Under(kv, op.p)
=============================================================================
