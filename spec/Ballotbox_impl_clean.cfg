SPECIFICATION Spec
CONSTANTS
  Node0 = {"n0", "n1"}
  Local0 = "n0"
  T100 = 670
  EmitStep = TRUE
  Heights = {1, 2}
  Rounds = {0}
  Stages = {1, 3}
  Facts = {"A"}
  ExSets = {{}, {"n1"}}
  AllowSC = TRUE
  MaxId = 4
  MaxVotes = 5
  MaxChan = 1
  MaxSet = 0
  StoreSC = "sf-"
  CleanSC = "sign-"
  CountRule = "sound"
  EagerCount = FALSE
  Holds = FALSE
  MaxTick = 0
  TickGuard = "impl"
VIEW view
INVARIANTS TypeOK ReadsIsolated KeyMatchesRecord NoAliasing PutOncePerUse PutExactlyOncePerUse
PROPERTIES CleanReleases NothingPassedAfterClean NotConsulted EmitSound
CHECK_DEADLOCK FALSE
