\* the repaired lock order: no deadlock
SPECIFICATION Spec
CONSTANTS
  Nested = FALSE
  Rounds = 2
INVARIANTS TypeOK Exclusive NotStuck
CHECK_DEADLOCK FALSE
