SPECIFICATION SpecS
CONSTANTS
  World = "A"
  MaxOps = 2
  Workers = {64}
  CatIds = {"j1", "j2", "j3", "j4", "j5", "j6", "j7", "j8", "j9", "j10", "j11", "j12", "j13", "jx2", "cx1", "cc2", "cc1", "cm1", "cbad", "d2", "d4", "d4a", "d3", "d2w", "d2k", "dx1", "d2f", "d2b", "e1", "e2", "e1o", "e1f", "ex1", "e1b", "w2a", "u1"}
INVARIANTS MatchesDecl WellFormed OnlyEligible WorldOK
VIEW View
CHECK_DEADLOCK FALSE
