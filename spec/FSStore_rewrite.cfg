SPECIFICATION Spec
CONSTANTS
  Writers = {"w1", "w2"}
  Heights = {1}
  Shapes = {"full"}
  MaxCrash = 0
  Concurrent = FALSE
  Uploads = TRUE
  CheckAFixed = TRUE
  SaveRmForeign = FALSE
  SameHeight = TRUE
VIEW view
CHECK_DEADLOCK FALSE
INVARIANTS TypeOK ReadMatchesMap FirstSurvives SaveComplete PresentedComplete
PROPERTIES FirstFilesSurvive CleanupSafe
