SPECIFICATION Spec
CONSTANTS
  NA = 2
  MaxConn = 4
  MaxCalls = 5
  NT = 1
  Concurrent = FALSE
  ByIdentity = TRUE
  MaxHandles = 5
INVARIANTS TypeOK P1 P2 P3 
CHECK_DEADLOCK FALSE
