SPECIFICATION Spec
CONSTANTS
  L0 = 1
  MaxH = 8
  Batch = 3
  AddHeights = {1, 3, 5, 6, 8}
  MaxAdds = 3
  MaxFaults = 2
  MaxRetry = 2
  Repaired = TRUE
  ForkPrev = TRUE
  CanCancel = TRUE
INVARIANTS TypeOK ImportsContiguous FinishedAfterMerged
PROPERTIES AddLowerIsNoop NothingAfterCancel ErrorKeepsPrefix StoreOnlyGrows
CHECK_DEADLOCK FALSE
