---------------------------- MODULE BlockSaveLock ----------------------------
(* C11, lock level: ProposalProcessors.l as an explicit resource.                 *)
(*                                                                               *)
(* BlockSave.tla treats Process / Save / Cancel as atomic (they are serialised by *)
(* one mutex). That hides two things the statement quantifies over ("under any    *)
(* interleaving of processing, saving and cancellation"):                         *)
(*   - Process keeps the mutex while the processor runs (the goroutine it spawns  *)
(*     unlocks when DefaultProposalProcessor.Process returns), so every call made *)
(*     meanwhile queues behind it and the queue drains when the processor ends;    *)
(*   - whatever a call does before it owns the mutex happens at its arrival, not  *)
(*     at its turn.                                                               *)
(* Here a call is a little process:                                               *)
(*   Save     check (reads previousSaved, lock-free) -> enqueue -> acquire -> act *)
(*            (the body of BlockSave!DoSaveWith) -> if the block is written and   *)
(*            GateSave: BlockWriter.Save was called and is parked with the mutex  *)
(*            held until the controller opens the writer gate -> release          *)
(*   Process  enqueue -> acquire -> new (cancel the old processor, fetch, make)   *)
(*            -> the processor runs with the mutex held, parked at the gate of    *)
(*            its proposal until the controller opens it -> finish + release      *)
(*   Cancel   enqueue -> acquire -> act + release                                 *)
(* CheckUnderLock = TRUE is the pinned code: the height check of Save is made in  *)
(* the critical section against the current previousSaved (the value read before  *)
(* the lock is not used). CheckUnderLock = FALSE describes the family of          *)
(* implementations that decide on the value read BEFORE the mutex is owned        *)
(* (check-then-act across the lock); TLC refutes OncePerHeight for it, which is   *)
(* how the check knows that the forced schedules below can tell the two apart.    *)
(*                                                                               *)
(* mode = "free": free interleaving of all steps, any waiter may win the mutex    *)
(* (Go's mutex lets arrivals barge) - the invariants are checked on this.          *)
(* mode = "forced": the schedules that can be forced on the real objects without  *)
(* a hook in /repo. The controller's commands are the only choices:               *)
(*   Start(c)   start call c in its own goroutine                                 *)
(*   Open(f)    open the gate of proposal f (the stub writer's Manifest blocks on *)
(*              it, i.e. the processor "is still processing")                      *)
(*   OpenW(f)   open the writer gate of f (the stub writer's Save blocks on it,   *)
(*              i.e. the block "is still being written")                           *)
(* and a command is given only when the system is quiet (every call returned,     *)
(* parked at a gate, or waiting for the held mutex); waiters get the mutex in     *)
(* arrival order. `hist` records the commands (">P.P1", ">O.P1", ">OW.P1") and what each *)
(* one brings about until the system is quiet again ("S.P1.1.P1=saved",           *)
(* "W.P1.1.P1" = BlockWriter.Save of P1's block, height 1, majority P1).           *)
(* EmitSched prints every maximal `hist`; check/props/c11.py hands them to the    *)
(* harness, which forces each on the real ProposalProcessors (harness/internal/   *)
(* c11/force.go); the writer's Save log is judged against the statement and the   *)
(* returns are compared with `hist` (model fidelity, not a verdict).              *)
(* (mode is a variable chosen at Init so that one TLC run covers both.)           *)
EXTENDS BlockSave

CONSTANTS Calls,            \* calls the controller may start, each at most once: [k, f, ah, nb]
          MaxCalls,         \* ... at most this many per schedule
          CheckUnderLock,   \* TRUE = the pinned code
          GateSave,         \* TRUE: the controller also holds BlockWriter.Save (the mutex is held meanwhile)
          Modes             \* subset of {"free", "forced"}

(* a call is known by its name: "P.P1" = Process(P1), "S.P1.1.P2" = Save(P1, ACCEPT voteproof of height 1 for *)
(* the block of P2), "C.1" = Cancel                                                                         *)
Nm(c) == CASE c.k = "P" -> "P." \o c.f
           [] c.k = "S" -> "S." \o c.f \o "." \o ToString(c.ah) \o "." \o c.nb
           [] OTHER -> "C." \o c.f
Names == {Nm(c) : c \in Calls}
Rec == [n \in Names |-> CHOOSE c \in Calls : Nm(c) = n]
Prop == [n \in Names |-> IF Rec[n].k = "P" THEN ProposalOf(Rec[n].f) ELSE [f |-> "-", h |-> 0, beh |-> "-"]]

VARIABLES pc,       \* call -> "idle" | "check" | "lock" | "wait" | "crit" | "gate" | "run" | "wgate" | "wrun" | "done"
          holder,   \* the call that owns ProposalProcessors.l, or NoCall
          lockq,    \* calls blocked in l.Lock(), in arrival order
          seen,     \* call -> previousSaved as read by the lock-free check of Save
          started,  \* number of calls started
          hist,     \* forced only: commands and their consequences (a string, entries separated by blanks)
          mode
lvars == <<vars, pc, holder, lockq, seen, started, hist, mode>>
Forced == mode = "forced"
NoCall == "-"

Note(ss) == hist' = IF Forced THEN hist \o ss ELSE hist
Release == holder' = NoCall
Goto(n, l) == pc' = [pc EXCEPT ![n] = l]

(* nothing can move without the controller *)
Quiet == \A n \in Names : \/ pc[n] \in {"idle", "done", "gate", "wgate"}
                          \/ pc[n] = "wait" /\ holder # NoCall
MayCommand == Forced => Quiet

(* ---- controller ---- *)
Start(n) == /\ pc[n] = "idle"
            /\ started < MaxCalls
            /\ MayCommand
            /\ started' = started + 1
            /\ Goto(n, IF Rec[n].k = "S" THEN "check" ELSE "lock")
            /\ Note(" >" \o n)
            /\ UNCHANGED <<vars, holder, lockq, seen, mode>>
Open(n) == /\ pc[n] = "gate"
           /\ MayCommand
           /\ Goto(n, "run")
           /\ Note(" >O." \o Rec[n].f)
           /\ UNCHANGED <<vars, holder, lockq, seen, started, mode>>

(* ---- the mutex ---- *)
Enqueue(n) == /\ pc[n] = "lock"
              /\ lockq' = Append(lockq, n)
              /\ Goto(n, "wait")
              /\ UNCHANGED <<vars, holder, seen, started, hist, mode>>
Acquire(n) == /\ pc[n] = "wait" /\ holder = NoCall
              /\ Forced => n = Head(lockq)
              /\ holder' = n
              /\ lockq' = SelectSeq(lockq, LAMBDA d : d # n)
              /\ Goto(n, "crit")
              /\ UNCHANGED <<vars, seen, started, hist, mode>>

(* ---- Save ---- *)
SaveCheck(n) ==
  /\ pc[n] = "check"
  /\ seen' = [seen EXCEPT ![n] = prevSaved]
  /\ IF ~CheckUnderLock /\ Rec[n].ah <= prevSaved
       THEN /\ Goto(n, "done") /\ res' = "alreadysaved" /\ Note(" " \o n \o "=alreadysaved")   \* refused on the fast path
       ELSE /\ Goto(n, "lock") /\ UNCHANGED <<res, hist>>
  /\ UNCHANGED <<cur, prevSaved, wsaves, nops, holder, lockq, started, mode>>
SaveAct(n) ==
  LET c == Rec[n] IN
  /\ pc[n] = "crit" /\ c.k = "S"
  /\ DoSaveWith(IF CheckUnderLock THEN prevSaved ELSE seen[n], c.f, [h |-> c.ah, nb |-> c.nb])
  /\ IF res' = "saved" /\ GateSave
       THEN /\ Goto(n, "wgate") /\ UNCHANGED holder           \* BlockWriter.Save was called and is parked
            /\ Note(" W." \o cur.f \o "." \o ToString(cur.h) \o "." \o c.nb)
       ELSE /\ Release /\ Goto(n, "done")
            /\ Note(IF res' = "saved"
                      THEN " W." \o cur.f \o "." \o ToString(cur.h) \o "." \o c.nb \o " " \o n \o "=saved"
                      ELSE " " \o n \o "=" \o res')
  /\ UNCHANGED <<nops, lockq, seen, started, mode>>
OpenW(n) == /\ pc[n] = "wgate"
            /\ MayCommand
            /\ Goto(n, "wrun")
            /\ Note(" >OW." \o Rec[n].f)
            /\ UNCHANGED <<vars, holder, lockq, seen, started, mode>>
SaveFinish(n) ==
  /\ pc[n] = "wrun"
  /\ res' = "saved"
  /\ Release /\ Goto(n, "done")
  /\ Note(" " \o n \o "=saved")
  /\ UNCHANGED <<cur, prevSaved, wsaves, nops, lockq, seen, started, mode>>

(* ---- Cancel ---- *)
CancelAct(n) ==
  /\ pc[n] = "crit" /\ Rec[n].k = "C"
  /\ CancelStep
  /\ Release /\ Goto(n, "done")
  /\ Note(" " \o n \o "=ok")
  /\ UNCHANGED <<nops, lockq, seen, started, mode>>

(* ---- Process: newProcessor under the lock, then the processor runs with the lock held ---- *)
ProcNew(n) ==
  LET p == Prop[n] IN
  /\ pc[n] = "crit" /\ Rec[n].k = "P"
  /\ IF cur.f = p.f
       THEN /\ res' = "nil" /\ UNCHANGED cur                                        \* "proposal already processed"
            /\ Release /\ Goto(n, "done") /\ Note(" " \o n \o "=nil")
     ELSE IF p.beh = "nofact"
       THEN /\ cur' = IF cur.f # "-" THEN [cur EXCEPT !.st = "failed"] ELSE cur     \* old one cancelled, kept
            /\ res' = "notprocessed"
            /\ Release /\ Goto(n, "done") /\ Note(" " \o n \o "=notprocessed")
     ELSE /\ cur' = [f |-> p.f, h |-> p.h, st |-> "running"]
          /\ Goto(n, "gate")
          /\ UNCHANGED <<res, holder, hist>>
  /\ UNCHANGED <<prevSaved, wsaves, nops, lockq, seen, started, mode>>
ProcFinish(n) ==
  LET p == Prop[n] IN
  /\ pc[n] = "run"
  /\ cur' = [cur EXCEPT !.st = CASE p.beh = "ok" -> "processed" [] p.beh = "err" -> "failed" [] OTHER -> "unprocessed"]
  /\ res' = CASE p.beh = "ok" -> "manifest" [] p.beh = "err" -> "error" [] OTHER -> "nil"
  /\ Release /\ Goto(n, "done")
  /\ Note(" " \o n \o "=" \o res')
  /\ UNCHANGED <<prevSaved, wsaves, nops, lockq, seen, started, mode>>

LInit == /\ Init
         /\ pc = [n \in Names |-> "idle"]
         /\ holder = NoCall /\ lockq = <<>>
         /\ seen = [n \in Names |-> -1]
         /\ started = 0
         /\ hist = ""
         /\ mode \in Modes
LNext == \E n \in Names : \/ Start(n) \/ Open(n) \/ Enqueue(n) \/ Acquire(n)
                          \/ SaveCheck(n) \/ SaveAct(n) \/ OpenW(n) \/ SaveFinish(n) \/ CancelAct(n)
                          \/ ProcNew(n) \/ ProcFinish(n)
LSpec == LInit /\ [][LNext]_lvars

LTypeOK == /\ cur.st \in {"-", "processed", "failed", "unprocessed", "running"}
           /\ prevSaved \in Int
           /\ holder \in Names \cup {NoCall}
(* the mutex: its owner is the one call inside a critical section (a running processor is one) *)
LockOK == \A n \in Names : (pc[n] \in {"crit", "gate", "run", "wgate", "wrun"}) <=> (holder = n)
(* nobody saves while a processor is still running *)
RunningHeld == cur.st = "running" => holder # NoCall /\ Rec[holder].k = "P" /\ Rec[holder].f = cur.f

(* ---- the schedules to force: one line per maximal schedule (an INVARIANT of the mc configs) ---- *)
Maximal == /\ started = MaxCalls \/ started = Cardinality(Calls)
           /\ \A n \in Names : pc[n] \in {"idle", "done"}
EmitSched == Forced /\ Maximal => PrintT("SCHED" \o hist)

(* ---- alphabets (names of BlockSave!PropsA: P1, P2 at height 1; P3 ok, P4 failing at height 2; P6 not found) ---- *)
P(f) == [k |-> "P", f |-> f, ah |-> 0, nb |-> ""]
S(f, ah, nb) == [k |-> "S", f |-> f, ah |-> ah, nb |-> nb]
C(i) == [k |-> "C", f |-> i, ah |-> 0, nb |-> ""]
(* two proposals of one height (two rounds), one of the next height, their agreed voteproofs, Cancel *)
CallsQuick == {P("P1"), P("P2"), P("P3"), S("P1", 1, "P1"), S("P2", 1, "P2"), S("P3", 2, "P3"), C("1")}
(* the smallest alphabet on which a height check made before the lock shows (BlockSaveLock_stale.cfg) *)
CallsPair == {P("P1"), P("P2"), S("P1", 1, "P1"), S("P2", 1, "P2")}
(* + a majority for another block, a failing processor, a proposal that is not found *)
CallsThorough == CallsQuick \cup {S("P1", 1, "x"), S("P1", 1, "P2"), P("P4"), S("P4", 2, "P4"), P("P6")}
=============================================================================
