---------------------------- MODULE BlockSaveLock ----------------------------
(* C11, lock level: ProposalProcessors.l as an explicit resource.                 *)
(*                                                                               *)
(* BlockSave.tla treats Process / Save / Cancel as atomic (they are serialised by *)
(* one mutex). That hides two things the statement quantifies over ("under any    *)
(* interleaving of processing, saving and cancellation"):                         *)
(*   - Process keeps the mutex while the processor runs (the goroutine it spawns  *)
(*     unlocks when DefaultProposalProcessor.Process returns), so every call made *)
(*     meanwhile queues behind it and the queue drains when the processor ends;    *)
(*   - whatever a call does before it owns the mutex happens at its arrival, not  *)
(*     at its turn.                                                               *)
(* Here a call is a little process:                                               *)
(*   Save     check (reads previousSaved, lock-free) -> enqueue -> acquire -> act *)
(*            (the body of BlockSave!DoSaveWith) + release                        *)
(*   Process  enqueue -> acquire -> new (cancel the old processor, fetch, make)   *)
(*            -> the processor runs with the mutex held, parked at the gate of    *)
(*            its proposal until the controller opens it -> finish + release      *)
(*   Cancel   enqueue -> acquire -> act + release                                 *)
(* CheckUnderLock = TRUE is the pinned code: the height check of Save is made in  *)
(* the critical section against the current previousSaved (the value read before  *)
(* the lock is not used). CheckUnderLock = FALSE describes the family of          *)
(* implementations that decide on the value read BEFORE the mutex is owned        *)
(* (check-then-act across the lock); TLC refutes OncePerHeight for it, which is   *)
(* how the check knows that the forced schedules below can tell the two apart.    *)
(*                                                                               *)
(* Forced = FALSE: free interleaving of all steps, any waiter may win the mutex   *)
(* (Go's mutex lets arrivals barge) - the invariants are checked on this.          *)
(* Forced = TRUE: the schedules that can be forced on the real objects without a  *)
(* hook in /repo. The controller's commands are the only choices:                 *)
(*   Start(c)   start call c in its own goroutine                                 *)
(*   Open(f)    open the gate of proposal f (the stub writer's Manifest blocks on *)
(*              it, i.e. the processor "is still processing")                      *)
(* and a command is given only when the system is quiet (every call returned,     *)
(* parked at a gate, or waiting for the held mutex); waiters get the mutex in     *)
(* arrival order. `hist` records the commands (">P.P1", ">O.P1") and what each     *)
(* one brings about until the system is quiet again ("S.P1.1.P1=saved",           *)
(* "W.P1.1.P1" = BlockWriter.Save of P1's block, height 1, majority P1).           *)
(* check/props/c11.py takes every maximal `hist` from TLC's dump, the harness     *)
(* forces it on the real ProposalProcessors (harness/internal/c11, mode force)    *)
(* and the writer's Save log is judged against the statement.                     *)
EXTENDS BlockSave

CONSTANTS Calls,            \* calls the controller may start, each at most once: [k, f, ah, nb]
          MaxCalls,         \* ... at most this many per schedule
          CheckUnderLock,   \* TRUE = the pinned code
          Forced

VARIABLES pc,       \* call -> "idle" | "check" | "lock" | "wait" | "crit" | "gate" | "run" | "done"
          holder,   \* the call that owns ProposalProcessors.l, or NoCall
          lockq,    \* calls blocked in l.Lock(), in arrival order
          seen,     \* call -> previousSaved as read by the lock-free check of Save
          hist      \* Forced only: commands and their consequences
lvars == <<vars, pc, holder, lockq, seen, hist>>

NoCall == [k |-> "-", f |-> "-", ah |-> 0, nb |-> "-"]

Nm(c) == CASE c.k = "P" -> "P." \o c.f
           [] c.k = "S" -> "S." \o c.f \o "." \o ToString(c.ah) \o "." \o c.nb
           [] OTHER -> "C." \o c.f
Note(ss) == hist' = IF Forced THEN hist \o ss ELSE hist     \* a string: entries separated by blanks
Avp(c) == [h |-> c.ah, nb |-> c.nb]
Release == holder' = NoCall
Goto(c, l) == pc' = [pc EXCEPT ![c] = l]

(* nothing can move without the controller *)
Quiet == \A c \in Calls : \/ pc[c] \in {"idle", "done", "gate"}
                          \/ pc[c] = "wait" /\ holder # NoCall
MayCommand == Forced => Quiet

(* ---- controller ---- *)
Start(c) == /\ MayCommand
            /\ pc[c] = "idle"
            /\ Cardinality({d \in Calls : pc[d] # "idle"}) < MaxCalls
            /\ Goto(c, IF c.k = "S" THEN "check" ELSE "lock")
            /\ Note(" >" \o Nm(c))
            /\ UNCHANGED <<vars, holder, lockq, seen>>
Open(f) == /\ MayCommand
           /\ \E c \in Calls : pc[c] = "gate" /\ c.f = f /\ Goto(c, "run")
           /\ Note(" >O." \o f)
           /\ UNCHANGED <<vars, holder, lockq, seen>>

(* ---- the mutex ---- *)
Enqueue(c) == /\ pc[c] = "lock"
              /\ lockq' = Append(lockq, c)
              /\ Goto(c, "wait")
              /\ UNCHANGED <<vars, holder, seen, hist>>
Acquire(c) == /\ pc[c] = "wait" /\ holder = NoCall
              /\ Forced => c = Head(lockq)
              /\ holder' = c
              /\ lockq' = SelectSeq(lockq, LAMBDA d : d # c)
              /\ Goto(c, "crit")
              /\ UNCHANGED <<vars, seen, hist>>

(* ---- Save ---- *)
SaveCheck(c) ==
  /\ pc[c] = "check" /\ c.k = "S"
  /\ seen' = [seen EXCEPT ![c] = prevSaved]
  /\ IF ~CheckUnderLock /\ c.ah <= prevSaved
       THEN /\ Goto(c, "done") /\ res' = "alreadysaved" /\ Note(" " \o Nm(c) \o "=alreadysaved")   \* refused on the fast path
       ELSE /\ Goto(c, "lock") /\ UNCHANGED <<res, hist>>
  /\ UNCHANGED <<cur, prevSaved, wsaves, nops, holder, lockq>>
SaveAct(c) ==
  /\ pc[c] = "crit" /\ c.k = "S" /\ holder = c
  /\ DoSaveWith(IF CheckUnderLock THEN prevSaved ELSE seen[c], c.f, Avp(c))
  /\ Release /\ Goto(c, "done")
  /\ Note(IF res' = "saved"
            THEN " W." \o cur.f \o "." \o ToString(cur.h) \o "." \o c.nb \o " " \o Nm(c) \o "=saved"
            ELSE " " \o Nm(c) \o "=" \o res')
  /\ UNCHANGED <<nops, lockq, seen>>

(* ---- Cancel ---- *)
CancelAct(c) ==
  /\ pc[c] = "crit" /\ c.k = "C" /\ holder = c
  /\ CancelStep
  /\ Release /\ Goto(c, "done")
  /\ Note(" " \o Nm(c) \o "=ok")
  /\ UNCHANGED <<nops, lockq, seen>>

(* ---- Process: newProcessor under the lock, then the processor runs with the lock held ---- *)
ProcNew(c) ==
  LET p == ProposalOf(c.f) IN
  /\ pc[c] = "crit" /\ c.k = "P" /\ holder = c
  /\ IF cur.f = p.f
       THEN /\ res' = "nil" /\ UNCHANGED cur                                        \* "proposal already processed"
            /\ Release /\ Goto(c, "done") /\ Note(" " \o Nm(c) \o "=nil")
     ELSE IF p.beh = "nofact"
       THEN /\ cur' = IF cur.f # "-" THEN [cur EXCEPT !.st = "failed"] ELSE cur     \* old one cancelled, kept
            /\ res' = "notprocessed"
            /\ Release /\ Goto(c, "done") /\ Note(" " \o Nm(c) \o "=notprocessed")
     ELSE /\ cur' = [f |-> p.f, h |-> p.h, st |-> "running"]
          /\ Goto(c, "gate")
          /\ UNCHANGED <<res, holder, hist>>
  /\ UNCHANGED <<prevSaved, wsaves, nops, lockq, seen>>
ProcFinish(c) ==
  LET p == ProposalOf(c.f) IN
  /\ pc[c] = "run" /\ holder = c
  /\ cur' = [cur EXCEPT !.st = CASE p.beh = "ok" -> "processed" [] p.beh = "err" -> "failed" [] OTHER -> "unprocessed"]
  /\ res' = CASE p.beh = "ok" -> "manifest" [] p.beh = "err" -> "error" [] OTHER -> "nil"
  /\ Release /\ Goto(c, "done")
  /\ Note(" " \o Nm(c) \o "=" \o res')
  /\ UNCHANGED <<prevSaved, wsaves, nops, lockq, seen>>

LInit == /\ Init
         /\ pc = [c \in Calls |-> "idle"]
         /\ holder = NoCall /\ lockq = <<>>
         /\ seen = [c \in Calls |-> -1]
         /\ hist = ""
LNext == \/ \E c \in Calls : \/ Start(c) \/ Enqueue(c) \/ Acquire(c)
                             \/ SaveCheck(c) \/ SaveAct(c) \/ CancelAct(c)
                             \/ ProcNew(c) \/ ProcFinish(c)
         \/ \E p \in Props : Open(p.f)
LSpec == LInit /\ [][LNext]_lvars

LTypeOK == /\ cur.st \in {"-", "processed", "failed", "unprocessed", "running"}
           /\ prevSaved \in Int
           /\ holder \in Calls \cup {NoCall}
(* the mutex: its owner is the one call inside a critical section (a running processor is one) *)
LockOK == \A c \in Calls : (pc[c] \in {"crit", "gate", "run"}) <=> (holder = c)
(* nobody saves while a processor is still running *)
RunningHeld == cur.st = "running" => holder # NoCall /\ holder.k = "P" /\ holder.f = cur.f

(* ---- the schedules to force: one line per maximal schedule (an INVARIANT of the sched configs) ---- *)
NStarted == Cardinality({c \in Calls : pc[c] # "idle"})
Maximal == /\ \A c \in Calls : pc[c] \in {"idle", "done"}
           /\ NStarted = MaxCalls \/ NStarted = Cardinality(Calls)
EmitSched == Forced /\ Maximal => PrintT("SCHED" \o hist)

(* ---- alphabets (names of BlockSave!PropsA: P1, P2 at height 1; P3 ok, P4 failing at height 2; P6 not found) ---- *)
P(f) == [k |-> "P", f |-> f, ah |-> 0, nb |-> ""]
S(f, ah, nb) == [k |-> "S", f |-> f, ah |-> ah, nb |-> nb]
C(i) == [k |-> "C", f |-> i, ah |-> 0, nb |-> ""]
(* two proposals of one height (two rounds), one of the next height, their agreed voteproofs, Cancel *)
CallsQuick == {P("P1"), P("P2"), P("P3"), S("P1", 1, "P1"), S("P2", 1, "P2"), S("P3", 2, "P3"), C("1")}
(* + a majority for another block, a failing processor, a proposal that is not found *)
CallsThorough == CallsQuick \cup {S("P1", 1, "x"), S("P1", 1, "P2"), P("P4"), S("P4", 2, "P4"), P("P6")}
=============================================================================
