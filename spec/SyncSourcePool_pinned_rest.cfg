SPECIFICATION Spec
CONSTANTS
  Sources <- Src4
  MaxFixed = 2
  MaxAdd = 2
  MaxN = 3
  Impl = "pinned"
INVARIANTS TypeOK Disjoint DistinctFixed LenIsSum
PROPERTIES ReportFrame
CHECK_DEADLOCK FALSE
