SPECIFICATION Spec
CONSTANTS
  Node = {"n1", "n2", "n3", "n4", "n5", "n6", "n7"}
  Byz = {}
  Down = {"n7"}
  Active = {"n1"}
  Suspects = {"n6"}
  PreSigned = TRUE
  Fallback = FALSE
  T10 = 670
  MaxRound = 0
  MaxExpel = 1
INVARIANTS EmittedExpelsMatchFact
CONSTRAINT QueueBound
CHECK_DEADLOCK FALSE
