------------------------- MODULE StuckResolverTrace -------------------------
(* Binding B for STUCK: executions recorded from the real isaacstates.DefaultBallotStuckResolver          *)
(* (harness/internal/stuck: harness callbacks, timing parameters of some hundred microseconds) are judged  *)
(* with the contract operators of StuckResolver.tla.  The API calls are serialised by the harness, so the  *)
(* variables newest / handle / runs / cancelmax of StuckResolver.tla are driven exactly as its actions     *)
(* NewPoint / Cancel / Clean drive them; the runs are observed through their callbacks:                    *)
(*   Enter(kind, point)  a callback of the run of that point begins                                        *)
(*   Exit(kind, point, res)  it returns res (logged BEFORE it returns, after the API calls the scenario    *)
(*                       makes inside the callback)                                                        *)
(*   Vp(point)           a stuck voteproof was read from Voteproof()                                       *)
(* No clock is read.  "After Cancel" is judged only where the order is a fact under every schedule: the    *)
(* run was cancelled, an Exit of the run was logged after that, and then the run acts again (`anchored`).  *)
(* A judgement that fails is printed with its class; nothing blocks.                                       *)
EXTENDS StuckResolver, Json

Trace == ndJsonDeserialize("trace.ndjson")
VARIABLES l,
          pend   \* between NewPointCall and NewPoint: <<the run the call cancels, the result the contract predicts>>
tvars == <<vars, l, pend>>
Ev == Trace[l]

Expect(class, seen, want) == IF seen = want THEN TRUE
                             ELSE PrintT(<<"MISMATCH", class, l, seen, want>>)
B(x) == IF x THEN 1 ELSE 0
Consume == l <= Len(Trace) /\ l' = l + 1

(* a run of the trace: [point, ctxc, anch (an Exit was logged after it was cancelled), open (inside a callback),  *)
(*                      lastk, lastr, over (its last answer ends it), nvp]                                        *)
NewRun(p) == [point |-> p, ctxc |-> FALSE, anch |-> FALSE, open |-> FALSE, lastk |-> "start", lastr |-> "",
              over |-> FALSE, nvp |-> 0]
Latest(S) == IF S = {} THEN None ELSE CHOOSE r \in S : \A q \in S : q <= r
RunOf(p) == Latest({r \in DOMAIN runs : runs[r].point = p})
(* the run that is inside a callback (for Exit): a point may be used again after Clean *)
OpenRunOf(p) == LET o == Latest({r \in DOMAIN runs : runs[r].point = p /\ runs[r].open}) IN
                IF o = None THEN RunOf(p) ELSE o

TReset ==
  /\ Consume /\ Ev.a = "Reset"
  /\ newest' = Zero /\ handle' = None /\ runs' = <<>> /\ nruns' = 0 /\ vps' = <<>> /\ cancelmax' = Zero
  /\ pend' = <<None, 0>>
  /\ UNCHANGED bad

(* the call: the run exists from here on (it may call back before NewPoint has returned) *)
TNewPointCall ==
  /\ Consume /\ Ev.a = "NewPointCall"
  /\ IF NewPointStarts(Ev.p, newest)
       THEN /\ newest' = Ev.p /\ nruns' = nruns + 1 /\ handle' = nruns + 1
            /\ runs' = Append(runs, NewRun(Ev.p))
            /\ pend' = <<handle, 1>>
            /\ Expect("run-at-or-below-cancelled-point", B(Ev.p <= cancelmax), 0)
       ELSE UNCHANGED <<newest, nruns, handle, runs>> /\ pend' = <<None, 0>>
  /\ UNCHANGED <<vps, cancelmax, bad>>
(* the return: the result, and the previous run is cancelled by now *)
TNewPoint ==
  /\ Consume /\ Ev.a = "NewPoint"
  /\ Expect("NewPoint-result", Ev.ok, pend[2])
  /\ runs' = CancelRun(runs, pend[1])
  /\ pend' = <<None, 0>>
  /\ UNCHANGED <<newest, nruns, handle, vps, cancelmax, bad>>

TCancel ==
  /\ Consume /\ Ev.a = "Cancel"
  /\ IF CancelApplies(Ev.p, newest)
       THEN runs' = CancelRun(runs, handle) /\ handle' = None /\ cancelmax' = IF Ev.p > cancelmax THEN Ev.p ELSE cancelmax
       ELSE UNCHANGED <<runs, handle, cancelmax>>
  /\ UNCHANGED <<newest, nruns, vps, bad, pend>>

TClean ==
  /\ Consume /\ Ev.a = "Clean"
  /\ newest' = Zero /\ runs' = CancelRun(runs, handle) /\ handle' = None /\ cancelmax' = Zero
  /\ UNCHANGED <<nruns, vps, bad, pend>>

TEnter ==
  /\ Consume /\ Ev.a = "Enter"
  /\ LET r == RunOf(Ev.p) IN
       IF r = None
         THEN Expect("action-for-unknown-point", Ev.p, 0) /\ UNCHANGED runs
         ELSE /\ runs' = [runs EXCEPT ![r].open = TRUE]
              /\ Expect("callbacks-overlap", B(runs[r].open), 0)
              /\ Expect("action-after-run-ended-" \o Ev.k, B(runs[r].over), 0)
              /\ IF runs[r].over THEN TRUE
                 ELSE Expect("order-" \o Ev.k \o "-after-" \o runs[r].lastk \o "-" \o runs[r].lastr,
                             B(MayFollow(Ev.k, runs[r].lastk, runs[r].lastr)), 1)
              /\ IF runs[r].ctxc /\ runs[r].anch THEN Expect(Ev.k \o "-after-cancel", 1, 0)
                 ELSE IF runs[r].ctxc THEN Expect("unanchored-" \o Ev.k \o "-after-cancel", 1, 0)
                 ELSE TRUE
  /\ UNCHANGED <<newest, handle, nruns, vps, cancelmax, bad, pend>>

TExit ==
  /\ Consume /\ Ev.a = "Exit"
  /\ LET r == OpenRunOf(Ev.p) IN
       IF r = None THEN UNCHANGED runs
       ELSE runs' = [runs EXCEPT ![r].open = FALSE, ![r].lastk = Ev.k, ![r].lastr = Ev.res,
                                 ![r].over = (runs[r].over \/ Ends(Ev.k, Ev.res)),
                                 ![r].anch = (runs[r].anch \/ runs[r].ctxc)]
  /\ UNCHANGED <<newest, handle, nruns, vps, cancelmax, bad, pend>>

TVp ==
  /\ Consume /\ Ev.a = "Vp"
  /\ LET r == RunOf(Ev.p) IN
       IF r = None
         THEN Expect("voteproof-for-unknown-point", Ev.p, 0) /\ UNCHANGED <<runs, vps>>
         ELSE /\ runs' = [runs EXCEPT ![r].nvp = @ + 1, ![r].lastk = "vp", ![r].over = TRUE]
              /\ vps' = Append(vps, <<r, Ev.p>>)
              /\ Expect("voteproof-without-vote", B(MayFollow("vp", runs[r].lastk, runs[r].lastr)), 1)
              /\ Expect("second-voteproof-of-run", runs[r].nvp, 0)
              /\ IF runs[r].ctxc /\ runs[r].anch THEN Expect("vp-after-cancel", 1, 0)
                 ELSE IF runs[r].ctxc THEN Expect("unanchored-vp-after-cancel", 1, 0)
                 ELSE TRUE
  /\ UNCHANGED <<newest, handle, nruns, cancelmax, bad, pend>>

(* the end of an execution: no goroutine of the resolver is alive *)
TEnd ==
  /\ Consume /\ Ev.a = "End"
  /\ \A r \in DOMAIN runs :
        /\ Expect("run-gone-in-callback", B(runs[r].open), 0)
        \* a run that was never cancelled and whose last answer does not end it would still be ticking
        /\ Expect("run-died-silently", B(~runs[r].ctxc /\ ~runs[r].over), 0)
        \* the vote produced a voteproof and nobody cancelled the run: it must have been handed out
        /\ Expect("resolution-lost", B(~runs[r].ctxc /\ runs[r].lastk = "vote" /\ runs[r].lastr = "vp"), 0)
  /\ UNCHANGED <<vars, pend>>

TraceInit == Init /\ l = 1 /\ pend = <<None, 0>>
TraceNext == TReset \/ TNewPointCall \/ TNewPoint \/ TCancel \/ TClean \/ TEnter \/ TExit \/ TVp \/ TEnd
TraceSpec == TraceInit /\ [][TraceNext]_tvars

ASSUME TLCSet(1, 0)
HighWater == TLCSet(1, IF l > TLCGet(1) THEN l ELSE TLCGet(1))
Accepted == \/ TLCGet(1) = Len(Trace) + 1
            \/ PrintT(<<"HW", TLCGet(1), Len(Trace)>>) /\ FALSE
=============================================================================
