SPECIFICATION Spec
CONSTANTS
  AskSet <- AskY3
  MaxAsk = 2
  MaxToggle = 1
  MaxHold = 0
  MaxY = 1
  ExitOut = {"ok", "finish"}
  EnterKinds = {"ok"}
  Redirects = {"SYNCING"}
  InitAllowed = {FALSE}
  Sched = TRUE
  Record = TRUE
INVARIANTS Emit
CHECK_DEADLOCK FALSE
