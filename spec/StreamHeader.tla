---------------------------- MODULE StreamHeader ----------------------------
(* C30 - the stream header protocol of network/quicstream/header/broker.go.  *)
(*                                                                            *)
(* Two endpoints and two FIFOs of tokens (one token = one Write call of the   *)
(* code): the client writes a request (handler prefix, head) and bodies, the  *)
(* handler reads them and writes response heads and bodies, the client reads. *)
(* Wire grammar (writeHead / writeBody):                                      *)
(*   head  = DT(1 request | 3 response) L ENC L HDR      (two lengthed parts) *)
(*   body  = DT(2) BT(1 empty | 2 fixed | 3 stream) [L(n)] [DATA(n)]          *)
(* A stream body ends with the stream (the writer closes).  Readers parse the *)
(* token FIFO with the reference parser Parse below - written from the        *)
(* grammar; the invariants say that what is parsed is what was written.  An   *)
(* adversary may rewrite one type or length token or cut a FIFO; messages     *)
(* before that point must still be read identically, from there on the        *)
(* statement only demands "a message or an error, never a panic".             *)
(*                                                                            *)
(* Binding A: every completed run (pc = "done") is a case: the client's       *)
(* messages, the handler's calls in the order chosen here, the client's read  *)
(* calls, each with the value it must return, and the adversary action.  The  *)
(* harness performs them on real ClientBroker / HandlerBroker (real JSON      *)
(* encoder, real headers) over in-memory streams delivered in chunks.         *)
(*                                                                            *)
(* Delivery.  The readers read FIELDS (one token = one field = one            *)
(* util.EnsureRead / Read of the code), the transport knows nothing of fields:*)
(* it hands over the bytes of a FIFO in chunks whose cut points may lie       *)
(* anywhere.  What a read returns is a function of the tokens only (hops and  *)
(* cops below do not mention the delivery): every run must give the same      *)
(* results under every delivery.  Deliveries(f) is the family of deliveries   *)
(* of a FIFO that the binding performs; section "delivery" defines it, and    *)
(* the assumptions FamilySpansEveryFieldEnd / DenseNeverSpan (checked by TLC  *)
(* at start-up) say what it covers.                                           *)
EXTENDS Integers, Sequences, FiniteSets, TLC, Json

CONSTANTS MaxC,        \* bodies the client writes after the request head
          MaxH,        \* messages the handler writes
          Sizes,       \* body sizes
          Tamper,      \* BOOLEAN: one adversary action per run
          LenVals,     \* names of values written into a length token
          CutOffsets,  \* positions of a cut inside a token: subset of {1 (after the first byte), 2 (middle), 3 (before the last byte)}
          CutWindow    \* a second cut lies at most this many tokens after the token of the first

Data(n) == SubSeq(<<2, 3, 1, 2, 3>>, 1, n)       \* body bytes that look like type bytes
Bodies  == {[t |-> "body", k |-> "empty", n |-> 0]}
             \cup {[t |-> "body", k |-> kk, n |-> n] : kk \in {"fixed", "stream"}, n \in Sizes}
Req     == [t |-> "req", k |-> "r1", n |-> 0]
Resps   == {[t |-> "res", k |-> kk, n |-> 0] : kk \in {"ok", "err"}}   \* ok / not ok with an error text

(* ---- tokens: one per Write call ---- *)
Tok(k, v) == [k |-> k, v |-> v]
BT(kind)  == CASE kind = "empty" -> 1 [] kind = "fixed" -> 2 [] kind = "stream" -> 3
Tokens(m) ==
  CASE m.t = "req"  -> <<Tok("PFX", 0), Tok("DT", 1), Tok("L", -1), Tok("ENC", 0), Tok("L", -1), Tok("HDR", 1)>>
    [] m.t = "res"  -> <<Tok("DT", 3), Tok("L", -1), Tok("ENC", 0), Tok("L", -1),
                         Tok("HDR", IF m.k = "ok" THEN 2 ELSE 3)>>
    [] m.t = "body" -> <<Tok("DT", 2), Tok("BT", BT(m.k))>>
                         \o (IF m.k = "fixed" THEN <<Tok("L", m.n)>> ELSE <<>>)
                         \o (IF m.n > 0 THEN <<Tok("DATA", m.n)>> ELSE <<>>)
RECURSIVE Flat(_)
Flat(ms) == IF Len(ms) = 0 THEN <<>> ELSE Tokens(Head(ms)) \o Flat(Tail(ms))

(* ---- reference parser: the next message of a token FIFO, or "bad" ---- *)
Bad == [ok |-> FALSE, m |-> Req, used |-> 0]
Parse(s, wantPrefix) ==
  LET p == IF wantPrefix THEN 1 ELSE 0 IN
  IF Len(s) < p + 1 \/ (wantPrefix /\ s[1].k # "PFX") \/ s[p+1].k # "DT" THEN Bad
  ELSE LET dt == s[p+1].v IN
    IF dt \in {1, 3}
    THEN IF /\ Len(s) >= p + 5 /\ s[p+2].k = "L" /\ s[p+3].k = "ENC" /\ s[p+4].k = "L" /\ s[p+5].k = "HDR"
            /\ (dt = 1 <=> s[p+5].v = 1)
         THEN [ok |-> TRUE, used |-> p + 5,
               m |-> IF dt = 1 THEN Req ELSE [t |-> "res", k |-> IF s[p+5].v = 2 THEN "ok" ELSE "err", n |-> 0]]
         ELSE Bad
    ELSE IF dt = 2 /\ Len(s) >= p + 2 /\ s[p+2].k = "BT"
    THEN LET bt == s[p+2].v IN
         IF bt = 1 THEN [ok |-> TRUE, used |-> p + 2, m |-> [t |-> "body", k |-> "empty", n |-> 0]]
         ELSE IF bt = 2 /\ Len(s) >= p + 3 /\ s[p+3].k = "L" /\ s[p+3].v >= 0
         THEN LET n == s[p+3].v IN
              IF n = 0 THEN [ok |-> TRUE, used |-> p + 3, m |-> [t |-> "body", k |-> "fixed", n |-> 0]]
              ELSE IF Len(s) >= p + 4 /\ s[p+4].k = "DATA" /\ s[p+4].v = n
              THEN [ok |-> TRUE, used |-> p + 4, m |-> [t |-> "body", k |-> "fixed", n |-> n]]
              ELSE Bad
         ELSE IF bt = 3                           \* everything up to the end of the stream
         THEN IF Len(s) = p + 2 THEN [ok |-> TRUE, used |-> p + 2, m |-> [t |-> "body", k |-> "stream", n |-> 0]]
              ELSE IF Len(s) = p + 3 /\ s[p+3].k = "DATA"
              THEN [ok |-> TRUE, used |-> p + 3, m |-> [t |-> "body", k |-> "stream", n |-> s[p+3].v]]
              ELSE Bad
         ELSE Bad
    ELSE Bad

-----------------------------------------------------------------------------
(* ---- delivery: cut points of the byte stream of a token FIFO f ----                     *)
(* Abstract sizes (the code: prefix 32, length 8, encoder hint and header > 8 bytes):       *)
(* only "one byte" / "more than one byte" and the position classes of CutOffsets matter.    *)
Size(t) == CASE t.k \in {"DT", "BT"} -> 1 [] t.k = "DATA" -> t.v [] OTHER -> 4
Splittable(t) == Size(t) >= 2
Off(t, o) == CASE o = 1 -> 1 [] o = 2 -> Size(t) \div 2 [] o = 3 -> Size(t) - 1   \* bytes of t before the cut

(* a cut point is the number 10 * i + o: o = 0 the end of token i, o \in 1..3 inside token i *)
CutTok(c) == c \div 10
CutPos(c) == c % 10
MaxSize == 4
ASSUME \A n \in Sizes : n <= MaxSize
StartOf(f, i) == Cardinality({p \in (1..(i-1)) \X (1..MaxSize) : p[2] <= Size(f[p[1]])})   \* bytes before token i
Total(f) == StartOf(f, Len(f) + 1)
Abs(f, c) == StartOf(f, CutTok(c)) + (IF CutPos(c) = 0 THEN Size(f[CutTok(c)]) ELSE Off(f[CutTok(c)], CutPos(c)))
Bounds(f, ch) == {Abs(f, c) : c \in ch} \cup {Total(f)}                                     \* chunk ends, in bytes

(* A chunk SPANS THE END of field i: the field is split (some chunk ends inside it) and the *)
(* chunk that completes it carries bytes of what follows (the field's end is no chunk end). *)
(* A reader that asks for the bytes it still misses never sees the difference; a reader     *)
(* that asks for more (the whole field again, the rest of its buffer, ...) swallows bytes   *)
(* of the next field exactly under such a delivery.                                         *)
SpansEnd(a, e, B) == e \notin B /\ \E b \in B : a < b /\ b < e        \* the field occupies bytes a+1..e
Fields(f) == {<<StartOf(f, i), StartOf(f, i + 1), Splittable(f[i]) /\ i < Len(f)>> : i \in 1..Len(f)}

(* the dense deliveries: everything at once, byte by byte, one chunk per Write call, and    *)
(* one chunk per Write call with every length token halved                                  *)
BAll(f)   == {Total(f)}
BOne(f)   == 1..Total(f)
BTok(f)   == Bounds(f, {10 * i : i \in 1..Len(f)})
BInLen(f) == Bounds(f, {10 * i : i \in 1..Len(f)} \cup {10 * i + 2 : i \in {j \in 1..Len(f) : f[j].k = "L"}})

(* the sparse deliveries: one cut inside a token and the rest in one chunk; or a second cut *)
(* later in the same token, or inside / at the end of one of the next CutWindow tokens - in *)
(* particular "inside field k, then a chunk spanning the end of field k and part of k+1"    *)
CutsIn(f, j)   == IF Splittable(f[j]) THEN {10 * j + o : o \in CutOffsets} ELSE {}
CutsUpTo(f, j) == CutsIn(f, j) \cup (IF j < Len(f) THEN {10 * j} ELSE {})
(* a delivery is written as one number: c for the single cut c, 1000 * c + d for the cuts c < d *)
Later(f, i, c)  == {d \in CutsIn(f, i) : Off(f[i], CutPos(d)) > Off(f[i], CutPos(c))}
Near(f, i)      == UNION {CutsUpTo(f, j) : j \in {x \in 1..Len(f) : i < x /\ x <= i + CutWindow}}
SparseAt(f, i)  == UNION {{c} \cup {1000 * c + d : d \in Later(f, i, c) \cup Near(f, i)} : c \in CutsIn(f, i)}
Sparse(f)       == UNION {SparseAt(f, i) : i \in 1..Len(f)}
CutsOf(dl)      == IF dl < 1000 THEN {dl} ELSE {dl \div 1000, dl % 1000}
Deliveries(f) == Sparse(f)       \* the dense ones are performed for every run by name

(* ---- what the family covers, for every FIFO a run can write ----                          *)
SeqsUpTo(S, n) == UNION {[1..k -> S] : k \in 0..n}
WrittenFifos == {Flat(<<Req>> \o bs) : bs \in SeqsUpTo(Bodies, MaxC)}
                  \cup {Flat(ms) : ms \in SeqsUpTo(Resps \cup Bodies, MaxH)}
(* every field that can be split and is not the last one of its FIFO is, under some sparse  *)
(* delivery, completed by a chunk that spans its end ...                                    *)
FamilySpansEveryFieldEnd ==
  \A f \in WrittenFifos :
    LET bs == {Bounds(f, CutsOf(dl)) : dl \in Deliveries(f)} IN
    \A fd \in Fields(f) : fd[3] => \E B \in bs : SpansEnd(fd[1], fd[2], B)
(* ... and no dense delivery ever does: with them alone a reader that over-asks on its      *)
(* second read of a field cannot be told from a correct one                                 *)
DenseNeverSpan ==
  \A f \in WrittenFifos :
    LET bs == {BAll(f), BOne(f), BTok(f), BInLen(f)} IN
    \A fd \in Fields(f) : \A B \in bs : ~SpansEnd(fd[1], fd[2], B)
ASSUME FamilySpansEveryFieldEnd
ASSUME DenseNeverSpan

-----------------------------------------------------------------------------
VARIABLES pc,     \* "cw" client writes, "h" handler runs, "cr" client reads, "done"
          cmsgs,  \* messages the client wrote
          hmsgs,  \* messages the handler wrote
          c2h, h2c,   \* token FIFOs as written (after the adversary)
          hpos, cpos, \* tokens consumed by the handler / the client
          hops,   \* the handler's calls in order, with what they must return
          cops,   \* the client's read calls in order, with what they must return
          hstop, cstop,  \* a reader met the adversary's token: its later calls are unconstrained
          tam,    \* the adversary action
          step
vars == <<pc, cmsgs, hmsgs, c2h, h2c, hpos, cpos, hops, cops, hstop, cstop, tam, step>>
view == <<pc, cmsgs, hmsgs, c2h, h2c, hpos, cpos, hops, cops, hstop, cstop, tam>>

NoTam == [dir |-> "", i |-> 0, a |-> "", x |-> "", msg |-> 0]

Init == /\ pc = "cw" /\ cmsgs = <<>> /\ hmsgs = <<>> /\ c2h = <<>> /\ h2c = <<>>
        /\ hpos = 0 /\ cpos = 0 /\ hops = <<>> /\ cops = <<>> /\ hstop = FALSE /\ cstop = FALSE
        /\ tam = NoTam /\ step = ""

Closed(ms) == Len(ms) > 0 /\ ms[Len(ms)].t = "body" /\ ms[Len(ms)].k = "stream"

(* index of the message a token belongs to *)
RECURSIVE MsgOfTok(_, _, _)
MsgOfTok(ms, i, base) == IF Len(ms) = 0 THEN base
                         ELSE IF i <= Len(Tokens(Head(ms))) THEN base + 1
                         ELSE MsgOfTok(Tail(ms), i - Len(Tokens(Head(ms))), base + 1)

(* ---- client writes ---- *)
CWriteReq ==                      \* ClientBroker.WriteRequestHead
  /\ pc = "cw" /\ cmsgs = <<>>
  /\ cmsgs' = <<Req>> /\ c2h' = Tokens(Req)
  /\ UNCHANGED <<pc, hmsgs, h2c, hpos, cpos, hops, cops, hstop, cstop, tam, step>>

CWriteBody(b) ==                  \* ClientBroker.WriteBody; a stream body closes the writer
  /\ pc = "cw" /\ Len(cmsgs) \in 1..MaxC /\ ~Closed(cmsgs)
  /\ cmsgs' = Append(cmsgs, b) /\ c2h' = c2h \o Tokens(b)
  /\ UNCHANGED <<pc, hmsgs, h2c, hpos, cpos, hops, cops, hstop, cstop, tam, step>>

CFinish ==                        \* the client closes its side
  /\ pc = "cw" /\ Len(cmsgs) >= 1
  /\ pc' = "h"
  /\ UNCHANGED <<cmsgs, hmsgs, c2h, h2c, hpos, cpos, hops, cops, hstop, cstop, tam, step>>

(* ---- adversary: one token of a FIFO rewritten, or the FIFO cut ---- *)
SetTok(dir, i, x, name) ==        \* a type byte becomes x / a length token gets the value called name
  LET f == IF dir = "c2h" THEN c2h ELSE h2c
      ms == IF dir = "c2h" THEN cmsgs ELSE hmsgs
      t == f[i]
      nf == [f EXCEPT ![i] = Tok(t.k, IF t.k = "L" THEN -2 ELSE x)]   \* -2: some other length
  IN /\ Tamper /\ tam = NoTam
     /\ \/ t.k \in {"DT", "BT"} /\ x # t.v /\ name = ""
        \/ t.k = "L" /\ x = 0 /\ name \in LenVals
     /\ tam' = [dir |-> dir, i |-> i, a |-> "set", x |-> IF t.k = "L" THEN name ELSE ToString(x),
                msg |-> MsgOfTok(ms, i, 0)]
     /\ IF dir = "c2h" THEN c2h' = nf /\ UNCHANGED h2c ELSE h2c' = nf /\ UNCHANGED c2h

Cut(dir, i, part) ==              \* the FIFO ends inside (part = 1) or before (part = 0) token i
  LET f == IF dir = "c2h" THEN c2h ELSE h2c
      ms == IF dir = "c2h" THEN cmsgs ELSE hmsgs
  IN /\ Tamper /\ tam = NoTam
     /\ tam' = [dir |-> dir, i |-> i, a |-> IF part = 1 THEN "cutin" ELSE "cut", x |-> "", msg |-> MsgOfTok(ms, i, 0)]
     /\ IF dir = "c2h" THEN c2h' = SubSeq(f, 1, i - 1) /\ UNCHANGED h2c
        ELSE h2c' = SubSeq(f, 1, i - 1) /\ UNCHANGED c2h

TamperC2H ==
  /\ pc = "h" /\ hops = <<>>
  /\ \/ \E i \in DOMAIN c2h, x \in 0..4, name \in LenVals \cup {""} : SetTok("c2h", i, x, name)
     \/ \E i \in DOMAIN c2h, part \in {0, 1} : (part = 1 => c2h[i].k # "DT") /\ Cut("c2h", i, part)
  /\ UNCHANGED <<pc, cmsgs, hmsgs, hpos, cpos, hops, cops, hstop, cstop, step>>

TamperH2C ==
  /\ pc = "cr" /\ cops = <<>>
  /\ \/ \E i \in DOMAIN h2c, x \in 0..4, name \in LenVals \cup {""} : SetTok("h2c", i, x, name)
     \/ \E i \in DOMAIN h2c, part \in {0, 1} : (part = 1 => h2c[i].k # "DT") /\ Cut("h2c", i, part)
  /\ UNCHANGED <<pc, cmsgs, hmsgs, hpos, cpos, hops, cops, hstop, cstop, step>>

Op(o, m, ok) == [op |-> o, t |-> m.t, k |-> m.k, n |-> m.n, ok |-> ok]
AnyRes(o) == [op |-> o, t |-> "any", k |-> "", n |-> 0, ok |-> FALSE]

(* ---- handler ---- *)
HRead(o) ==                       \* ReadRequestHead (first) / ReadBody
  /\ pc = "h" /\ ~hstop
  /\ (o = "readreq") <=> (hops = <<>>)
  /\ LET orig == Flat(cmsgs)                       \* what was written
         w == Parse(SubSeq(orig, hpos + 1, Len(orig)), hpos = 0)
     IN /\ hpos < Len(orig)
        /\ w.ok
        /\ IF tam.dir = "c2h" /\ (tam.i <= hpos + w.used)    \* the adversary touched this message
           THEN hstop' = TRUE /\ hops' = Append(hops, AnyRes(o)) /\ UNCHANGED hpos
           ELSE /\ hstop' = FALSE /\ hpos' = hpos + w.used
                /\ hops' = Append(hops, Op(o, Parse(SubSeq(c2h, hpos + 1, Len(c2h)), hpos = 0).m, TRUE))
  /\ UNCHANGED <<pc, cmsgs, hmsgs, c2h, h2c, cpos, cops, cstop, tam, step>>

HWrite(m) ==                      \* WriteResponseHead / WriteBody (after the request head was read)
  /\ pc = "h" /\ Len(hops) >= 1 /\ hops[1].t = "req"
  /\ Len(hmsgs) < MaxH /\ ~Closed(hmsgs)
  /\ hmsgs' = Append(hmsgs, m) /\ h2c' = h2c \o Tokens(m)
  /\ hops' = Append(hops, Op("write", m, TRUE))
  /\ UNCHANGED <<pc, cmsgs, c2h, hpos, cpos, cops, hstop, cstop, tam, step>>

HFinish ==                        \* the handler returns when it has read what the client sent (or lost the stream)
  /\ pc = "h" /\ Len(hops) >= 1 /\ (hstop \/ hpos = Len(Flat(cmsgs)))
  /\ pc' = "cr"
  /\ UNCHANGED <<cmsgs, hmsgs, c2h, h2c, hpos, cpos, hops, cops, hstop, cstop, tam, step>>

(* ---- client reads ---- *)
CRead(o) ==                       \* ReadResponseHead / ReadBody
  /\ pc = "cr" /\ ~cstop
  /\ LET orig == Flat(hmsgs)
         w == Parse(SubSeq(orig, cpos + 1, Len(orig)), FALSE)
     IN /\ cpos < Len(orig)
        /\ w.ok
        /\ IF tam.dir = "h2c" /\ (tam.i <= cpos + w.used)
           THEN cstop' = TRUE /\ cops' = Append(cops, AnyRes(o)) /\ UNCHANGED cpos
           ELSE LET r == Parse(SubSeq(h2c, cpos + 1, Len(h2c)), FALSE).m IN
                IF o = "readres" /\ r.t = "body"
                THEN \* a body where the head is demanded: an error, the stream is lost
                     cstop' = TRUE /\ cops' = Append(cops, Op(o, r, FALSE)) /\ UNCHANGED cpos
                ELSE cstop' = FALSE /\ cpos' = cpos + w.used /\ cops' = Append(cops, Op(o, r, TRUE))
  /\ UNCHANGED <<pc, cmsgs, hmsgs, c2h, h2c, hpos, hops, hstop, tam, step>>

Out == ToJson([cmsgs |-> cmsgs, hops |-> hops, cops |-> cops, tam |-> tam,
               ntok |-> [c2h |-> Len(Flat(cmsgs)), h2c |-> Len(Flat(hmsgs))],
               cuts |-> [c2h |-> Deliveries(c2h), h2c |-> Deliveries(h2c)]])

CFinishRead ==
  /\ pc = "cr" /\ (cstop \/ cpos = Len(Flat(hmsgs)))
  /\ pc' = "done"
  /\ UNCHANGED <<cmsgs, hmsgs, c2h, h2c, hpos, cpos, hops, cops, hstop, cstop, tam>>
  /\ step' = Out

Next ==
  \/ CWriteReq \/ CFinish \/ \E b \in Bodies : CWriteBody(b)
  \/ TamperC2H \/ TamperH2C
  \/ \E o \in {"readreq", "readbody"} : HRead(o)
  \/ \E m \in Resps \cup Bodies : HWrite(m)
  \/ HFinish
  \/ \E o \in {"readres", "readbody"} : CRead(o)
  \/ CFinishRead
Spec == Init /\ [][Next]_vars

-----------------------------------------------------------------------------
(* "read back identically": the constrained reads of a side are, in order, the *)
(* messages the other side wrote                                               *)
Reads(ops) == SelectSeq(ops, LAMBDA o : o.op # "write" /\ o.t # "any" /\ o.ok)
SameMsg(o, m) == o.t = m.t /\ o.k = m.k /\ o.n = m.n
ReadBackIdentically ==
  /\ \A i \in 1..Len(Reads(hops)) : i <= Len(cmsgs) /\ SameMsg(Reads(hops)[i], cmsgs[i])
  /\ \A i \in 1..Len(Reads(cops)) : i <= Len(hmsgs) /\ SameMsg(Reads(cops)[i], hmsgs[i])

(* "a response head arriving where a body was expected is returned as the response" *)
ResponseWhereBodyExpected ==
  \A i \in 1..Len(cops) : (cops[i].op = "readbody" /\ cops[i].t # "any" /\ hmsgs[i].t = "res")
                             => (cops[i].ok /\ cops[i].t = "res" /\ cops[i].k = hmsgs[i].k)

(* without an adversary every message that was written can be read: no reader is stopped *)
NoAdversaryNoStop == tam = NoTam => (~hstop /\ (cstop => \E i \in 1..Len(cops) : ~cops[i].ok))

(* the token grammar is unambiguous: re-parsing what was written yields the messages *)
RECURSIVE ParseAll(_, _)
ParseAll(s, first) == IF Len(s) = 0 THEN <<>>
                      ELSE LET w == Parse(s, first) IN
                           IF ~w.ok THEN <<Bad.m, Bad.m, Bad.m, Bad.m, Bad.m, Bad.m, Bad.m>>
                           ELSE <<w.m>> \o ParseAll(SubSeq(s, w.used + 1, Len(s)), FALSE)
GrammarRoundTrip == /\ pc # "cw" => ParseAll(Flat(cmsgs), TRUE) = cmsgs
                    /\ pc \in {"cr", "done"} => ParseAll(Flat(hmsgs), FALSE) = hmsgs

TypeOK == pc \in {"cw", "h", "cr", "done"}
=============================================================================
